"""C09 — bounding boxes and convex hulls are exact for any hierarchy."""
CONFIG = {
    "prop_file": "Properties_C09",
    "extract_file": "Extract_C09",
    "extracted": ["c09"],
    "driver": "c09",
    "harness": "c09",
    "thorough_seeds": 3,
    "rule": ("cases: the F9 and F10 witnesses first, then seeded hierarchies (3-6 cells, 2-4 levels, shared children; polygons, "
             "labels, flexpaths; every repetition kind on elements and references; magnifications 2, 1/2, -1; reflections; "
             "rotations k*90 deg, 45 deg, Pythagorean and 0.3 rad) and degenerate hierarchies (collinear ascending / descending / "
             "horizontal / vertical / coincident points, single points, empty cells; float-exact placements), each with a fresh-cache "
             "script over every public entry point and shared-cache scripts in random query orders, plus direct calls of "
             "gdstk::convex_hull on small point sets; results compared as text on a 2^-20 grid (llround, halves away from zero; "
             "hulls as the sorted corners of the hull of the grid points, corners within 8 grid units of their neighbours' chord dropped); a case is non-trivial when its script has at least one query on a "
             "cell with a reference or its point set has at least 4 points; distinct = distinct (kind, payload)"),
    "trusted": ["cos/sin of each rotation and is_multiple_of_pi_over_2 are evaluated by the harness (libm / the library) and enter the "
                "model as data", "get_offsets / get_extrema lists enter the model as data (their relation is property C11)",
                "FlexPath::to_polygons output enters the model as polygons",
                "qhull is replaced in the model run by an exact monotone-chain hull (hull_mc); its contract is checked on every "
                "hull the library returns by the harness oracle"],
    "assumptions": ["model arithmetic is exact over Q; agreement with the double-precision implementation is checked after rounding "
                    "to a 2^-20 grid", "hull decisions on inexact collinear data are excluded from the generators (degenerate "
                    "families use float-exact placements only)"],
}


def same(kind, impl, model):
    if impl.strip() == "invalid-input":      # hand-written corpus / replay input the harness refuses to build
        return True
    return impl.strip() == model.strip()


def nontrivial(kind, payload, r):
    if kind == "qh":
        try:
            return int(payload.split(" ", 1)[0]) >= 4
        except ValueError:
            return False
    return " R 0 " not in payload or " r " in payload


def classify(kind, payload, r, m):
    return "bbox-vs-model"
