"""C09 — bounding boxes and convex hulls are exact for any hierarchy."""
CONFIG = {
    "manifest": {
        "level_text": "Coq theorems, closed under the global context, over an exact rational model that mirrors Polygon/Label::bounding_box, Reference::repeat_and_transform / bounding_box / convex_hull, Cell::bounding_box(cache) / convex_hull(cache) with the GeometryInfo cache, and the gdstk::convex_hull wrapper statement by statement (tree after the fixes cd7171e and d7329ad). Proved for ALL inputs: bbox is the smallest box (inverted iff empty); element boxes with any repetition given the C11 facts; the quarter-turn branch (four corners) is exact when cos*sin = 0 and never under-reports for any cos/sin; the hull branch is exact for every affine placement given a hull meeting the contract; the wrapper meets the contract on EVERY input (fewer than 4 points, qhull error branch, collinear fallback with the two extreme input points) given qhull's contract on the inputs it really receives; hence, by induction over any acyclic hierarchy with unique names, Cell::bounding_box is the smallest box of the flattened geometry and Cell/Reference::convex_hull has only geometry points as corners and contains all geometry, for ANY valid cache, and any interleaving of cached cell/reference box/hull queries answers like a fresh cache (cache_transparent). Regression examples: the old collinear fallback and the old extrema-only hull path are refuted on the F10/F9 witnesses. The model is tied to /repo on every run by the extracted model evaluated on the same hierarchies and query scripts as the real library, plus an oracle from the library's own flattening.",
        "level_note": "Assumed as Section hypothesis: qhull's contract (corners are input points, every input is a convex combination of the corners) on non-degenerate inputs — validated on every hull the library returns in each run (harness oracle), with an exact monotone-chain hull standing in for qhull in the model run. Premises of the hierarchy theorems: unique cell names, the C11 facts for every repetition (extrema are offsets, same box, origin is an offset), quarter flag => cos*sin = 0, and for reference repetitions that are not Explicit that the extrema cover the offsets - all of these are discharged from C11's model of get_offsets / get_extrema in BBoxRepLink.v (family_linked => family_ok; corollaries cell_bbox_exact_rep, cell_hull_exact_rep, cache_transparent_rep ... in Properties_C09L.v) for every repetition with count > 0; count 0 is refuted (zero_count_link_refuted = known finding repetition:zero-count). Only validated per run: cos/sin/is_multiple_of_pi_over_2 values, get_offsets/get_extrema lists and FlexPath::to_polygons output enter the model as data; double rounding (comparison on a 2^-20 grid; real quarter turns have cos(pi/2)=6e-17, covered by the never-under-reports theorem, not by the exactness theorem); the qh_POINTSmax split is not modelled; FlexPath / RobustPath outlines enter as data. Trusted: Coq kernel, extraction, harness, driver.",
        "technique": "Coq proof over an exact-rational statement-level model (support-function / half-plane cover argument, nested induction over the cell tree with a cache invariant) + differential run of the extracted model against the library + flattening oracle",
    },
    "prop_file": "Properties_C09",
    "extra_prop_files": ["Properties_C09L"],   # the repetition premises discharged from C11's model (BBoxRepLink.v)
    "units": [
        {"harness": "c09", "driver": "c09", "extracted": ["c09"], "extract_file": "Extract_C09"},
        # same harness executable and cases: every repetition's get_offsets / get_extrema lists are C11's model lists (linked_b)
        {"harness": "c09", "driver": "c09l", "extracted": ["c09l"], "extract_file": "Extract_C09L", "module": "checks.c09l"},
    ],
    "thorough_seeds": 3,
    "rule": ("cases: the F9 and F10 witnesses and a RobustPath witness (two elements under the Explicit repetition (10,0), (0,10), (8,8), "
             "whose last offset is extreme only diagonally, queried directly and through references at 45 deg and at atan(3/4) with "
             "reflection and magnification 2) first, then seeded hierarchies (3-6 cells, 2-4 levels, shared children; polygons, "
             "labels, flexpaths, robustpaths; every repetition kind on elements and references; magnifications 2, 1/2, -1; reflections; "
             "rotations k*90 deg, 45 deg, Pythagorean and 0.3 rad), RobustPath hierarchies (family rp, after every 4th scenario: a leaf "
             "whose content is 1-2 RobustPaths, sometimes beside a FlexPath / label / triangle, under 1-2 levels of rotated (45 / 135 / "
             "-45 deg, Pythagorean, 0.3 rad) / reflected / magnified / repeated references) and degenerate hierarchies (collinear ascending / descending / "
             "horizontal / vertical / coincident points, single points, empty cells; float-exact placements), each with a fresh-cache "
             "script over every public entry point and shared-cache scripts in random query orders, plus direct calls of "
             "gdstk::convex_hull on small point sets; RobustPaths: straight sections through integer points, consecutive sections never "
             "parallel, 1-2 elements, widths 1 / 2, offsets multiples of 1/2, outline checked finite, every repetition kind incl. "
             "Explicit lists with a diagonal-only extreme offset and empty / single-entry Explicit, ExplicitX, ExplicitY lists; the "
             "outlines RobustPath::to_polygons returns enter the case as polygons after the FlexPath outlines (list F, each with the "
             "path's repetition printed as for every other element: parameters + get_offsets / get_extrema lists, so unit c09l "
             "rebuilds them too), are queried one by one (P) and through every cell / reference entry point, and are part of the "
             "flatten oracle (Cell::get_polygons with paths); a crash or hang inside a query script is recorded with its input "
             "(kind hier-crash, oracle key c09-crash); results compared as text on a 2^-20 grid (llround, halves away from zero; "
             "hulls as the sorted corners of the hull of the grid points, corners within 8 grid units of their neighbours' chord dropped); a case is non-trivial when its script has at least one query on a "
             "cell with a reference or its point set has at least 4 points; distinct = distinct (kind, payload)"),
    "trusted": ["cos/sin of each rotation and is_multiple_of_pi_over_2 are evaluated by the harness (libm / the library) and enter the "
                "model as data", "get_offsets / get_extrema lists enter the model as data and are checked per run to be exactly the lists C11's model computes for the same repetition (unit c09l, extracted linked_b)",
                "FlexPath::to_polygons and RobustPath::to_polygons output enters the model as polygons",
                "qhull is replaced in the model run by an exact monotone-chain hull (hull_mc); its contract is checked on every "
                "hull the library returns by the harness oracle"],
    "assumptions": ["model arithmetic is exact over Q; agreement with the double-precision implementation is checked after rounding "
                    "to a 2^-20 grid", "hull decisions on inexact collinear data are excluded from the generators (degenerate "
                    "families use float-exact placements only)"],
}


def same(kind, impl, model):
    if impl.strip() == "invalid-input":      # hand-written corpus / replay input the harness refuses to build
        return True
    return impl.strip() == model.strip()


def nontrivial(kind, payload, r):
    if kind == "qh":
        try:
            return int(payload.split(" ", 1)[0]) >= 4
        except ValueError:
            return False
    return " R 0 " not in payload or " r " in payload


def classify(kind, payload, r, m):
    return "bbox-vs-model"
