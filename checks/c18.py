"""C18 — a truncated GDSII file is never read as complete and never crashes a reader."""
CONFIG = {
    "manifest": {'level_text': "Coq theorems, generic over the per-record semantics, prove for EVERY byte stream and EVERY cut that a reader of gdstk's loop shape (read record; return on error; return result at its final record) returns a short-read error on every prefix that ends before its final record and exactly the complete file's result on every longer prefix, and always terminates; instances: full load, raw-cell load, summary (return at ENDLIB), gds_units (UNITS), gds_timestamp (BGNLIB); and, at the DATA level, for the statement-level models of read_gds (any tag filter), gds_info and read_rawcells: a cut file yields the short-read error or exactly the library / summary / raw-cell table of the complete file, with an explicit threshold (the end of the ENDLIB record), and these models never hang; oas_precision has a statement-level model too (OasisPrecision.v, compared on every prefix of gdstk-written and spec-encoded OASIS files, all real types for the unit): oas_precision_threshold - below the end of START's unit real every cut returns an error code, from there on exactly the complete file's value (for files below 2^33 bytes); it returns normally whenever the declared version length is below 2^33 (a version string declared 2^40 long makes oasis_read_string write through the NULL that allocate returns: refutation witness, not a prefix of any valid file). The extracted model predicts the status of every prefix of every generated file and is compared with the five real readers; oas_validate and the signed END record of write_oas have a statement-level model with crc32 / checksum32 defined in Coq (unit oas_sig, Properties_C18S.v); memory errors, hangs and descriptor leaks are observed at run time (forked children, alarms, /proc/self/fd; ASan+UBSan without the alignment check in the thorough tier: gdstk reads 8-byte reals at offset 4 of its record buffer, which x86 tolerates and which is outside this property).", 'level_note': "Memory safety, hangs and descriptor leaks are run-time validation, not theorems. oas_validate has a statement-level model (coq/OasisSig.v: crc32 as zlib computes it - table generated in Gallina and proved equal to the bit-serial register -, gdstk's checksum32, the 32 KiB chunk loop, every return path) with oas_validate_is_spec (the loop computes the signature of the whole prefix for every file length and every content of the uninitialised buffer), writer_validator_agreement (a file signed as write_oas signs it validates, for both schemes) and truncation_collision (a cut validates IF AND ONLY IF its last five bytes happen to be a scheme byte and the signature of what precedes them): the clause 'never a matching signature on a truncated signed file' is therefore refuted as written (a file that embeds such five bytes, witness replayed on the real functions, known finding oas_validate:embedded-signature) and holds up to exactly that collision condition; every cut inside the last 200 bytes of a signed file returns true with ChecksumError (truncation_in_end_padding). Three defects found by this check were repaired by fix: commits (known_findings.json).", 'technique': 'Coq proof (generic reader-loop prefix theorems) + all-prefix differential run against the extracted model + run-time crash/hang/fd observation'},
    "prop_file": "Properties_C18",
    "extra_prop_files": ["Properties_C18P", "Properties_C18S"],   # statement-level model of oas_precision and its prefix / threshold theorems
    "units": [
        {"harness": "c18", "driver": "c18", "extracted": ["c18"], "extract_file": "Extract_C18", "asan": "thorough", "thorough_seeds": 2},
        # oas_precision on every prefix of OASIS files against its Coq model (value or error code per cut)
        {"harness": "c18p", "driver": "c18p", "extracted": ["c18p"], "extract_file": "Extract_C18P", "module": "checks.c18p", "thorough_seeds": 1},
        # oas_validate (header test, END location, 32 KiB chunk loop, crc32 / checksum32 defined in Coq) and the signed END record
        # of write_oas against coq/OasisSig.v: every prefix of small signed files, flips, files beyond the chunk size
        {"harness": "oas_sig", "driver": "oas_sig", "extracted": ["oas_sig"], "extract_file": "Extract_C18S", "module": "checks.oas_sig", "thorough_seeds": 1},
    ],
    "rule": ("one case per (file, reader): gdstk-written GDSII files with all element kinds (and OASIS files with "
             "CRC32 / CHECKSUM32 / no signature, compressed or not); the reader is run on EVERY prefix length 0..size, "
             "each sweep in forked children with an alarm and a descriptor count; the result is the run-length encoded "
             "status per cut. The extracted model predicts the status of every cut; the property oracle demands err* ok* "
             "with one result, no crash / hang / leaked descriptor, and no valid signature on a truncated signed file. "
             "non-trivial: files with more than 100 bytes; distinct = distinct (reader, file)"),
    "trusted": ["memory errors / hangs / descriptor leaks are run-time observations (ASan+UBSan build in the thorough tier), not theorems",
                "'a truncated signed OASIS file never validates' is a CRC/byte-sum collision statement: enumerated over every cut, not proved"],
    "assumptions": ["a truncated file is a prefix of the complete file (fread returns the bytes present, then EOF)"],
    "validation_note": "memory safety, hangs and descriptor leaks of the readers are validated per run on every cut (forked children, ASan in the thorough tier); the return values of oas_precision and oas_validate are carried by the Coq models of units c18p / oas_sig",
}


def same(kind, impl, model):
    return impl.strip() == model.strip()


def nontrivial(kind, payload, r):
    return len(payload) > 200


def classify(kind, payload, r, m):
    return kind + "-vs-spec"
