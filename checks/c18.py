"""C18 — a truncated GDSII file is never read as complete and never crashes a reader."""
CONFIG = {
    "prop_file": "Properties_C18",
    "extract_file": "Extract_C18",
    "extracted": ["c18"],
    "driver": "c18",
    "harness": "c18",
    "asan": "thorough",
    "thorough_seeds": 2,
    "rule": ("one case per (file, reader): gdstk-written GDSII files with all element kinds (and OASIS files with "
             "CRC32 / CHECKSUM32 / no signature, compressed or not); the reader is run on EVERY prefix length 0..size, "
             "each sweep in forked children with an alarm and a descriptor count; the result is the run-length encoded "
             "status per cut. The extracted model predicts the status of every cut; the property oracle demands err* ok* "
             "with one result, no crash / hang / leaked descriptor, and no valid signature on a truncated signed file. "
             "non-trivial: files with more than 100 bytes; distinct = distinct (reader, file)"),
    "trusted": ["memory errors / hangs / descriptor leaks are run-time observations (ASan+UBSan build in the thorough tier), not theorems",
                "'a truncated signed OASIS file never validates' is a CRC/byte-sum collision statement: enumerated over every cut, not proved"],
    "assumptions": ["a truncated file is a prefix of the complete file (fread returns the bytes present, then EOF)"],
    "validation_note": "OASIS light-weight queries (oas_precision, oas_validate) are validated per run on every cut; no Coq model carries them",
}


def same(kind, impl, model):
    return impl.strip() == model.strip()


def nontrivial(kind, payload, r):
    return len(payload) > 200


def classify(kind, payload, r, m):
    return kind + "-vs-spec"
