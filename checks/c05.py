"""C05 — Boolean operations compute the set-theoretic result."""
from checks.clipcommon import same, nontrivial, classify as _classify  # noqa
CONFIG = {
    "manifest": {'level_text': "Tier B (DESIGN 1.3). Theorems, closed under the global context: the integer winding number is invariant under rotation of the vertex list and exactly negated by reversal (at every point), shoelace likewise, Polygon::signed_area's fan sum is the shoelace sum; normalising every operand to positive orientation makes Clipper's non-zero fill the union of the group (nonzero_union); the whole link_holes model (hole ordering, edge search with llround and the horizontal-edge branch, splice) preserves the winding number up to the foot slivers and adds the areas (holes become zero-width slits); tree_to_polygons flattens the poly-tree as stated; boolean_correct / no_overlap are proved CONDITIONAL on Clipper's contract (Section hypotheses). The squared point-segment distance test used for the guard band is proved to be the minimum over the segment. Per run: the extracted verified oracle decides the property on the real boolean() outputs at sample points (validation, sampling), and the link_holes model is compared with the real function.", 'level_note': "Clipper's Vatti clipping (external/clipper, ~4000 lines) is NOT modelled: it is an oracle whose contract is a premise of the _partial theorems and is validated per run by sampling. Known finding: boolean() can return BooleanError and drop a hole when Clipper's intersection rounding puts the hole's minimum vertex half a unit outside its contour (link_holes finds no edge).", 'technique': "Coq proofs of the winding/area algebra and of gdstk's glue around Clipper + extracted verified winding oracle deciding sampled membership on real outputs"},
    "prop_file": "Properties_C05",
    "extract_file": "Extract_C05_boolean",
    "extracted": ["c05_boolean"],
    "driver": "c05_boolean",
    "harness": "c05_boolean",
    "include_cpp": ['clipper_tools.cpp'],
    "thorough_seeds": 1,
    "expect_model": False,
    "rule": "pairs of groups of simple polygons of either orientation (overlapping, touching, nested, sharing edges / vertices, keyhole results of earlier operations fed back in, empty operands, many small polygons) at scalings 1, 2 (quarter-unit off-grid coordinates) and 1000, all four operations: every output vertex is converted exactly to an integer frame; the extracted verified winding / distance functions decide membership of operands and result at a jittered lattice, vertex-pair midpoints and near-edge probes (samples within 1.5 grid units of an edge are discarded), require the result's winding sum in {0,1}, and the four area identities within perimeter x grid; kind lh compares the link_holes model with the real static function. non-trivial: payload with at least 12 tokens",
    "trusted": ["Clipper (external/clipper) is an oracle: not modelled, validated by sampling", "exact double -> integer frame conversion in harness/clip_common.hpp"],
    "assumptions": ["input polygons are simple (Jordan premise of the winding theorems), checked exactly by the generator"],
    "validation_note": "region clauses are validated per run at sample points by the extracted verified oracle (sampling, not a theorem)",
}


def classify(kind, payload, r, m):
    # a membership failure at a point that the result covers although (A op B) does not, in a result that contains a
    # negatively oriented polygon: Clipper returned a hole contour (one that shares an edge with its outer contour) as a
    # top-level contour and boolean() hands it on as a filled polygon - recorded finding, own key
    s = m.get("S", "")
    if kind == "bool" and "[negatively-oriented-output]" in s:
        return "bool-hole-as-polygon"
    # the same Clipper weakness (coincident collinear edges of different input polygons) also shows as a result contour that
    # overlaps itself: recorded for operands made of axis-parallel rectangles only - the class the pinned campaign enumerates
    # input by input, so that a regression in this class is still reported there
    if kind == "bool" and (" membership " in s or " overlapping-outputs " in s) and _all_rectangles(payload):
        return "bool-touching-rectangles"
    return _classify(kind, payload, r, m)


def _all_rectangles(payload):
    try:
        t = payload.split()
        i = t.index("A") + 1
        seen = 0
        for grp in ("A", "B"):
            n = int(t[i], 16)
            i += 1
            for _ in range(n):
                m_ = int(t[i], 16)
                i += 1
                pts = []
                for _k in range(m_):
                    pts.append((int(t[i], 16), int(t[i + 1], 16)))
                    i += 2
                if m_ != 4:
                    return False
                for a in range(4):
                    (x0, y0), (x1, y1) = pts[a], pts[(a + 1) % 4]
                    if x0 != x1 and y0 != y1:
                        return False
                seen += 1
            if grp == "A":
                if t[i] != "B":
                    return False
                i += 1
        return seen >= 2
    except Exception:
        return False
