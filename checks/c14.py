"""C14 — point-in-polygon queries and polygon measures are exact."""
CONFIG = {
    "manifest": {
        "level_text": "Coq theorems, closed under the global context, for EVERY vertex list and query point: the model of Polygon::contain (mirroring the C++ statement by statement, early exits and shortcuts included) equals 'on the boundary or non-zero winding number' under an independent crossing-sum specification (both half-open conventions); the group queries equal map / forall / exists of the single test for any pre-filter box containing the vertices (so the mistyped y-comparison in the five pre-filters is proved harmless); the fan sums equal the shoelace sum and the closed edge list, zero below three vertices. The model is tied to /repo on every run by the extracted model and specification evaluated on the same polygons and points as the real functions (exhaustive small grids plus degenerate random cases).",
        "level_note": "Trusted: Coq kernel, extraction, harness. Coordinates are integers below 2^24 so that the C++ double arithmetic is exact; the perimeter's sqrt sum is compared in double arithmetic by the driver (4 ulp), not proved. Repetition extrema / counts enter as inputs (C11).",
        "technique": "Coq proof of the winding-number characterisation of a statement-level Gallina model + exhaustive/random differential run of extracted model and specification",
    },
    "prop_file": "Properties_C14",
    "extract_file": "Extract_C14",
    "extracted": ["c14"],
    "driver": "c14",
    "harness": "c14",
    "thorough_seeds": 1,
    "rule": ("every vertex list of length 0..3 (thorough 0..4) on a 4x4 grid against all 81 half-grid query points; random lists "
             "up to 40 vertices with forced degeneracies (repeated vertices, horizontal edges through the query ordinate, queries on "
             "vertices / edges / just off them, self-intersections); group functions on random groups incl. empty ones; area / signed "
             "area / perimeter with every repetition kind. A case is one polygon (or group) with many query points; non-trivial: at "
             "least 3 vertices; distinct = distinct (kind, payload)"),
    "trusted": ["integer coordinates |c| <= 2^24: every difference and cross product is exact in double"],
    "assumptions": ["Repetition::get_extrema / get_count are inputs of the model (decided by C11)"],
}


def same(kind, impl, model):
    return impl.strip() == model.strip()


def nontrivial(kind, payload, r):
    return len(payload.split()) >= 8


def classify(kind, payload, r, m):
    return "contain-vs-winding" if kind.startswith("pip") else kind + "-vs-spec"
