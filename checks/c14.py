"""C14 — point-in-polygon queries and polygon measures are exact."""
CONFIG = {
    "manifest": {
        "level_text": "Coq theorems, closed under the global context, for EVERY vertex list and query point: the model of Polygon::contain (mirroring the C++ statement by statement, early exits and shortcuts included) equals 'on the boundary or non-zero winding number' under an independent crossing-sum specification (both half-open conventions); the group queries equal map / forall / exists of the single test for any pre-filter box containing the vertices (so the mistyped y-comparison in the five pre-filters is proved harmless); the fan sums equal the shoelace sum and the closed edge list, zero below three vertices. Perimeter (Perimeter.v, Properties_C14P.v): a bit-exact IEEE binary64 model of Polygon::perimeter over Flocq's operations (round to nearest even; two subtractions, two products, a sum, a square root and an accumulation per edge, the running vertex advanced by `v0 += v1`, the closing edge from the stored vertices, the count converted from uint64); perimeter_exact_input: for integer coordinates |c| <= 2^24 the model equals the specification 'correctly rounded square root of the exact integer dx^2+dy^2 for every closed edge, summed in vertex order, times the count' as binary64 values, Pythagorean edges exact; perimeter_error: for EVERY finite input whose coordinates are multiples of 2^-500 of magnitude at most 2^500 (no overflow, no subnormal product), up to 2^40 vertices and any count below 2^64, the result is finite, non-negative and |perimeter - count * exact closed edge-length sum| <= ((1+u)^(n+7) - 1) * count * sum with u = 2^-53; +0 below three vertices for any vertices; the exact sum is invariant under rotation and reversal of the vertex list while the floating-point value is not (refutation witnesses replayed on the real function). The model is tied to /repo on every run by the extracted model and specification evaluated on the same polygons and points as the real functions (exhaustive small grids plus degenerate random cases).",
        "level_note": "Trusted: Coq kernel, extraction, harness. Coordinates of the containment and area cases are integers below 2^24 so that the C++ double arithmetic is exact. perimeter() is compared BIT FOR BIT with the extracted binary64 model on integer vertices (kind perim, also against the extracted specification) and on arbitrary finite doubles (kind perimb: dyadic fractions down to 2^-20, magnitudes up to 2^40, mixed magnitudes whose differences are inexact, exponents up to +-300, counts above 2^53); its property-level oracle is the proved error bound against a long double evaluation of the exact sum. The perimeter theorems depend on the standard-library axioms of the Coq reals through Flocq (ClassicalDedekindReals.sig_forall_dec, sig_not_dec, FunctionalExtensionality.functional_extensionality_dep, Classical_Prop.classic). Finding (harmless): the loop advances its running vertex by `v0 += v1`, which is not the next stored vertex when the difference is inexact (drift_refuted; within 2u of the edge length, accounted for in the bound). Repetition extrema / counts enter as inputs (C11).",
        "technique": "Coq proof of the winding-number characterisation of a statement-level Gallina model + exhaustive/random differential run of extracted model and specification",
    },
    "prop_file": "Properties_C14",
    # enable together with the _CoqProject lines Perimeter.v / PerimeterProofs.v / Properties_C14P.v:
    "extra_prop_files": ["Properties_C14P"],   # binary64 model of Polygon::perimeter: exact-input theorem, error bound, invariances
    "extract_file": "Extract_C14",
    "extracted": ["c14"],
    "driver": "c14",
    "harness": "c14",
    "thorough_seeds": 1,
    "rule": ("every vertex list of length 0..3 (thorough 0..4) on a 4x4 grid against all 81 half-grid query points; random lists "
             "up to 40 vertices with forced degeneracies (repeated vertices, horizontal edges through the query ordinate, queries on "
             "vertices / edges / just off them, self-intersections); group functions on random groups incl. empty ones; area / signed "
             "area / perimeter with every repetition kind; perimeter additionally on 1500 (thorough 60000) lists of arbitrary finite "
             "doubles exchanged as bit patterns (kind perimb), compared bit for bit with the extracted binary64 model. A case is one polygon (or group) with many query points; non-trivial: at "
             "least 3 vertices; distinct = distinct (kind, payload)"),
    "trusted": ["integer coordinates |c| <= 2^24: every difference and cross product is exact in double",
                "gcc on x86-64 without -mfma / -ffast-math evaluates each double operation of perimeter() separately in binary64 (checked bit for bit on every run)"],
    "assumptions": ["Repetition::get_extrema / get_count are inputs of the model (decided by C11)"],
}


def same(kind, impl, model):
    return impl.strip() == model.strip()


def nontrivial(kind, payload, r):
    if kind == "perimb":
        return len(payload.split("|")[0].split()) >= 6
    return len(payload.split()) >= 8


def classify(kind, payload, r, m):
    if kind.startswith("perim"):
        return "perimeter-vs-model"
    return "contain-vs-winding" if kind.startswith("pip") else kind + "-vs-spec"
