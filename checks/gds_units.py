"""C17U - bit-exact Flocq model of the unit arithmetic of read_gds / gds_units tied to the real readers; to be merged into C17."""
CONFIG = {
    "manifest": {'level_text': "Bit-exact Gallina model over Flocq binary64 (coq/GdsUnits.v) of gdsii_real_to_double, of the UNITS case of read_gds (factor = db_in_meters / unit or db_in_user, library.unit, library.precision, default tolerance), of the coordinate map factor * (double)int32 (XY, WIDTH with its sign convention, half width, BGNEXTN / ENDEXTN) and of gds_units. Theorems for ALL inputs: gds_real_to_b64_correct (every 64-bit pattern converts without overflow or underflow to +- round_NE(M) * 2^k, the exact GDSII value when the mantissa has at most 53 significant bits) and gds_real_models_agree (the bit-level round53 of C19's dyadic model IS round-to-nearest-even: both models of gdsii_real_to_double denote the same number); gds_units_agrees (gds_units returns bit for bit the precision of every load and the unit of a native load: one division db_in_meters / db_in_user in both readers; with a target unit library.unit is the argument and factor = precision / unit); gds_coord_monotone / gds_coord_injective (for every normal positive factor up to 2^992 the map int32 -> double is strictly monotone: distinct grid points never collapse or swap); rescale_close (loading with a target unit versus loading natively and multiplying by library.unit / unit: both finite, same sign, relative difference at most 6 * 2^-53 + 8 * 2^-106 of the exact value, i.e. fewer than 7 units in the last place, for all positive UNITS reals, all target units in 2^-200 .. 2^200 and all int32), rescale_equal_pow2_user / rescale_equal_pow2_ratios (the two loads give the SAME double when db_in_user is a power of two or when both ratios are powers of two); a computed witness shows they differ by 2 ulp for the usual 1e-3 / 1e-9 record.", 'level_note': "Theorems depend on the standard-library axioms that Flocq's definitions pull in (ClassicalDedekindReals.sig_forall_dec, sig_not_dec, FunctionalExtensionality.functional_extensionality_dep, Classical_Prop.classic). exp2 of an integer argument is taken to be the exact power of two (trusted libm behaviour, validated by the differential run). WIDTH = INT32_MIN (negation overflows in C++) is excluded. The bound 6 u is proved, 3 ulp is the largest distance observed in 4e5 coordinates.", 'technique': 'Coq proof over a Flocq binary64 model + extracted-model differential run bit for bit against read_gds / gds_units on hand-built files + implementation-level oracles'},
    "prop_file": "Properties_C17U",
    "extract_file": "Extract_GdsUnits",
    "extracted": ["gds_units"],
    "driver": "gds_units",
    "harness": "gds_units",
    "rule": ("one case = one hand-built GDSII file (UNITS record with two 8-byte reals, one BOUNDARY of four vertices, one PATH of type 4 with "
             "WIDTH / BGNEXTN / ENDEXTN and two points) + a target unit + a tolerance argument. I: library.unit, library.precision, the path "
             "tolerance, vertex count and the eight polygon coordinates, half width, scale_width, both extensions, two spine points from "
             "read_gds(file, unit, tolerance); unit / precision from gds_units; the native library.unit, library.unit(native) / library.unit and "
             "the eight natively loaded coordinates multiplied by it - all as bit patterns (NaN as one word). M: the same text from the "
             "extracted model. P: gds_units equals the native load bit for bit, the precision does not depend on the target unit, the target "
             "unit is stored, rescaled versus direct coordinates within 7.5 * 2^-53 relative and identical when db_in_user is a power of two, "
             "strictly monotone coordinates. Reals: 1e-3 / 1e-9, decimal units, powers of two, mantissas of 54-56 bits (rounding, ties), "
             "un-normalised, any exponent, zero / negative (rare); units: native, decimal, powers of two, random, 2^+-200, negative, "
             "infinite, NaN, denormal; coordinates incl. INT32_MIN / INT32_MAX. Non-trivial: a payload with a non-zero coordinate; "
             "distinct = distinct payloads"),
    "trusted": ["harness/gds_units.cpp: record writer (big-endian), field extraction from Library / Polygon / FlexPath, the rescaling n.p[i] * (n.unit / t.unit) done in C++ doubles",
                "ocaml/gds_units_driver.ml: text layout, NaN test on the bit pattern, vertex count rule (closing vertex dropped unless NaN)",
                "standard-library axioms used by Flocq: ClassicalDedekindReals.sig_forall_dec, sig_not_dec, FunctionalExtensionality.functional_extensionality_dep, Classical_Prop.classic"],
    "assumptions": ["exp2((double)k) is the exact power of two for integer k in [-256, 252]", "x86-64 SSE2 double arithmetic is IEEE 754 binary64 round-to-nearest-even (no x87 excess precision)",
                    "NaN results are compared as one word (sign and payload of a NaN are not modelled)"],
    "thorough_seeds": 1,
}


def same(kind, impl, model):
    return impl.strip() == model.strip()


def nontrivial(kind, payload, r):
    w = payload.split(" ")
    return len(w) == 19 and any(x not in ("0", "-0") for x in w[7:])


def classify(kind, payload, r, m):
    return "gds-units-model-mismatch"
