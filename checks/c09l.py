"""C09L - the repetition data of the C09 run are what C11's model computes (second unit of C09; link C09 <-> C11)."""
CONFIG = {
    "manifest": {
        "level_text": "Coq theorems (closed under the global context, coq/BBoxRepLink.v, Properties_C09L.v) that discharge the repetition premises of the C09 hierarchy theorems from C11's statement-level model of Repetition::get_offsets / get_extrema: for EVERY C11 repetition r whose counts fit 64 bits and that is None or has count > 0 (rep_live), the C09-side record orep_of r (C11's offsets / extrema in lowest terms, flag type == Explicit) satisfies extrema are offsets, same bounding box, the origin is an offset (orep_of_ok, with the exact converse orep_of_ok_iff), and for every kind but Explicit, every count and every sign of the spacings / lattice vectors the extrema cover the offsets (link_cover: parallelogram_cover instantiated with the lattice of Rectangular / Regular incl. the one-row / one-column / single-point shapes, the segment of ExplicitX / ExplicitY); hence family_linked U (every repetition of the family is orep_of of a live C11 repetition) implies family_ok U, and cell_bbox_exact_rep / cell_hull_exact_rep / empty_cell_inverted_rep / cache_transparent_rep / polygon_bbox_exact_rep / label_bbox_exact_rep hold with no premise about offsets or extrema. linked_b_sound: the boolean the run evaluates on every repetition is that hypothesis.",
        "level_note": "count 0 (zero columns or rows) is excluded by rep_live: there the premise and polygon_bbox_exact itself fail (zero_count_link_refuted, known finding repetition:zero-count). For Explicit repetitions the cover premise fails (explicit_cover_refuted, finding F9, fixed by using every offset on the hull path) and is not needed. Rationals model exactly representable doubles: the lists are compared term for term after q_of_bits, so an inexact product in get_offsets / get_extrema would show up as `unlinked`.",
        "technique": "Coq proof linking two Gallina models (C11 repetition enumeration -> C09 bounding-box premises) + run of the extracted decision procedure linked_b on every repetition the C09 harness feeds",
    },
    "prop_file": "Properties_C09L",
    "extract_file": "Extract_C09L",
    "extracted": ["c09l"],
    "driver": "c09l",
    "harness": "c09",
    "thorough_seeds": 3,
    "rule": ("the cases of harness/c09.cpp (same executable, same seeds): every repetition of every polygon, label, path and reference "
             "of every hierarchy is printed with its parameters and with the lists get_offsets / get_extrema returned for it; the "
             "driver rebuilds the C11 repetition from the parameters and evaluates the extracted linked_b (fed lists = orep_of r "
             "term for term, r live); result `linked <n>` or `unlinked <index> <kind> <reason>`. Non-trivial: the hierarchy carries at "
             "least one repetition other than None; kind qh has no repetition (always `linked 0`)"),
    "trusted": ["harness/c09.cpp rep_text prints the parameters of the very Repetition object whose get_offsets / get_extrema lists it "
                "prints next to them"],
    "assumptions": ["generator values (integers up to 8, at most 3 x 3 lattices) keep every product exact in double arithmetic"],
}


def same(kind, impl, model):
    if impl.strip() == "invalid-input":      # corpus / replay input the harness refuses to build (zero columns, empty lists)
        return True
    return model.strip().startswith("linked ")


def nontrivial(kind, payload, r):
    return kind == "hier" and " : " in payload


def classify(kind, payload, r, m):
    return "replink-vs-model"
