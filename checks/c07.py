"""C07 — FlexPath outlines (Tier B: proved bookkeeping / local formulas / oracle + per-run validation)."""
CONFIG = {
    "manifest": {
        "level_text": "Coq theorems, closed under the global context, for ALL inputs (over Q and Z): (1) bookkeeping — after ANY sequence of the 17 construction wrappers (each abstracted to 'the curve call appends an arbitrary list of points, also none, then fill_offsets_and_widths runs with the arguments the wrapper forwards') and of remove_overlapping_points, started from FlexPath::init, the statement-level model never crashes or hangs and every element holds exactly one (half_width, offset) entry per spine point (flexpath_counts_invariant, induction over the call list, fuel bound of the removal loop proved); dropping the fill call from any one wrapper breaks it (flexpath_counts_every_fill_needed, witness call sequence); the appended entries interpolate linearly and END at the requested (width/2, offset) (fill_linear); (2) local outline formulas of to_polygons — the parameters returned by segments_intersection solve p0 + u0 t0 = p1 + u1 t1 whenever the parallelism test passes and are (0,0) otherwise, for every eps > 0; every vertex of the flush / half-width / extended caps is at signed distance +-hw from the centre line and on the end plane or exactly the cap reach (0 / hw / end_extensions) beyond it; the outline of one straight flush segment is the four points centre-end +- hw n (squared distance hw^2, perpendicular) and a point is inside it iff it is within hw of the centre line and between the two end planes (stated with a unit tangent as hypothesis: no square roots); (3) the exact oracle used per run — seg_closer_than decides 'some rational point of the segment is closer than sqrt R', its bounding-box shortcut is exact, the polyline test is the disjunction over the segments, the integer winding number is translation invariant and is 1 / 0 inside / outside a ccw rectangle. NOT theorems, validated on every run by the extracted oracle at sample points: the region clause itself (the outline of to_polygons covers every sample closer than hw - 4 tol to the element's centre line and no sample farther than reach.hw + 2 tol from it or beyond a straight cap plane; reach 1 for round and bevel joins, sqrt 2 natural, 1/cos(theta/2) miter and smooth), circular bends, the centre line of element_center and the PATH records written through Library::write_gds / write_oas and read back.",
        "level_note": "Tier B. The centre line is recomputed by the harness in long double from the implementation's own spine / half-width / offset doubles (consecutive displaced segments intersected, bends that fit replaced by arcs of radius bend_radius -+ offset); all vertices are multiplied by 2^30 and ROUNDED to the nearest integer (error <= 2^-31 per coordinate, five orders of magnitude below the guard bands of >= 1e-3); classification and winding number are then exact integer arithmetic extracted from Coq. Generator preconditions: 1-4 elements, widths 0.25-2, constant or tapering widths and offsets, all joins / ends / bends; straight steps 4-9 x (half width + |offset|) with turns <= 100 degrees; curved calls with radius >= 5 x that; tolerance 1e-2 or 1e-3. Elements whose construction is ill-conditioned (intersection of almost parallel displaced lines, smooth join between side points closer than hw/4) are checked under kind region_flagged and a disagreement there is attributed to the corresponding known finding; borderline bend decisions (|margin| < 1e-7) and turn + taper angle > 2.6 rad are skipped. Curve samplers are C15's subject (arbitrary appended points in the theorem). Floating-point rounding, Curve::arc / interpolation inside joins and caps, and the file codecs are not modelled. Sampling supports the tie and the search for failing inputs; it never stands in for a theorem.",
        "technique": "Coq proofs over Q/Z (bookkeeping invariant by induction over call sequences, algebraic outline identities, exact point-segment distance and winding-number oracle) + per-run validation of the implementation's outlines, centre lines and PATH records by the extracted oracle (Tier B)",
    },
    "prop_file": "Properties_C07",
    "extract_file": "Extract_C07",
    "extracted": ["c07_flexpath"],
    "driver": "c07_flexpath",
    "harness": "c07_flexpath",
    "expect_model": False,      # center / gds / oas / spike / outline cases carry P-lines only
    "thorough_seeds": 1,
    "rule": ("one forked child (20 s alarm) per generated path; paths 0-4 are directed (F13 bend-index inputs, smooth join at straight-through "
             "vertices), then seeded random paths: 1-4 elements, constant / tapering widths and offsets (NULL, state A, state B per call), joins "
             "natural/miter/bevel/round/smooth, ends flush/round/half-width/extended/smooth, bends none/circular with radii that never fit, lie "
             "between the half widths, fit, or are too long; families polyline (segment, segment[], horizontal, vertical, their array forms, "
             "commands l L h H v V; relative and absolute), curved (turn, arc incl. ellipses, cubic, cubic_smooth, quadratic, quadratic_smooth, "
             "bezier, interpolation, parametric, commands c C s q t a A E) and mixed; optional sub-tolerance step (remove_overlapping_points) and "
             "empty call. Per path: one `counts` case (counts after every call, model replay), per element one `region` / `region_flagged` case "
             "(~140 sample points) and one `center` case, for half of the paths one `gds` and one `oas` case. Per element also one `fn` case: the same spine / widths / "
             "offsets with the user-callback styles, against a twin path with built-in styles; own random stream, so the cases above are the same "
             "with and without it. EndType::Function always: the callback reproduces flush / half-width / extended caps from its arguments or "
             "returns a polygonal cap of 1..7 points (independently per end; 2-3 points the flush region, 4-7 the extended region with the extra "
             "points collinear, 1 point without twin); JoinType::Function for 70 % (natural / miter / bevel recomputed from the callback's "
             "arguments with the library's segments_intersection); BendType::Function for 80 % of the circular-bend elements and 30 % of the "
             "others (the library's Curve::arc, or an arc polyline with a point count of our own). Callbacks record arguments and results; "
             "P-lines: flexpath-fn-end-args / -join-args / -bend-args (every argument against the cap points, edge points, directions, centre, "
             "width, radii, angles recomputed in long double from the spine / half-width / offset arrays; which sides and vertices are called, in "
             "which order), flexpath-fn-end-order / -join-splice / -bend-splice (every returned point present bit for bit in the outline as one "
             "run: first cap at index 0 in callback order, right-side runs forwards, last cap after the right side in callback order, left-side "
             "runs reversed), flexpath-fn-twin (outline walked side by side with the built-in twin's: equal within 1e-9 vertex for vertex, modulo "
             "the known extra cap points; own-count bends share end points and the twin's arc lies on the requested circle). For ~20 % of the "
             "fn cases whose vertex list differs from the twin's (3 % of the others) a `region` / `region_flagged` case (payload g=s:i:fn:e) "
             "puts the callback outline through the extracted oracle with the twin's expectations. quick 160 paths (~400 fn cases, ~45 fn "
             "region cases), thorough 3000 (~7600 fn). Straight-through vertices with a bend (direction decided by the last bit) and elements "
             "with an almost parallel corner (1e-10 < |t0 x t1| < 1e-6) keep the order / twin oracles but not the argument oracle. "
             "non-trivial: a region case, or a counts case with at least two calls; distinct = distinct payload"),
    "trusted": ["harness recomputes the centre line / bend decisions / radii in long double (specification side) from the implementation's arrays",
                "doubles are rounded to the 2^-30 grid (error <= 2^-31) before the exact oracle runs",
                "Library::write_gds / write_oas / read_gds / read_oas carry the PATH records (C01-C04)"],
    "assumptions": ["sample points closer to a boundary than the guard band (4 tol inside, 2 tol outside) make no claim"],
    "validation_note": "Tier B: the region clause, bends, element_center and PATH records are validated per run at sample points by the "
                       "extracted exact oracle; counts invariant, fill_linear, intersection / cap / straight-segment formulas and the oracle "
                       "itself are theorems",
}


def same(kind, impl, model):
    return impl.strip() == model.strip()


def nontrivial(kind, payload, r):
    if kind.startswith("region"):
        return True
    if kind == "counts":
        return payload.count(":") >= 3      # g=seed:idx plus at least two w:k calls
    if kind == "fn":
        return True                         # user-callback end / join / bend cases: every one calls at least the end function twice
    return False


def classify(kind, payload, r, m):
    # flagged elements carry the finding key their ill-conditioned construction belongs to
    if payload.startswith("k="):
        return payload[2:payload.index(";")]
    return kind + "-vs-oracle"
