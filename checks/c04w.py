"""C04W - statement-level Coq model of the OASIS writer (write_oas and the to_oas routines) tied byte for byte to the
real writer, and the theorem that what it writes conforms to the specification; meant to be merged into C04 / C02."""
CONFIG = {
    "manifest": {'level_text': "Statement-level Gallina model write_oas_model of Library::write_oas without compression on the integer grid (magic + START with the unit real as oasis_write_real writes it and the offset-table flag, library PROPERTY records, per cell: CELL by reference number, POLYGON with the point-list type oasis_write_point_list selects, PATH records of simple FlexPaths with the extension scheme, PLACEMENT / PLACEMENT_TRANSFORM by reference number or name string with magnification / angle reals and the quarter-turn bits, TEXT by reference number, oasis_write_repetition for every Repetition type, the info bytes as the code sets them, PROPERTY records after every element; CELLNAME records with the cell properties and S_CELL_OFFSET, TEXTSTRING / PROPNAME records in the slot order of gdstk's hash maps (Table.v of C20), PROPSTRING records, END with table offsets, padding to 256 bytes and validation scheme 0). Theorem oas_writer_conforms_lemma: for EVERY well-formed library of the covered subset and both settings of OASIS_CONFIG_PROPERTY_CELL_OFFSET, spec_oas_decode (write_oas_model cfg l) = Some (view_w cfg l): the strict specification-level decoder accepts the file and decodes it to the library that was saved (names resolved through the tables, properties attached to the right owners). Theorem cell_offsets_point_at_cells_lemma: every S_CELL_OFFSET value is the file position of a CELL record. Detection flags (coq/OasisWriteDetect.v, Properties_C02D): write_oas_model_d cfg (dr, dt) is the same writer with Polygon::to_oas modelled in full for circle tolerance 0 (if DETECT_RECTANGLES && is_rectangle: RECTANGLE with the square bit; else if DETECT_TRAPEZOIDS && is_trapezoid: TRAPEZOID_B / _A / _AB or CTRAPEZOID with the dimensions the type uses; else POLYGON; then repetition and properties); write_oas_model_d_off: with both flags off it IS write_oas_model for every input; oas_writer_conforms_d: under EVERY flag word the strict decoder accepts the file and decodes it to the library as the file holds it (view_w_d), which view_w_d_sim relates to the saved library (equal up to starting vertex / orientation of the detected 3- and 4-vertex polygons and the values of S_CELL_OFFSET); decoder_flag_independence; oas_models_roundtrip_d_all / reader_detected_vs_plain / reader_flag_independence: under EVERY flag word the reader model loads the file to the library it holds, which is the library loaded from the undetected file (and from the file of any other flag word) up to that similarity. The file is in the class `covered` of OasisRead.v except when a square is written as CTRAPEZOID 25 under DETECT_TRAPEZOIDS alone (writer_output_covered_d, writer_output_covered_d_refuted); for that record guard c5 of the reader theorem is relaxed in OasisReadRelaxed.v (cov5_reader_ok: the guarded decoder extended by CTRAPEZOID 25 with the modal height undefined afterwards still predicts the reader), and the writer's output is proved to lie in the relaxed class for every flag word.", 'level_note': "Covered flags: OASIS_CONFIG_PROPERTY_CELL_OFFSET on/off; OASIS_CONFIG_DETECT_RECTANGLES / DETECT_TRAPEZOIDS in every combination (write_oas_model_d); every other flag is modelled as off (PROPERTY_MAX_COUNTS, PROPERTY_TOP_LEVEL, PROPERTY_BOUNDING_BOX, INCLUDE_CRC32, INCLUDE_CHECKSUM32), compression level 0, circle tolerance 0 (circle detection is outside the model). Outside the model: RobustPath, non-simple paths, path elements with an offset, round / smooth ends, RawCell references. wlib_ok asks for distinct cell names, 64-bit ranges, coordinates below 2^62, non-negative ExplicitX / ExplicitY coordinates (known finding) and a file shorter than 2^64 bytes. The model takes the values after llround(x * scaling) and the result of is_multiple_of_pi_over_2 as inputs. The theorems depend on the standard-library axioms Flocq's definitions pull in (through OasisReal.enc_real), as the OASIS-real theorems of C19 do.", 'technique': 'Coq proof over a statement-level Gallina model of the writer + byte-for-byte differential run of the extracted model against Library::write_oas'},
    "prop_file": "OasisWriteProofs",
    "extra_prop_files": ["Properties_C02D"],   # the writer under the detection flags (OasisWriteDetect*.v)
    "extract_file": "Extract_C04W",
    "extracted": ["c04w"],
    "driver": "c04w",
    "harness": "c04w",
    "rule": ("every case is a random library ON THE GRID (generator of harness/oas_layout.hpp restricted to the modelled subset: polygons of "
             "every point-list class incl. 1- and 2-vertex and duplicate-vertex polygons, simple FlexPaths with 1-2 elements and "
             "flush / half-width / extended ends, labels, references by Cell pointer or name to cells inside and outside the library "
             "with quarter turns, general angles, magnifications and reflection, all five Repetition types incl. negative spacings and "
             "negative explicit coordinates, properties of all four value types on the library, cells and every element, user "
             "properties named S_CELL_OFFSET, empty libraries, duplicate cell names) saved by Library::write_oas(file, 0, 0, flags) "
             "with flags = 0 or OASIS_CONFIG_PROPERTY_CELL_OFFSET. I = hex of the bytes of the file; M = hex of the extracted "
             "write_oas_model on the library text of the case payload. The two must be IDENTICAL. Non-trivial: every case (each "
             "file has START, END and the name tables); distinct = distinct byte strings. Kind wrd: the same with flags = "
             "DETECT_RECTANGLES, DETECT_TRAPEZOIDS or both (with and without PROPERTY_CELL_OFFSET; circle tolerance 0, level 0) on "
             "libraries whose polygons are 80 % detection material: rectangles, squares, each of the 26 compact trapezoid shapes "
             "(also with coinciding vertices), general horizontal / vertical trapezoids with one or two slanted sides of either "
             "sign, crossed quadrilaterals, right / isosceles triangles, zero-height and zero-width shapes, random 4 points on a "
             "small grid, and near-misses of all of these (one vertex one grid step off, a fifth collinear vertex, a repeated "
             "vertex, a vertex removed), every starting vertex, both orientations, coordinates up to 2^33; M = hex of the "
             "extracted write_oas_model_d under the same flag word. Must be IDENTICAL"),
    "trusted": ["harness/c04w.cpp serialise(): the library text handed to the driver is the library that was built "
                "(integers of the abstract layout; half width = width / 2 for even widths; rotation, magnification and unit as "
                "double bit patterns; is_multiple_of_pi_over_2 evaluated by gdstk)",
                "ocaml/c04w_driver.ml: parser of the library text",
                "standard-library axioms used by Flocq (under every theorem that mentions enc_real): "
                "ClassicalDedekindReals.sig_forall_dec, sig_not_dec, FunctionalExtensionality.functional_extensionality_dep, "
                "Classical_Prop.classic"],
    "assumptions": ["x86-64 Linux: char is signed in the FNV hash of C strings (Table.hash_str), little-endian doubles",
                    "the grid values the harness writes into the case payload are the values llround(x * scaling) yields "
                    "for the doubles it builds (coordinates k / scaling with |k| < 2^34)"],
    "thorough_seeds": 1,
}


def same(kind, impl, model):
    return impl.strip() == model.strip()


def nontrivial(kind, payload, r):
    return True


def classify(kind, payload, r, m):
    return "oas-writer-model-" + kind
