"""gdswriter - GdsWriter (gdswriter_init / write_cell / write_rawcell / close), RawCell::to_gds and the raw-cell part of
Library::write_gds against their statement-level Coq model; second unit of C03 and C17."""
CONFIG = {
    "manifest": {
        "level_text": ("Statement-level Gallina model (coq/GdsWriterModel.v) of the incremental GDSII writer of the public API - "
                       "gdswriter_init (HEADER / BGNLIB / LIBNAME with the NUL padding of odd names / UNITS as written, word by word), "
                       "GdsWriter::write_cell (= the Cell::to_gds model of GdsWrite.v, with the max_points guard), write_rawcell = "
                       "RawCell::to_gds (lazy pread of the byte range from the reference-counted RawSource, short read => "
                       "InputFileError and size = 0, source released, bytes from memory on every later call), close - and of the "
                       "raw-cell loop of Library::write_gds. Theorems for all inputs (Properties_C03W.v, closed under the global "
                       "context): gdswriter_is_library (a session of cells is byte for byte Library::write_gds of the library with "
                       "those cells, hence writer_conforms and gds_roundtrip apply to GdsWriter output: gdswriter_conforms); "
                       "gdswriter_transplant (any session mixing cells and raw cells whose bytes are grammar-valid structures is "
                       "accepted by the strict decoder and decodes / loads to one cell per call, in call order); gdswriter_c17 (raw "
                       "cells taken by read_rawcells from ANY file the strict grammar accepts, written in any selection, order and "
                       "repetition, mixed with ordinary cells: the new file loads to exactly the cells those raw cells are in the "
                       "full load of the source); library_write_gds_is_session / _conservative (Library::write_gds with raw cells is "
                       "such a session; without raw cells it is the earlier writer model); session_writer_independent (several "
                       "writers alive at once, shared raw cells: each file is what that writer alone produces); to_gds_wf (reference "
                       "counts: a source is closed exactly when its last raw cell has been read); rawcell_short_read."),
        "level_note": ("RawCell::to_gds neither follows `dependencies` nor remembers what it has written: 'each raw cell and each "
                       "transitive dependency exactly once' is REFUTED for the code (rawcell_once_refuted: the same raw cell written "
                       "twice gives two structures of one name; rawcell_closure_refuted: a raw cell written without its dependency "
                       "gives a file with a dangling reference) and holds for the closure list a caller can compute "
                       "(raw_closure_dag / rawcell_once_partial, any dependency DAG; on a cyclic graph the recursion does not end, "
                       "like RawCell::get_dependencies(true)). Polygon::fracture (max_points > 4 and more vertices) is outside the "
                       "model (RFracture; property C12). The two UNITS reals are taken as bit patterns (gdsii_real_from_double: C19)."),
        "technique": "Coq proofs (refinement of the session to the library writer model, grammar locality of structures, heap invariant of the reference counts) + byte-for-byte differential run of the extracted model + strict decoder and load oracles on every produced file",
    },
    "prop_file": "Properties_C03W",
    "extract_file": "Extract_Gdswriter",
    "extracted": ["gdswriter"],
    "driver": "gdswriter",
    "harness": "gdswriter",
    "rule": ("kind ses = a random session: 1-2 GdsWriter objects alive at once (names of odd / even length, five unit / precision "
             "pairs, max_points 0 / 3 / 4 / exactly the largest polygon / above), grid cells of harness/layoutgen.hpp (write plan "
             "of harness/gdsdump.hpp), raw cells read by read_rawcells from 0-2 gdstk-written files with dependency chains and "
             "shared dependencies, any selection / order / repetition (the same raw cell twice, through one or two writers), a "
             "source file possibly cut short before the first write; I = error flag of every call, RawSource files still open, "
             "bytes of every file; M = extracted session_run, identical text. kind lib = Library::write_gds of a library with cells "
             "and raw cells versus library_write_gds_model. kind dec = every file so produced: read_gds dump (I) versus "
             "read_gds_model (M) and the strict decoder spec_decode (S); P = the load equals the cells written plus the cells the "
             "raw cells are in the full load of their source (a raw cell whose source was cut contributes nothing). kind clo = "
             "RawCell::get_dependencies(true) + root versus raw_closure. P of ses / lib: no crash, no descriptor left open after "
             "every raw cell is cleared. non-trivial: payload longer than 120 characters"),
    "trusted": ["harness/gdswriter.cpp: session generator, descriptor count, expected-load computation (write plan of gdsdump.hpp; "
                "cells of the source as loaded by read_gds)", "ocaml/gdswriter_driver.ml: parsing of the session text, canonical dump"],
    "assumptions": ["no polygon goes through Polygon::fracture (the generator keeps max_points at or above the largest polygon when it is above 4)",
                    "pread on a regular file returns the bytes present from the offset on (short only at end of file)"],
    "thorough_seeds": 1,
}


def same(kind, impl, model):
    return impl.strip() == model.strip()


def nontrivial(kind, payload, r):
    return len(payload) > 120


def classify(kind, payload, r, m):
    return "gdswriter-" + kind + "-vs-spec"
