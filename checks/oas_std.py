"""OAS_STD - the standard properties Library::write_oas attaches (S_MAX_*, S_TOP_CELL, S_BOUNDING_BOX, S_BOUNDING_BOXES_AVAILABLE)
as a Gallina pre-pass of the statement-level writer model, tied byte for byte to the real writer; unit of C04 (and C02)."""
CONFIG = {
    "manifest": {'level_text': "Statement-level Gallina model (coq/OasisStd.v) of the blocks of Library::write_oas guarded by OASIS_CONFIG_PROPERTY_MAX_COUNTS / TOP_LEVEL / BOUNDING_BOX: static max_string_length, the max-counts pass over all cells statement by statement (which strings count, polygon point counts, the growing centre-line buffer of multi-element paths), Library::top_level with Cell::get_dependencies(false) on a name-keyed map of Cell pointers, Cell::bounding_box through the shared GeometryInfo cache (= BBox.cell_query of C09 over exact rationals, repetitions through C11's get_offsets / get_extrema), the outline of two-point axis-parallel FlexPaths with flush / half-width / extended caps, llround of the four box values, and every remove_property / set_property call in the order of the code. write_oas does not take the properties away again: the model is a pre-pass attach_std on the library and write_oas_model_std cfg f src l := write_oas_model cfg (attach_std f src l) BY DEFINITION, so oas_writer_conforms applies to the file with standard properties (std_writer_conforms, through attach_std_ok: attach_std keeps the library well-formed). Truth theorems for every well-formed library of the covered subset, stated on the layout the strict decoder returns: S_POLYGON_MAX_VERTICES is the maximum vertex count over all POLYGON records (std_polygon_max_truth); S_PATH_MAX_VERTICES is not below any PATH record and is the maximum when no path has two elements (std_path_max_truth; equality refuted otherwise: path_max_exact_refuted); S_MAX_STRING_LENGTH >= 28 and >= every cell name, text string, property name and property string (std_string_max_truth; placement names of absent cells refuted: string_max_placement_refuted); S_TOP_CELL lists, last cell first, exactly the cells no Cell-typed reference points to (top_cells_truth, std_top_cell_truth; Name-typed references refuted: top_cell_name_reference_refuted); S_BOUNDING_BOX of a cell is the smallest integer box containing every exact position of its geometry (vertices, label origins, outline corners, repetitions applied, Cell-typed references expanded through the cache) rounded to the grid, i.e. rounding the exact box IS the box of the rounded exact positions because llround is monotone (std_boxes_exact, box_values_of_points, std_bbox_truth), which is the box of the file's own coordinates on the grid (lower_cell_one) but not off the grid (bbox_of_file_geometry_refuted) and not for Name-typed references (bbox_name_reference_refuted); the second write_oas with the same flags writes the same bytes unless the user's lists held an entry that the first call counts and then removes (second_write_same, second_write_same_refuted).", 'level_note': "Covered subset = that of OasisWrite.v (polygons, simple FlexPaths without offsets, labels, references, every repetition type, properties); the BOUNDING_BOX part further asks that Cell-typed references are quarter turns pointing to later cells of the library or to cells outside it (which have no references of their own), and that paths have at most one point or two points on an axis-parallel line; box_covered reports anything else and the harness never sets the flag on such a library. The reserved names are transcribed by hand (the byte-for-byte run checks them). The model works on exact rationals n / D in grid units (D = 1: the library on the grid; D = 4 in the off-grid cases, unit = precision so that every double is exact); for the other unit / precision pairs it takes, like OasisWrite.v, the values llround(x * scaling) yields as its input. Theorems that mention write_oas_model depend on the standard-library axioms Flocq pulls in through enc_real; the combinatorial ones (max_counts_spec, top_cells_truth, std_boxes_exact, box_values_of_points, lower_cell_one) are closed under the global context.", 'technique': 'Coq proof over a statement-level Gallina model of the standard-property blocks of write_oas + byte-for-byte differential run of the extracted model against Library::write_oas (written twice) + truth oracle on the bytes'},
    "prop_file": "Properties_C04S",
    "extract_file": "Extract_OasStd",
    "extracted": ["oas_std"],
    "driver": "oas_std",
    "harness": "oas_std",
    "rule": ("every case is a random library of the subset OasisWrite.v covers (generator of harness/oas_layout.hpp with the "
             "restrictions of harness/c04w.cpp) plus: Cell objects outside the library with geometry, Name-typed references to "
             "cells inside and outside the library, shared children, paths with up to four elements, user properties carrying the "
             "writer's reserved names (several, alone, at every position, with long string values) on the library and on cells, "
             "empty libraries, duplicate cell names, and coordinates in quarter grid steps (variant bit 4, unit = precision). It is "
             "saved TWICE by Library::write_oas(file, 0, 0, flags) with flags walking through all 16 combinations of "
             "OASIS_CONFIG_PROPERTY_MAX_COUNTS / TOP_LEVEL / BOUNDING_BOX / CELL_OFFSET. I = hex of the first file + ' same' or "
             "' second:' + hex of the second file; M = the same text from the extracted write_oas_model_std (second call = the "
             "model on lib_after_write). The two must be IDENTICAL. P = every standard property found in the bytes of the first "
             "file (independent record scanner) against the truth computed on integers from the abstract layout: vertex maxima, "
             "string bound, unreferenced cells, box of the file's geometry with every PLACEMENT expanded, CELL record offsets. "
             "Non-trivial: every case; distinct = distinct byte strings"),
    "trusted": ["harness/oas_std.cpp serialise() and prepare(): the library text handed to the driver is the library that was built "
                "(numerators over D of the abstract layout; reference kinds; outside cells; is_multiple_of_pi_over_2 evaluated by gdstk)",
                "harness/oas_scan.hpp record scanner and the integer truth computation of harness/oas_std.cpp",
                "ocaml/oas_std_driver.ml: parser of the library text",
                "standard-library axioms used by Flocq (under every theorem that mentions enc_real): "
                "ClassicalDedekindReals.sig_forall_dec, sig_not_dec, FunctionalExtensionality.functional_extensionality_dep, "
                "Classical_Prop.classic"],
    "assumptions": ["x86-64 Linux: char is signed in the FNV hash of C strings (Table.hash_str), little-endian doubles",
                    "for unit / precision pairs other than 1 the grid values of the payload are the values llround(x * scaling) "
                    "yields for the doubles the harness builds (coordinates k / scaling with |k| < 2^34), also inside "
                    "Cell::bounding_box (sums and quarter-turn images of such doubles stay within 1e-6 of a grid point)",
                    "the reserved property names of coq/OasisStd.v are the strings of src/property.cpp",
                    "a quarter turn has cos / sin exactly 0 / +-1 in the model; libm's cos(pi / 2) = 6e-17 only matters for a box "
                    "corner exactly half a grid step between two grid points, which the harness avoids (off-grid cases with "
                    "bounding boxes keep Cell-typed references unrotated)"],
    "thorough_seeds": 1,
}


def same(kind, impl, model):
    return impl.strip() == model.strip()


def nontrivial(kind, payload, r):
    return True


def classify(kind, payload, r, m):
    return "oas-std-model-" + kind
