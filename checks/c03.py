"""C03 — GDSII reader and writer agree with the format specification."""
from checks.gdscommon import same, nontrivial, classify  # noqa
CONFIG = {
    "manifest": {'level_text': "Coq theorem reader_accepts_spec (closed under the global context): for EVERY byte stream accepted by a strict grammar-directed decoder of the GDSII stream format (even record lengths; HEADER BGNLIB LIBNAME {library options} UNITS {structure} ENDLIB; BOUNDARY and BOX, PATH with optional PATHTYPE / WIDTH / BGNEXTN / ENDEXTN, SREF and AREF with optional STRANS [MAG] [ANGLE], TEXT with optional PRESENTATION / PATHTYPE / WIDTH / STRANS, any number of ELFLAGS / PLEX, multi-record XY, PROPATTR/PROPVALUE pairs, closed boundaries) the reader model - a statement-level mirror of read_gds's flat record switch with its mutable state - returns exactly the layout the grammar assigns; plus gds_roundtrip (every library the writer model emits is read back to the library saved) and per-field decoding lemmas for all in-range values. The strict decoder is extracted and run as an independent oracle on every gdstk-written file (writer conformance, per run) and on streams from an independent specification-level encoder; reader and writer models are tied to /repo byte for byte / dump for dump. The case labels of read_gds's record switch are regenerated from library.cpp on every run (grouped by shared body) and proved to be the dispatch of the model: same groups, one kind per group, distinct kinds, nothing else dispatched below 256 (read_gds_switch_as_modelled, read_gds_dispatch_uniform_and_distinct).", 'level_note': "'Every file gdstk writes is accepted by the strict decoder' is proved for the writer MODEL (writer_conforms, for every well-formed grid library) and validated per run on the real writer's files (extracted spec_decode as S-line oracle, Library::write_gds and GdsWriter output). The grammar is a transcription of the stream format made without the document at hand; MAG/ANGLE are 8-byte patterns (C19). One defect (WIDTH carried over between PATH elements) was repaired by a fix: commit - the theorem would be false of the unfixed reader.", 'technique': "Coq proof that the reader's state machine agrees with a strict grammar decoder on all accepted streams + round-trip theorem + extracted strict decoder as oracle + differential run"},
    "prop_file": "Properties_C03",
    "extra_prop_files": ["Properties_C03W"],   # GdsWriter / RawCell::to_gds sessions (GdsWriterModel.v)
    "units": [
        {"harness": "gds", "driver": "gds", "extracted": ["gds"], "extract_file": "Extract_Gds", "kinds": "spec,wr,rd,gw"},
        # PATH records that Library::write_gds emits for simple FlexPaths / RobustPaths built through the path API (tapers, bends,
        # transformations, extended ends, repetitions: one complete record per element and offset) must decode to what was saved
        # sessions of the incremental writer (GdsWriter: init / write_cell / write_rawcell / close, several writers at once) and
        # Library::write_gds with raw cells, byte for byte against GdsWriterModel.v; every produced file through spec_decode
        {"harness": "gdswriter", "driver": "gdswriter", "extracted": ["gdswriter"], "extract_file": "Extract_Gdswriter", "module": "checks.gdswriter", "kinds": "ses,lib,dec", "thorough_seeds": 1},
        {"harness": "c07_flexpath", "kinds": "gds,crash", "thorough_seeds": 1},
        {"harness": "c08_robustpath", "kinds": "gds,crash", "thorough_seeds": 1},
    ],
    "rule": ("kind spec = streams from the independent specification-level encoder in harness/gds.cpp (BOUNDARY and BOX, PATH with "
             "path types 0/1/2/4 and extensions, negative WIDTH, SREF and AREF with any STRANS/MAG/ANGLE, TEXT with PRESENTATION, "
             "PROPATTR/PROPVALUE, XY split at random places, optional ELFLAGS/PLEX/REFLIBS/GENERATIONS/STRCLASS records, several "
             "UNITS): read_gds must load the layout the encoder meant (property oracle) and agree with read_gds_model; kinds wr / rd = "
             "writer bytes and reader dumps versus the models on random libraries. non-trivial: payload longer than 120 characters"),
    "trusted": ["the specification-level encoder is a transcription of the GDSII stream format made without the format document at hand"],
    "assumptions": ["spec-legal streams close every element with ENDEL before the next element starts (the model keeps one open element)"],
}
