"""C03 — GDSII reader and writer agree with the format specification."""
from checks.gdscommon import same, nontrivial, classify  # noqa
CONFIG = {
    "manifest": {'level_text': "Same reader/writer models as C01. Streams from an independent specification-level encoder (all element kinds and optional records, arbitrary XY splits) are loaded by read_gds and by the extracted read_gds_model; the encoder's own expectation is the property oracle. gdstk-written bytes are compared byte for byte with write_gds_model.", 'level_note': 'No strict specification decoder in Coq yet (planned: spec_decode with reader_accepts_spec for every accepted stream); the forward direction is decided per run on encoder-generated streams. One defect (WIDTH carried over between PATH elements) was repaired by a fix: commit.', 'technique': 'Coq models of GDSII reader and writer + independent spec-level encoder as oracle + differential run'},
    "prop_file": "Properties_C03",
    "extract_file": "Extract_Gds",
    "extracted": ["gds"],
    "driver": "gds",
    "harness": "gds",
    "kinds": "spec,wr,rd",
    "rule": ("kind spec = streams from the independent specification-level encoder in harness/gds.cpp (BOUNDARY and BOX, PATH with "
             "path types 0/1/2/4 and extensions, negative WIDTH, SREF and AREF with any STRANS/MAG/ANGLE, TEXT with PRESENTATION, "
             "PROPATTR/PROPVALUE, XY split at random places, optional ELFLAGS/PLEX/REFLIBS/GENERATIONS/STRCLASS records, several "
             "UNITS): read_gds must load the layout the encoder meant (property oracle) and agree with read_gds_model; kinds wr / rd = "
             "writer bytes and reader dumps versus the models on random libraries. non-trivial: payload longer than 120 characters"),
    "trusted": ["the specification-level encoder is a transcription of the GDSII stream format made without the format document at hand"],
    "assumptions": ["spec-legal streams close every element with ENDEL before the next element starts (the model keeps one open element)"],
}
