"""C03 — GDSII reader and writer agree with the format specification."""
from checks.gdscommon import same, nontrivial, classify  # noqa
CONFIG = {
    "manifest": {'level_text': "Same reader/writer models and the gds_roundtrip theorem as C01, which gives 'every file the writer model emits is read back to the library that was saved' for all libraries; per-record decoding lemmas (16/32/64-bit fields, point lists of any length, strings, properties, STRANS/MAG/ANGLE) are proved for every value in range. Forward direction: streams from an independent specification-level encoder (all element kinds, BOX, path types 0/1/2/4 with extensions, negative widths, AREF with any STRANS, optional ELFLAGS / PLEX / REFLIBS / GENERATIONS / STRCLASS records, arbitrary XY splits, font bits in PRESENTATION) are loaded by read_gds and by the extracted read_gds_model; the encoder's own expectation is the property oracle.", 'level_note': "No strict specification decoder exists in Coq yet: 'every spec-legal stream loads to the layout it encodes' is decided per run on encoder-generated streams (and by the model tie), not by a theorem over all legal serialisations. One defect (WIDTH carried over between PATH elements) was repaired by a fix: commit.", 'technique': 'Coq round-trip theorem over Gallina models of the GDSII reader and writer + byte-for-byte / dump-for-dump differential run + round-trip oracle'},
    "prop_file": "Properties_C03",
    "extract_file": "Extract_Gds",
    "extracted": ["gds"],
    "driver": "gds",
    "harness": "gds",
    "kinds": "spec,wr,rd",
    "rule": ("kind spec = streams from the independent specification-level encoder in harness/gds.cpp (BOUNDARY and BOX, PATH with "
             "path types 0/1/2/4 and extensions, negative WIDTH, SREF and AREF with any STRANS/MAG/ANGLE, TEXT with PRESENTATION, "
             "PROPATTR/PROPVALUE, XY split at random places, optional ELFLAGS/PLEX/REFLIBS/GENERATIONS/STRCLASS records, several "
             "UNITS): read_gds must load the layout the encoder meant (property oracle) and agree with read_gds_model; kinds wr / rd = "
             "writer bytes and reader dumps versus the models on random libraries. non-trivial: payload longer than 120 characters"),
    "trusted": ["the specification-level encoder is a transcription of the GDSII stream format made without the format document at hand"],
    "assumptions": ["spec-legal streams close every element with ENDEL before the next element starts (the model keeps one open element)"],
}
