"""C06O - ownership model of the copy functions and collectors (unit c06_own); second unit of C06."""
import re

CONFIG = {
    "manifest": {'level_text': "Ownership model (coq/Ownership.v): every gdstk object is a tree of fields, owning pointers lead to heap buffers identified by addresses, non-owning pointers (Reference::cell / rawcell, callback data, RawCell*) are marked as such, the allocator state is the next fresh address. Array::copy_from, copy_string, Repetition::copy_from, properties_copy, Polygon / FlexPath / RobustPath / Label / Reference ::copy_from, Cell::copy_from (deep and shallow, new name), Library::copy_from (deep and shallow), the five apply_repetition, Cell::get_polygons / get_flexpaths / get_robustpaths / get_labels with Reference::get_*, clear / free_all are transcribed statement by statement in a state + log monad (allocations, memcpy, in-place writes, frees). Theorems (closed under the global context, coq/OwnershipProofs.v): each transcribed copy_from IS the generic deep copy of its ownership tree (ten *_commute theorems); for the generic deep copy (a) FRESHNESS - every buffer of the copy was allocated by the call, none twice; (b) SHAPE - in the heap after the call the copy denotes exactly what the source denoted, field by field, contents included; (c) FRAME - a store through any buffer of the copy leaves the denotation of every older object unchanged and vice versa; the collectors and apply_repetition return objects all of whose buffers are new, write to and free only what they allocated (apply_repetition: plus the receiver's own repetition buffer); (d) wf_heap (no buffer owned twice, every owned buffer allocated and not freed) is preserved by every sequence of deep copies, collections, apply_repetition, free and clear (run_wf). Shared BY DESIGN, as theorems: a shallow Cell / Library copy shares exactly its elements / cells; reference targets, raw cells and callback data are copied by value (tcopy_exts, library_deep_copy_targets: consistent with the C16 finding Library::copy_from:deep-copy-shares-targets); Library::copy_from does not copy the library's properties. REFUTED (witnesses in Coq, confirmed on the real code): RobustPath::copy_from copies subpath_array with memcpy, so the control-point array of every general Bezier section (RobustPath::bezier) is shared between copy and source (robustpath_copy_fresh_refuted, robustpath_copy_independent_refuted, wf_preserved_refuted), and RobustPath::clear never frees these arrays (robustpath_clear_leaks); (a)-(d) hold for RobustPaths without general Bezier sections.", 'level_note': "The tie is the aliasing pattern: the real pointers of the pool before and after every operation, canonically renumbered, with capacities / counts and the byte-equality of copied buffers, compared with the same pattern printed from the model's addresses; plus the run-time oracle (overwrite every buffer of the new objects, older objects unchanged; free; touch; free the rest; ASan in the thorough tier). Not modelled: temporaries no object points to (offsets arrays, the caller's result array), sizes of path outlines, remove_overlapping_points called by FlexPath::to_polygons on the source path, Cell::flatten.", 'technique': 'Coq proof (ownership / separation of copies, invariant over operation sequences) + differential aliasing-pattern run against the extracted model + mutation / free oracle under ASan'},
    "prop_file": "Properties_C06O",
    "extract_file": "Extract_C06O",
    "extracted": ["c06_own"],
    "driver": "c06_own",
    "harness": "c06_own",
    "asan": "thorough",
    "thorough_seeds": 1,
    "rule": ("every case builds a pool of heap objects (1-3 cells with polygons, FlexPaths of 1-3 elements, RobustPaths with segment / "
             "quadratic / cubic / Parametric / general Bezier sections and Constant / Linear / Parametric interpolations, labels, "
             "references by cell / raw cell / name; properties with all four value types; all six repetition kinds incl. empty "
             "explicit lists and zero counts; stand-alone elements; a library with its own cells, raw cells and properties) and runs "
             "1-3 operations: cp (allocate_clear + copy_from; cells and libraries deep), cc (Cell::copy_from with / without new name, "
             "deep / shallow), lc (Library::copy_from deep / shallow), g (get_polygons / flexpaths / robustpaths / labels x "
             "apply_repetitions x include_paths x depth {-1,0,1,2} x tag filter), ar (apply_repetition), fr / cl (clear / free_all / "
             "Cell::clear + free, last operation only). Before each operation every data buffer is stamped with a unique value; I = "
             "per operation the pointers of the whole pool before and after in one canonical numbering, with kind, capacity/count "
             "and for every new data buffer which older buffer it is a byte copy of; M = the same from the extracted model's "
             "addresses and event log. P = mutation / free / touch oracle in a forked child. Non-trivial: at least two operations "
             "or a collector; distinct = distinct payloads"),
    "trusted": ["harness/c06_own.cpp: the walker (field order of Ownership.<x>_tree), stamping, canonical numbering",
                "ocaml/c06_own_driver.ml: payload parser, token printing"],
    "assumptions": ["allocate(0) returns a fresh non-NULL pointer (glibc, ASan)",
                    "generated FlexPath spines have no overlapping points (FlexPath::to_polygons would remove them from the SOURCE path)",
                    "the model prints ~ (copied then written in place) / ! (newly computed) where the harness prints # or =n: both accepted"],
}

_tok = re.compile(r"^([0-9a-f]+)([a-z])([0-9a-f?/]*)([@#!~]|=[0-9a-f]+)?$")


def _tok_same(i, m):
    if i == m:
        return True
    a = _tok.match(i)
    b = _tok.match(m)
    if not a or not b:
        return False
    if a.group(1, 2, 3) != b.group(1, 2, 3):
        return False
    fi, fm = a.group(4), b.group(4)
    # the model says "copied, then written in place" (~) or "newly computed" (!): the bytes may or may not equal an older buffer
    if fm in ("~", "!") and fi is not None and (fi == "#" or fi.startswith("=")):
        return True
    return False


def same(kind, impl, model):
    if impl.strip() == model.strip():
        return True
    a = impl.split()
    b = model.split()
    return len(a) == len(b) and all(_tok_same(x, y) for x, y in zip(a, b))


def nontrivial(kind, payload, r):
    ops = payload.split(" ops ", 1)[1] if " ops " in payload else ""
    return ops.startswith(("2 ", "3 ")) or " g " in (" " + ops)


def classify(kind, payload, r, m):
    return "ownership-pattern"
