"""C17 — partial and alternative readers agree with the full reader."""
from checks.gdscommon import same, nontrivial, classify  # noqa
CONFIG = {
    "manifest": {'level_text': "Coq theorems (closed under the global context): info_agrees - for EVERY byte stream accepted by the strict GDSII grammar decoder, the summary scan gds_info (statement-level model incl. its layer / next-set state) reports exactly the cell names (in order), polygon / path / reference / label counts, shape- and label-tag sets and UNITS patterns of the layout that the full reader loads from the same bytes; filter_commutes - for every byte stream whatsoever and every tag set, loading with a filter equals loading everything and discarding the other polygons and paths, order included (simulation on the reader model); the loader never reads the timestamp words of BGNLIB / BGNSTR, so rewriting them cannot change what is loaded; the unit and timestamp queries on any prefix give an error or the complete file's values. rawcells_agree - for every grammar-accepted stream the statement-level model of read_rawcells (name table, byte offsets and sizes, dependency resolution at ENDLIB) records exactly the names and referenced names of the structures the full reader loads, each recorded byte range is the record sequence BGNSTR..ENDSTR of its structure and the ranges tile the structure section of the file (copying them back in order between the header and ENDLIB reproduces the stream); rawcells_transplant - ANY selection of the recorded ranges, in any order, copied between the library header and ENDLIB is accepted by the grammar and decodes to exactly the selected cells (the grammar never looks past ENDEL / ENDSTR: locality lemmas for every grammar combinator). gds_info, read_rawcells, filtered loads and the timestamp rewrite are compared with their extracted models on every generated file, and every clause is also decided on the implementation by oracles. The case labels of the record switches of gds_info and read_rawcells are regenerated from the source on every run and proved to be exactly the record types their models react to.", 'level_note': 'Target-unit rescaling is decided per run by an implementation-level oracle (floating-point scaling); the transplant of a subset of raw cells through the real GdsWriter (its own header) is additionally decided by an oracle on the implementation. The tag sets are compared as sets (gds_info keeps insertion order without duplicates).', 'technique': 'Coq proofs (grammar-directed agreement of summary scan and full reader; simulation for the tag filter) + extracted-model differential run + implementation-level oracles'},
    "prop_file": "Properties_C17",
    "extract_file": "Extract_Gds",
    "extracted": ["gds"],
    "driver": "gds",
    "harness": "gds",
    "kinds": "info,specinfo,filter,unit,raw,ts",
    "rule": ("per random gdstk-written file: info = gds_info versus gds_info_model and versus the full load (names, counts, tag sets, "
             "units; gds_units, gds_timestamp); filter = read_gds with a tag set versus read_gds_model with the same set, and versus "
             "load-then-discard computed by gdstk; unit = load with a target unit versus native load rescaled; raw = raw cells of a "
             "random subset of cells re-emitted through GdsWriter load as they load from the original; ts = gds_timestamp rewrite "
             "changes only the 24 bytes after BGNLIB/BGNSTR headers (versus rewrite_ts model) and the file loads the same. "
             "non-trivial: payload longer than 120 characters"),
    "trusted": ["unit rescaling and raw-cell transplant are decided by the property oracle on the implementation only (no theorem)"],
    "assumptions": [],
}
