"""C17 — partial and alternative readers agree with the full reader."""
from checks.gdscommon import same, nontrivial, classify  # noqa
CONFIG = {
    "manifest": {'level_text': 'Theorem filter_commutes: for EVERY byte stream and tag set, loading with a tag filter equals loading everything and discarding other tags (order included), by simulation on the reader model; theorem that the loader ignores the timestamp words; prefix theorems for the unit/timestamp queries. gds_info, filtered loads and timestamp rewriting are compared with their extracted models on every generated file, and every clause (summary vs load, units, target unit, raw-cell transplant, timestamp locality) is decided on the implementation by oracles.', 'level_note': 'info_agrees (summary counts = full load) and the target-unit / raw-cell clauses are decided per run by oracles, not yet by theorems.', 'technique': 'Coq proof (simulation for the tag filter) + extracted-model differential run + implementation-level oracles'},
    "prop_file": "Properties_C17",
    "extract_file": "Extract_Gds",
    "extracted": ["gds"],
    "driver": "gds",
    "harness": "gds",
    "kinds": "info,filter,unit,raw,ts",
    "rule": ("per random gdstk-written file: info = gds_info versus gds_info_model and versus the full load (names, counts, tag sets, "
             "units; gds_units, gds_timestamp); filter = read_gds with a tag set versus read_gds_model with the same set, and versus "
             "load-then-discard computed by gdstk; unit = load with a target unit versus native load rescaled; raw = raw cells of a "
             "random subset of cells re-emitted through GdsWriter load as they load from the original; ts = gds_timestamp rewrite "
             "changes only the 24 bytes after BGNLIB/BGNSTR headers (versus rewrite_ts model) and the file loads the same. "
             "non-trivial: payload longer than 120 characters"),
    "trusted": ["unit rescaling and raw-cell transplant are decided by the property oracle on the implementation only (no theorem)"],
    "assumptions": [],
}
