"""C01 — GDSII save/load round trip."""
from checks.gdscommon import same, nontrivial, classify  # noqa
CONFIG = {
    "manifest": {'level_text': "Coq theorem gds_roundtrip (closed under the global context): for EVERY well-formed library on the database grid (any number of cells, polygons of any length incl. multi-record XY, simple paths with every end type, references incl. AREF lattices with reflection / rotation, labels, GDSII properties) read_gds_model (write_gds_model L) = canon L, where the reader model mirrors the full record switch of read_gds with its mutable state and the writer model mirrors Library::write_gds / Cell::to_gds / the element writers / properties_to_gds; framing, field codecs (big-endian two's complement, byte swapping by data type), string padding, the closing vertex and property order are all inside the theorem. Both models are tied to /repo on every run: writer bytes compared byte for byte with Library::write_gds, reader dumps compared with read_gds, record codes regenerated from gdsii.hpp; and the property itself is decided on the implementation by a round-trip oracle (load(save L) = canon L, units kept, second cycle stable).", 'level_note': 'Repetition expansion, rounding to the grid and the AREF-or-SREFs decision of Reference::to_gds are modelled in coq/GdsLower.v (over exact rationals; rotation enters as an exact (cos, sin) pair, the 1e-12 parallelism test is evaluated exactly on squared quantities) with lower_roundtrip, the count and denotation theorems of Properties_C01L.v; three clauses are refuted there and recorded as known findings (AREF corners rounded instead of instances when the lattice is off the grid, a skew below the parallelism tolerance lost in an AREF, COLROW above 32767 written unsigned and read signed); MAG/ANGLE are carried as 8-byte real patterns (C19). canon reverses the property list order (the reader prepends). Non-simple paths and vertex limits are decided under C07/C08/C12.', 'technique': 'Coq round-trip theorem over Gallina models of the GDSII reader and writer + byte-for-byte / dump-for-dump differential run + round-trip oracle'},
    "prop_file": "Properties_C01",
    "extra_prop_files": ["Properties_C01L", "Properties_C01G"],   # lowering model (GdsLower.v): repetition expansion, AREF-or-SREFs decision, rounding to the grid
    "units": [
        {"harness": "gds", "driver": "gds", "extracted": ["gds"], "extract_file": "Extract_Gds", "kinds": "wr,rd,rt,gw"},
        # records written by Library::write_gds for elements WITH repetitions, off-grid coordinates, rotated references versus
        # the lowering model composed with the writer model; placements after re-load versus the exact expectation
        {"harness": "c01_lower", "driver": "c01_lower", "extracted": ["c01_lower"], "extract_file": "Extract_C01_lower", "module": "checks.c01_lower", "thorough_seeds": 1},
        # PATH records of non-trivial paths: the C07 / C08 harnesses' `gds` cases (a simple FlexPath / RobustPath element written by
        # write_gds and re-loaded must keep centre line, width (incl. width_scale after magnification) and end type)
        # the floating-point step between the user's doubles and the integer grid: scaling = unit / precision, lround, the stored
        # UNITS reals, factor * k on load, second-cycle stability - written integers and re-loaded doubles against coq/GridRound.v
        {"harness": "grid_round", "driver": "grid_round", "extracted": ["grid_round"], "extract_file": "Extract_GridRound", "module": "checks.grid_round", "kinds": "gw,gr", "thorough_seeds": 1},
        {"harness": "c07_flexpath", "kinds": "gds,crash", "thorough_seeds": 1},
        {"harness": "c08_robustpath", "kinds": "gds,crash", "thorough_seeds": 1},
    ],
    "rule": ("unit gds: random libraries on the integer grid (1-4 cells, polygons, simple paths with all end types, labels, references "
             "by cell / by name incl. absent targets, every repetition kind, GDSII properties): kind wr = bytes of "
             "Library::write_gds versus write_gds_model on the expanded write plan (byte for byte); rd = canonical grid dump of "
             "read_gds versus read_gds_model on the same bytes; rt = the property decided by gdstk alone (load(save(L)) = canon L, "
             "unit / precision kept, second cycle changes nothing). units c07_flexpath / c08_robustpath (kinds gds only): the PATH record written for each element of a random simple FlexPath / RobustPath (all construction calls, tapers, transformations, magnification) re-loads with the element's centre line, width and end type (oracle on the implementation; no model line). non-trivial: payload longer than 120 characters; "
             "distinct = distinct (kind, payload)"),
    "trusted": ["unit gds: the write plan (repetition expansion through Repetition::get_offsets, AREF-or-SREFs decision by exact integer "
                "reasoning in harness/gdsdump.hpp) is computed by the harness; unit c01_lower decides the same step with the Coq lowering model",
                "non-simple paths and the vertex-limit clause are decided under C07/C08/C12, not here"],
    "assumptions": ["coordinates fit 32 bits, tags in 0..32767, ASCII strings (the property's own preconditions)"],
}
