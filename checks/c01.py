"""C01 — GDSII save/load round trip."""
from checks.gdscommon import same, nontrivial, classify  # noqa
CONFIG = {
    "manifest": {'level_text': 'Gallina models of read_gds (full record switch with its mutable state) and of the GDSII writers on the database grid; proved so far: framing inverts record emission for every legal record, and the source-derived record-code obligation; the writer model is compared byte for byte with Library::write_gds and the reader model dump for dump with read_gds on every generated library, and the property itself (load(save L) = canon L, stable under further cycles) is decided on the implementation by an oracle whose expectation is built independently from the write plan.', 'level_note': 'The end-to-end theorem read_gds_model (write_gds_model L) = canon L is under construction (see DESIGN.md); until it lands the round trip is established per run, not for all libraries. Repetition expansion / AREF selection are computed by the harness (exact integer reasoning), not by the Coq model. Non-simple paths and vertex limits: C07/C08/C12.', 'technique': 'Coq models of GDSII reader and writer + byte-for-byte / dump-for-dump differential run + round-trip oracle'},
    "prop_file": "Properties_C01",
    "extract_file": "Extract_Gds",
    "extracted": ["gds"],
    "driver": "gds",
    "harness": "gds",
    "kinds": "wr,rd,rt",
    "rule": ("random libraries on the integer grid (1-4 cells, polygons, simple paths with all end types, labels, references "
             "by cell / by name incl. absent targets, every repetition kind, GDSII properties): kind wr = bytes of "
             "Library::write_gds versus write_gds_model on the expanded write plan (byte for byte); rd = canonical grid dump of "
             "read_gds versus read_gds_model on the same bytes; rt = the property decided by gdstk alone (load(save(L)) = canon L, "
             "unit / precision kept, second cycle changes nothing). non-trivial: payload longer than 120 characters; "
             "distinct = distinct (kind, payload)"),
    "trusted": ["the write plan (repetition expansion through Repetition::get_offsets, AREF-or-SREFs decision by exact integer "
                "reasoning in harness/gdsdump.hpp) is computed by the harness, not by the Coq model",
                "non-simple paths and the vertex-limit clause are decided under C07/C08/C12, not here"],
    "assumptions": ["coordinates fit 32 bits, tags in 0..32767, ASCII strings (the property's own preconditions)"],
}
