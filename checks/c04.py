"""C04 - OASIS agrees with the specification (specification-level Coq model, both directions)."""
CONFIG = {
    "manifest": {'level_text': 'Same specification-level model as C02. Converse direction: every file gdstk writes (all option sets, CBLOCKs inflated by the harness) is decoded by the extracted strict decoder spec_oas_decode and must equal the dump of the library that was saved (property-level comparison with the file as failing input); END-record truth (length 256, table offsets, S_CELL_OFFSET, S_TOP_CELL, S_BOUNDING_BOX, S_MAX_*) is checked on the bytes. Forward direction: an independent specification-level random encoder (modal reuse vs explicit fields for every info-byte bit, XYRELATIVE, all repetition / point-list / real types, all 26 compact trapezoids, names inline or through tables placed before or after use, PAD, CBLOCK) produces files that read_oas must load to the layout the strict decoder assigns. Theorems: ctrapezoid_table_matches_spec (regenerated from the source on every run), table well-formedness for all 26 types and all w, h, detection soundness, per-record and whole-file round trips of the specification codec. READER MODEL: Statement-level Gallina model read_oas_model (coq/OasisRead.v) of gdstks read_oas on uncompressed byte streams: header / START, the record switch 0-34 with every modal variable the C++ keeps (never reset at CELL except positions and xy-mode), name tables with implicit / explicit numbers, next_property targets, references and unfinished property names / values resolved at END, sticky stream errors with the values the helpers return after a failure, undefined behaviour as Crash. Theorem oas_reader_accepts_spec_partial (closed under the global context): for EVERY byte stream bs, spec_oas_decode bs = Some L and covered bs imply read_oas_model bs = Ok (view L), where covered bs := cov_oas_decode bs <> None and cov_oas_decode is a restriction of the strict decoder (cov_refines_spec) by the conditions (c1)-(c8) listed in OasisRead.v. Per-record theorems reader_rectangle / polygon / path / trapezoid / ctrapezoid / circle / text / placement / property / last_property relate every covered dec_<record> to the readers branch through modal_rel; reader_repetition, reader_point_list, reader_end for the helpers and the END resolution. The unrestricted statement is refuted by nine explicit witnesses (oas_reader_accepts_spec_refuted_*), each confirmed on the real reader.', 'level_note': " The specification model is a transcription made without the format document at hand; disagreements are triaged against gdstk's reader AND writer before being called defects. Known findings: S_TOP_CELL ignores Name-typed references; S_MAX_STRING_LENGTH ignores inline placement names. The reader model is tied to the code by the differential run only (identical dump text on valid and malformed streams) and by the regenerated CTRAPEZOID table / enum constants. Where the model says Crash the C++ has undefined behaviour and the comparison accepts any implementation result; Hang / Crash from memory exhaustion use fixed thresholds (allocation of 2^36 bytes fails, 2^26 failing iterations do not finish). CBLOCK is outside the model.", 'technique': 'Coq theorems on the specification-level OASIS codec (table equality re-proved from the source each run) + extracted strict decoder as oracle on gdstk-written files + independent encoder against read_oas'},
    "prop_file": "Properties_C04",
    "extra_prop_files": ["Properties_C04R", "Properties_C02", "Properties_C02C", "Properties_C02D", "Properties_C04S"],   # statement-level models of read_oas / write_oas and their theorems
    "units": [
        {"harness": "c04", "driver": "c04", "extracted": ["c04"], "extract_file": "Extract_C04",
         "include_cpp": ["polygon.cpp"],   # static is_rectangle / is_trapezoid, reached by #include in the harness
         "expect_model": False,            # this driver prints specification-level results (S) only
         "thorough_seeds": 1},
        # read_oas against its statement-level Coq model (coq/OasisRead.v), valid and malformed streams
        {"harness": "c04r", "driver": "c04r", "extracted": ["c04r"], "extract_file": "Extract_C04R", "module": "checks.c04r",
         "thorough_seeds": 1},
        # Library::write_oas against its statement-level Coq model, byte for byte (oas_writer_conforms: the converse direction)
        {"harness": "c04w", "driver": "c04w", "extracted": ["c04w"], "extract_file": "Extract_C04W", "module": "checks.c04w",
         "thorough_seeds": 1},
        # standard properties (S_MAX_*, S_TOP_CELL, S_BOUNDING_BOX, S_CELL_OFFSET): write_oas under the 16 flag combinations, written
        # twice, byte for byte against OasisStd.v; every stated value against integer truth from the abstract layout
        {"harness": "oas_std", "driver": "oas_std", "extracted": ["oas_std"], "extract_file": "Extract_OasStd", "module": "checks.oas_std", "thorough_seeds": 1},
        # compressed blocks: read_oas with CBLOCK records against read_oas_model_c (inflate as a finite table), write_oas at
        # deflate level > 0 against write_oas_model_c
        {"harness": "oas_cblock", "driver": "oas_cblock", "extracted": ["oas_cblock"], "extract_file": "Extract_OasCblock", "module": "checks.oas_cblock", "thorough_seeds": 1},
    ],
    "rule": ("cases: (a) kind gdstk - libraries drawn as for C02 (without the input classes of known defects) saved by write_oas "
             "under option words walking through all 256 flag combinations, deflate levels 0-9 (CBLOCKs inflated and spliced by "
             "the harness), circle tolerance 0 or 1-3 grid steps; the extracted spec_oas_decode decodes the bytes and its layout "
             "dump (S) must equal the dump of the library that was saved (I); END record, table offsets, validation scheme and "
             "standard properties are checked against the record scan of the file (P). (b) kind spec - files from the "
             "specification-level random encoder of harness/oas_encoder.hpp (modal reuse vs explicit field for every info-byte "
             "bit, XYRELATIVE, repetition types 0-11, point-list types 0-5, real types 0-7, all record kinds and the 26 compact "
             "trapezoids, names inline or through tables with implicit / explicit numbering placed before or after use, PROPERTY "
             "/ LAST_PROPERTY with modal name and values, PAD, CBLOCK, offsets in START or END, validation 0/1/2) loaded by "
             "read_oas (I), decoded by spec_oas_decode (S) and compared with the encoder's own expectation (P). (c) kind detect - "
             "is_rectangle / is_trapezoid of polygon.cpp on 3 / 4 integer points (compact-trapezoid shapes in every rotation and "
             "orientation, random points on a 7x7 / 15x15 grid, forced parallel sides) against the extracted model OasisDetect.v (M). Non-trivial: "
             "every case (each file has at least a START, one CELL and an END record); distinct = distinct byte strings"),
    "trusted": ["harness/oas_scan.hpp record scanner (CBLOCK splicing, END fields)", "harness/oas_encoder.hpp",
                "ocaml/c04_driver.ml: canonical dump of the decoded layout (text formatting, sorting, double conversion of reals)"],
    "assumptions": ["stage 1+2 of DESIGN section 5: CBLOCK is handled by the harness (inflate + splice), XNAME/XELEMENT/XGEOMETRY "
                    "are outside the decoder", "round-trip theorems cover stage 1 (inline names, no properties); name tables and "
                    "properties are covered by the differential runs only"],
    "thorough_seeds": 1,
}


import collections
import math


def _hx(t):
    return -int(t[1:], 16) if t.startswith("-") else int(t, 16)


def _circle_match(impl, model):
    """The writer may store a polygon as a CIRCLE record when circle detection is on (tolerance CTOL grid steps): the decoded
    file then says `circle cx cy r` where the saved library has the vertices.  Returns (True, None) when every such pair is
    within 1.25 x tolerance + 2.3 grid steps (vertices and edge midpoints against the circle), (False, 'circle') when one is
    farther (circle detection accepted a non-circle), (False, None) for any other difference."""
    impl = impl.strip()
    model = model.strip()
    ctol = 0
    k = impl.rfind(" ;; CTOL ")
    if k >= 0:
        ctol = _hx(impl[k + 9:].strip())
        impl = impl[:k]
    if impl == model:
        return True, None
    if ctol <= 0:
        return False, None
    ci = collections.Counter(impl.split(" ;; "))
    cs = collections.Counter(model.split(" ;; "))
    only_i = list((ci - cs).elements())
    only_s = list((cs - ci).elements())
    if len(only_i) != len(only_s) or not only_i:
        return False, None
    T = 1.25 * ctol + 2.3
    verdict = True
    for ls in only_s:
        ps = ls.split("|")
        if len(ps) != 4 or not ps[0].startswith("POLY ") or not ps[1].startswith("circle "):
            return False, None
        cx, cy, r = [_hx(t) for t in ps[1].split()[1:4]]
        cand = [li for li in only_i if li.split("|")[0] == ps[0] and li.split("|")[2:] == ps[2:]]
        best = None
        for li in cand:
            w = li.split("|")[1].split()
            if not w or w[0] == "circle":
                continue
            v = [_hx(t) for t in w[1:]]
            pts = list(zip(v[0::2], v[1::2]))
            dev = 0.0
            for a in range(len(pts)):
                x0, y0 = pts[a]
                x1, y1 = pts[(a + 1) % len(pts)]
                for (x, y) in ((x0, y0), ((x0 + x1) / 2.0, (y0 + y1) / 2.0)):
                    dev = max(dev, abs(math.hypot(x - cx, y - cy) - r))
            if best is None or dev < best[0]:
                best = (dev, li)
        if best is None:
            return False, None
        only_i.remove(best[1])
        if best[0] > T:
            verdict = False
    return (True, None) if verdict else (False, "circle")


def same(kind, impl, model):
    if kind == "gdstk":
        return _circle_match(impl, model)[0]
    return impl.strip() == model.strip()


def nontrivial(kind, payload, r):
    return True


def classify(kind, payload, r, m):
    if kind == "gdstk" and "I" in r and "S" in m and _circle_match(r["I"], m["S"])[1] == "circle":
        return "is_circle:edges-unchecked"
    return "oas-spec-" + kind
