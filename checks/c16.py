"""C16 — library edits keep the cell graph consistent."""
CONFIG = {
    "manifest": {
        "level_text": "Coq theorems, closed under the global context, by induction over arbitrary operation lists from the empty library: the well-formedness invariant (live identities, unique names within and across the two cell arrays, acyclic) is preserved by every add / remove / rename / replace (4 overloads) / remap / copy operation meeting an explicit contract; rename keeps every reference resolving to the same cell identity; replace retargets exactly the references that resolved to the old cell, leaves no reference to it and changes nothing else; top_level is exactly the members no member references (for pointer-closed libraries); the dependency queries return the direct set resp. the transitive closure (fuel bound proved from acyclicity); tag queries and remap are characterised. The model mirrors the C++ matching rules (by pointer for the kind being replaced, by name for the other kind) and runs, extracted, against the real Library on random histories with every array, every reference and every query dumped after each operation.",
        "level_note": "Eight clauses of the property as written are refuted by witnesses (vm_compute) that replay identically on the real code; they are recorded as known findings: by-name references are ignored by top_level / dependencies, top_level is name-keyed, replace_cell matches the other kind by name, RawCell::dependencies are never retargeted, a cell replaced by a wrapper of itself becomes self-referential, Library::copy_from(deep) keeps reference targets in the source library, rename_cell of a non-member / onto an existing name is accepted silently.",
        "technique": "Coq invariant-by-induction proofs over a Gallina model of the library edit operations + extracted-model differential run on random histories",
    },
    "prop_file": "Properties_C16",
    "extract_file": "Extract_C16",
    "extracted": ["c16"],
    "driver": "c16",
    "harness": "c16",
    "thorough_seeds": 1,
    "rule": ("random histories (<= 40 ops) over libraries of 2-7 cells with shared sub-cells, by-name references to present and absent "
             "cells and raw cells (half from write_gds + read_rawcells): rename (both overloads), replace (4 overloads), remap_tags, add / "
             "remove, deep copy, interleaved with top_level / dependency / tag queries; after every operation all arrays, references and "
             "query results are dumped as canonical text. About 55% of the histories stay inside the proved contract and carry a property "
             "oracle; the rest are arbitrary (collisions, cycles, non-members). About one history in four starts with a raw-cell dependency "
             "chain 3 or 4 deep (hand-made or loaded from a GDSII file) whose head is referenced by one cell, that cell by a second and the "
             "second by a third (chain seen directly, through one and through two levels of Cell references). On the initial library and "
             "after every operation an independent dependency oracle recomputes, from the pointer graph in memory (reference_array by "
             "pointer or by member name, RawCell::dependencies; own work-list traversal, no gdstk query), the direct and transitive sets of "
             "cells and raw cells of every member and compares them with Cell::get_dependencies, Cell::get_raw_dependencies, "
             "RawCell::get_dependencies (both flags; recursive queries skipped on cells reaching a reference cycle) and Library::top_level: a "
             "difference is filed under a recorded finding only when withdrawing that cause from the expectation (no by-name edges / one "
             "object per name) makes the sets equal, otherwise under dependencies:wrong-set / top_level:wrong-set with the history. "
             "non-trivial: at least 5 operations"),
    "trusted": ["cell identities are creation indices (pointer -> id table in the harness)"],
    "assumptions": [],
}


def same(kind, impl, model):
    return impl.strip() == model.strip()


def nontrivial(kind, payload, r):
    return payload.count(";") + payload.count("|") >= 5


def classify(kind, payload, r, m):
    return kind + "-vs-spec"
