def same(kind, impl, model):
    return impl.strip() == model.strip()


def nontrivial(kind, payload, r):
    return len(payload.split()) >= 12


def classify(kind, payload, r, m):
    s = m.get("S", "")
    w = s.split()
    return kind + "-" + (w[1] if len(w) > 1 and w[0] == "bad" else "vs-spec")
