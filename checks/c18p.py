"""C18P - statement-level Coq model of oas_precision tied to the real function on every prefix; to be merged into C18."""
CONFIG = {
    "manifest": {'level_text': "Statement-level Gallina model oas_precision_model (coq/OasisPrecision.v) of gdstk's oas_precision on the byte stream of the file: 14 header bytes, oasis_read_string for the version (NULL / shorter than 3 / not starting with 1.0 => InvalidFile), precision = 1e-6 / oasis_read_real with Flocq binary64 operations, the sticky stream error code; the stream primitives are those of the read_oas model (OasisRead.v). Theorems for EVERY byte stream below 2^33 bytes and EVERY cut: oas_precision_prefix (a cut gives an error code or exactly the value of the complete file), oas_precision_threshold (errors below the end of the unit real of START, the value from there on), oas_precision_prefix_total (no cut crashes or hangs); proved for any function of the unit (oas_precision_gen_threshold, closed under the global context; the instance with the binary64 division depends on the axioms of the Coq reals through Flocq only). 'Returns normally on ANY input' is refuted (oas_precision_total_refuted: a version string whose declared length cannot be allocated makes oasis_read_string pass NULL to fread) and proved when the declared length is below 2^33 (oas_precision_total_partial).", 'level_note': "The model is tied to the code by the all-prefix differential run (identical run-length encoded status lists). The 2^33-byte bound is the model's convention for an allocation that may fail; memory errors and descriptor leaks stay run-time observations of harness/c18.cpp.", 'technique': 'Coq proof (prefix / threshold theorem of the oas_precision model for all streams and cuts) + all-prefix differential run of the extracted model against oas_precision'},
    "prop_file": "Properties_C18P",
    "extract_file": "Extract_C18P",
    "extracted": ["c18p"],
    "driver": "c18p",
    "harness": "c18p",
    "rule": ("one case per file; oas_precision runs on EVERY prefix length 0..size in forked children with an alarm (I: run-length "
             "encoded statuses ok <bits of the double> / ok nan / invalid / eof / overflow / crash / hang), the extracted "
             "oas_precision_model on the same prefixes (M, same text). kinds: gdstk = files written by write_oas for 12 unit / "
             "precision pairs, random option words and deflate levels; start = START records with every real type 0-7 for the "
             "unit (random 64-bit integers, reciprocals, ratios, float32 and float64 patterns incl. zero, negative, infinite, "
             "NaN; padded unsigned integers; version strings longer than 3 bytes starting with 1.0) followed by random bytes; "
             "odd = wrong magic byte / START byte, other versions, string length at odds with the bytes, invalid real types, "
             "11-byte integers; bigstr = declared version length 2^40. P: err* then a single ok value, no crash / hang (except "
             "bigstr). Non-trivial: files longer than the 14-byte header; distinct = distinct byte strings"),
    "trusted": ["harness/c18p.cpp status text and sweep (fork, alarm, resume after a crash)",
                "ocaml/c18p_driver.ml: prefixes, run-length encoding, NaN test on the bit pattern"],
    "assumptions": ["a truncated file is a prefix of the complete file", "NaN results are compared as 'ok nan' (payload and sign "
                    "of a NaN are not modelled)", "an allocation of 2^33 bytes or more may fail (model: Crash when the bytes of "
                    "such a string are not all there)"],
    "thorough_seeds": 1,
}


def same(kind, impl, model):
    return impl.strip() == model.strip()


def nontrivial(kind, payload, r):
    return len(payload.split(" ")[-1]) > 29


def classify(kind, payload, r, m):
    return "oas-precision-" + kind
