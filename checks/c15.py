"""C15 — curves and shape primitives stay within tolerance (Tier B)."""
CONFIG = {
    "manifest": {
        "level_text": "Coq theorems for ALL inputs. Over the reals: with the number of chords arc_num_points prescribes (or more) every point of a circular arc of any radius, span (any sign, beyond a full turn) and tolerance (including tolerance >= 2 radius) is within 4 tol of the chord of its own angular step (arc_sagitta_bound, with 1 - cos 2a <= 4 (1 - cos a) and the chord deviation r (cos phi - cos d)); the clamped Bezier step angle is always defined and its clamp condition is the rational inequality cross^2 tol^2 > 4 |dc|^6; the two-point acceptance test of append_cubic bounds a cubic piece by 3.2 tol. Over the rationals, closed under the global context: de Casteljau = Bernstein form, end points at t = 0, 1; the statement-level model of Curve's bookkeeping (every call kind, relative and absolute, any sequence, commands) makes every section start at the current point, end at the requested point and leaves last_ctrl equal to the penultimate control point that a following smooth section reflects; the integer point-segment distance test is exact and scale invariant; rectangle and cross have exactly the documented vertices. Tier B: the deviation of the implementation's own polylines is validated per run, not proved: its vertices (exact dyadic rationals) are checked to lie on the exact curve in order and the exact curve is checked to stay within K tol of each chord (K = 4 arcs/ellipses/racetracks/cubics/general Bezier, 2 quadratics, 7 fillets) by the extracted integer oracles at up to 64 points per chord.",
        "level_note": "Axioms under the real-number theorems (standard library only): ClassicalDedekindReals.sig_forall_dec, ClassicalDedekindReals.sig_not_dec, FunctionalExtensionality.functional_extensionality_dep, Classical_Prop.classic (arc_sagitta_bound); all rational/integer theorems are closed. Not proved: floating-point rounding, libm, hobby_interpolation (its control points are taken from the library; the routine itself and gauss_jordan_elimination are modelled in coq/Hobby.v over an abstract carrier - gauss_jordan_solves / _singular / _result over any field, the assembled systems are exactly the turning and mock-curvature equations of the algorithm, constrained knots get exactly the requested direction, all conditional on no elimination skipping a column - and tied bit for bit through the binary64 instance, unit c15_hobby), the deviation of polynomial sections (sampled, classes with control directions within a quarter turn only) ; elliptical arcs ARE covered (EllipseBound.v: with the chord count of Curve::arc / ellipse() - parametric span, larger radius - every point of the ellipse, any radii > 0 / span / axis rotation / tolerance, is within 4 tol of the chord of its parameter step, by the affine contraction from the circle of the larger radius; same four real-number axioms); negative radii are outside the theorem (the count is then taken from the signed values: arc(-10, 1, 0, pi, 0) at tolerance 0.01 gives 11 chords and deviates 5.9 tol - noted, not generated). The deviation test runs on a grid of tol*2^-12 with a 4-unit guard (K tol (1 + 0.001/K)). Known findings kept: bezier() with a single point crashes, fillet keeps a spike corner far from its arc.",
        "technique": "Coq proofs (Reals for the sagitta bound, Q/Z for Bezier evaluation, section bookkeeping and the distance oracle) + per-run validation of the implementation's vertices by exact oracles extracted from Coq (Tier B: proved glue and oracle, sampled numeric kernel)",
    },
    "prop_file": "Properties_C15",
    "extra_prop_files": ["Properties_C15H", "Properties_C15E"],   # gauss_jordan_elimination and hobby_interpolation (Hobby*.v)
    "units": [
        {"harness": "c15", "driver": "c15", "extracted": ["c15"], "extract_file": "Extract_C15", "thorough_seeds": 2},
        # the control points of interpolation(): gauss_jordan_elimination and hobby_interpolation against their binary64 model,
        # bit for bit (libm atan2 / sin / cos as per-case tables recorded from the calls themselves)
        {"harness": "c15_hobby", "driver": "c15_hobby", "extracted": ["c15_hobby"], "extract_file": "Extract_C15H", "module": "checks.c15_hobby", "include_cpp": ["utils.cpp"], "thorough_seeds": 1},
    ],
    "thorough_seeds": 2,
    "rule": ("cases: the regression inputs of the fixed defects F11/F12/F17 first, then seeded random curves (start point, tolerance 1e-6..10 of the "
             "feature size, 1-4 construction calls of every kind: segment(s), horizontal(s), vertical(s), cubic, cubic_smooth, "
             "quadratic, quadratic_smooth (single/array), bezier with 2..8 points, interpolation, arc (circular/elliptical, any "
             "rotation, span of any sign up to two turns), turn, parametric, and the same curve through Curve::commands; control "
             "points from the classes fan/random/collinear/near-collinear/coincident/hairpin/tiny/loop; relative and absolute), one "
             "case per call; then rectangle, cross, regular_polygon, ellipse (full/ring/slice/ring-slice), racetrack, single-corner "
             "Polygon::fillet; then whole-polygon Polygon::fillet: the fixed inputs (10 x 2 rectangle with radius 3 in both "
             "orientations at tolerance 1e-2 / 1e-3, a per-vertex array with zeros, the hexagon whose fillet is its inscribed circle, "
             "polygons with a repeated last vertex) and 240 (thorough 5000) seeded polygons: axis rectangles (square, 5:1, 1:5, long "
             "thin, random), rotated rectangles, regular polygons, convex polygons in an ellipse, L / plus / U shapes, stars and "
             "star-shaped polygons (reflex corners, adjacent reflex corners), both orientations, any start vertex, tolerance 1e-2 or "
             "1e-3 of the feature size, radii below / exactly at / above what fits at a corner (half the shorter edge, between, half "
             "the longer edge, above, 10-100x, of the order of the tolerance) given as one value, one value per vertex (with zeros, "
             "first and last different) or a shorter cycled array. Every fillet result is decided from the arguments alone: per corner "
             "r_eff = min(R, (min(l_in, l_out) - tol) / (2 tan(theta/2))), tangent points, centre, vertices on that circle between the "
             "tangent directions, runs of neighbouring corners apart along the edge, sagitta <= 7 tol (one-point corners: finding "
             "fillet:deviation), radius 0 / straight corners kept; convex input: result inside it; result simple; area = original "
             "-/+ corner cut-offs (three cases per polygon: corners, global, one run as an arc for the driver). "
             "A case is non-trivial when the call appended at least two vertices; distinct = distinct payload"),
    "trusted": ["harness computes the documented end points / last_ctrl with the same double operations as the C++ and searches "
                "the vertex parameters numerically (long double); the driver verifies them with the extracted integer de Casteljau",
                "the deviation test runs on a working grid of tol*2^-12 with a guard of 4 units (K*tol*(1+1e-3/K))",
                "hobby_interpolation (control points of Curve::interpolation) is taken from the library itself"],
    "assumptions": ["libm cos/sin/atan2/acos are accurate to a few ulp (arc vertices are compared with the exact ellipse within 1e-7)"],
    "validation_note": "Tier B: deviation of the implementation's polylines is validated per run by sampling the exact curve; "
                       "arc_sagitta_bound, section_endpoints, de Casteljau = Bernstein and the distance test are theorems",
}


def _parse_state(txt):
    # "n0=<b> E=<x> <y> C=<x> <y>"  (hex integers on the 2^-40 grid, or nan)
    w = txt.replace("E=", "E= ").replace("C=", "C= ").split()
    if len(w) != 7 or not w[0].startswith("n0="):
        return None
    vals = []
    for t in (w[2], w[3], w[5], w[6]):
        if t == "nan":
            vals.append(None)
        else:
            vals.append(int(t, 16))
    return w[0], vals


def same(kind, impl, model):
    impl = impl.strip()
    model = model.strip()
    if model.startswith("S:"):
        # specification-level verdict of the driver about the implementation's vertices
        return not model.startswith("S:FAIL")
    if impl == model:
        return True
    if impl == "nanlater":
        # a NaN vertex after the first step: reported by the P line (finding F11); the model only
        # predicts the NaN of the very first step
        return True
    if model == "arc *":
        return impl.startswith("arc ")
    a, b = _parse_state(impl), _parse_state(model)
    if a is None or b is None:
        return False
    if a[0] != b[0]:
        return False
    if a[0] == "n0=1":
        # the implementation's end point is NaN; last_ctrl must still agree
        pairs = list(zip(a[1][2:], b[1][2:]))
    else:
        pairs = list(zip(a[1], b[1]))
    for x, y in pairs:
        if x is None or y is None:
            return False
        # the implementation rounds ref + p, 2*p - c; the model is exact: a few ulps of the coordinate,
        # far below one part in 2^-30 of it and never more than 2 grid units for |coordinate| < 2^12
        if abs(x - y) > 2 + (abs(x) >> 44):
            return False
    return True


def nontrivial(kind, payload, r):
    data = payload.split("|", 1)[-1]
    return len(data.split()) > 24


def classify(kind, payload, r, m):
    s = m.get("S", "")
    if s.startswith("S:FAIL "):
        return s.split()[1]
    return kind + "-vs-spec"
