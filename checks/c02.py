"""C02 - OASIS save/load round trip under every writer option (decided on the implementation by gdstk's own reader)."""
CONFIG = {
    "manifest": {'level_text': 'MODEL LEVEL (Properties_C02.v): oas_writer_conforms - for EVERY well-formed library of the covered subset (polygons, simple FlexPaths with flush / half-width / extended ends, labels, references by number or name with every transform, every repetition type, user properties with name / string interning, CELLNAME / TEXTSTRING / PROPNAME tables in gdstks hash-map slot order, END record; with and without S_CELL_OFFSET) the statement-level model write_oas_model of Library::write_oas emits a file that the strict decoder accepts and that decodes to the saved library; oas_models_roundtrip - composed with oas_reader_accepts_spec_partial (statement-level model read_oas_model of read_oas), loading what was saved returns the library, UNCONDITIONALLY for every well-formed library of the covered subset with 32-bit tags and fewer than 2^31 vertices / 2^26 names (oas_models_roundtrip_full; writer_output_covered shows that what the writer model emits always lies in the class on which the reader theorem holds: minimal encodings, PROPERTY records only after START / elements / CELLNAME, distinct cell numbers); S_CELL_OFFSET values point at the CELL records; the written repetition denotes the saved offsets. write_oas_model is compared BYTE FOR BYTE with the real writer, read_oas_model dump for dump with the real reader (C04), on every run. The OASIS-real encoder brings in the four standard-library axioms Flocq depends on. SPECIFICATION LEVEL: Theorems (closed under the global context) on a specification-level Gallina model of the OASIS element records: spec_oas_decode (spec_oas_encode choices L) = Some L for every well-formed layout, every modal-variable / explicit-field choice and XY mode, with one round-trip theorem per record kind (RECTANGLE, POLYGON, PATH, TRAPEZOID x3, CTRAPEZOID, CIRCLE, TEXT, PLACEMENT x2), all repetition types and point lists; rectangle and trapezoid DETECTION (the statement-level model of the static is_rectangle / is_trapezoid, compared with the real functions on 20k+ polygons per run) is proved sound: whatever record the writer selects decodes to the same vertex cycle; the generated CTRAPEZOID table of read_oas equals the specification table on every run. The round trip through the real Library::write_oas / read_oas under all option words, compression levels and repeated cycles is decided on the implementation by an oracle (canonical grid dumps, signature validation, circle tolerance).', 'level_note': "The statement-level models write_oas_model / read_oas_model cover the subset named above (compression level 0, validation scheme 0, no detection flags, no RobustPath / non-simple path outlines); for everything outside that subset - compressed blocks (zlib), signatures (crc32 / checksum32), rectangle / trapezoid / circle detection flags in the writer, outline polygons of non-simple paths - 'load(save L) = canon L' for the real reader and writer is established per run by the oracle, not by a theorem. Known findings (recorded): negative ExplicitX/Y coordinates written as unsigned; a one-grid-step path segment is merged away on the second cycle; circle detection far from the origin. Five defects were repaired by fix: commits.", 'technique': 'Coq round-trip theorems on a specification-level OASIS model + proved shape-detection soundness + implementation-level round-trip oracle over all writer options'},
    # model level: write_oas_model / read_oas_model and their composition; the specification-level theorems are shared with C04
    "prop_file": "Properties_C02",
    "extra_prop_files": ["Properties_C04", "Properties_C02C", "Properties_C02D", "Properties_C18S", "Properties_C01G"],   # + compressed blocks (OasisCblock*.v), signatures (OasisSig.v)
    "units": [
        {"harness": "c02", "thorough_seeds": 2},
        # Library::write_oas against its statement-level Coq model, byte for byte (uncompressed, covered subset)
        {"harness": "c04w", "driver": "c04w", "extracted": ["c04w"], "extract_file": "Extract_C04W", "module": "checks.c04w",
         "thorough_seeds": 1},
        # compression: read_oas on files with CBLOCKs (written by write_oas at levels 1-9, hand-encoded, damaged) against
        # read_oas_model_c, write_oas at level > 0 against write_oas_model_c byte for byte (zlib as finite tables)
        {"harness": "oas_cblock", "driver": "oas_cblock", "extracted": ["oas_cblock"], "extract_file": "Extract_OasCblock", "module": "checks.oas_cblock", "thorough_seeds": 1},
        # rounding to the grid and back in binary64 (scaling, llround, START real, factor, accumulated point lists): GridRound.v
        {"harness": "grid_round", "driver": "grid_round", "extracted": ["grid_round"], "extract_file": "Extract_GridRound", "module": "checks.grid_round", "kinds": "ow,or", "thorough_seeds": 1},
        # signatures: the signed END record of write_oas and oas_validate against OasisSig.v (crc32 / checksum32 in Coq)
        {"harness": "oas_sig", "driver": "oas_sig", "extracted": ["oas_sig"], "extract_file": "Extract_C18S", "module": "checks.oas_sig", "kinds": "wsig,end,val", "thorough_seeds": 1},
    ],
    "rule": ("cases: abstract layouts on the integer grid drawn from one seed (1-5 cells; rectangles, squares, every one of the 26 "
             "compact trapezoid shapes, general horizontal / vertical trapezoids, Manhattan, octangular, triangular and general "
             "star-shaped polygons, circles made with ellipse(); simple FlexPaths and RobustPaths with flush / half-width / "
             "extended ends; labels; references by Cell pointer, by name, to cells outside the library, quarter-turn and general "
             "rotations, magnifications, reflections; every repetition kind with negative spacings and explicit lists; user "
             "properties with unsigned / integer / real / a- b- n-string values on library, cells and elements) x option sets "
             "(quick: 120 layouts x 10 option words walking through all 256 flag combinations, random deflate level 0-9, circle "
             "tolerance 0 or 1-5 grid steps; thorough: 40 layouts x all 256 flag words x levels 0,1,6,9). Each case: write_oas, "
             "oas_validate (stored signature recomputed from the file bytes, one flipped bit must be rejected), read_oas, canonical "
             "dump compared with the dump of the abstract layout, second save of the same library, two more save/load cycles. "
             "A case is non-trivial when its layout has at least one element; distinct = distinct (layout seed, option set)"),
    "trusted": ["harness/oas_layout.hpp: abstract layout generator, builder of gdstk structures, canonical dump",
                "zlib crc32 for the independent signature computation"],
    "assumptions": ["circles: a polygon replaced by a CIRCLE record must re-load within 1.25 x circle tolerance + 2.3 grid steps "
                    "(Hausdorff distance on vertices and edge midpoints) of the original",
                    "the input classes of known defects are confined to one third (quick) / one quarter (thorough) of the layouts "
                    "so that they do not mask other differences"],
    "thorough_seeds": 2,
}


def same(kind, impl, model):
    return impl.strip() == model.strip()


def nontrivial(kind, payload, r):
    return True


def classify(kind, payload, r, m):
    return "oas-roundtrip"
