"""C02 - OASIS save/load round trip under every writer option (decided on the implementation by gdstk's own reader)."""
CONFIG = {
    # the specification-level OASIS model and its round-trip theorems are shared with C04
    "prop_file": "Properties_C04",
    "harness": "c02",
    "rule": ("cases: abstract layouts on the integer grid drawn from one seed (1-5 cells; rectangles, squares, every one of the 26 "
             "compact trapezoid shapes, general horizontal / vertical trapezoids, Manhattan, octangular, triangular and general "
             "star-shaped polygons, circles made with ellipse(); simple FlexPaths and RobustPaths with flush / half-width / "
             "extended ends; labels; references by Cell pointer, by name, to cells outside the library, quarter-turn and general "
             "rotations, magnifications, reflections; every repetition kind with negative spacings and explicit lists; user "
             "properties with unsigned / integer / real / a- b- n-string values on library, cells and elements) x option sets "
             "(quick: 120 layouts x 10 option words walking through all 256 flag combinations, random deflate level 0-9, circle "
             "tolerance 0 or 1-5 grid steps; thorough: 40 layouts x all 256 flag words x levels 0,1,6,9). Each case: write_oas, "
             "oas_validate (stored signature recomputed from the file bytes, one flipped bit must be rejected), read_oas, canonical "
             "dump compared with the dump of the abstract layout, second save of the same library, two more save/load cycles. "
             "A case is non-trivial when its layout has at least one element; distinct = distinct (layout seed, option set)"),
    "trusted": ["harness/oas_layout.hpp: abstract layout generator, builder of gdstk structures, canonical dump",
                "zlib crc32 for the independent signature computation"],
    "assumptions": ["circles: a polygon replaced by a CIRCLE record must re-load within 1.25 x circle tolerance + 2.3 grid steps "
                    "(Hausdorff distance on vertices and edge midpoints) of the original",
                    "the input classes of known defects are confined to one third (quick) / one quarter (thorough) of the layouts "
                    "so that they do not mask other differences"],
    "thorough_seeds": 2,
}


def same(kind, impl, model):
    return impl.strip() == model.strip()


def nontrivial(kind, payload, r):
    return True


def classify(kind, payload, r, m):
    return "oas-roundtrip"
