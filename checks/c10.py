"""C10 — element transforms are the documented affine maps and compose correctly."""
import re

CONFIG = {
    "manifest": {'level_text': "Coq theorems over Q (closed under the global context), with angles as exact (cos, sin) pairs: Polygon translate / scale / mirror / rotate / transform equal the stated affine maps on every vertex (mirror proved to be the reflection across the axis and unique); Reference and Label transform compose placements (rotation sign flips under reflection, magnifications multiply), for any sequence of transforms; FlexPath translate / scale / mirror / rotate / transform and RobustPath transforms move the element's centre line by the affine image for every magnification (negative included), reflection and angle, widths scale iff scale_width, offsets by +-|m|, end extensions by |m|; Repetition::transform maps every offset by the linear part. The models mirror the C++ arithmetic statement by statement and run, extracted, against the real transforms on exact-arithmetic inputs (parameter correspondence), and the property itself (transform then outline = outline then transform) is decided on outlines by a metamorphic oracle.", 'level_note': 'Over Q only (no reals, no axioms); sin/cos of doubles are inexact, so results are compared on a 2^-24 grid. Outline-level agreement is validated per run (1e-9 relative), not proved. One clause is refuted and recorded as a known finding: element transforms ignore the attached repetition (element_transform_repetition_refuted). Two defects (FlexPath::transform offsets; end extensions under negative scale) were repaired by fix: commits.', 'technique': 'Coq proofs over Q of the parameter-level affine action + extracted-model differential run + metamorphic outline oracle'},
    "prop_file": "Properties_C10",
    "units": [
        {"extract_file": "Extract_C10", "extracted": ["c10_transform"], "driver": "c10_transform",
         "harness": "c10_transform"},
    ],
    "rule": ("cases: the probes behind F7/F8 first, then seeded elements (polygon 3-8 vertices; FlexPath 2-5 spine points, 1-3 "
             "elements, offsets, width/offset tapers, flush/half-width/extended ends, both scale_width states; RobustPath 1-3 "
             "segments, 1-2 elements, linear width/offset interpolation; label; reference to a cell with a polygon), optionally "
             "carrying every kind of repetition, put through 1-6 calls of translate/scale/mirror/rotate/transform (labels and "
             "references: transform only) with magnifications {2,1/2,-1,-3/2,3,1}, both reflection states, angles k*90 degrees "
             "and Pythagorean (atan2(4,3) ...), small integer / quarter coordinates; plus Repetition::transform on every kind. "
             "Results are integers on the 2^-24 grid and compared with the extracted model allowing +-2 units (sin/cos of doubles "
             "are inexact); the property oracle (P) compares outline(ops(e)) with A(outline(e)) vertex by vertex within 1e-9 "
             "relative, A from the exact rational cos/sin. A case is non-trivial when it has at least one call whose map is not "
             "the identity; distinct = distinct (kind, payload)"),
    "trusted": ["the harness computes the promised affine map A from the rational cos/sin of the case and multiplies 2x3 matrices in doubles"],
    "assumptions": ["rotation arguments are in (-pi, pi] so that rotation == 0 exactly when (cos, sin) = (1, 0)",
                    "RobustPath outlines with more than one sub-path are compared on spine positions only (join points come from an iterative search)"],
}

_num = re.compile(r"^-?[0-9a-f]+$")
TOL = 2


def same(kind, impl, model):
    a = impl.split()
    b = model.split()
    if len(a) != len(b):
        return False
    for x, y in zip(a, b):
        if x == y:
            continue
        if _num.match(x) and _num.match(y):
            if abs(int(x, 16) - int(y, 16)) <= TOL:
                continue
        return False
    return True


def nontrivial(kind, payload, r):
    return len(payload) > 40


def classify(kind, payload, r, m):
    return kind + "-vs-affine-spec"
