"""C10 — element transforms are the documented affine maps and compose correctly."""
import re

CONFIG = {
    "prop_file": "Properties_C10",
    "units": [
        {"extract_file": "Extract_C10", "extracted": ["c10_transform"], "driver": "c10_transform",
         "harness": "c10_transform"},
    ],
    "rule": ("cases: the probes behind F7/F8 first, then seeded elements (polygon 3-8 vertices; FlexPath 2-5 spine points, 1-3 "
             "elements, offsets, width/offset tapers, flush/half-width/extended ends, both scale_width states; RobustPath 1-3 "
             "segments, 1-2 elements, linear width/offset interpolation; label; reference to a cell with a polygon), optionally "
             "carrying every kind of repetition, put through 1-6 calls of translate/scale/mirror/rotate/transform (labels and "
             "references: transform only) with magnifications {2,1/2,-1,-3/2,3,1}, both reflection states, angles k*90 degrees "
             "and Pythagorean (atan2(4,3) ...), small integer / quarter coordinates; plus Repetition::transform on every kind. "
             "Results are integers on the 2^-24 grid and compared with the extracted model allowing +-2 units (sin/cos of doubles "
             "are inexact); the property oracle (P) compares outline(ops(e)) with A(outline(e)) vertex by vertex within 1e-9 "
             "relative, A from the exact rational cos/sin. A case is non-trivial when it has at least one call whose map is not "
             "the identity; distinct = distinct (kind, payload)"),
    "trusted": ["the harness computes the promised affine map A from the rational cos/sin of the case and multiplies 2x3 matrices in doubles"],
    "assumptions": ["rotation arguments are in (-pi, pi] so that rotation == 0 exactly when (cos, sin) = (1, 0)",
                    "RobustPath outlines with more than one sub-path are compared on spine positions only (join points come from an iterative search)"],
}

_num = re.compile(r"^-?[0-9a-f]+$")
TOL = 2


def same(kind, impl, model):
    a = impl.split()
    b = model.split()
    if len(a) != len(b):
        return False
    for x, y in zip(a, b):
        if x == y:
            continue
        if _num.match(x) and _num.match(y):
            if abs(int(x, 16) - int(y, 16)) <= TOL:
                continue
        return False
    return True


def nontrivial(kind, payload, r):
    return len(payload) > 40


def classify(kind, payload, r, m):
    return kind + "-vs-affine-spec"
