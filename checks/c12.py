"""C12 — Fracturing and slicing partition a polygon without changing the region."""
from checks.clipcommon import same, nontrivial, classify  # noqa
CONFIG = {
    "manifest": {'level_text': "Tier B. Theorems (closed): consecutive strips of slice() cover the bounding box and meet only on cut lines for any sorted cut list incl. cuts outside or on the box (strips_partition, strips_cover); the fracture loop leaves the polygon alone for limits <= 4, every piece of a finished fracture has at most max_points vertices (fracture_exit), the GDSII writer's small-limit branch; the clip rectangles (and the reversed ones slice builds) have the stated winding; fracture_invariant and slice_partition are proved CONDITIONAL on Clipper's contract. Per run: the extracted verified winding oracle checks cover and disjointness of the real pieces at sample points; vertex limits, metadata copy, hangs and crashes are observed by the harness.", 'level_note': 'Clipper is an oracle (premise of the _partial theorems, validated by sampling). Termination of Polygon::fracture is NOT claimed (the model carries fuel; the harness uses alarms). The choice of axis and cut positions in fracture is a parameter of the model.', 'technique': 'Coq proofs of the strip partition and fracture loop bookkeeping + extracted winding oracle on real pieces'},
    "prop_file": "Properties_C12",
    "extract_file": "Extract_C12_fracture",
    "extracted": ["c12_fracture"],
    "driver": "c12_fracture",
    "harness": "c12_fracture",
    "thorough_seeds": 1,
    "expect_model": False,
    "rule": "convex, star, spiral, comb, saw, stairs, collinear / repeated-vertex and sliver polygons up to 2000 vertices (thorough 5000), vertex limits 0..4 and 5..200, precisions 1..1e-3: Polygon::fracture, slice on either axis with cuts inside / outside / on the bounding box, and write_gds with max_points followed by read_gds, each call in a forked child with an alarm; the extracted oracle checks at sample points that the pieces' winding sum equals the indicator of the original (cover + disjoint), and the harness checks vertex limits, metadata, small limits. non-trivial: payload with at least 12 tokens",
    "trusted": ["Clipper (external/clipper) is an oracle: not modelled, validated by sampling", "exact double -> integer frame conversion in harness/clip_common.hpp"],
    "assumptions": ["input polygons are simple (Jordan premise of the winding theorems), checked exactly by the generator"],
    "validation_note": "region clauses are validated per run at sample points by the extracted verified oracle (sampling, not a theorem)",
}
