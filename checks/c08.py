"""C08 — RobustPath outlines and queries (Tier B: proved section / query algebra and oracle + per-run validation)."""
CONFIG = {
    "manifest": {
        "level_text": "Coq theorems, closed under the global context, for ALL inputs (over Q and Z), about statement-level models of interp, of the index computation shared by position / gradient / width / offset, and of SubPath::eval / SubPath::gradient for the polynomial sections: constant / linear / smooth interpolation return the requested values at and beyond both ends, depend on u only through its clamp to [0,1] and stay between the two values (interp_endpoints); SERP is monotone on [0,1]; a query at parameter u on a path of count > 0 sections uses section idx < count with local parameter fr in [0,1], idx + fr = clamp(u, 0, count), the previous section with fr = 1 exactly when from_below is set at a positive integer or at the end of the path (query_index; count = 0 is Crash in the model as in the C++); SubPath::eval continues a section outside [0,1] along its end tangent with slope gradient(clamp u) and a Segment section by its own line; for Segment, Bezier2, Bezier3 and general Bezier sections with >= 2 control points, every transformation matrix and 0 <= u <= 1, eval is the value of the Bernstein polynomial (row of trafo applied) and gradient is the value of its FORMAL derivative (coefficient k of p' is (k+1) a_(k+1), proved), de Casteljau as coded = Bernstein recurrence; plus the exact oracle lemmas (point-segment distance test, bounding-box shortcut, polyline disjunction). The models are tied to /repo on every run EXACTLY (bit for bit) on dyadic inputs: position, gradient, width, offset and SubPath::eval / gradient outside [0,1] of the implementation equal the extracted model. NOT theorems, validated per run: Arc and Parametric sections (formulas in long double and finite differences), the outline region of to_polygons (exact oracle at sample points, guard 4 tol), sections meeting, spine(), commands() against direct calls, PATH records, termination of the intersection searches (alarm).",
        "level_note": "Tier B. gradient_is_derivative covers polynomial sections (PathBook, over Q: formal derivative of the Bernstein form) and Arc sections (ArcSection.v, over R with Coquelicot: SubPath::gradient is the derivative of SubPath::eval at every real parameter including the linear continuation, which is C1; circular arcs keep distance k r from the centre and speed k r |angle_f - angle_i| under a similarity trafo; the spine normal is the unit left normal; RobustPath::arc / turn start at the end point / along the previous direction); Parametric (user-function) derivatives are checked per run, not proved; sin / cos of libm and rounding are not modelled. The adaptive samplers and the Newton-like intersection searches are not modelled. The centre curve is sampled by the harness in long double (adaptive flattening to tol/8) from the stored sections and interpolations, displaced by the interpolated offset along the unit normal of the transformed gradient; vertices are multiplied by 2^30 and ROUNDED to the nearest integer (error <= 2^-31, five orders of magnitude below the guard bands); classification and winding number are exact integer arithmetic extracted from Coq. Exact query cases use control points / widths / offsets that are multiples of 1/4 below 2^6, parameters that are multiples of 1/16, translations and scalings by powers of two, so every double operation of the C++ is exact. Generator preconditions for the region check: 1-3 elements, widths and offsets continuous across sections (constant / linear / smooth), corners <= 60 degrees and only between sections whose centre lines are straight, spine curvature radius >= 2 x (half width + |offset|) (otherwise skipped), max_evals 1000, tolerance 1e-2 or 1e-3; interpolation() is called without width / offset change (see finding taper-restarts-per-piece).",
        "technique": "Coq proofs over Q/Z (interpolation, index arithmetic with Qfloor, Bernstein / formal-derivative algebra, exact distance and winding oracle) + bit-exact differential run of the extracted model on dyadic inputs + per-run validation of outlines and records by the extracted oracle (Tier B)",
    },
    "prop_file": "Properties_C08",
    "extra_prop_files": ["Properties_C08A"],   # Arc sections over R: gradient = derivative of eval, continuation C1, circle facts (ArcSection.v)
    "extract_file": "Extract_C08",
    "extracted": ["c08_robustpath"],
    "driver": "c08_robustpath",
    "harness": "c08_robustpath",
    "expect_model": False,      # fd / commands / gds / oas / probe cases carry P-lines only
    "thorough_seeds": 1,
    "rule": ("11 probes first (intersection search with max_evals 2/5/10/100/1000 on centre curves that do not meet, max_evals = 1, "
             "interpolation() with offset / width / smooth width taper), each in a child with a 3 s alarm; then per path index (child, 20 s "
             "alarm): index = 1 mod 4: exact `query` (12) and `subeval` (4) cases on 1-4 polynomial sections (segment, horizontal, vertical, "
             "quadratic, cubic, bezier of degree 1-5) with constant / linear / smooth widths and offsets, dyadic trafo, u among integers, "
             "below 0, beyond the end, multiples of 1/16, both from_below; index = 2 mod 16 (and 0): `commands` cases for each of "
             "hHvVlLcCsSqQtTaAE against the direct call; index 4: width-4 single segment (F14); otherwise a random path of 2-5 construction "
             "calls of every kind (segment, horizontal, vertical, turn, arc incl. ellipses, cubic, cubic_smooth, quadratic, quadratic_smooth, "
             "bezier, interpolation, parametric with and without gradient, commands), 30% translated / rotated: one `fd` case (24 random "
             "queries against long-double formulas and central differences, junctions, spine()), one `region` case per element (~100 "
             "samples), for half of the paths `gds` and `oas`. quick 160 indices, thorough 4000. Then the user-function classes (path "
             "indices from 1000000, class = index mod 6; quick 24 indices = about 200 cases, thorough 1200; counted as user-function-cases "
             "in stats): class 0 / 1: the random path again, its calls taking for a share of the sections InterpolationType::Parametric "
             "widths / offsets (user functions: exact linear ramp, exact smooth step, quadratic a + b u^2; also on parametric spine sections "
             "with and without gradient function) and 40% of its straight caps made through EndType::Function: `construct`, `cont` (a "
             "section made without width / offset argument stores the CONSTANT the previous interpolation takes at u = 1, computed here "
             "from the ARGUMENTS of the earlier call, and the queries behind the junction return it), `fd` (additionally width / offset "
             "at both sides of every junction and 12 random parameters against the arguments of the calls evaluated in long double and "
             "the factors given to scale / transform), `udomain` (user functions only called with 0 <= u <= 1), `region` (centre curve "
             "and half width from the user functions' data in long double), `endfn` (callback arguments against the side curves, its "
             "points in the outline in the order returned, right side before the final cap, left side after it), class 1 also `pscale` "
             "(scale incl. negative factors / transform incl. reflection, scale_width on / off: width x factor or unchanged, offset x "
             "factor with the sign of a reflection, positions and centre points mapped); class 2 / 5: `cont`, one case per wrapper "
             "(segment, horizontal, vertical, arc, turn, cubic, cubic_smooth, quadratic, quadratic_smooth, bezier, interpolation, "
             "parametric, commands) after a Linear / Smooth / user-function taper made through segment / arc / quadratic, neither / "
             "offset only / width only argument, 30% scaled in between, followed by one more argument-less segment; class 3: two `ptwin` "
             "(the same path with built-in Linear / Smooth and with user functions evaluating the same expressions: position, gradient, "
             "width, offset at 16 random parameters and both sides of every junction BIT FOR BIT, outlines bit for bit, else same "
             "region within 4 tol) and one `gtwin` (parametric sections with against without gradient function under width / offset "
             "changes: positions, widths, offsets bit for bit, gradients within 5e-3, same region within 8 tol + 5e-4 reach); class 4: "
             "three `endfn` rounds (the callback returns 1..6 points, every count at every element, both ends) and three `endtwin` (the "
             "callback rebuilding the Flush / HalfWidth / Extended cap from its two points against the built-in cap, vertex by vertex "
             "within 1e-9). Paths whose spine curves tighter than twice the reach are exempt from the side / argument / gtwin-outline "
             "checks as they are from the region oracle. non-trivial: query / subeval / region cases; distinct = distinct payload"),
    "trusted": ["harness evaluates Arc / Parametric sections and the displaced centre curve in long double (specification side)",
                "doubles are rounded to the 2^-30 grid (error <= 2^-31) before the exact oracle runs",
                "driver converts the bit patterns of doubles to the rationals they are and back (exact or reported as `inexact`)"],
    "assumptions": ["sample points closer to a boundary than the guard band (4 tol) make no claim",
                    "libm sin / cos accurate to a few ulp (arc sections compared within 1e-10 of the coordinate scale)"],
    "validation_note": "Tier B: outline region, arc / parametric sections, commands(), PATH records and termination are validated per run; "
                       "interpolation end points, section index, linear extrapolation, gradient = formal derivative (polynomial sections) and "
                       "the oracle are theorems; polynomial queries are additionally compared bit for bit with the extracted model",
}


def same(kind, impl, model):
    return impl.strip() == model.strip()


def nontrivial(kind, payload, r):
    return kind in ("query", "subeval", "region")


def classify(kind, payload, r, m):
    if payload.startswith("k="):
        return payload[2:payload.index(";")]
    return kind + "-vs-oracle"
