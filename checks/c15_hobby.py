"""C15H - statement-level Coq model of gauss_jordan_elimination and hobby_interpolation (src/utils.cpp) tied bit for bit to the real
functions; to be merged into C15 (also serves the `interpolation` construction calls of C07 / C08)."""
CONFIG = {
    "manifest": {'level_text': "Statement-level Gallina model (coq/Hobby.v) of gauss_jordan_elimination (partial pivoting on the largest absolute value of the column among the rows not yet used, first one on ties, strict > so that a NaN never replaces; the index vector is permuted, never the rows; a zero pivot is counted in the return value and the column SKIPPED, the loop goes on; row scaled by 1.0 / pivot from column i on, every other row reduced over ALL columns) and of hobby_interpolation (open solver with its ranges between constrained knots, first / last row = requested offset or curl equation, closed unconstrained solver, rotation of a constrained closed curve, control points from Hobby's velocity function), written ONCE over an abstract carrier and instantiated by a field (Qc) for the theorems, by Flocq binary64 for the tie and by 'rationals a double holds exactly' for the specification line. Theorems for ALL inputs (coq/HobbyProofs.v, HobbyProofs2.v, HobbyQc.v; Properties_C15H.v): over ANY carrier (binary64 with NaN and overflow included) the pivot vector is a permutation of 0..rows-1 after every step, hence every row / column index stays inside the rows x cols buffer when cols >= rows, and the return value is at most rows; over any field: gauss_jordan_solves (return value 0 => the vector read back through the pivots satisfies A x = b exactly; invariant: the row operations preserve the solution set of the homogeneous augmented system and the processed columns are unit vectors), gauss_jordan_unique, gauss_jordan_singular (return value <> 0 => A y = 0 for some y <> 0), gauss_jordan_result (return value 0 IFF exactly one solution); the same for the Qc instance. hobby, over ANY field and for ARBITRARY functions in place of sqrt / atan2 / sin / cos: open_matrix_rows (every row of the matrix the open solver assembles for a range), open_system_spec (a vector solves the assembled system IFF theta_{k+1} + phi_k + psi_k = 0 and A theta_k + B theta_{k+1} + C phi_k + D phi_{k+1} = 0 at every interior knot, first row = requested offset or initial curl equation, last row likewise), mock_curvature_equation (the A B C D row IS continuity of Hobby's mock curvature when lengths and tensions are non-zero), curl_equation_first / _last (the free-end rows ARE 'mock curvature at the end = curl x mock curvature at the neighbour'), open_range_solved, open_round_post (what one round of the while loop establishes, solved or not), open_constrained / hobby_open (WHOLE open curve with any set of angle constraints: when no elimination skipped a column every constrained knot is reached and left in exactly the requested direction - chord_k + theta_k = ang_k = chord_{k-1} - phi_{k-1} -, every unconstrained interior knot satisfies the turning and the mock-curvature equation, free ends the curl equation), hobby_closed_constrained (the same for the rotated arrays of a closed curve with a constrained knot), closed_system_spec / closed_unconstrained / hobby_closed_unconstrained (closed curve without constraints: turning and mock-curvature equation at EVERY knot, cyclic indices), and two refutation witnesses replayed on the real code: hobby_finite_refuted (theta = phi = -pi: infinite control points) and hobby_ignored_singular_refuted (a triple point makes gauss_jordan_elimination skip a column; the return value is ignored).", 'level_note': "All theorems are closed under the global context except the binary64 permutation theorem and the two refutation witnesses (Flocq's definitions bring ClassicalDedekindReals.sig_forall_dec, sig_not_dec, FunctionalExtensionality.functional_extensionality_dep, Classical_Prop.classic). The theorems are about exact arithmetic; the binary64 instance is tied to the C++ bit for bit but no rounding-error bound is proved. libm atan2 / sin / cos are finite tables recorded from the library's own calls (the model looks its own arguments up: a different argument finds nothing and yields NaN); sqrt is Flocq's correctly rounded Bsqrt. Every hobby theorem is conditional on 'no elimination skipped a column' (hr_skipped = 0, a quantity of the model: the C++ discards the return value) and is about the angle vectors theta / phi; the control-point formula (Hobby's velocity function) is modelled and tied bit for bit but nothing is proved about it, and no rounding-error bound relates the binary64 instance to the exact one.", 'technique': 'Coq proofs over an abstract field + the same Gallina function extracted with Flocq binary64 operations and compared bit for bit with the real code (libm calls hooked by macro around #include "utils.cpp") + exact-rational specification line + long-double oracles on the returned control points'},
    "prop_file": "Properties_C15H",
    "extract_file": "Extract_C15H",
    "extracted": ["c15_hobby"],
    "driver": "c15_hobby",
    "harness": "c15_hobby",
    "include_cpp": ["utils.cpp"],   # compiled into the harness with sin / cos / atan2 renamed to recording wrappers
    "rule": ("kind gj: rows 1..12, cols = rows + 0..3, nine classes (small dyadic entries with many zeros forcing row swaps; singular: dependent "
             "rows, zero row / column; nearly singular (perturbation 2^-40..2^-52); permuted upper triangular with power-of-two diagonal; scaled "
             "permutation matrices; lower triangular with dominant power-of-two diagonal; strictly diagonally dominant arbitrary doubles; "
             "arbitrary doubles with huge / tiny / infinite / NaN entries; tridiagonal with ties). I = return value, pivot vector, solution "
             "column read through the pivots, the WHOLE matrix afterwards (hex doubles, NaN as one word) from the real "
             "gauss_jordan_elimination; M = the same text from the extracted binary64 instance; S = return value, pivots, solution from the "
             "exact-rational instance, printed only when every operation of the exact run is exactly representable (then a binary64 run "
             "must give the same numbers; zero compared without sign); P = pivots form a permutation, residual of dominant systems. "
             "kind hobby: 2..12 points (random, collinear, equal steps, collinear runs, reversals, near-collinear, scaled 2^+-30), open / "
             "closed, angle constraints none / some / all / ends (angles multiples of pi/4, small, beyond +-pi, along the chord), tensions 1 "
             "or 0.75..3 per side, curls 0..3. I = theta / phi exactly as the library passes them to sin / cos (recording wrappers) and all "
             "control points; M = the same from the extracted binary64 instance with the recorded libm tables; P = long-double oracle on the "
             "arguments and the returned control points alone: finite, positions = chord +- offset at Hobby's velocities, tangent continuous "
             "at every knot, constrained knots in exactly the requested direction, mock curvature continuous at unconstrained knots, curl "
             "conditions at free ends. Non-trivial: gj with rows >= 2, hobby with count >= 3; distinct = distinct payloads"),
    "trusted": ["harness/c15_hobby.cpp: case generators, the recording wrappers around libm (the tables handed to the model are what libm returned), text layout, long-double oracles",
                "ocaml/c15_hobby_driver.ml: text layout, NaN test on the bit pattern",
                "standard-library axioms used by Flocq (binary64 instance only): ClassicalDedekindReals.sig_forall_dec, sig_not_dec, FunctionalExtensionality.functional_extensionality_dep, Classical_Prop.classic"],
    "assumptions": ["x86-64 SSE2 double arithmetic is IEEE 754 binary64 round-to-nearest-even without contraction (no -mfma, no -ffast-math); sqrt is correctly rounded",
                    "NaN results are compared as one word (sign and payload of a NaN are not modelled)",
                    "libm sin / cos / atan2 are deterministic functions of their arguments (tables recorded per case)"],
    "thorough_seeds": 1,
}


def _canon0(t):
    return "0000000000000000" if t == "8000000000000000" else t


def same(kind, impl, model):
    impl = impl.strip()
    model = model.strip()
    if model.startswith("S:"):
        # exact-rational specification line of a gj case: return value, pivots, solution (zero compared without its sign)
        f = dict(p.split("=", 1) for p in impl.split(" ") if "=" in p)
        g = dict(p.split("=", 1) for p in model[2:].split(" ") if "=" in p)
        if f.get("res") != g.get("res") or f.get("piv") != g.get("piv"):
            return False
        return [_canon0(t) for t in f.get("x", "").split(",")] == [_canon0(t) for t in g.get("x", "").split(",")]
    return impl == model


def nontrivial(kind, payload, r):
    w = payload.split(" ", 2)
    try:
        return int(w[0], 16) >= (2 if kind == "gj" else 3)
    except ValueError:
        return False


def classify(kind, payload, r, m):
    return "gj-exact-spec" if kind == "gj" else kind + "-vs-spec"
