"""oas_sig (C18S) - the OASIS validation signature inside the Coq development: zlib's crc32, gdstk's checksum32, the
signature bookkeeping of OasisStream, the signed END record of Library::write_oas and oas_validate; a unit of C18, its
writer/validator agreement theorems are cited by C02."""
CONFIG = {
    "manifest": {'level_text': "Statement-level Gallina models (coq/OasisSig.v): crc32_update = zlib's crc32(crc, buf, len), table driven, the 256 entries computed by the transcription of make_crc_table (reflected polynomial 0xEDB88320, pre/post inversion per call); checksum32_update = gdstk's checksum32; OasisStream with out.cursor == NULL (oasis_write incl. its UINT_MAX loop, oasis_putc, oasis_write_unsigned_integer, the raw fwrite of the signature); write_end = the END code of Library::write_oas (uint64 pad_len arithmetic with `if (out.crc32 || out.checksum32) pad_len -= 4`, table offsets, padding loop, scheme byte 1 / 2 / 0, signature finalised after the scheme byte and written little-endian), write_oas_sig_model = OasisWrite.v's writer model up to END followed by write_end; oas_validate_model = oas_validate statement by statement on the byte list of the file (14-byte header test, fseek(-5, SEEK_END), size = ftell + 1, the five END bytes, scheme 1 / 2 / other, the 32 KiB chunk loop with its short-read branches and the contents of the uninitialised stack buffer as a parameter, little-endian comparison, what is stored through *signature and *error_code on every path). Theorems for ALL byte lists (Properties_C18S.v): chunking of both checksums; the table-driven CRC equals the bit-at-a-time shift register; checksum32 = (start + sum of the bytes) mod 2^32; ANY sequence of oasis_write / oasis_putc calls keeps out.signature equal to the signature of the whole output; write_end in closed form (signed_file); oas_validate_is_spec: the function with its loop, buffer and file position equals the loop-free validate_spec for every file and every content of the uninitialised buffer (so it never hangs, never takes a short-read branch, and the fseek failure branch is dead behind the header test); validate_paths / validate_short: every path by the shape of the file; writer_validator_agreement / write_end_validates / write_oas_signature_matches (C02): every signed file - any body, any length - validates and the signature handed back is the one in its last four bytes = the CRC32 / byte sum of all preceding bytes; unsigned_file: scheme 0 files of the writer give true, signature 0, ChecksumError; truncation_collision: a cut reports a matching signature IF AND ONLY IF the fifth byte from its end is 1 or 2 and its last four bytes are the signature of everything before them; truncation_in_end_padding: every cut in the last 200 bytes of a signed file (padding, scheme byte, signature) takes the `No checksum` path (returns TRUE, signature 0, ChecksumError).", 'level_note': "'A truncated signed file never reports a matching signature' is REFUTED as written (truncation_refuted_crc / _sum / _writer): a file written by write_oas that carries a five-byte property value made of a scheme byte and the signature of the file up to it validates when cut right behind that value (both schemes; replayed on the real write_oas + oas_validate by the harness, cases emb1 / emb2, finding key oas_validate:embedded-signature). What holds is the collision characterisation above; on every cut of every generated file the P line checks that no collision occurs. The three theorems that mention write_oas_sig_model go through OasisReal.enc_real and depend on the standard-library axioms Flocq pulls in; the other 17 are closed under the global context. Not modelled: fopen failure (InputFileOpenError), a file that changes while it is read, big-endian hosts, the deflate path of write_oas (the `end` cases tie the END record of compressed files through the file's own prefix).", 'technique': 'Coq proof (oas_validate = loop-free specification; writer / validator agreement; collision characterisation of truncation) + bit-for-bit differential run of the extracted models against zlib crc32, gdstk checksum32, Library::write_oas and oas_validate'},
    "prop_file": "Properties_C18S",
    "extract_file": "Extract_C18S",
    "extracted": ["oas_sig"],
    "driver": "oas_sig",
    "harness": "oas_sig",
    "rule": ("kinds: crc / sum = random byte strings of lengths 0, 1, 2, 5, 255-257, 4095, 32 KiB, 64 KiB, 96 KiB (+-1) and random "
             "lengths, random start values and chunkings (empty chunks, 32 KiB chunks): zlib crc32 / gdstk checksum32 chunk by chunk "
             "(I) = crc32_update / checksum32_update folded over the same chunks (M) = crc32_bitwise / checksum32_spec over the "
             "whole string (S). val = oas_validate in a forked child, twice with different initial values behind the out-pointers "
             "and once with NULL pointers, on: files written by write_oas with INCLUDE_CRC32 / INCLUDE_CHECKSUM32 / both / neither, "
             "random other flags and deflate levels (full0/1/2), cuts of them (cut1/2: in the records, in END's padding, inside the "
             "signature), one byte replaced (mut1/2), files beyond 32 KiB and 64 KiB (long property strings, thousands of polygons), "
             "hand-built files of 0 .. 60 bytes and of exactly k * 32 KiB + {-1, 0, 1} + 4 bytes with right / wrong / byte-swapped / "
             "other-scheme signatures (raw), the constructed embedded-signature prefix (emb1/2); I = `ret sig err null` text = "
             "oas_validate_model (M) = validate_spec (S). cuts = oas_validate on EVERY prefix of small files, run-length encoded. "
             "end = the END record of real files (scheme 0 / 1 / 2, compressed or not) = write_end applied to the file's own prefix "
             "with the table offsets found by an independent record scan. wsig = random libraries of the subset OasisWrite.v covers "
             "saved with flags CELL_OFFSET x CRC32 x CHECKSUM32: whole file = write_oas_sig_model byte for byte. P (implementation "
             "only): no crash / hang, no descriptor left open, complete signed files validate with the stored signature which is "
             "the reference CRC32 / byte sum of the preceding bytes, no proper prefix and no one-byte mutation of a signed file "
             "reports a match, END records have 256 bytes. Non-trivial: every case but empty byte strings; distinct = distinct payloads"),
    "trusted": ["harness/oas_sig.cpp: result text of oas_validate (sentinel values behind the out-pointers decide 'not written'), "
                "descriptor count through /proc/self/fd, reference bit-at-a-time CRC and byte sum of the P lines",
                "harness/oas_scan.hpp: position of the END record and of the first record of each name table (kind end)",
                "ocaml/oas_sig_driver.ml: chunk folding, prefixes, run-length encoding, parser of the library text; for kind cuts "
                "the model runs with an empty list for the uninitialised buffer (oas_validate_total_thm: its contents are irrelevant)",
                "standard-library axioms used by Flocq under the three theorems that mention write_oas_sig_model: "
                "ClassicalDedekindReals.sig_forall_dec, sig_not_dec, FunctionalExtensionality.functional_extensionality_dep, "
                "Classical_Prop.classic"],
    "assumptions": ["little-endian host (little_endian_swap32 is the identity)", "a file is a byte list: fread returns the bytes "
                    "present, the file does not change during the call", "zlib's crc32 is called with a non-NULL buffer "
                    "(crc32(x, NULL, 0) = 0 is the initial-value idiom, modelled as crc32_init)",
                    "files shorter than 2^64 - 512 bytes (pad_len arithmetic does not wrap)"],
    "thorough_seeds": 1,
}


def same(kind, impl, model):
    return impl.strip() == model.strip()


def nontrivial(kind, payload, r):
    last = payload.split(" ")[-1]
    return last not in ("-", "x-", "")


def classify(kind, payload, r, m):
    if kind in ("crc", "sum"):
        return kind + ":spec"
    if kind in ("val", "cuts"):
        return "oas_validate:spec-" + payload.split(" ")[0]
    return "oas-sig-" + kind
