"""C11 — repetitions enumerate exactly their offsets and expand into exactly those copies."""
CONFIG = {
    "manifest": {
        "level_text": "Coq theorems (closed under the global context) over a Gallina model of Repetition::get_count / get_offsets / get_extrema / transform and of the five apply_repetition functions, for ALL kinds, counts (0 and 1 included), sign patterns and explicit lists: offsets = the lattice / listed set in the documented order, count = number of offsets, the zero vector is first whenever count > 0, extrema are members of the set and span its bounding box, transform maps every offset by the linear part (any magnification, reflection, angle given by (cos, sin)), apply_repetition yields exactly one translated copy per non-zero offset with every other field equal and clears the original, and never crashes. The extracted model runs on the same repetitions and elements as the real code (every field of every copy dumped).",
        "level_note": "Rationals model exactly representable doubles; rotations other than quarter turns are compared after rounding to a 2^-20 grid. One clause is refuted and recorded as a known finding: a lattice with zero columns or rows has count 0 and therefore no zero vector (zero_count_refuted). Two defects found by this check were repaired by fix: commits (crash of apply_repetition on count 0; empty explicit list without extrema).",
        "technique": "Coq proof over Gallina model of repetition.cpp and apply_repetition + extracted-model differential run",
    },
    "prop_file": "Properties_C11",
    "extract_file": "Extract_C11",
    "extracted": ["c11"],
    "driver": "c11",
    "harness": "c11",
    "thorough_seeds": 2,
    "rule": ("all repetition kinds x columns, rows in {0,1,2,3,7} x spacings of both signs x explicit lists of length 0..12 with negative "
             "and duplicate entries: kind query = count / offsets / extrema; xform = transform with magnifications, reflections, quarter "
             "turns and Pythagorean angles; apply = apply_repetition on each of the five element kinds carrying properties, every field "
             "of every copy dumped. non-trivial: the repetition has more than one offset or the case is a transform / apply case"),
    "trusted": ["doubles that are exact integers / dyadics are read as rationals; inexact results would be printed as INEXACT"],
    "assumptions": ["counts fit 64 bits (rep_ok)"],
}


def same(kind, impl, model):
    return impl.strip() == model.strip()


def nontrivial(kind, payload, r):
    return kind != "query" or ";" in r.get("I", "")


def classify(kind, payload, r, m):
    return kind + "-vs-spec"
