"""C13 — Offsetting grows or shrinks polygons by the requested distance."""
from checks.clipcommon import same, nontrivial, classify  # noqa
CONFIG = {
    "manifest": {'level_text': "Tier B. Theorems (closed): the integer squared point-segment distance returns the minimum over the segment and the minimum is attained; the boolean 'closer than' tests (with their bounding-box pre-test) are equivalent to the existence of a point of the segment / polygon boundary within the radius; the verdict functions of the oracle mean what they say in terms of these primitives. Per run: the extracted verified distance and winding functions decide, at sample points with a guard band, that offset() covers everything closer than d and nothing beyond the join's reach (symmetric for d < 0), and that the union option makes the result depend only on the region.", 'level_note': "ClipperOffset is an oracle: the bounds on its joins are validated per run by sampling, not proved. Without the union option and with overlapping inputs a negative offset removes interior points near the other polygon's boundary (documented behaviour of the option): only 'nothing shallower is kept' is checked there. Miter tolerances below 2 and sub-grid features are outside the generator (preconditions). One defect in the vendored ClipperOffset::OffsetPoint (stale k at nearly collinear vertices) was found by this check and repaired by a fix: commit.", 'technique': 'Coq proofs of the exact distance oracle + extracted oracle deciding sampled distance/membership predicates on real outputs'},
    "prop_file": "Properties_C13",
    "extract_file": "Extract_C13_offset",
    "extracted": ["c13_offset"],
    "driver": "c13_offset",
    "harness": "c13_offset",
    "thorough_seeds": 1,
    "expect_model": False,
    "rule": 'groups of simple polygons (feature width and gaps >= 2 grid units), distances of both signs small and large relative to the features, miter / bevel / round joins with tolerances, both union settings, scalings 1..1000: the extracted verified squared-distance test classifies sample points as closer than |d| - g or farther than reach + g (reach = d x miter limit, d x sqrt 2 bound, d + arc sagitta of 1.5 nominal steps) and the winding oracle decides membership in the real offset() result; union independence by re-splitting the input through slice. non-trivial: payload with at least 12 tokens',
    "trusted": ["Clipper (external/clipper) is an oracle: not modelled, validated by sampling", "exact double -> integer frame conversion in harness/clip_common.hpp"],
    "assumptions": ["input polygons are simple (Jordan premise of the winding theorems), checked exactly by the generator"],
    "validation_note": "region clauses are validated per run at sample points by the extracted verified oracle (sampling, not a theorem)",
}
