"""C06 — flattening and hierarchy queries preserve the layout geometry."""
import re

CONFIG = {
    "manifest": {'level_text': 'Coq theorems (closed under the global context), generic in the element payload: the recursive collection of Cell::get_* / Reference::get_* with apply_repetitions = true equals the denotation of the cell (own shapes plus, recursively, every referenced cell mapped by the reference placement and each repetition offset) as a multiset, for any acyclic environment with the depth fuel bound proved; depth limits cut the denotation at exactly that level; tag filters are list filters; flatten preserves the denotation and leaves no cell references; a two-level hierarchy equals explicit composition of the affine maps. The model runs, extracted, against every get_* variant before and after flatten on generated hierarchies with all element kinds and repetition kinds; copies are checked for independence by mutation.', 'level_note': "With apply_repetitions = false the repetition vectors of collected elements are not transformed by the reference (get_unapplied_refuted, flatten_unapplied_refuted): recorded as a known finding. 'Copies are independent of their source' is decided by the ownership model of unit c06_own (coq/Ownership.v, Properties_C06O.v: every deep copy / collector / apply_repetition result owns only buffers allocated by the call, equals its source up to buffer renaming, and stores through it leave every older object unchanged; wf preserved by every operation sequence), tied to the real pointers by the aliasing pattern of every call; one clause is refuted and recorded: RobustPath::copy_from shares the control-point arrays of general Bezier sections. Outlines of paths are taken from to_polygons in the path's home cell (C07/C08 decide them).", 'technique': 'Coq proofs of the hierarchy-collection recursion against a denotational semantics + extracted-model differential run'},
    "prop_file": "Properties_C06",
    "extra_prop_files": ["Properties_C06O"],   # ownership model: copies are fresh, equal in shape, independent (Ownership.v)
    "units": [
        {"extract_file": "Extract_C06", "extracted": ["c06_hierarchy"], "driver": "c06_hierarchy",
         "harness": "c06_hierarchy"},
        # aliasing pattern of real copy / collect / apply_repetition results against the heap model; mutate-the-copy oracle
        {"harness": "c06_own", "driver": "c06_own", "extracted": ["c06_own"], "extract_file": "Extract_C06O",
         "module": "checks.c06_own", "asan": "thorough", "thorough_seeds": 1},
    ],
    "rule": ("cases: the probe behind F8 first, then seeded hierarchies of 2-5 cells / 2-4 levels (every cell references the next, "
             "others at random: shared children; now and then a reference by name to a missing cell) holding polygons, FlexPaths "
             "(1-2 elements, offsets, tapers), RobustPaths (1-2 elements, some pre-transformed) and labels, every kind of "
             "repetition on elements and on references, placements with magnifications {2,1/2,-1,-3/2,3,1}, both reflection "
             "states, angles k*90 degrees and Pythagorean; per hierarchy a seeded subset of get_polygons (with and without paths) / "
             "get_flexpaths / get_robustpaths / get_labels x apply_repetitions x depth {-1,0,1,2,3} x tag filter, the same after "
             "flatten(true) and flatten(false), and one deep copy_from. Results are sorted multisets of items "
             "(kind, tag, numbers on the 2^-24 grid, attached repetition) compared with the extracted model allowing +-2 units; "
             "kind `shapes` is compared with the denotation (S) and, from the implementation alone (P), with the query that "
             "applies repetitions on the cell as built. Non-trivial: the queried cell has at least one reference; distinct = "
             "distinct (kind, payload)"),
    "trusted": ["outlines of paths for get_polygons(include_paths) are taken from the library (to_polygons in the home cell) and only moved by the model"],
    "assumptions": ["repetitions have count >= 1 (count 0 crashes apply_repetition: F18, property C11)",
                    "hierarchies are acyclic (the C++ recursion does not terminate otherwise)"],
}

_num = re.compile(r"^-?[0-9a-f]+$")
TOL = 2


def _tok_same(x, y):
    if x == y:
        return True
    if _num.match(x) and _num.match(y):
        return abs(int(x, 16) - int(y, 16)) <= TOL
    return False


def _item_same(a, b):
    ha, _, va = a.partition(" :")
    hb, _, vb = b.partition(" :")
    if ha != hb:
        return False
    ta = va.split()
    tb = vb.split()
    return len(ta) == len(tb) and all(_tok_same(x, y) for x, y in zip(ta, tb))


def same(kind, impl, model):
    if impl == model:
        return True
    a = [x.strip() for x in impl.split(" ; ")]
    b = [x.strip() for x in model.split(" ; ")]
    if len(a) != len(b) or a[0] != b[0]:
        return False
    a, b = a[1:], b[1:]
    if all(_item_same(x, y) for x, y in zip(a, b)):
        return True
    # rounding can reorder items that differ by one unit: match as multisets
    used = [False] * len(b)
    for x in a:
        for j, y in enumerate(b):
            if not used[j] and _item_same(x, y):
                used[j] = True
                break
        else:
            return False
    return True


def nontrivial(kind, payload, r):
    return " Q 0 " in payload or " Q 1 " in payload


def _spine(item):
    head, _, rest = item.partition(" :")
    return head, rest.split(" |")[0].split()


def classify(kind, payload, r, m):
    # FlexPath items whose spines all agree with the denotation but whose half widths / offsets / end extensions do
    # not: that is what FlexPath::transform did before df9071a / a1ca73a (finding F7, fixed) - name it so that a
    # regression is recognised; anything else is a hierarchy error
    try:
        flags = int(payload.split()[1])
    except Exception:
        flags = 0
    what = payload.rsplit(" Q ", 1)[1].split()[1] if " Q " in payload else "?"
    if what == "F" and "S" in m and "I" in r:
        a = [x.strip() for x in r["I"].split(" ; ")][1:]
        b = [x.strip() for x in m["S"].split(" ; ")][1:]
        spines_agree = len(a) == len(b)
        if spines_agree:
            used = [False] * len(b)
            for x in a:
                hx, sx = _spine(x)
                for j, y in enumerate(b):
                    hy, sy = _spine(y)
                    if not used[j] and hx == hy and len(sx) == len(sy) and all(_tok_same(p, q) for p, q in zip(sx, sy)):
                        used[j] = True
                        break
                else:
                    spines_agree = False
                    break
        if spines_agree:
            if flags & 1 and flags & 4:
                return "FlexPath::transform:x_reflection+offset"
            if flags & 2:
                return "FlexPath::transform:negative-magnification"
    return "shapes-vs-denotation"
