"""C01L - lowering of a gdstk library to the database grid (scaling + lround, one record group per repetition offset,
AREF-or-SREFs decision of Reference::to_gds), Coq model coq/GdsLower.v on top of GdsWrite.v; a unit of C01."""
CONFIG = {
    "manifest": {'level_text': "Lowering model coq/GdsLower.v, one level above the GDSII writer model: from a library in USER units (exact rationals: every double of the generated inputs is a dyadic rational and the C++ arithmetic on them is exact) with repetitions attached to polygons, simple FlexPaths, labels and references to the grid library GdsWrite.v serialises. It mirrors statement by statement Library::write_gds (scaling = unit / precision, UNITS reals), Cell::to_gds (order polygons, paths, labels, references), Polygon::to_gds / FlexPath::to_gds (remove_overlapping_points, elements outer / offsets inner, width = lround(2 hw s), extensions only for the Extended end) / Label::to_gds / Reference::to_gds: lround = round half away from zero, one record group per offset of Repetition::get_offsets (Repetition.v of C11 reused) at lround((p + offset) * scaling), properties on every copy, error codes (EmptyPath, UnofficialSpecification, InvalidRepetition, last one wins); Reference::to_gds's AREF-or-SREFs decision exactly as written: Regular, or Rectangular when is_multiple_of_pi_over_2(rotation); normalised lattice vectors against the rotated axes with tolerance 1e-12; straight and column/row-swapped branch; corners origin + columns v1, origin + rows v2 each rounded; columns or rows above UINT16_MAX -> 65535 x 65535 + InvalidRepetition. Theorems (all closed under the global context): lower_ok (every well-formed source library lowers to a well-formed grid library), lower_roundtrip (read_gds_model (write_gds_model (lower L)) = canon (lower L): gds_roundtrip composed with the lowering, for all inputs), count theorems (records written = Repetition count, or ONE AREF), zero offset first, copies carry all properties, DENOTATION: the SREF branch re-loads, for all inputs, to the lround image of origin + offset for every offset; on the database grid the AREF branch (straight AND swapped, Rectangular and Regular) re-loads to exactly the multiset origin + get_offsets (aref_denotation, lower_ref_denotation), polygons / labels likewise. Refuted with witnesses replayed on the real code: off the grid the AREF rounds only its corners (instances move by up to one grid step: aref_offgrid_refuted, aref_tie_origin_refuted); a lattice skewed by less than the tolerance on an unrotated reference loses its skew (aref_skew_refuted, everything on the grid); 32768..65535 columns are written unsigned and re-read signed (colrow_signed_refuted).", 'level_note': "sin / cos / sqrt of Reference::to_gds are not modelled: the rotation is data (zero, quarter turn m, or an exact (cos, sin) pair) and the test fabs(fabs(p) - 1) < 1e-12 is evaluated in exact rational arithmetic on the squared quantities; model and code agree whenever |p| is not within ~1e-15 of 1 - 1e-12, and the generated lattices are exactly parallel to a rotated axis, skewed by a controlled 5e-13 / 2e-12, or far from parallel. MAG / ANGLE / UNITS travel as binary64 patterns through the Coq model of gdsii_real_from_double (C19). Paths: simple FlexPaths with zero offsets and no bends (element_center returns the spine). RobustPath, non-simple paths and the vertex limit are outside this unit.", 'technique': 'Coq lowering model + theorems (well-formedness, composition with the round trip, counts, denotation) + record-for-record differential run against Library::write_gds + placement oracle on read_gds(write_gds(L))'},
    "prop_file": "Properties_C01L",
    "extract_file": "Extract_C01_lower",
    "extracted": ["c01_lower"],
    "driver": "c01_lower",
    "harness": "c01_lower",
    "rule": ("libraries generated from INTEGER parameters in quarter database units (five unit / precision pairs: scalings 1024, 256, 1, 384, 256 "
             "with unit 4), 1-3 cells, every element kind carrying every repetition kind (zero / one column, negative spacings, Regular "
             "lattices along the rotated axes, swapped, oblique, one-sided, zero vectors; explicit lists incl. empty), references with "
             "rotation 0, m pi/2 for m in -5..5 as the nearest doubles, atan2(4,3) with lattices along (3,4), other angles, reflection, "
             "magnification; vertices / origins / explicit offsets / widths off the grid in 40 % of the libraries (ties included); paths "
             "with one or two elements, all end types, tolerances that make remove_overlapping_points drop points or the whole path; long "
             "property values. kind lw: I = error word + one hex token per record of the file Library::write_gds wrote, M = the same for "
             "write_gds_model (lower L): identical text; P = read_gds(write_gds(L)) compared with expectations computed in the harness "
             "by integer arithmetic from the parameters (polygons, paths, labels copy by copy in file order; reference placements as a "
             "multiset after expanding re-loaded arrays with Repetition::get_offsets). kind pl: I = re-loaded placements per cell "
             "(sorted, 2^-10 database units), M = the reader's denotation of lower L (gref_denote), S = source placements rounded to the "
             "grid (sref_spec). kinds fo / plo (arrays with a pitch or an origin off the grid), fs / pls (unrotated lattice skewed by "
             "1e-6 or 2e-6), fc (32767 .. 70000 columns): same lines, the inputs on which the array branch is known to deviate, with "
             "their own finding keys. Non-trivial: payload longer than 120 characters; distinct = distinct (kind, payload)"),
    "trusted": ["harness/c01_lower.cpp: construction of the gdstk objects and of the model payload from the same integer parameters; "
                "expectations of the P line (round half away from zero on integers, offsets enumerated column-major)",
                "ocaml/c01_lower_driver.ml: payload parser, record splitting of the model's byte stream, sorting of the placement text",
                "rotation data handed to the model: the quarter-turn index m / the exact (cos, sin) pair the generated double stands for, "
                "and the binary64 pattern of rotation * (180 / M_PI), unit / precision, precision / unit computed by the harness"],
    "assumptions": ["the double arithmetic of the writers is exact on the generated inputs (dyadic coordinates below 2^22 steps, "
                    "scalings 2^k and 3 * 2^7)", "the lattice test is never within 1e-14 of its threshold on the generated inputs"],
    "thorough_seeds": 1,
}


def same(kind, impl, model):
    return impl.strip() == model.strip()


def nontrivial(kind, payload, r):
    return len(payload) > 120


def classify(kind, payload, r, m):
    if kind == "plo":
        return "Reference::to_gds:aref-off-grid"
    if kind == "pls":
        return "Reference::to_gds:aref-skew-within-tolerance"
    return "gds-lower-placements"
