def same(kind, impl, model):
    return impl.strip() == model.strip()


def nontrivial(kind, payload, r):
    return len(payload) > 120


def classify(kind, payload, r, m):
    return kind + "-vs-spec"
