"""C20 — containers, property lists and sorting behave as their abstract models."""
CONFIG = {
    "manifest": {
        "level_text": "Coq theorems, closed under the global context. Tables: for every history of set / overwrite / get / has / del / clear / copy / iterate, every hash function and every tuning triple satisfying an explicit side condition (met by the generated constants), the open-addressing model (linear probing with wrap-around, resize test before probing, back-shift re-insertion on delete, mirroring map.hpp statement by statement) produces the outputs of an association-list map, never crashing or hanging; instances for Map (FNV-1a over signed chars), Set, StyleMap and TagMap (identity default, set k k = del k). Sorting: insertion sort, the median-of-three Hoare partition, the bottom-up heap sort and the introsort recursion return an ordered permutation for every strict weak order (permutation and absence of out-of-bounds access for every irreflexive comparator; two refutations show irreflexivity cannot be dropped). Property lists: every function equals its list specification and any operation sequence refines the ordered multimap. All three models run, extracted, against the real code on adversarial histories (colliding / wrapping keys through every growth step, raw slot layout compared), arrays of every length through the three sort regimes, and property-list histories in forked children.",
        "level_note": "The public resize(c) is inside the table theorems for every capacity but 1 (Properties_C20R: tresize_any, table_refines_map_resize over a weaker invariant; capacity 1 leaves a full one-slot table - refutation witnesses replayed on the four real tables, known finding resize:capacity-1-full-table); iteration order is compared up to permutation in the theorem but exactly in the run. uint64 overflow of count*10 and allocation failure are not modelled. The remove_property crash found by this check was repaired by a fix: commit; the model mirrors the fixed function and the generated flag remove_property_guard ties it to the source.",
        "technique": "Coq refinement proofs (invariant by induction over operation lists) + extracted-model differential runs",
    },
    "prop_file": "Properties_C20",
    "extra_prop_files": ["Properties_C20R"],
    "rule": ("tables: histories of up to 200 ops (some long) over Map<uint64_t>, Set, TagMap, StyleMap with keys chosen to collide, wrap past "
             "the table end and straddle every growth step; results of every op, sorted element set after iteration and the raw slot layout; "
             "sort: arrays of every length 0..300 in sorted / reversed / constant / organ-pipe / few-distinct / random shapes under <, > and a "
             "by-key comparator with ties, plus direct heap_sort / insertion_sort / intro_sort(depth 0); property lists: random op "
             "sequences over 4 names x all value kinds x both removal modes + gds variants + copy, each in a forked child. "
             "non-trivial: payload with at least 4 tokens"),
    "units": [
        {"harness": "c20_table", "driver": "c20_table", "extracted": ["c20_table"], "extract_file": "Extract_C20Table", "thorough_seeds": 1},
        {"harness": "c20_sort", "driver": "c20_sort", "extracted": ["c20_sort"], "extract_file": "Extract_C20Sort", "thorough_seeds": 1},
        {"harness": "c20_proplist", "driver": "c20_proplist", "extracted": ["c20_proplist"], "extract_file": "Extract_C20PropList", "thorough_seeds": 1},
    ],
    "trusted": ["char is signed on this platform (hash of bytes >= 0x80 sign-extends); the model mirrors that"],
    "assumptions": ["no uint64 overflow of count*10 / capacity*growth; allocation never fails"],
}


def same(kind, impl, model):
    if " L:" not in model and not model.startswith("L:"):
        impl = impl.rsplit(" L:", 1)[0] if " L:" in impl else ("" if impl.startswith("L:") else impl)
    return impl.strip() == model.strip()


def nontrivial(kind, payload, r):
    return len(payload.split()) >= 4


def classify(kind, payload, r, m):
    return kind + "-vs-spec"
