"""C04R - statement-level Coq model of read_oas (OASIS reader) tied to the real reader; merged into C04 / C02."""
CONFIG = {
    "manifest": {'level_text': "Statement-level Gallina model read_oas_model of gdstk's read_oas on uncompressed byte streams (header / START, the record switch 0-34 with every modal variable the C++ keeps, name tables with implicit / explicit numbers, references resolved at END, sticky stream errors with the values the helpers return after a failure, undefined behaviour as Crash). Theorem oas_reader_accepts_spec_partial: for EVERY byte stream accepted by the restricted strict decoder cov_oas_decode (a sub-decoder of spec_oas_decode: cov_refines_spec) the reader model returns Ok (view L); per-record lemmas relate every dec_<record> of OasisSpec.v to the reader's branch through modal_rel. The statement for all of spec_oas_decode is refuted by explicit witnesses (findings).", 'level_note': "The reader model is tied to the code by the differential run only (identical dump text on valid and malformed streams). Where the model says Crash the C++ has undefined behaviour and the comparison accepts any implementation result; Hang / Crash from memory exhaustion use fixed thresholds.", 'technique': 'Coq proof of reader-vs-strict-decoder agreement on all covered streams + differential run of the extracted reader model against read_oas on encoder-generated, gdstk-written and malformed streams'},
    "prop_file": "Properties_C04R",
    "extract_file": "Extract_C04R",
    "extracted": ["c04r"],
    "driver": "c04r",
    "harness": "c04r",
    "rule": ("every case is a byte stream without CBLOCK records, loaded by read_oas(file, 0, 0, &ec) in a forked child (I: canonical "
             "dump on the integer grid, or eof / overflow / invalid / unsupported / crash / hang) and by the extracted read_oas_model "
             "(M, same text). kinds: spec = specification-level random encoder (all record kinds, modal reuse per info bit, "
             "XYRELATIVE, repetition types 0-11, point-list types 0-5, reals 0-7, 26 compact trapezoids, name tables implicit / "
             "explicit before or after use, PROPERTY / LAST_PROPERTY); gdstk = files written by write_oas under all option words "
             "and deflate levels with CBLOCKs spliced out; trunc = prefixes of small valid streams (every offset of the first "
             "bases); flip = one byte replaced; badrec = a record byte replaced (START out of place, XNAME..XGEOMETRY, CBLOCK, "
             "unknown ids); dangle = a name-table record removed; cut / dup = a record removed / duplicated. When the strict decoder "
             "accepts a covered stream the driver also prints S = dump of view(L). Non-trivial: streams longer than the 14-byte "
             "header; distinct = distinct byte strings"),
    "trusted": ["harness/c04r.cpp dump_lib and ocaml/c04r_driver.ml dump: canonical text, circle recognition (a polygon of n >= 5 "
                "vertices on the circle ellipse() samples is printed as circle cx cy r), double conversion of reals",
                "harness/oas_scan.hpp (CBLOCK splicing, record offsets for the malformed cases), harness/oas_encoder.hpp"],
    "assumptions": ["coordinates below 2^50 grid steps and a unit real giving 1e-15 < precision < 1e3 (beyond that both sides print "
                    "bigcoord / badunit)", "an allocation of 2^36 bytes or more fails; 2^26 iterations of failing reads do not finish",
                    "CBLOCK (record 34) is outside the model: such cases are not compared"],
    "thorough_seeds": 1,
}


def _abnormal(s):
    return s in ("crash", "hang")


def same(kind, impl, model):
    i, m = impl.strip(), model.strip()
    if i == m:
        return True
    if m == "cblock":      # record 34 reached: outside the model
        return True
    if m == "crash":       # the C++ has undefined behaviour on this stream: any result is allowed
        return True
    if m == "hang":        # resource exhaustion: time limit or failed allocation
        return _abnormal(i)
    return False


def nontrivial(kind, payload, r):
    return len(payload.split(" ")[-1]) > 29


def classify(kind, payload, r, m):
    return "oas-reader-" + kind
