"""C04R - statement-level Coq model of read_oas (OASIS reader) tied to the real reader; merged into C04 / C02."""
CONFIG = {
    "manifest": {'level_text': "Statement-level Gallina model read_oas_model (coq/OasisRead.v) of gdstk's read_oas on uncompressed byte streams: header / START, the record switch 0-34 with every modal variable the C++ keeps (never reset at CELL except positions and xy-mode), name tables with implicit / explicit numbers, next_property targets, references and unfinished property names / values resolved at END, sticky stream errors with the values the helpers return after a failure, undefined behaviour as Crash. Theorem oas_reader_accepts_spec_partial (closed under the global context): for EVERY byte stream bs, spec_oas_decode bs = Some L and covered bs imply read_oas_model bs = Ok (view L), where covered bs := cov_oas_decode bs <> None and cov_oas_decode is a restriction of the strict decoder (cov_refines_spec) by the conditions (c1)-(c8) listed in OasisRead.v. Per-record theorems reader_rectangle / polygon / path / trapezoid / ctrapezoid / circle / text / placement / property / last_property relate every covered dec_<record> to the reader's branch through modal_rel; reader_repetition, reader_point_list, reader_end for the helpers and the END resolution. The unrestricted statement is refuted by nine explicit witnesses (oas_reader_accepts_spec_refuted_*), each confirmed on the real reader.", 'level_note': "The reader model is tied to the code by the differential run only (identical dump text on valid and malformed streams) and by the regenerated CTRAPEZOID table / enum constants. Where the model says Crash the C++ has undefined behaviour and the comparison accepts any implementation result; Hang / Crash from memory exhaustion use fixed thresholds (allocation of 2^36 bytes fails, 2^26 failing iterations do not finish). CBLOCK is outside the model.", 'technique': 'Coq proof of reader-vs-strict-decoder agreement on all covered streams (simulation between the decoder state and the reader state, END resolution included) + differential run of the extracted reader model against read_oas on encoder-generated, reader-grammar-directed random, gdstk-written and malformed streams + extracted covered decoder as S-line oracle'},
    "prop_file": "Properties_C04R",
    "extract_file": "Extract_C04R",
    "extracted": ["c04r"],
    "driver": "c04r",
    "harness": "c04r",
    "rule": ("every case is a byte stream without CBLOCK records, loaded by read_oas(file, 0, 0, &ec) in a forked child (I: canonical "
             "dump on the integer grid, or eof / overflow / invalid / unsupported / crash / hang) and by the extracted read_oas_model "
             "(M, same text). kinds: spec = specification-level random encoder (all record kinds, modal reuse per info bit, "
             "XYRELATIVE, repetition types 0-11, point-list types 0-5, reals 0-7, 26 compact trapezoids, name tables implicit / "
             "explicit before or after use, PROPERTY / LAST_PROPERTY); gdstk = files written by write_oas under all option words "
             "and deflate levels with CBLOCKs spliced out; trunc = prefixes of small valid streams (every offset of the first "
             "bases); flip = one byte replaced; badrec = a record byte replaced (START out of place, XNAME..XGEOMETRY, CBLOCK, "
             "unknown ids); dangle = a name-table record removed; cut / dup = a record removed / duplicated; rand = reader-grammar-"
             "directed random records (random info bytes followed by exactly the fields they demand, all repetition / point-list / "
             "compact-trapezoid / property-value types incl. unknown ones, layers above 2^32, properties after every kind of name "
             "record and after LAYERNAME); reader = corpus/C04/*.case, the witnesses of the known deviations. Whenever the strict "
             "decoder spec_oas_decode accepts the stream the driver also prints S = dump of view(L) (property C04 on the real "
             "reader); for a stream outside the covered decoder the S line carries ` #guard=<c1..c8>` (first failed guard, "
             "diag_oas), which becomes the finding key oas-reader:<...> when S and I differ; no S line when only (c5) CTRAPEZOID "
             "type 25 (modal height: specification not settled), (c7) or a dropped property with a dangling reference fail (not "
             "legal OASIS, the strict decoder is lenient). Non-trivial: streams longer than the 14-byte header; "
             "distinct = distinct byte strings"),
    "trusted": ["harness/c04r.cpp dump_lib and ocaml/c04r_driver.ml dump: canonical text, circle recognition (a polygon of n >= 5 "
                "vertices on the circle ellipse() samples is printed as circle cx cy r), double conversion of reals",
                "harness/oas_scan.hpp (CBLOCK splicing, record offsets for the malformed cases), harness/oas_encoder.hpp"],
    "assumptions": ["coordinates below 2^40 grid steps and a unit real giving 1e-15 < precision < 1e3 (beyond that both sides print "
                    "bigcoord / badunit)", "an allocation of 2^36 bytes or more fails; where the model says hang (2^26 iterations of failing reads, 2^32 bytes of table fillers) the result depends on the machine and any implementation result is accepted",
                    "CBLOCK (record 34) is outside the model: such cases are not compared"],
    "thorough_seeds": 1,
}


# finding keys of the guards of the covered decoder (coq/OasisRead.v, (c1)-(c8)); the driver appends ` #guard=<name>` to the S
# line of a stream that spec_oas_decode accepts and cov_oas_decode does not
GUARD_KEYS = {
    "c1": "oas-reader:nonminimal-byte-field",
    "c2": "oas-reader:layer-above-32-bits",
    "c3": "oas-reader:count-wrap",
    "c4": "oas-reader:empty-path",
    "c6-textstring": "oas-reader:property-after-textstring",
    "c6-layername": "oas-reader:property-after-layername",
}
# no S line (hence no key) for c5 (CTRAPEZOID 25 modal height: not settled), c7 (two CELL records with one reference number) and
# c6-after-PROPNAME/PROPSTRING / c8 (dropped property with a dangling reference): the strict decoder is lenient there


def _split_guard(s):
    s = s.strip()
    i = s.rfind(" #guard=")
    if i < 0:
        return s, None
    return s[:i], s[i + 8:]


def _abnormal(s):
    return s in ("crash", "hang")


def same(kind, impl, model):
    i = impl.strip()
    m, guard = _split_guard(model)
    if i == m:
        return True
    if guard is not None:  # an S line of an uncovered stream: the strict decoder's layout, compared exactly
        return False
    if m == "badunit":     # the unit real leaves the range in which coordinates are grid integers: read_oas computes with
        return _abnormal(i)  # infinities / NaN (e.g. ellipse() with tolerance 0), which may also crash or hang
    if m == "cblock":      # record 34 reached: outside the model
        return True
    if m == "crash":       # the C++ has undefined behaviour on this stream: any result is allowed
        return True
    if m == "hang":        # resource-dependent (>= 2^26 failing iterations, >= 2^32 bytes of table fillers): whether the real run
        return True        # finishes, is killed by the time limit or runs out of memory depends on the machine
    return False


def nontrivial(kind, payload, r):
    return len(payload.split(" ")[-1]) > 29


def classify(kind, payload, r, m):
    """key of a failed S comparison: the guard the stream fails, or a reader/decoder disagreement on a covered stream"""
    _, guard = _split_guard(m.get("S", ""))
    if guard is None:
        return "oas-reader-covered-" + kind       # contradicts oas_reader_accepts_spec_partial + the model tie
    return GUARD_KEYS.get(guard, "oas-reader:unclassified")
