"""C12 / unit c12_cuts - statement-level Coq model of the cut choice of Polygon::fracture (axis, cut positions) tied to the real
code path; to be run as a second unit of C12 (see the "units" entry in the report / checks/c12.py)."""
CONFIG = {
    "manifest": {'level_text': "Statement-level Gallina model fracture_cuts (coq/FractureCuts.v) of one round of the loop of Polygon::fracture up to the call of slice: bounding box, num_cuts = num_points / max_points, axis test max.x - min.x > max.y - min.y, coordinate copy, gdstk's own sort (the Sort.v model, proved an ordered permutation for every strict weak order), the two scans that strip the minimum / maximum values, the three cut rules (midpoint, all interior coordinates, interior[(uint64_t)(j * frac)]). Doubles are Flocq binary64 values and every floating-point operation of the C++ is the Flocq operation (round to nearest even; truncating cast), so axis and cuts are bit-exact. Theorems for EVERY vertex list of finite doubles below 2^1023 with more than max_points > 4 and fewer than 2^53 vertices: if the chosen-axis coordinates are not all equal the model returns the axis the extent test chooses and a cut list with between 1 and num_cuts cuts, finite, non-decreasing, each a coordinate of the subject STRICTLY between the minimum and the maximum or (when no coordinate lies strictly inside) the single midpoint, which lies within [min, max] (fracture_cuts_ok, cuts_within); no index (uint64_t)(j * frac) reaches interior.count (cut_index_in_bounds, over Flocq binary64 for every count < 2^53); the cuts taken to the integer grid by llround(scaling * c) satisfy sortedZ, the hypothesis of the strip theorems of slice (cuts_grid_sorted, fracture_cuts_strips); for EVERY vertex list of finite doubles the model returns a cut list - no out-of-bounds access, no undefined cast (fracture_cuts_no_crash); if the chosen-axis coordinates are all equal - exactly when all vertices are one point (degenerate_axis_iff) - the first scan stops at the end of the array, the interior count is 0 and the single cut is that coordinate (fracture_cuts_all_equal); the code before commit e912cb9 (unbounded first scan) is kept as fracture_cuts_unrepaired with its Crash theorem and witness (fracture_cuts_unrepaired_crash, fracture_cuts_unrepaired_refuted). 'The midpoint is strictly inside' is refuted in floating point (midpoint_strict_refuted: two adjacent doubles) and proved on a dyadic grid (midpoint_exact_strict). On the integer grid slice works on: a strip of strictly interior cuts is narrower than the box (strips_narrower), llround((A+B)/2) is strictly inside iff B - A >= 2 (grid_midpoint_strict), every piece has a smaller extent sum (grid_chop_decreases) and the work-list loop terminates (fracture_terminates_partial) - CONDITIONAL on Clipper's contract that a strip result lies inside its strip and on strictly interior cuts (Section hypotheses).", 'level_note': "The model is tied to the code by the differential run: src/polygon.cpp is compiled into the harness with the call of slice inside Polygon::fracture renamed to a logging wrapper, so every round of the real loop yields (subject, axis, cuts), compared bit for bit with the extracted model. The doubles Polygon::fracture allocates for its coordinate copy end at an inaccessible page in the harness children (the allocate / free_allocation calls written in polygon.cpp are renamed the same way), so a read past that array faults in every build; a crash on all-identical vertices is reported under the key of the repaired defect c12-fracture-scan-oob. Termination is proved only under Clipper's contract and strictly interior grid cuts; a hang with adjacent-double extents on a weakly simple polygon is a recorded witness (report). NaN / infinite coordinates are outside the model (ErrInvalid).", 'technique': 'Coq proofs over Flocq binary64 (cut bounds, order, index bound) + Z-level progress / termination under the Clipper contract + differential run of the extracted model against the logged arguments of slice'},
    "prop_file": "Properties_C12F",
    "extract_file": "Extract_C12F",
    "extracted": ["c12_cuts"],
    "driver": "c12_cuts",
    "harness": "c12_cuts",
    "include_cpp": ["polygon.cpp"],
    "thorough_seeds": 1,
    "rule": ("Polygon::fracture runs in a forked child on the generated vertex list; the wrapper around slice logs the subject polygon, "
             "the axis flag and the cut array of every round (first round only for vertex lists that are not simple polygons: the "
             "child leaves inside the wrapper). kinds: cuts = first round (subject = the generated polygon), cutsn = later rounds "
             "(subjects are pieces Clipper returned), fracidx = the expression (uint64_t)(j * (count / (num_cuts + 1.0))) for "
             "counts up to 2^53, cutsall = corpus / replay only (all rounds on the real slice; a fracture that does not return is a "
             "failing oracle line c12-cutsall-hang). I = `x|y <cuts as hex doubles>` / nocall / crash / hang, M = the extracted fracture_cuts on the "
             "same subject and limit, compared as text. Generators: star, comb, saw, stairs, spiral, convex polygons on the 1e-3 "
             "grid with collinear / repeated vertices and off-grid shifts (all rounds); few-interior (0, <= num_cuts, num_cuts + 1, "
             "num_cuts + 2 interior coordinates); frac-exact (interior counts for which j * count / (num_cuts + 1) is an integer for some j, "
             "half of them (count, num_cuts) pairs found by search on which the double computation of the index differs from the "
             "exact quotient); large (300..5000 vertices, limits 5..200, coordinate pools with many repeats, "
             "full-mantissa, subnormal and signed-zero coordinates); degenerate axis (one point - must return the single cut equal to the coordinate -, horizontal, "
             "vertical, 3x3 lattice); axis-tie (equal extents, extents one ulp apart, extents whose difference vanishes in the "
             "rounding of the subtraction); midpoint (two values 1..4 ulps apart, opposite signs, subnormals). P: cut list "
             "non-empty, non-decreasing and within the subject's extent on the chosen axis; the first subject is the polygon "
             "itself; a crash on all-identical vertices = c12-fracture-scan-oob (repaired by e912cb9). Non-trivial: more than 5 vertices (fracidx: all); "
             "distinct = distinct payloads"),
    "trusted": ["harness/c12_cuts.cpp: the macro that renames the call of slice inside the included polygon.cpp, the log "
                "format and its parser", "ocaml/c12_cuts_driver.ml: hex <-> bit pattern conversion"],
    "assumptions": ["coordinates are finite doubles (NaN / infinity: outside the model)",
                    ],
}


def same(kind, impl, model):
    # the model never says crash on finite input (fracture_cuts_no_crash): a crash of the real code is a difference
    return impl.strip() == model.strip()


def nontrivial(kind, payload, r):
    if kind == "fracidx":
        return True
    return len(payload.split()) >= 18   # L, S, N + at least six vertices


def classify(kind, payload, r, m):
    return kind + "-vs-spec"
