"""C19 — number encodings are lossless."""
CONFIG = {
    "manifest": {'level_text': 'Coq theorems (closed under the global context) state, for ALL values and byte strings, the round trip of OASIS unsigned / signed / packed integers and 2-, 3-, g-deltas, acceptance of every alternative legal encoding up to 10 bytes, and overflow flagging, on a Gallina model that mirrors the C++ codecs statement by statement. The model is tied to /repo on every run by an obligation over literals regenerated from the source and by running the extracted model and the real codecs on the same inputs; a verified executable form of the specification relation serves as the property oracle.', 'level_note': 'Trusted: Coq kernel, extraction (ExtrOcamlBasic only), regex translator, C++ harness (in-memory OasisStream; static codecs reached by #include of src/oasis.cpp). Point lists, GDSII reals, OASIS reals and byte swaps are covered by the c19_plist / c19_real units when present in the check configuration; otherwise only by the differential run.', 'technique': 'Coq proof over Gallina model of the codecs + generated-constant obligations + extracted-model differential run'},
    "prop_file": "Properties_C19",
    "extract_file": "Extract_C19",
    "extracted": ["c19"],
    "driver": "c19",
    "harness": "c19",
    "include_cpp": ["oasis.cpp"],
    "rule": ("cases: deterministic sweep of every 7-bit group boundary (+-1) for unsigned and packed integers, then a "
             "seeded mix of encode/decode round trips (uint, packed int with 1..4 flag bits, signed, 2/3/g-delta) and of "
             "spec-level random encodings (non-minimal, over-long, truncated, overflowing) decoded by implementation and model; "
             "a case is non-trivial when its value needs more than one byte or its byte string has more than one byte; "
             "distinct = distinct (kind, payload)"),
    "trusted": ["harness reaches static codecs by #include of /repo/src/oasis.cpp (current working tree)"],
    "assumptions": ["in-memory OasisStream behaves like a file for sequential reads (short read = bytes exhausted)"],
}


def same(kind, impl, model):
    if model.strip() == "anyerr":
        return impl.split(" ")[0] in ("eof", "overflow", "invalid")
    return impl.strip() == model.strip()


def nontrivial(kind, payload, r):
    return len(payload.replace(" ", "").replace("-", "")) > 2


def classify(kind, payload, r, m):
    return kind + "-vs-spec"
