"""C19 — number encodings are lossless."""
CONFIG = {
    "prop_file": "Properties_C19",
    "extract_file": "Extract_C19",
    "extracted": ["c19"],
    "driver": "c19",
    "harness": "c19",
    "include_cpp": ["oasis.cpp"],
    "rule": ("cases: deterministic sweep of every 7-bit group boundary (+-1) for unsigned and packed integers, then a "
             "seeded mix of encode/decode round trips (uint, packed int with 1..4 flag bits, signed, 2/3/g-delta) and of "
             "spec-level random encodings (non-minimal, over-long, truncated, overflowing) decoded by implementation and model; "
             "a case is non-trivial when its value needs more than one byte or its byte string has more than one byte; "
             "distinct = distinct (kind, payload)"),
    "trusted": ["harness reaches static codecs by #include of /repo/src/oasis.cpp (current working tree)"],
    "assumptions": ["in-memory OasisStream behaves like a file for sequential reads (short read = bytes exhausted)"],
}


def same(kind, impl, model):
    if model.strip() == "anyerr":
        return impl.split(" ")[0] in ("eof", "overflow", "invalid")
    return impl.strip() == model.strip()


def nontrivial(kind, payload, r):
    return len(payload.replace(" ", "").replace("-", "")) > 2


def classify(kind, payload, r, m):
    return kind + "-vs-spec"
