"""C19 — number encodings are lossless."""
CONFIG = {
    "manifest": {'level_text': "Coq theorems for ALL values: OASIS unsigned / signed / packed integers and 2-, 3-, g-deltas round trip, every alternative legal integer encoding up to 10 bytes is accepted, values beyond 64 bits are flagged; point lists of any length round trip under both closed settings and every one of the six list types is accepted (writer's type selection state machine and the implicit closing vertex included); GDSII 8-byte reals: decode(encode x) = x exactly for every normal double of the format's range (encoder modelled exactly: exponent = ceil(frexp exponent / 4)), normalisation idempotent, the 56-to-53-bit rounding of the decoder is the identity on encoder outputs; 16/32/64-bit swaps are byte reversals and involutive (by byte decomposition, not sampling); OASIS reals over Flocq binary64: every finite double except -0.0 round trips bit for bit whichever of the integer / reciprocal / IEEE forms the writer picks. All models mirror the C++ statement by statement and run, extracted, against the real codecs; literals are regenerated from the source.", 'level_note': "Theorems over Z/N/Q are closed under the global context; the OASIS-real theorems depend on the standard-library axioms that Flocq's definitions pull in (ClassicalDedekindReals.sig_forall_dec, sig_not_dec, FunctionalExtensionality.functional_extensionality_dep, Classical_Prop.classic). Ratio and single-precision reals (types 4-6) are inside the theorems (Properties_C19R2.v: oas_real_float_form - every finite single converts exactly, subnormals and signed zeros included -, oas_real_ratio_form - the correctly rounded quotient of the correctly rounded operands -, oas_real_ratio_exact, oas_real_all_spellings_agree: the 8-byte form, every exact ratio, the single with the same value and the writer's own form decode to ONE bit pattern); the sign of a NaN produced by 0/0 is not modelled. -0.0 is written as integer 0 (sign lost; numerically equal) - recorded, not flagged. Padded integers of 11+ bytes are flagged as overflow by design (stated bound). Two defects found by this check were repaired by fix: commits.", 'technique': 'Coq proof over Gallina model of the codecs + generated-constant obligations + extracted-model differential run'},
    "prop_file": "Properties_C19",
    "extra_prop_files": ["Properties_C19R2"],   # ratio (types 4/5) and single-precision (type 6) reals: all spellings of a value decode to one bit pattern
    "units": [
        {"harness": "c19", "driver": "c19", "extracted": ["c19"], "extract_file": "Extract_C19", "include_cpp": ["oasis.cpp"]},
        {"harness": "c19_plist", "driver": "c19_plist", "extracted": ["c19_plist"], "extract_file": "Extract_C19Plist", "thorough_seeds": 2},
        {"harness": "c19_real", "driver": "c19_real", "extracted": ["c19_real"], "extract_file": "Extract_C19Real", "thorough_seeds": 1},
    ],
    "rule": ("cases: deterministic sweep of every 7-bit group boundary (+-1) for unsigned and packed integers, then a "
             "seeded mix of encode/decode round trips (uint, packed int with 1..4 flag bits, signed, 2/3/g-delta) and of "
             "spec-level random encodings (non-minimal, over-long, truncated, overflowing) decoded by implementation and model; "
             "a case is non-trivial when its value needs more than one byte or its byte string has more than one byte; "
             "distinct = distinct (kind, payload)"),
    "trusted": ["harness reaches static codecs by #include of /repo/src/oasis.cpp (current working tree)",
                "standard-library axioms used by Flocq (only under the OASIS-real theorems): ClassicalDedekindReals.sig_forall_dec, sig_not_dec, FunctionalExtensionality.functional_extensionality_dep, Classical_Prop.classic"],
    "assumptions": ["in-memory OasisStream behaves like a file for sequential reads (short read = bytes exhausted)"],
}


def same(kind, impl, model):
    if model.strip() == "anyerr":
        return impl.split(" ")[0] in ("eof", "overflow", "invalid")
    return impl.strip() == model.strip()


def nontrivial(kind, payload, r):
    return len(payload.replace(" ", "").replace("-", "")) > 2


def classify(kind, payload, r, m):
    return kind + "-vs-spec"
