"""OAS_CBLOCK - compressed blocks (CBLOCK records, zlib) around the statement-level OASIS reader / writer models; second unit of
C02 and C04 (compression levels 1-9 of the writer, CBLOCK handling and block-end behaviour of the reader)."""
CONFIG = {
    "manifest": {'level_text': "Statement-level Gallina models with zlib as a PARAMETER (Section variables inflate / deflate of coq/OasisCblock.v, OasisCblockWrite.v; never axioms): read_oas_model_c = read_oas_model of OasisRead.v with `case OasisRecord::CBLOCK` executed (compression type, uncompressed size stored in in.data_size before the compressed size is read, the compressed bytes taken from the FILE also for a CBLOCK record that lies inside a block, (uInt) truncation of both sizes, short fread = InvalidFile, inflate(Z_FINISH) != Z_STREAM_END = ZlibError, empty block, output shorter than announced = indeterminate buffer) and with the memory-buffer branch of oasis_read (one-byte reads run off the end of a block into the file, a multi-byte read across the end reads out of bounds); write_oas_model_c = Library::write_oas with compression_level > 0 (CELL record in the file, the rest of the cell through the buffer, CBLOCK 0 size total_out data whenever the cell wrote anything, positions of the compressed file in S_CELL_OFFSET and END). Theorems for EVERY inflate / deflate: cblock_conservative (no record 34 met: same outcome as read_oas_model, so every reader theorem carries over), cblock_splice / cblock_splice_file (a block whose data inflate to the announced size is transparent: same reader state, modal variables carry through, provided no CBLOCK lies inside and no record with a multi-byte read crosses its end), cblock_bad_type / cblock_inflate_fails / cblock_truncated / cblock_final_not_lib (error paths: exactly InvalidFile / ZlibError / one of the two; a CBLOCK record never ends the loop with a library), oas_roundtrip_compressed (for every codec with inflate (deflate x) |x| = Some x and every well-formed library of the covered subset: reader model on the compressed writer model's file = reader model on the uncompressed file = the library; flag OASIS_CONFIG_PROPERTY_CELL_OFFSET off; with the flag on the equation with the UNCOMPRESSED file is refuted by a witness, the values are file positions).", 'level_note': "zlib itself is not modelled: the differential run instantiates inflate / deflate with finite tables computed by the harness with zlib and gdstk's parameters. Where the model says crash (out-of-bounds memcpy of a multi-byte read across a block end - decided per record kind, conservatively -, indeterminate tail of a short block) any implementation result is accepted; `invalid|zlib` accepts either code (inflate ran over the uninitialised rest of its input buffer). The loop of the model is bounded by fuel (Hang beyond); an arbitrary inflate can make the real loop run forever as well.", 'technique': 'Coq proofs parametric in the codec (conservative extension, block transparency by the loop\'s own stepping, error paths, round trip under compression through the guarded decoder of OasisRoundtrip.v) + differential run of the extracted models with table codecs against read_oas / write_oas'},
    "prop_file": "Properties_C02C",
    "extract_file": "Extract_OasCblock",
    "extracted": ["oas_cblock"],
    "driver": "oas_cblock",
    "harness": "oas_cblock",
    "rule": ("kinds rdc-*: a byte stream with CBLOCK records, loaded by read_oas(file, 0, 0, &ec) in a forked child (I: canonical dump "
             "of harness/c04r.cpp on the integer grid, or eof / overflow / invalid / unsupported / zlib / crash / hang) and by the "
             "extracted read_oas_model_c whose inflate is the table of the case payload (M, same text). The table is computed by the "
             "harness with zlib (inflateInit2(-15), inflate(Z_FINISH) into avail_out bytes) for every CBLOCK header found at ANY offset "
             "of the file and inside the inflated blocks (nested); a query outside the table gives M = tablemiss (not compared, counted). "
             "rdc-gdstk = files written by write_oas at levels 1-9 under all option words (P: dump of the level-k file = dump of the "
             "level-0 file, implementation alone); rdc-enc = specification-level encoder with CBLOCKs around runs of cell-body records; "
             "rdc-wrap = CBLOCKs placed by the harness around byte ranges of CBLOCK-free streams (encoder, gdstk, reader-grammar-directed "
             "random records): ending at a record boundary or inside a record, two in a row, nested (header inside a block, data in the "
             "file, tail of the outer block lost), empty, uncompressed / compressed size too large or too small incl. 2^32 wrap-around, "
             "one bit of the deflate data flipped, data cut short, compression type != 0; rdc-trunc = every prefix of small such files, "
             "rdc-flip = one byte replaced. kind wrc: a random library of the covered subset (generator and library text of unit c04w) saved "
             "by write_oas at level 1-9 with flags 0 or OASIS_CONFIG_PROPERTY_CELL_OFFSET: I = hex of the file, M = hex of "
             "write_oas_model_c with deflate = table (cell bodies taken from the level-0 file, deflated by the harness with "
             "deflateInit2(level, Z_DEFLATED, -15, 8, Z_DEFAULT_STRATEGY)); identical bytes required; P: load(level k) = load(level 0). "
             "Non-trivial: every case; distinct = distinct byte strings / libraries"),
    "trusted": ["harness/c04r.cpp dump_lib and the dump code of ocaml/oas_cblock_driver.ml (copied from c04r_driver.ml)",
                "harness/oas_cblock.cpp inflate_gd / deflate_gd: zlib called with gdstk's parameters; the tables are facts about zlib",
                "harness/c04w.cpp serialise() and the parser of the library text (as unit c04w)",
                "standard-library axioms used by Flocq under oas_roundtrip_compressed* (through OasisReal.enc_real): "
                "ClassicalDedekindReals.sig_forall_dec, sig_not_dec, FunctionalExtensionality.functional_extensionality_dep, "
                "Classical_Prop.classic"],
    "assumptions": ["as unit c04r (coordinates below 2^40 grid steps, allocation of 2^36 bytes fails, hang = machine dependent)",
                    "zlib: inflate never writes more than avail_out bytes; an unbounded reference result longer than avail_out is Z_BUF_ERROR",
                    "malloc of less than 2^36 bytes succeeds (uncompressed sizes between 2^32 and 2^36 are generated in the thorough tier only)"],
    "thorough_seeds": 1,
}


def same(kind, impl, model):
    i = impl.strip()
    m = model.strip()
    if i == m:
        return True
    if kind == "wrc":          # bytes of the file: identical or different
        return False
    if m == "badunit":         # as unit c04r
        return i in ("crash", "hang")
    if m in ("crash", "hang"):  # undefined behaviour in the C++ / resource dependent: any result
        return True
    if m == "tablemiss":       # the model asked for an inflate result the harness did not foresee: not compared
        return True
    if m == "invalid|zlib":    # short fread, then inflate over the uninitialised rest of its input buffer
        return i in ("invalid", "zlib")
    return False


def nontrivial(kind, payload, r):
    return True


def classify(kind, payload, r, m):
    if kind == "wrc":
        return "oas-cblock:writer-bytes"
    return "oas-cblock:reader-" + kind
