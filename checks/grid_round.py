"""C01G - unit grid_round: bit-exact Flocq model of the floating-point step between user doubles and the integer database grid
(write_gds / write_oas scaling + lround, UNITS / START reals, read_gds / read_oas factor / unit / precision / tolerance,
oasis_read_point_list accumulation, remove_overlapping_points) tied to the real writers and readers; second unit of C01 (kinds gw,gr)
and C02 (kinds ow,or)."""
CONFIG = {
    "manifest": {'level_text': "Bit-exact Gallina model over Flocq binary64 (coq/GridRound.v, reusing GdsUnits.v for the GDSII reader side, GdsReal.v / OasisReal.v for the stored reals) of the step the integer-grid round-trip theorems start after: Library::write_gds / write_oas `scaling = unit / precision`, `(int32_t)lround((offset + x) * scaling)` of Polygon / FlexPath / Label / Reference::to_gds, the path width `lround(2 * half_width * scaling)` and end extensions, `(int64_t)llround(x * scaling)` of the OASIS writers, the UNITS record gdsii_real_from_double(precision / unit), (precision), the START real 1e-6 / precision; read_gds (factor, unit = precision / factor, tolerance) and read_oas (`factor = 1 / real; precision = 1e-6 * factor; unit = 1e-6`), `factor * k`, the floating-point ACCUMULATION of oasis_read_point_list (all list types, implied closing vertex), and the test of FlexPath::remove_overlapping_points. Theorems for ALL inputs in stated ranges (Properties_C01G.v, 25): round_away_spec (lround = Flocq's half-away rounding); save_is_grid_rounding_gds / _oas (the integer written is within 1/2 + |X| (2 u + u^2) of the REAL X = x unit / precision, every finite x, every unit / precision in 2^-200 .. 2^200), save_exact_pow2 (no slack when unit / precision is a power of two), save_slack_refuted (unit 1e-6, precision 1e-9, x = 0x3F76872B020C49BB: X < 5.5, 6 written), save_monotone; gds_load_save_stable + gds_width_stable (EVERY positive UNITS record, EVERY int32: load then save writes the same integer - coordinates, extensions, widths), gds_real_reload / gds_units_reload / gds_save_load_save (precision re-loads exactly, unit within 2 u / (1 - u)), gds_unit_reload_refuted (unit 1e-4 / precision 1e-12: one ulp off), gds_load_monotone; oas_unit_real_reload, oas_load_save_stable (|k| <= 2^49, START real in 2^-100 .. 2^100), oas_save_load_save, oas_load_save_large_refuted (k = 4503599627370474), oas_points_close / oas_points_stable / oas_points_stable_int (accumulated vertices within F V ((1+u)^(2n+2) - 1) of the grid point; stable when (2 n + 6) V <= 2^50), oas_load_monotone, oas_precision_drift_refuted (precision 1.1e-8 moves by one ulp per cycle), overlap_merged_short / step_merged_short / step_not_merged_pow2 (a one-step segment is dropped only when its floating-point length is below the tolerance; never for a power-of-two factor; 9 -> 10, 1024 -> 1025, 2048 -> 2049 for the default 1e-6 / 1e-9).", 'level_note': "Theorems depend on the standard-library axioms that Flocq's definitions pull in (ClassicalDedekindReals.sig_forall_dec, sig_not_dec, FunctionalExtensionality.functional_extensionality_dep, Classical_Prop.classic). Interior points of a path with more than two points go through FlexPath::element_center (normalisation + segments_intersection in floating point) before they are rounded: not modelled (covered by the C07 oracle); repetitions (offset + x with a non-zero offset) are in GdsLower.v on Q; target-unit loads are in GdsUnits.v. lround / llround results outside int64, infinities and NaN are unspecified in C and `ub` in the model (not generated).", 'technique': 'Coq proof over a Flocq binary64 model + extracted-model differential run bit for bit / integer for integer against write_gds, read_gds, write_oas, read_oas + implementation-level oracles (second and third cycle)'},
    "prop_file": "Properties_C01G",
    "extract_file": "Extract_GridRound",
    "extracted": ["grid_round"],
    "driver": "grid_round",
    "harness": "grid_round",
    "rule": ("one library per chain: unit / precision (usual decimal pairs, other decimal pairs, powers of two, ratio 1, awkward ratios), "
             "a 4-vertex polygon (rectangles and general), a label, a reference, a 2-point simple path with half width and two end "
             "extensions; coordinates on the grid, within +-3 ulp of half-way points (k + 1/2) precision / unit, quarter points, random; "
             "integers small / 2^22 / near +-2^31 / INT32 extremes / (OASIS) 2^40 and beyond 2^50. kind gw / ow: I = the UNITS reals or the START "
             "real and EVERY integer found in the written file by an independent record walk (GDSII records; OASIS records through oas_scan.hpp), "
             "M = the extracted model on the doubles. kind gr / or: I = library.unit, precision, path tolerance and every loaded double "
             "(polygon vertices, origins, half width, end type, extensions, spine) as bit patterns, then the reals and integers of the file "
             "written from the loaded library ('nopath' when remove_overlapping_points emptied the path), M = the model on the file's "
             "content (gr also on hand-built files with arbitrary positive reals incl. 56-bit and un-normalised mantissas). P (implementation "
             "alone): written integer within the proven slack of the long-double product and monotone; unit / precision after a load; "
             "second file = first file on every integer, third file = second file byte for byte, UNITS / START reals stable, loaded "
             "coordinates strictly monotone. Pinned first cases: the slack witness, 1e-4 / 1e-12 and 0.1 / 1e-10 (unit one ulp off), precision "
             "1.1e-8 (drift), the grid steps 9 -> 10 and 2048 -> 2049, k = 4503599627370474. Non-trivial: a payload with a non-zero "
             "coordinate; distinct = distinct payloads"),
    "trusted": ["harness/grid_round.cpp: library construction, GDSII record walk, OASIS record decoding (point lists, extension schemes) on top of oas_scan.hpp, hand-built GDSII files",
                "ocaml/grid_round_driver.ml: text layout, point-list type -> per-axis steps, end-type decision of read_oas on bit patterns (== 0, == half width)",
                "standard-library axioms used by Flocq: ClassicalDedekindReals.sig_forall_dec, sig_not_dec, FunctionalExtensionality.functional_extensionality_dep, Classical_Prop.classic"],
    "assumptions": ["lround / llround round halves away from zero (C99) and long is 64 bits", "x86-64 SSE2 double arithmetic is IEEE 754 binary64 round-to-nearest-even (no x87 excess precision, no FMA contraction)",
                    "frexp / ceil / pow(16, n) / exp2 of integer arguments are exact (gdsii_real_from_double / to_double, validated by the differential run)",
                    "a 2-point simple path: element_center returns the spine points themselves (spine + normal * 0)"],
    "thorough_seeds": 1,
}


def same(kind, impl, model):
    return impl.strip() == model.strip()


def nontrivial(kind, payload, r):
    w = payload.split(" | ")[-1].split(" ")
    return len(w) >= 19 and any(x not in ("0", "-0", "0000000000000000", "8000000000000000") for x in w[2:])


def classify(kind, payload, r, m):
    return "grid-round-model-mismatch-" + kind
