(* extraction of the C06 hierarchy model (unit c06_hierarchy) *)
From Coq Require Import QArith NArith.
Require Import Affine Hierarchy.
Require Import Extraction ExtrOcamlBasic.
Extraction Blacklist List String Int.
Extraction "../ocaml/extracted/c06_hierarchy.ml"
  cell_get flatten_fuel denote_d expand elem_shapes shape_of lookup
  gshape_apply gshape_shift
  vred ared affred plred polyred fpred rpred grid Qred Qmake N.eqb aff_id placement_map.
