(* A strict, grammar-directed decoder for GDSII streams (the specification side of C03) and the proof
   that the flat state machine of read_gds agrees with it on EVERY stream the grammar accepts.

     stream    := HEADER BGNLIB LIBNAME {libopt} UNITS {structure} ENDLIB
     structure := BGNSTR STRNAME {STRCLASS} {element} ENDSTR
     element   := BOUNDARY flags LAYER DATATYPE XY+ props ENDEL
                | BOX      flags LAYER BOXTYPE  XY+ props ENDEL
                | PATH     flags LAYER DATATYPE [PATHTYPE] [WIDTH] [BGNEXTN] [ENDEXTN] XY1 XY* props ENDEL
                | SREF     flags SNAME [STRANS [MAG] [ANGLE]] XY props ENDEL
                | AREF     flags SNAME [STRANS [MAG] [ANGLE]] COLROW XY props ENDEL
                | TEXT     flags LAYER TEXTTYPE [PRESENTATION] [PATHTYPE] [WIDTH] [STRANS [MAG] [ANGLE]] XY STRING props ENDEL
     flags     := {ELFLAGS | PLEX}         props := {PROPATTR PROPVALUE}
     libopt    := REFLIBS | FONTS | ATTRTABLE | GENERATIONS | FORMAT | MASK | ENDMASKS

   Value restrictions (streams outside them are not GDSII, and the real readers leave the model there):
     PATH: the first XY record holds at least one point (read_gds indexes data32[0..1] and loops data_length - 2 times);
     WIDTH > -2^31 (the code negates the int32); COLROW columns, rows in 1..32767 (the code divides by them);
     UNITS: both reals positive (sign clear, mantissa non-zero: the code divides by / scales with them);
     strings (LIBNAME STRNAME SNAME STRING): no NUL except one final pad byte (the code keeps a C string).

   Field values are read with the same accessors as the reader model (byte order is C19's / the
   round-trip theorem's business); what is proved here is that grammar position and reader state agree:
   optional records, record order, XY continuation, BOX, missing WIDTH / PATHTYPE / STRANS defaults,
   AREF lattice classification, property attachment, the closing vertex. *)
Require Import Base GdsFrame GdsModel GdsWrite GdsRoundtrip.
From Coq Require Import ZArith Lia.
Local Open Scope N_scope.

Definition recs := list grecord.

Definition is_rec (t d : N) (r : grecord) : bool := (rtype r =? t) && (dtype r =? d).
Definition plen (r : grecord) : N := N.of_nat (length (payload r)).

(* records the reader ignores (warning only) *)
Definition ignorable (r : grecord) : bool :=
  match kind_of (rtype r) with KOther => true | _ => false end.

Fixpoint skip_flags (l : recs) : recs :=
  match l with
  | r :: tl => if ((rtype r =? 38) || (rtype r =? 47)) then skip_flags tl else l
  | [] => []
  end.

(* XY+ : points of consecutive XY records; at least one record, each a whole number of points *)
Fixpoint take_xy_more (l : recs) : list pt * recs :=
  match l with
  | r :: tl =>
      if is_rec 16 3 r && (plen r mod 8 =? 0) then
        let '(pts, rest) := take_xy_more tl in
        (points_of (swap4 (payload r)) (data_length 3 (payload r) / 2) ++ pts, rest)
      else ([], l)
  | [] => ([], [])
  end.
Definition take_xy (l : recs) : option (list pt * recs) :=
  match l with
  | r :: tl =>
      if is_rec 16 3 r && (plen r mod 8 =? 0) then
        let '(pts, rest) := take_xy_more tl in
        Some (points_of (swap4 (payload r)) (data_length 3 (payload r) / 2) ++ pts, rest)
      else None
  | [] => None
  end.

(* XY+ whose first record holds at least one point (PATH: read_gds reads data32[0], data32[1] of the first record
   unconditionally and then copies data_length - 2 more numbers: an empty first record wraps that count around) *)
Definition take_xy1 (l : recs) : option (list pt * recs) :=
  match l with
  | r :: _ => if 8 <=? plen r then take_xy l else None
  | [] => None
  end.

Fixpoint take_props (acc : gprops) (l : recs) : gprops * recs :=
  match l with
  | ra :: rv :: tl =>
      if is_rec 43 2 ra && (plen ra =? 2) && is_rec 44 6 rv then
        take_props (set_gds_prop acc (Z.to_N (d16 (swap2 (payload ra)) 0 mod 65536)) (cstring (payload rv))) tl
      else (acc, l)
  | _ => (acc, l)
  end.

Definition take1 (t d : N) (len : N) (l : recs) : option (grecord * recs) :=
  match l with
  | r :: tl => if is_rec t d r && (plen r =? len) then Some (r, tl) else None
  | [] => None
  end.
Definition opt1 (t d : N) (len : N) (l : recs) : option grecord * recs :=
  match take1 t d len l with Some (r, tl) => (Some r, tl) | None => (None, l) end.
(* strings: the reader drops one trailing NUL and then keeps the bytes as a C string, so a NUL anywhere else would cut it
   short; gdstk (and the format) pad an odd-length string with ONE NUL and never write another *)
Fixpoint no_nulb (s : bytes) : bool :=
  match s with [] => true | b :: tl => negb (b =? 0) && no_nulb tl end.
Definition take_str (t : N) (l : recs) : option (bytes * recs) :=
  match l with
  | r :: tl => if is_rec t 6 r && no_nulb (strip_nul (payload r)) then Some (strip_nul (payload r), tl) else None
  | [] => None
  end.
Definition take_endel (l : recs) : option recs :=
  match l with
  | r :: tl => if rtype r =? 17 then Some tl else None
  | [] => None
  end.

Definition f16 (r : grecord) : Z := d16 (swap2 (payload r)) 0.
Definition f32 (r : grecord) : Z := d32 (swap4 (payload r)) 0.
Definition f64 (r : grecord) : N := d64 (swap8 (payload r)) 0.

(* WIDTH: the reader computes `-data32[0]` for a negative value: -2^31 has no negation in int32 *)
Definition width_ok (ow : option grecord) : bool :=
  match ow with Some r => (-2147483648 <? f32 r)%Z | None => true end.
(* COLROW: the reader divides the lattice extent by columns and by rows *)
Definition colrow_ok (rc : grecord) : bool :=
  (1 <=? d16 (swap2 (payload rc)) 0)%Z && (1 <=? d16 (swap2 (payload rc)) 1)%Z.
(* an 8-byte real that is positive: sign bit clear, mantissa non-zero *)
Definition real_pos (v : N) : bool := (v <? 9223372036854775808) && (0 <? real_mantissa v).
Definition units_ok (ru : grecord) : bool :=
  real_pos (d64 (swap8 (payload ru)) 0) && real_pos (d64 (swap8 (payload ru)) 1).

(* [STRANS [MAG] [ANGLE]] *)
Definition take_strans (l : recs) : (bool * N * N) * recs :=
  match take1 26 1 2 l with
  | None => ((false, real_one, 0), l)
  | Some (rs, l1) =>
      let refl := Z.ltb (f16 rs) 0 in
      let '(om, l2) := opt1 27 5 8 l1 in
      let '(oa, l3) := opt1 28 5 8 l2 in
      ((refl, match om with Some r => f64 r | None => real_one end, match oa with Some r => f64 r | None => 0 end), l3)
  end.

Definition closed_poly (pts : list pt) : option (list pt) :=
  match pts with
  | [] => None
  | p0 :: _ =>
      let lst := last pts p0 in
      if ((fst p0 =? fst lst)%Z && (snd p0 =? snd lst)%Z) then Some (removelast pts) else None
  end.

Definition spec_boundary (box : bool) (l : recs) : option (gelem * recs) :=
  let l := skip_flags l in
  match take1 13 2 2 l with None => None | Some (rl, l) =>
  match take1 (if box then 46 else 14) 2 2 l with None => None | Some (rt, l) =>
  match take_xy l with None => None | Some (pts, l) =>
  let '(ps, l) := take_props [] l in
  match take_endel l with None => None | Some l =>
  match closed_poly pts with None => None | Some open_pts =>
    Some (EPoly {| p_layer := f16 rl; p_type := f16 rt; p_pts := open_pts; p_props := ps |}, l)
  end end end end end.

Definition spec_path (l : recs) : option (gelem * recs) :=
  let l := skip_flags l in
  match take1 13 2 2 l with None => None | Some (rl, l) =>
  match take1 14 2 2 l with None => None | Some (rt, l) =>
  let '(opt_, l) := opt1 33 2 2 l in
  let '(ow, l) := opt1 15 3 4 l in
  let '(ob, l) := opt1 48 3 4 l in
  let '(oe, l) := opt1 49 3 4 l in
  if width_ok ow then
  match take_xy1 l with None => None | Some (pts, l) =>
  let '(ps, l) := take_props [] l in
  match take_endel l with None => None | Some l =>
    let en := match opt_ with
              | Some r => match f16 r with 0%Z => EFlush | 1%Z => ERound | 2%Z => EHalf | _ => EExt end
              | None => EFlush end in
    let w := match ow with Some r => f32 r | None => 0%Z end in
    Some (EPath {| h_layer := f16 rl; h_type := f16 rt; h_end := en; h_width := Z.abs w;
                   h_scale_width := match ow with Some _ => (0 <=? w)%Z | None => false end;
                   h_ext := (match ob with Some r => f32 r | None => 0%Z end, match oe with Some r => f32 r | None => 0%Z end);
                   h_pts := pts; h_props := ps |}, l)
  end end else None end end.

Definition spec_ref (array : bool) (l : recs) : option (gelem * recs) :=
  let l := skip_flags l in
  match take_str 18 l with None => None | Some (nm, l) =>
  let '((refl, mag, rot), l) := take_strans l in
  if array then
    match take1 19 2 4 l with None => None | Some (rc, l) =>
    if colrow_ok rc then
    match take1 16 3 24 l with None => None | Some (rx, l) =>
    let '(ps, l) := take_props [] l in
    match take_endel l with None => None | Some l =>
      let mem := swap4 (payload rx) in
      let origin := (d32 mem 0, d32 mem 1) in
      let regular := negb ((real_mantissa rot =? 0) && negb refl) in
      let g := if regular
               then {| g_cols := d16 (swap2 (payload rc)) 0; g_rows := d16 (swap2 (payload rc)) 1; g_regular := true;
                       g_p2 := (d32 mem 2, d32 mem 3); g_p3 := (d32 mem 4, d32 mem 5) |}
               else {| g_cols := d16 (swap2 (payload rc)) 0; g_rows := d16 (swap2 (payload rc)) 1; g_regular := false;
                       g_p2 := (d32 mem 2, snd origin); g_p3 := (fst origin, d32 mem 5) |} in
      Some (ERef {| r_name := nm; r_origin := origin; r_refl := refl; r_mag := mag; r_rot := rot;
                    r_rep := Some g; r_props := ps |}, l)
    end end else None end
  else
    match take1 16 3 8 l with None => None | Some (rx, l) =>
    let '(ps, l) := take_props [] l in
    match take_endel l with None => None | Some l =>
      let mem := swap4 (payload rx) in
      Some (ERef {| r_name := nm; r_origin := (d32 mem 0, d32 mem 1); r_refl := refl; r_mag := mag; r_rot := rot;
                    r_rep := None; r_props := ps |}, l)
    end end
  end.

Definition spec_text (l : recs) : option (gelem * recs) :=
  let l := skip_flags l in
  match take1 13 2 2 l with None => None | Some (rl, l) =>
  match take1 22 2 2 l with None => None | Some (rt, l) =>
  let '(opr, l) := opt1 23 1 2 l in
  let '(_, l) := opt1 33 2 2 l in
  let '(ow, l) := opt1 15 3 4 l in
  if width_ok ow then
  let '((refl, mag, rot), l) := take_strans l in
  match take1 16 3 8 l with None => None | Some (rx, l) =>
  match take_str 25 l with None => None | Some (tx, l) =>
  let '(ps, l) := take_props [] l in
  match take_endel l with None => None | Some l =>
    let mem := swap4 (payload rx) in
    Some (ELabel {| l_layer := f16 rl; l_type := f16 rt; l_text := tx; l_origin := (d32 mem 0, d32 mem 1);
                    l_anchor := match opr with Some r => Z.to_N (f16 r mod 16) | None => 0 end;
                    l_refl := refl; l_mag := mag; l_rot := rot; l_props := ps |}, l)
  end end end else None end end.

Definition spec_element (l : recs) : option (gelem * recs) :=
  match l with
  | r :: tl =>
      if plen r =? 0 then
        match rtype r with
        | 8 => spec_boundary false tl
        | 45 => spec_boundary true tl
        | 9 => spec_path tl
        | 10 => spec_ref false tl
        | 11 => spec_ref true tl
        | 12 => spec_text tl
        | _ => None
        end
      else None
  | [] => None
  end.

(* {element} ENDSTR, on fuel = number of records *)
Fixpoint spec_elements (fuel : nat) (l : recs) : option (list gelem * recs) :=
  match fuel with
  | O => None
  | S f =>
      match l with
      | r :: tl =>
          if rtype r =? 7 then Some ([], tl)
          else match spec_element l with
               | None => None
               | Some (e, rest) =>
                   match spec_elements f rest with
                   | None => None
                   | Some (es, rest') => Some (e :: es, rest')
                   end
               end
      | [] => None
      end
  end.

Fixpoint skip_strclass (l : recs) : recs :=
  match l with
  | r :: tl => if rtype r =? 52 then skip_strclass tl else l
  | [] => []
  end.

Definition cell_of (nm : bytes) (es : list gelem) : gcell :=
  fold_left (commit None) es {| c_name := nm; c_polys := []; c_paths := []; c_refs := []; c_labels := [] |}.

Fixpoint spec_structures (fuel : nat) (l : recs) : option (list gcell * recs) :=
  match fuel with
  | O => None
  | S f =>
      match l with
      | r :: tl =>
          if rtype r =? 4 then Some ([], tl)
          else if is_rec 5 2 r && (plen r =? 24) then
            match take_str 6 tl with None => None | Some (nm, l1) =>
            match spec_elements (length l1) (skip_strclass l1) with None => None | Some (es, l2) =>
            match spec_structures f l2 with None => None | Some (cs, l3) =>
              Some (cell_of nm es :: cs, l3)
            end end end
          else None
      | [] => None
      end
  end.

Definition libopt (r : grecord) : bool :=
  match rtype r with 31 | 32 | 35 | 34 | 54 | 55 | 56 => true | _ => false end.
Fixpoint skip_libopt (l : recs) : recs :=
  match l with
  | r :: tl => if libopt r then skip_libopt tl else l
  | [] => []
  end.

Definition spec_records (l : recs) : option glib :=
  match take1 0 2 2 l with None => None | Some (_, l) =>
  match take1 1 2 24 l with None => None | Some (_, l) =>
  match take_str 2 l with None => None | Some (nm, l) =>
  match take1 3 5 16 (skip_libopt l) with None => None | Some (ru, l) =>
  if units_ok ru then
  match spec_structures (length l) l with None => None | Some (cs, _) =>
    Some {| g_name := nm; g_units := (d64 (swap8 (payload ru)) 0, d64 (swap8 (payload ru)) 1); g_cells := cs |}
  end else None end end end end.

(* strict framing: every record has an even length of at least 4 and is complete *)
Fixpoint frame_all (fuel : nat) (bs : bytes) : option recs :=
  match fuel with
  | O => None
  | S f =>
      match bs with
      | [] => Some []
      | _ =>
          match next_record bs with
          | Ok (r, rest) =>
              if Nat.even (length (payload r)) then
                if rtype r =? 4 then Some [r]      (* ENDLIB ends the stream; tape padding may follow *)
                else match frame_all f rest with Some l => Some (r :: l) | None => None end
              else None
          | _ => None
          end
      end
  end.

Definition spec_decode (bs : bytes) : option glib :=
  match frame_all (S (length bs)) bs with
  | Some l => spec_records l
  | None => None
  end.
