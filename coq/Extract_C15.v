Require Import Bezier.
From Coq Require Import QArith Qround ZArith NArith.
Require Import Extraction ExtrOcamlBasic.
Extraction Blacklist List String Int.
Extraction "../ocaml/extracted/c15.ml"
  run_call run commands instr_call sec_ctrl sec_start sec_end penult
  decasteljau bernstein step_clamp_at step_rule_clamp_b deriv1 deriv2 ctrl_span_lt_quarter
  seg_closer_than q_seg_closer grid_round on_grid
  decasteljauZ round_shift circle_h ell_map_h h_seg_closer
  stereo ell_affine aff_apply aff_unapply aff_det norm2 inner cross padd psub pscale
  rectangle_pts cross_pts
  Qplus Qminus Qmult Qdiv Qinv Qopp Qred Qle_bool Qeq_bool Qcompare inject_Z Qfloor Qceiling
  Z.add Z.sub Z.mul Z.opp Z.leb Z.ltb Z.eqb Z.abs Z.compare Z.div Z.pow_pos Z.of_nat Z.shiftl Z.shiftr Z.modulo Z.log2 N.add.
