(* C04S (unit oas_std, part of C04 / C02) - the STANDARD PROPERTIES of Library::write_oas: S_MAX_*_INTEGER_WIDTH, S_MAX_STRING_LENGTH,
   S_POLYGON_MAX_VERTICES, S_PATH_MAX_VERTICES, S_TOP_CELL, S_BOUNDING_BOXES_AVAILABLE, S_BOUNDING_BOX; the second call.
   Theorem-only file (statements taken from `Check`): every proof is `exact <lemma>`; Print Assumptions under each. *)
From Coq Require Import QArith Qround.
Require Import Base Generated OasisInt OasisIntProofs PropList OasisSpec OasisSpecProofs OasisWrite OasisWriteProofs OasisStd OasisStdProofs OasisStdExamples.
Require BBox BBoxProofs.
Local Open Scope N_scope.

Theorem attach_std_ok_thm : forall (f : std_flags) (src : std_src) (l : wlib), std_ok f src l -> wlib_ok (attach_std f src l).
Proof. exact (@attach_std_ok_lemma). Qed.
Print Assumptions attach_std_ok_thm.

Theorem std_writer_conforms_thm : forall (cfg : wcfg) (f : std_flags) (src : std_src) (l : wlib), std_ok f src l -> spec_oas_decode (write_oas_model_std cfg f src l) = Some (view_w cfg (attach_std f src l)).
Proof. exact (@std_writer_conforms_lemma). Qed.
Print Assumptions std_writer_conforms_thm.

Theorem max_counts_spec_thm : forall (lprops : wprops) (cells : list wcell), max_counts lprops cells = {| mc_string := lmax (props_lens lprops ++ flat_map cell_string_lens cells) 28; mc_polygon := lmax (flat_map cell_polygon_lens cells) 0; mc_path := lmax (flat_map cell_path_lens cells) 0 |}.
Proof. exact (@max_counts_spec_lemma). Qed.
Print Assumptions max_counts_spec_thm.

Theorem std_max_counts_stated_thm : forall (cfg : wcfg) (f : std_flags) (src : std_src) (l : wlib), sf_max_counts f = true -> let m := std_counts f src l in exists rest : list prop, l_props (view_w cfg (attach_std f src l)) = uint_prop s_max_path_name (mc_path m) :: uint_prop s_max_polygon_name (mc_polygon m) :: uint_prop s_max_string_size_name (mc_string m) :: uint_prop s_max_uint_size_name 8 :: uint_prop s_max_int_size_name 8 :: rest /\ (forall p : prop, In p rest -> prop_named_in max_names p = false).
Proof. exact (@std_max_counts_stated_lemma). Qed.
Print Assumptions std_max_counts_stated_thm.

Theorem std_polygon_max_truth_thm : forall (cfg : wcfg) (f : std_flags) (src : std_src) (l : wlib) (L : layout), std_ok f src l -> sf_max_counts f = true -> spec_oas_decode (write_oas_model_std cfg f src l) = Some L -> let v := mc_polygon (std_counts f src l) in In (uint_prop s_max_polygon_name v) (l_props L) /\ v = lmax (layout_polygon_counts L) 0 /\ (forall n : N, In n (layout_polygon_counts L) -> n <= v) /\ (layout_polygon_counts L <> [] -> In v (layout_polygon_counts L)).
Proof. exact (@std_polygon_max_truth_lemma). Qed.
Print Assumptions std_polygon_max_truth_thm.

Theorem std_path_max_truth_thm : forall (cfg : wcfg) (f : std_flags) (src : std_src) (l : wlib) (L : layout), std_ok f src l -> sf_max_counts f = true -> spec_oas_decode (write_oas_model_std cfg f src l) = Some L -> let v := mc_path (std_counts f src l) in In (uint_prop s_max_path_name v) (l_props L) /\ (forall n : N, In n (layout_path_counts L) -> n <= v) /\ ((forall (c : wcell) (h : wpath), In c (li_cells l) -> In h (cl_paths c) -> (length (ph_els h) <= 1)%nat) -> v = lmax (layout_path_counts L) 0).
Proof. exact (@std_path_max_truth_lemma). Qed.
Print Assumptions std_path_max_truth_thm.

Theorem std_string_max_truth_thm : forall (cfg : wcfg) (f : std_flags) (src : std_src) (l : wlib) (L : layout), std_ok f src l -> sf_max_counts f = true -> spec_oas_decode (write_oas_model_std cfg f src l) = Some L -> let v := mc_string (std_counts f src l) in In (uint_prop s_max_string_size_name v) (l_props L) /\ 28 <= v /\ (forall s : list N, In s (layout_strings L) -> nlen s <= v).
Proof. exact (@std_string_max_truth_lemma). Qed.
Print Assumptions std_string_max_truth_thm.

Theorem top_cells_truth_thm : forall (src : std_src) (l : wlib) (nm : list N), src_ok src l -> In nm (top_cells src (li_cells l)) <-> (exists (i : nat) (c : wcell), nth_error (li_cells l) i = Some c /\ cl_name c = nm /\ ~ designated src i).
Proof. exact (@top_cells_truth_lemma). Qed.
Print Assumptions top_cells_truth_thm.

Theorem std_top_cell_truth_thm : forall (cfg : wcfg) (f : std_flags) (src : std_src) (l : wlib) (L : layout), std_ok f src l -> src_ok src l -> sf_top_level f = true -> spec_oas_decode (write_oas_model_std cfg f src l) = Some L -> layout_top_cells L = rev (top_cells src (li_cells l)) /\ (forall nm : list N, In nm (layout_top_cells L) <-> (exists (i : nat) (c : wcell), nth_error (li_cells l) i = Some c /\ cl_name c = nm /\ ~ designated src i)).
Proof. exact (@std_top_cell_truth_lemma). Qed.
Print Assumptions std_top_cell_truth_thm.

Theorem lower_cell_one_thm : forall c : wcell, lower_cell 1 c = c.
Proof. exact (@lower_cell_one_lemma). Qed.
Print Assumptions lower_cell_one_thm.

Theorem std_bbox_stated_thm : forall (cfg : wcfg) (f : std_flags) (src : std_src) (l : wlib) (L : layout), std_ok f src l -> sf_bbox f = true -> spec_oas_decode (write_oas_model_std cfg f src l) = Some L -> In (uint_prop s_bounding_box_available_name 2) (l_props L) /\ length (l_cells L) = length (li_cells l) /\ (forall (i : nat) (dc : cell) (b : BBox.box), nth_error (l_cells L) i = Some dc -> nth_error (std_boxes src (li_cells l)) i = Some b -> In (bbox_prop b) (c_props dc) /\ (forall p : prop, In p (c_props dc) -> p_name p = NName s_bounding_box_name -> p = bbox_prop b)).
Proof. exact (@std_bbox_stated_lemma). Qed.
Print Assumptions std_bbox_stated_thm.

Theorem std_boxes_exact_thm : forall (src : std_src) (cells : list wcell), box_wf src cells -> Forall2 (fun (t : BBox.cell) (b : BBox.box) => BBoxProofs.is_bbox (BBox.flatten t) b) (map fst (std_trees src cells)) (std_boxes src cells).
Proof. exact (@std_boxes_exact_lemma). Qed.
Print Assumptions std_boxes_exact_thm.

Theorem box_values_of_points_thm : forall (S : list BBox.pt) (b : BBox.box), BBoxProofs.is_bbox S b -> S <> [] -> exists xm ym xM yM : Z, box_values b = [VUInt 0; VInt xm; VInt ym; VUInt (u64z (xM - xm)); VUInt (u64z (yM - ym))] /\ is_zmin (rounded_xs S) xm /\ is_zmin (rounded_ys S) ym /\ is_zmax (rounded_xs S) xM /\ is_zmax (rounded_ys S) yM.
Proof. exact (@box_values_of_points_lemma). Qed.
Print Assumptions box_values_of_points_thm.

Theorem std_bbox_truth_thm : forall (cfg : wcfg) (f : std_flags) (src : std_src) (l : wlib) (L : layout), std_ok f src l -> box_wf src (li_cells l) -> sf_bbox f = true -> spec_oas_decode (write_oas_model_std cfg f src l) = Some L -> forall (i : nat) (dc : cell) (t : BBox.cell) (ok : bool), nth_error (l_cells L) i = Some dc -> nth_error (std_trees src (li_cells l)) i = Some (t, ok) -> exists vals : list value, In {| p_name := NName s_bounding_box_name; p_std := false; p_vals := map view_value vals |} (c_props dc) /\ (forall p : prop, In p (c_props dc) -> p_name p = NName s_bounding_box_name -> p_vals p = map view_value vals) /\ (BBox.flatten t = [] -> vals = [VUInt 0; VInt 0; VInt 0; VUInt 0; VUInt 0]) /\ (BBox.flatten t <> [] -> exists xm ym xM yM : Z, vals = [VUInt 0; VInt xm; VInt ym; VUInt (u64z (xM - xm)); VUInt (u64z (yM - ym))] /\ is_zmin (rounded_xs (BBox.flatten t)) xm /\ is_zmin (rounded_ys (BBox.flatten t)) ym /\ is_zmax (rounded_xs (BBox.flatten t)) xM /\ is_zmax (rounded_ys (BBox.flatten t)) yM).
Proof. exact (@std_bbox_truth_lemma). Qed.
Print Assumptions std_bbox_truth_thm.

Theorem second_write_same_thm : forall (cfg : wcfg) (f : std_flags) (src : std_src) (l : wlib), sf_max_counts f = false \/ no_reserved_counts l -> write_oas_model_std cfg f src (lib_after_write cfg f src l) = write_oas_model_std cfg f src l.
Proof. exact (@second_write_same_lemma). Qed.
Print Assumptions second_write_same_thm.

Theorem path_max_exact_refuted_thm : exists (cfg : wcfg) (f : std_flags) (src : std_src) (l : wlib) (L : layout), std_ok f src l /\ sf_max_counts f = true /\ spec_oas_decode (write_oas_model_std cfg f src l) = Some L /\ mc_path (std_counts f src l) = 4 /\ lmax (layout_path_counts L) 0 = 2.
Proof. exact (@path_max_exact_refuted). Qed.
Print Assumptions path_max_exact_refuted_thm.

Theorem string_max_placement_refuted_thm : exists (cfg : wcfg) (f : std_flags) (src : std_src) (l : wlib) (L : layout) (s : list N), std_ok f src l /\ sf_max_counts f = true /\ spec_oas_decode (write_oas_model_std cfg f src l) = Some L /\ In s (layout_placement_names L) /\ mc_string (std_counts f src l) < nlen s.
Proof. exact (@string_max_placement_refuted). Qed.
Print Assumptions string_max_placement_refuted_thm.

Theorem top_cell_name_reference_refuted_thm : exists (cfg : wcfg) (f : std_flags) (src : std_src) (l : wlib) (L : layout) (nm : list N), std_ok f src l /\ src_ok src l /\ sf_top_level f = true /\ spec_oas_decode (write_oas_model_std cfg f src l) = Some L /\ In nm (layout_top_cells L) /\ In nm (layout_placement_names L) /\ In nm (map cl_name (li_cells l)).
Proof. exact (@top_cell_name_reference_refuted). Qed.
Print Assumptions top_cell_name_reference_refuted_thm.

Theorem bbox_name_reference_refuted_thm : exists (cfg : wcfg) (src src' : std_src) (l : wlib), write_oas_model cfg (attach_std {| sf_max_counts := false; sf_top_level := false; sf_bbox := false |} src l) = write_oas_model cfg (attach_std {| sf_max_counts := false; sf_top_level := false; sf_bbox := false |} src' l) /\ box_covered src (li_cells l) = true /\ box_covered src' (li_cells l) = true /\ nth_error (map box_values (std_boxes src (li_cells l))) 0 = Some [VUInt 0; VInt (-5); VInt (-200); VUInt 1020; VUInt 1215] /\ nth_error (map box_values (std_boxes src' (li_cells l))) 0 = Some [VUInt 0; VInt (-5); VInt (-200); VUInt 5013; VUInt 5219].
Proof. exact (@bbox_name_reference_refuted). Qed.
Print Assumptions bbox_name_reference_refuted_thm.

Theorem bbox_of_file_geometry_refuted_thm : std_ok all_flags offgrid_src offgrid_lib /\ box_wf offgrid_src (li_cells offgrid_lib) /\ map box_values (std_boxes offgrid_src (li_cells offgrid_lib)) = [[VUInt 0; VInt 0; VInt 0; VUInt 1; VUInt 0]] /\ li_cells (attach_std {| sf_max_counts := false; sf_top_level := false; sf_bbox := false |} offgrid_src offgrid_lib) = [{| cl_name := [65]; cl_polys := [{| py_layer := 1; py_type := 0; py_pts := [(0%Z, 0%Z); (0%Z, 0%Z); (0%Z, 0%Z)]; py_rep := WRect 3 1 0 0; py_props := [] |}]; cl_paths := []; cl_refs := []; cl_labels := []; cl_props := [] |}] /\ map box_values (std_boxes ongrid_src (li_cells (attach_std {| sf_max_counts := false; sf_top_level := false; sf_bbox := false |} offgrid_src offgrid_lib))) = [[VUInt 0; VInt 0; VInt 0; VUInt 0; VUInt 0]].
Proof. exact (@bbox_of_file_geometry_refuted). Qed.
Print Assumptions bbox_of_file_geometry_refuted_thm.

Theorem second_write_same_refuted_thm : exists (cfg : wcfg) (f : std_flags) (src : std_src) (l : wlib), std_ok f src l /\ mc_string (std_counts f src l) = 35 /\ mc_string (std_counts f src (lib_after_write cfg f src l)) = 28 /\ write_oas_model_std cfg f src (lib_after_write cfg f src l) <> write_oas_model_std cfg f src l.
Proof. exact (@second_write_same_refuted). Qed.
Print Assumptions second_write_same_refuted_thm.

Theorem sample_std_ok_thm : forall f : std_flags, std_ok f sample_src sample_lib.
Proof. exact (@sample_std_ok). Qed.
Print Assumptions sample_std_ok_thm.

Theorem sample_src_ok_thm : src_ok sample_src sample_lib.
Proof. exact (@sample_src_ok). Qed.
Print Assumptions sample_src_ok_thm.

Theorem sample_box_wf_thm : box_wf sample_src (li_cells sample_lib) /\ box_covered sample_src (li_cells sample_lib) = true.
Proof. exact (@sample_box_wf). Qed.
Print Assumptions sample_box_wf_thm.

Theorem sample_std_values_thm : std_counts all_flags sample_src sample_lib = {| mc_string := 28; mc_polygon := 4; mc_path := 4 |} /\ top_cells sample_src (li_cells sample_lib) = [[84; 79; 80]; [66]] /\ map box_values (std_boxes sample_src (li_cells sample_lib)) = [[VUInt 0; VInt (-5); VInt (-200); VUInt 1020; VUInt 1215]; [VUInt 0; VInt 0; VInt 0; VUInt 3; VUInt 3]; [VUInt 0; VInt 0; VInt 0; VUInt 5000; VUInt 5000]] /\ spec_oas_decode (write_oas_model_std {| cfg_cell_offset := true |} all_flags sample_src sample_lib) = Some (view_w {| cfg_cell_offset := true |} (attach_std all_flags sample_src sample_lib)) /\ length (write_oas_model_std {| cfg_cell_offset := true |} all_flags sample_src sample_lib) = 778%nat.
Proof. exact (@sample_std_values). Qed.
Print Assumptions sample_std_values_thm.

