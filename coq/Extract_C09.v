Require Import Base BBox.
Require Import Extraction ExtrOcamlBasic.
Extraction Blacklist List String Int.
Extraction "../ocaml/extracted/c09.ml" q_of_bits grid_round bbox polygon_bbox label_bbox
  cell_query_g ref_bbox_g ref_hull_g convex_hull_w convex_hull_w_old hull_mc canon_pts flatten ref_points rep_points
  collinearb same_x fallback fallback_old cache_get cache_set cell_name cell_refs corners rat N.ltb N.leb.
