Require Import Base BBox.
Require Import Extraction ExtrOcamlBasic.
Extraction Blacklist List String Int.
Extraction "../ocaml/extracted/c09.ml" q_of_bits grid_round bbox polygon_bbox label_bbox
  cell_query ref_bbox_c ref_hull_c convex_hull_w convex_hull_w_fixed hull_mc canon_pts flatten ref_points rep_points
  collinearb same_x fallback cache_get cache_set cell_name cell_refs corners rat N.ltb N.leb.
