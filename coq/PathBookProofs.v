(* C07 / C08 -- proofs about the models of PathBook.v.  Main results end in _lemma:

   (i)   flexpath_counts_invariant_lemma, flexpath_counts_every_fill_needed_lemma, fill_linear_lemma
   (ii)  segments_intersection_correct_lemma, cap_extents_lemma, straight_segment_region_lemma
   (iii) interp_endpoints_lemma, serp_monotone_lemma, query_index_lemma,
         eval_extrapolates_linearly_lemma, gradient_is_derivative_lemma (polynomial sections;
         Arc and Parametric sections are not covered: gradient_is_derivative is partial in that sense) *)
Require Import Base PathBook.
From Coq Require Import QArith Qround Lqa Lia.
Local Open Scope Q_scope.

(* ================================================================== (i) bookkeeping *)

Lemma fill_entries_length k ini chg : length (fill_entries k ini chg) = k.
Proof. unfold fill_entries. now rewrite map_length, seq_length. Qed.

Lemma nth_error_last_some {A} (e : list A) : e <> [] -> exists x, nth_error e (length e - 1) = Some x.
Proof.
  intros H. destruct (nth_error e (length e - 1)) eqn:E; [eauto|].
  apply nth_error_None in E. destruct e; [congruence|simpl in E; lia].
Qed.

Lemma fill_elem_ok k w o e :
  e <> [] -> exists e', fill_elem k w o e = Ok e' /\ length e' = (length e + k)%nat.
Proof.
  intros H. destruct (nth_error_last_some e H) as [ini Hi]. unfold fill_elem. rewrite Hi.
  eexists; split; [reflexivity|]. now rewrite app_length, fill_entries_length.
Qed.

Lemma opt_nth_ok l ne n :
  match l with Some l => (n <= length l)%nat | None => True end -> (ne < n)%nat ->
  exists r, opt_nth l ne = Ok r.
Proof.
  intros H Hn. destruct l as [l|]; simpl; [|eauto].
  destruct (nth_error l ne) eqn:E; [eauto|]. apply nth_error_None in E. lia.
Qed.

Lemma fill_all_ok k ws os n : forall es ne,
  match ws with Some l => (n <= length l)%nat | None => True end ->
  match os with Some l => (n <= length l)%nat | None => True end ->
  (ne + length es <= n)%nat -> Forall (fun e => e <> []) es ->
  exists es', fill_all k ws os ne es = Ok es' /\
              Forall2 (fun e e' => length e' = (length e + k)%nat) es es'.
Proof.
  induction es as [|e tl IH]; intros ne Hw Ho Hn Hne.
  - exists []. split; [reflexivity|constructor].
  - simpl in Hn. inversion Hne; subst.
    destruct (opt_nth_ok ws ne n Hw ltac:(lia)) as [w Ew].
    destruct (opt_nth_ok os ne n Ho ltac:(lia)) as [o Eo].
    destruct (fill_elem_ok k w o e H1) as (e' & Ee & Le).
    destruct (IH (S ne) Hw Ho ltac:(lia) H2) as (tl' & Et & Lt).
    exists (e' :: tl'). simpl. rewrite Ew; simpl. rewrite Eo; simpl. rewrite Ee; simpl. rewrite Et; simpl.
    split; [reflexivity|]. constructor; assumption.
Qed.

(* the invariant carried through a call sequence *)
Definition inv (n : nat) (st : fstate) : Prop :=
  counts_ok st /\ length (f_elems st) = n /\ (1 <= length (f_spine st))%nat.

Lemma Forall2_length_eq {A B} (R : A -> B -> Prop) l l' : Forall2 R l l' -> length l = length l'.
Proof. induction 1; simpl; congruence. Qed.

Lemma fill_preserves n ws os st m :
  match ws with Some l => (n <= length l)%nat | None => True end ->
  match os with Some l => (n <= length l)%nat | None => True end ->
  length (f_elems st) = n -> (1 <= m)%nat -> (m <= length (f_spine st))%nat ->
  Forall (fun e => length e = m) (f_elems st) ->
  exists st', fill ws os st = Ok st' /\ inv n st' /\ f_spine st' = f_spine st.
Proof.
  intros Hw Ho Hn Hm Hms Hall. unfold fill.
  destruct (f_elems st) as [|e0 tl] eqn:E.
  - exists st. split; [reflexivity|]. split; [|reflexivity].
    unfold inv, counts_ok. rewrite E. repeat split; [constructor|assumption|lia].
  - assert (L0 : length e0 = m) by (inversion Hall; assumption).
    rewrite L0. destruct (Nat.ltb_spec (length (f_spine st)) m); [lia|].
    destruct (fill_all_ok (length (f_spine st) - m) ws os n (e0 :: tl) 0 Hw Ho) as (es' & Ees & Les).
    + simpl in *. lia.
    + eapply Forall_impl; [|exact Hall]. intros a Ha Hn'. subst a. simpl in Ha. lia.
    + rewrite Ees. simpl. eexists; split; [reflexivity|]. split; [|reflexivity].
      unfold inv, counts_ok; simpl. repeat split.
      * clear - Les Hall H. revert Hall. induction Les; intros Hall; constructor.
        -- inversion Hall; subst. lia.
        -- apply IHLes. inversion Hall; assumption.
      * rewrite <- (Forall2_length_eq _ _ _ Les). assumption.
      * lia.
Qed.

Lemma construct_preserves tbl n w pts ws os st :
  (forall w, tbl w = true) -> wf_call n (Construct w pts ws os) -> inv n st ->
  exists st', construct_with tbl w pts ws os st = Ok st' /\ inv n st'.
Proof.
  intros Ht [Hw Ho] (Hc & Hn & Hs). unfold construct_with. rewrite Ht.
  destruct (fill_preserves n (if passes_wo w then ws else None) (if passes_wo w then os else None)
              (mkF (f_tolsq st) (f_spine st ++ pts) (f_elems st)) (length (f_spine st))) as (st' & E & I & _).
  - destruct (passes_wo w); [assumption|exact I].
  - destruct (passes_wo w); [assumption|exact I].
  - assumption.
  - assumption.
  - simpl. rewrite app_length. lia.
  - exact Hc.
  - eauto.
Qed.

Lemma remove_at_length {A} : forall i (l : list A), (i < length l)%nat -> length (remove_at i l) = (length l - 1)%nat.
Proof.
  induction i as [|i IH]; intros [|x t] H; simpl in *; try lia.
  rewrite IH by lia. destruct t; simpl in *; lia.
Qed.

Lemma remove_all_ok i m : forall es,
  (i < m)%nat -> Forall (fun e : list wo => length e = m) es ->
  exists es', remove_all i es = Ok es' /\ Forall (fun e => length e = (m - 1)%nat) es' /\ length es' = length es.
Proof.
  induction es as [|e tl IH]; intros Hi Hall.
  - exists []. repeat split; constructor.
  - inversion Hall; subst. destruct (IH Hi H2) as (tl' & Et & Ft & Lt).
    exists (remove_at i e :: tl'). simpl. unfold remove_chk.
    destruct (Nat.ltb_spec i (length e)); [|lia]. simpl. rewrite Et. simpl.
    repeat split; [constructor; [apply remove_at_length; lia|assumption]|simpl; congruence].
Qed.

Lemma rop_loop_preserves n : forall fuel i st,
  (1 <= i)%nat -> (length (f_spine st) - i <= fuel)%nat -> inv n st ->
  exists st', rop_loop fuel i st = Ok st' /\ inv n st'.
Proof.
  induction fuel as [|fuel IH]; intros i st Hi Hf Hinv.
  - simpl. destruct (Nat.ltb_spec i (length (f_spine st))); [lia|eauto].
  - simpl. destruct (Nat.ltb_spec i (length (f_spine st))) as [Hlt|Hge]; [|eauto].
    destruct (Qltb _ _).
    + destruct Hinv as (Hc & Hn & Hs).
      destruct (remove_all_ok i (length (f_spine st)) (f_elems st) Hlt Hc) as (es' & Ee & Fe & Le).
      rewrite Ee. simpl. apply IH; [assumption| |].
      * simpl. rewrite remove_at_length by assumption. lia.
      * unfold inv, counts_ok; simpl. rewrite remove_at_length by assumption.
        repeat split; [assumption|congruence|lia].
    + apply IH; [lia|lia|assumption].
Qed.

Lemma step_preserves tbl n c st :
  (forall w, tbl w = true) -> wf_call n c -> inv n st ->
  exists st', step_with tbl c st = Ok st' /\ inv n st'.
Proof.
  intros Ht Hw Hinv. destruct c as [w pts ws os|]; simpl.
  - now apply construct_preserves.
  - unfold remove_overlapping_points. apply rop_loop_preserves; [lia| |assumption].
    destruct Hinv as (_ & _ & ?). lia.
Qed.

Lemma run_preserves tbl n : (forall w, tbl w = true) -> forall cs st,
  Forall (wf_call n) cs -> inv n st -> exists st', run_with tbl cs st = Ok st' /\ inv n st'.
Proof.
  intros Ht. induction cs as [|c tl IH]; intros st Hw Hinv; simpl; [eauto|].
  inversion Hw; subst. destruct (step_preserves tbl n c st Ht H1 Hinv) as (st1 & E1 & I1).
  rewrite E1. simpl. now apply IH.
Qed.

Lemma finit_inv p0 tol widths offsets : inv (length (combine widths offsets)) (finit p0 tol widths offsets).
Proof.
  unfold inv, counts_ok, finit; simpl. repeat split; [|now rewrite map_length|lia].
  apply Forall_forall. intros e He. apply in_map_iff in He as (x & <- & _). reflexivity.
Qed.

(* After ANY sequence of construction calls and remove_overlapping_points the model neither
   crashes nor hangs, and every element holds exactly one (half_width, offset) entry per spine point *)
Theorem flexpath_counts_invariant_lemma :
  forall p0 tol widths offsets cs,
    let n := length (combine widths offsets) in
    Forall (wf_call n) cs ->
    exists st, run cs (finit p0 tol widths offsets) = Ok st /\
               counts_ok st /\ length (f_elems st) = n /\ (1 <= length (f_spine st))%nat.
Proof.
  intros p0 tol widths offsets cs n Hw.
  destruct (run_preserves calls_fill n (fun _ => eq_refl) cs _ Hw (finit_inv p0 tol widths offsets))
    as (st & E & I).
  exists st. split; [exact E|exact I].
Qed.

(* ... and it needs every wrapper to call fill_offsets_and_widths: drop the call from any one
   wrapper w0 and one call of w0 that appends a point breaks the invariant *)
Theorem flexpath_counts_every_fill_needed_lemma :
  forall tbl w0, tbl w0 = false ->
    exists cs st, Forall (wf_call 1) cs /\
                  run_with tbl cs (finit (0, 0) 0 [1] [0]) = Ok st /\ ~ counts_ok st.
Proof.
  intros tbl w0 H. exists [Construct w0 [(1, 0)] None None].
  eexists. split; [repeat constructor|]. split.
  - simpl. unfold construct_with. rewrite H. reflexivity.
  - unfold counts_ok; simpl. intros F. inversion F; subst. simpl in H2. discriminate.
Qed.

Example counts_example :
  option_map counts_okb
    (match run [Construct W_segment [(1, 0); (2, 0); (2 + (1 # 1000), 0)] (Some [3]) None;
                Construct W_commands [(3, 1)] (Some [7]) (Some [7]); RemoveOverlap;
                Construct W_arc [] None None]
               (finit (0, 0) (1 # 100) [1] [0]) with Ok st => Some st | _ => None end) = Some true.
Proof. vm_compute. reflexivity. Qed.

(* ------------------------------------------------------------------ fill_linear *)

Lemma qnat_S_nonzero k : ~ qnat (S k) == 0.
Proof. unfold qnat, Qeq; simpl. lia. Qed.

Lemma nth_error_seq s k j : (j < k)%nat -> nth_error (seq s k) j = Some (s + j)%nat.
Proof.
  revert s j. induction k as [|k IH]; intros s j H; [lia|].
  destruct j; simpl; [f_equal; lia|]. rewrite IH by lia. f_equal; lia.
Qed.

(* the entries appended by fill_offsets_and_widths interpolate linearly from the last entry and
   END at the requested (width / 2, offset); with NULL arguments they repeat the last entry *)
Theorem fill_linear_lemma k w o (e : list wo) (ini : wo) :
  nth_error e (length e - 1) = Some ini ->
  let tw := match w with Some w => (1 # 2) * w | None => fst ini end in
  let to := match o with Some o => o | None => snd ini end in
  exists news,
    fill_elem k w o e = Ok (e ++ news) /\ length news = k /\
    (forall j v, nth_error news j = Some v ->
       (j < k)%nat /\
       fst v == fst ini + (tw - fst ini) * (qnat (S j) / qnat k) /\
       snd v == snd ini + (to - snd ini) * (qnat (S j) / qnat k)) /\
    ((0 < k)%nat -> fst (last news ini) == tw /\ snd (last news ini) == to).
Proof.
  intros Hi tw to. unfold fill_elem. rewrite Hi.
  eexists. split; [reflexivity|]. split; [apply fill_entries_length|]. split.
  - intros j v Hj. unfold fill_entries in Hj. rewrite nth_error_map in Hj.
    destruct (nth_error (seq 1 k) j) as [i|] eqn:Ei; [|discriminate].
    assert (Hjk : (j < k)%nat).
    { rewrite <- (seq_length k 1). apply nth_error_Some. congruence. }
    rewrite nth_error_seq in Ei by assumption. inversion Ei; subst i. simpl in Hj.
    inversion Hj; subst v; clear Hj. simpl fst; simpl snd. split; [assumption|].
    unfold tw, to. destruct w, o; simpl; split; ring.
  - intros Hk. destruct k as [|k]; [lia|].
    unfold fill_entries. rewrite seq_S, map_app. cbn [map]. rewrite last_last.
    pose proof (qnat_S_nonzero k) as NZ. change (1 + S k)%nat with (S (S k)) in *.
    replace (1 + k)%nat with (S k) by reflexivity.
    unfold tw, to. set (K := qnat (S k)) in *. destruct w, o; cbn [fst snd]; split; field; exact NZ.
Qed.

Example fill_linear_example :
  match fill_elem 4 (Some 4) (Some 1) [(1, 0)] with
  | Ok l => (length l =? 5)%nat && Qeq_bool (fst (last l (0, 0))) 2 && Qeq_bool (snd (last l (0, 0))) 1
            && Qeq_bool (fst (nth 2 l (0, 0))) (3 # 2)
  | _ => false
  end = true.
Proof. vm_compute. reflexivity. Qed.

(* ================================================================== (ii) outline formulas *)

Lemma by_unit (tt L R c : Q) : tt == 1 -> L == R + c * (tt - 1) -> L == R.
Proof. intros H E. rewrite E, H. ring. Qed.

(* the parameters returned by segments_intersection solve p0 + u0 ut0 = p1 + u1 ut1 whenever the
   cross product passes the parallelism test, and are (0, 0) otherwise *)
Theorem segments_intersection_correct_lemma eps p0 ut0 p1 ut1 :
  0 < eps ->
  let den := vcross ut0 ut1 in
  let r := segments_intersection eps p0 ut0 p1 ut1 in
  ((eps <= den \/ den <= - eps) ->
     veq (vadd p0 (vscale (fst r) ut0)) (vadd p1 (vscale (snd r) ut1))) /\
  (~ (eps <= den \/ den <= - eps) -> r = (0, 0)).
Proof.
  intros He den r. split.
  - intros H.
    assert (C : Qle_bool eps den || Qle_bool den (- eps) = true)
      by (apply orb_true_iff; rewrite !Qle_bool_iff; exact H).
    assert (NZ : ~ den == 0) by (intros Z; destruct H; lra).
    unfold r, segments_intersection. fold den. rewrite C.
    destruct p0 as [x0 y0], ut0 as [ax ay], p1 as [x1 y1], ut1 as [bx by_].
    unfold den, vcross in NZ; cbn [fst snd] in NZ.
    unfold den; unfold veq, vadd, vscale, vsub, vcross; cbn [fst snd]. split; field; exact NZ.
  - intros H. unfold r, segments_intersection. fold den.
    destruct (Qle_bool eps den || Qle_bool den (- eps)) eqn:C; [|reflexivity].
    exfalso. apply H. apply orb_true_iff in C. rewrite !Qle_bool_iff in C. exact C.
Qed.

Example segments_intersection_example :
  let r := segments_intersection (1 # 100000000) (0, 0) (1, 0) (5, -3) (0, 1) in
  Qeq_bool (fst r) 5 && Qeq_bool (snd r) 3 = true.
Proof. vm_compute. reflexivity. Qed.

(* coordinates in the frame (n, t) attached at p0, n = ortho t, |t| = 1 *)
Lemma frame_lp p0 t a b : vdot t t == 1 ->
  let q := vadd (vadd p0 (vscale a (ortho t))) (vscale b t) in
  vdot (vsub q p0) (ortho t) == a /\ vdot (vsub q p0) t == b.
Proof.
  intros H q. destruct p0 as [x y], t as [tx ty]. unfold vdot in H; simpl in H.
  unfold q, vdot, vsub, vadd, vscale, ortho; simpl. split.
  - apply (by_unit _ _ _ a H). ring.
  - apply (by_unit _ _ _ b H). ring.
Qed.
Lemma frame_lm p0 t a b : vdot t t == 1 ->
  let q := vsub (vadd p0 (vscale a (ortho t))) (vscale b t) in
  vdot (vsub q p0) (ortho t) == a /\ vdot (vsub q p0) t == - b.
Proof.
  intros H q. destruct p0 as [x y], t as [tx ty]. unfold vdot in H; simpl in H.
  unfold q, vdot, vsub, vadd, vscale, ortho; simpl. split.
  - apply (by_unit _ _ _ a H). ring.
  - apply (by_unit _ _ _ (- b) H). ring.
Qed.
Lemma frame_rp p0 t a b : vdot t t == 1 ->
  let q := vadd (vsub p0 (vscale a (ortho t))) (vscale b t) in
  vdot (vsub q p0) (ortho t) == - a /\ vdot (vsub q p0) t == b.
Proof.
  intros H q. destruct p0 as [x y], t as [tx ty]. unfold vdot in H; simpl in H.
  unfold q, vdot, vsub, vadd, vscale, ortho; simpl. split.
  - apply (by_unit _ _ _ (- a) H). ring.
  - apply (by_unit _ _ _ b H). ring.
Qed.
Lemma frame_rm p0 t a b : vdot t t == 1 ->
  let q := vsub (vsub p0 (vscale a (ortho t))) (vscale b t) in
  vdot (vsub q p0) (ortho t) == - a /\ vdot (vsub q p0) t == - b.
Proof.
  intros H q. destruct p0 as [x y], t as [tx ty]. unfold vdot in H; simpl in H.
  unfold q, vdot, vsub, vadd, vscale, ortho; simpl. split.
  - apply (by_unit _ _ _ (- a) H). ring.
  - apply (by_unit _ _ _ (- b) H). ring.
Qed.
Lemma frame_l0 p0 t a : vdot t t == 1 ->
  let q := vadd p0 (vscale a (ortho t)) in
  vdot (vsub q p0) (ortho t) == a /\ vdot (vsub q p0) t == 0.
Proof.
  intros H q. destruct p0 as [x y], t as [tx ty]. unfold vdot in H; simpl in H.
  unfold q, vdot, vsub, vadd, vscale, ortho; simpl. split.
  - apply (by_unit _ _ _ a H). ring.
  - ring.
Qed.
Lemma frame_r0 p0 t a : vdot t t == 1 ->
  let q := vsub p0 (vscale a (ortho t)) in
  vdot (vsub q p0) (ortho t) == - a /\ vdot (vsub q p0) t == 0.
Proof.
  intros H q. destruct p0 as [x y], t as [tx ty]. unfold vdot in H; simpl in H.
  unfold q, vdot, vsub, vadd, vscale, ortho; simpl. split.
  - apply (by_unit _ _ _ (- a) H). ring.
  - ring.
Qed.

(* the straight caps: every cap vertex is at signed distance +hw or -hw from the centre line and
   either on the end plane or exactly cap_reach beyond it (0 for flush, hw for half-width,
   end_extensions for extended), and the extreme is attained *)
Theorem cap_extents_lemma et p0 t hw ext cap :
  vdot t t == 1 ->
  (initial_cap et p0 t hw ext = Some cap ->
     (forall q, In q cap ->
        (vdot (vsub q p0) (ortho t) == hw \/ vdot (vsub q p0) (ortho t) == - hw) /\
        (vdot (vsub q p0) t == 0 \/ vdot (vsub q p0) t == - cap_reach et hw ext)) /\
     (exists q, In q cap /\ vdot (vsub q p0) (ortho t) == hw /\ vdot (vsub q p0) t == - cap_reach et hw ext)) /\
  (final_cap et p0 t hw ext = Some cap ->
     (forall q, In q cap ->
        (vdot (vsub q p0) (ortho t) == hw \/ vdot (vsub q p0) (ortho t) == - hw) /\
        (vdot (vsub q p0) t == 0 \/ vdot (vsub q p0) t == cap_reach et hw ext)) /\
     (exists q, In q cap /\ vdot (vsub q p0) (ortho t) == hw /\ vdot (vsub q p0) t == cap_reach et hw ext)).
Proof.
  intros H.
  pose proof (frame_l0 p0 t hw H) as [L0a L0b]. pose proof (frame_r0 p0 t hw H) as [R0a R0b].
  split; intros E.
  - destruct et; simpl in E; try discriminate; inversion E; subst cap; clear E.
    + (* Flush *) split.
      * intros q Hq. destruct (Qeq_bool hw 0); simpl in Hq;
          repeat (destruct Hq as [<-|Hq]; [simpl; split; [auto|left; assumption]|]); contradiction.
      * eexists. split; [left; reflexivity|]. simpl. split; [assumption|]. rewrite L0b. ring.
    + (* HalfWidth *)
      pose proof (frame_lm p0 t hw hw H) as [A1 A2]. pose proof (frame_rm p0 t hw hw H) as [B1 B2].
      split.
      * intros q Hq. destruct (Qltb 0 hw), (Qeq_bool hw 0); simpl in Hq;
          repeat (destruct Hq as [<-|Hq]; [simpl; split; [auto|auto]|]); contradiction.
      * eexists. split; [apply in_or_app; right; left; reflexivity|]. simpl. split; assumption.
    + (* Extended *)
      pose proof (frame_lm p0 t hw ext H) as [A1 A2]. pose proof (frame_rm p0 t hw ext H) as [B1 B2].
      split.
      * intros q Hq. destruct (Qltb 0 ext), (Qeq_bool hw 0); simpl in Hq;
          repeat (destruct Hq as [<-|Hq]; [simpl; split; [auto|auto]|]); contradiction.
      * eexists. split; [apply in_or_app; right; left; reflexivity|]. simpl. split; assumption.
  - destruct et; simpl in E; try discriminate; inversion E; subst cap; clear E.
    + split.
      * intros q Hq. destruct (Qeq_bool hw 0); simpl in Hq;
          repeat (destruct Hq as [<-|Hq]; [simpl; split; [auto|left; assumption]|]); contradiction.
      * eexists. split; [left; reflexivity|]. simpl. split; assumption.
    + pose proof (frame_lp p0 t hw hw H) as [A1 A2]. pose proof (frame_rp p0 t hw hw H) as [B1 B2].
      split.
      * intros q Hq. destruct (Qltb 0 hw), (Qeq_bool hw 0); simpl in Hq;
          repeat (destruct Hq as [<-|Hq]; [simpl; split; [auto|auto]|]); contradiction.
      * eexists. split; [apply in_or_app; right; left; reflexivity|]. simpl. split; assumption.
    + pose proof (frame_lp p0 t hw ext H) as [A1 A2]. pose proof (frame_rp p0 t hw ext H) as [B1 B2].
      split.
      * intros q Hq. destruct (Qltb 0 ext), (Qeq_bool hw 0); simpl in Hq;
          repeat (destruct Hq as [<-|Hq]; [simpl; split; [auto|auto]|]); contradiction.
      * eexists. split; [apply in_or_app; right; left; reflexivity|]. simpl. split; assumption.
Qed.

Example cap_example :
  initial_cap Extended (0, 0) (3 # 5, 4 # 5) 1 2 <> None /\ vdot (3 # 5, 4 # 5) (3 # 5, 4 # 5) == 1.
Proof. split; [discriminate|reflexivity]. Qed.

Lemma region_core x0 y0 tx ty hw off len qx qy :
  tx * tx + ty * ty == 1 -> 0 < hw -> 0 < len ->
  let N := (qx - (x0 + off * - ty)) * - ty + (qy - (y0 + off * tx)) * tx in
  let T := (qx - (x0 + off * - ty)) * tx + (qy - (y0 + off * tx)) * ty in
  (0 <= (x0 + off * - ty - hw * - ty - (x0 + off * - ty + hw * - ty)) * (qy - (y0 + off * tx + hw * tx)) -
        (y0 + off * tx - hw * tx - (y0 + off * tx + hw * tx)) * (qx - (x0 + off * - ty + hw * - ty)) /\
   0 <= (x0 + len * tx + off * - ty - hw * - ty - (x0 + off * - ty - hw * - ty)) * (qy - (y0 + off * tx - hw * tx)) -
        (y0 + len * ty + off * tx - hw * tx - (y0 + off * tx - hw * tx)) * (qx - (x0 + off * - ty - hw * - ty)) /\
   0 <= (x0 + len * tx + off * - ty + hw * - ty - (x0 + len * tx + off * - ty - hw * - ty)) * (qy - (y0 + len * ty + off * tx - hw * tx)) -
        (y0 + len * ty + off * tx + hw * tx - (y0 + len * ty + off * tx - hw * tx)) * (qx - (x0 + len * tx + off * - ty - hw * - ty)) /\
   0 <= (x0 + off * - ty + hw * - ty - (x0 + len * tx + off * - ty + hw * - ty)) * (qy - (y0 + len * ty + off * tx + hw * tx)) -
        (y0 + off * tx + hw * tx - (y0 + len * ty + off * tx + hw * tx)) * (qx - (x0 + len * tx + off * - ty + hw * - ty)))
  <-> (- hw <= N <= hw /\ 0 <= T <= len).
Proof.
  intros H Hhw Hlen N T.
  assert (E1 : (x0 + off * - ty - hw * - ty - (x0 + off * - ty + hw * - ty)) * (qy - (y0 + off * tx + hw * tx)) -
               (y0 + off * tx - hw * tx - (y0 + off * tx + hw * tx)) * (qx - (x0 + off * - ty + hw * - ty))
               == 2 * hw * T) by (unfold T; ring).
  assert (E2 : (x0 + len * tx + off * - ty - hw * - ty - (x0 + off * - ty - hw * - ty)) * (qy - (y0 + off * tx - hw * tx)) -
               (y0 + len * ty + off * tx - hw * tx - (y0 + off * tx - hw * tx)) * (qx - (x0 + off * - ty - hw * - ty))
               == len * (N + hw)).
  { apply (by_unit _ _ _ (len * hw) H). unfold N; ring. }
  assert (E3 : (x0 + len * tx + off * - ty + hw * - ty - (x0 + len * tx + off * - ty - hw * - ty)) * (qy - (y0 + len * ty + off * tx - hw * tx)) -
               (y0 + len * ty + off * tx + hw * tx - (y0 + len * ty + off * tx - hw * tx)) * (qx - (x0 + len * tx + off * - ty - hw * - ty))
               == 2 * hw * (len - T)).
  { apply (by_unit _ _ _ (2 * hw * len) H). unfold T; ring. }
  assert (E4 : (x0 + off * - ty + hw * - ty - (x0 + len * tx + off * - ty + hw * - ty)) * (qy - (y0 + len * ty + off * tx + hw * tx)) -
               (y0 + off * tx + hw * tx - (y0 + len * ty + off * tx + hw * tx)) * (qx - (x0 + len * tx + off * - ty + hw * - ty))
               == len * (hw - N)).
  { apply (by_unit _ _ _ (len * hw) H). unfold N; ring. }
  rewrite E1, E2, E3, E4. clearbody N T. clear E1 E2 E3 E4.
  split.
  - intros (C1 & C2 & C3 & C4). repeat split; nra.
  - intros ((N1 & N2) & (T1 & T2)). repeat split; nra.
Qed.

(* one straight segment of constant width with flush ends: the outline is the four points
   centre-line end +- hw n (squared distance hw^2 from the centre-line end, perpendicular to the
   segment), and a point is inside it exactly when it is within hw of the centre line and between
   the two end planes.  t is the unit tangent the C++ gets from normalize(): s1 - s0 = len t. *)
Theorem straight_segment_region_lemma s0 s1 t hw off len :
  vdot t t == 1 -> 0 < hw -> 0 < len -> veq (vsub s1 s0) (vscale len t) ->
  let n := ortho t in
  let c0 := vadd s0 (vscale off n) in
  let c1 := vadd s1 (vscale off n) in
  exists a b c d,
    segment_outline s0 s1 t hw off = [a; b; c; d] /\
    (length_sq a c0 == hw * hw /\ vdot (vsub a c0) (vsub s1 s0) == 0 /\ vdot (vsub a c0) n == hw) /\
    (length_sq b c0 == hw * hw /\ vdot (vsub b c0) (vsub s1 s0) == 0 /\ vdot (vsub b c0) n == - hw) /\
    (length_sq c c1 == hw * hw /\ vdot (vsub c c1) (vsub s1 s0) == 0 /\ vdot (vsub c c1) n == - hw) /\
    (length_sq d c1 == hw * hw /\ vdot (vsub d c1) (vsub s1 s0) == 0 /\ vdot (vsub d c1) n == hw) /\
    forall q, inside_ccw4 a b c d q <->
              (- hw <= vdot (vsub q c0) n <= hw /\ 0 <= vdot (vsub q c0) t <= len).
Proof.
  intros H Hhw Hlen Hs n c0 c1.
  assert (E : Qeq_bool hw 0 = false).
  { destruct (Qeq_bool hw 0) eqn:E; [apply Qeq_bool_eq in E; lra|reflexivity]. }
  unfold segment_outline, initial_cap, final_cap. rewrite E. cbn [app rev].
  do 4 eexists. split; [reflexivity|].
  destruct s0 as [x0 y0], s1 as [x1 y1], t as [tx ty].
  unfold veq, vsub, vscale in Hs; cbn [fst snd] in Hs. destruct Hs as [Hx Hy].
  unfold vdot in H; cbn [fst snd] in H.
  assert (Hx' : x1 == x0 + len * tx) by lra. assert (Hy' : y1 == y0 + len * ty) by lra.
  unfold c0, c1, n, length_sq, vdot, vsub, vadd, vscale, ortho; cbn [fst snd].
  split; [|split; [|split; [|split]]].
  - repeat split.
    + apply (by_unit _ _ _ (hw * hw) H); ring.
    + rewrite Hx, Hy; ring.
    + apply (by_unit _ _ _ hw H); ring.
  - repeat split.
    + apply (by_unit _ _ _ (hw * hw) H); ring.
    + rewrite Hx, Hy; ring.
    + apply (by_unit _ _ _ (- hw) H); ring.
  - repeat split.
    + apply (by_unit _ _ _ (hw * hw) H); ring.
    + rewrite Hx, Hy; ring.
    + apply (by_unit _ _ _ (- hw) H); ring.
  - repeat split.
    + apply (by_unit _ _ _ (hw * hw) H); ring.
    + rewrite Hx, Hy; ring.
    + apply (by_unit _ _ _ hw H); ring.
  - intros [qx qy]. unfold inside_ccw4, vcross, vsub, vadd, vscale, ortho; cbn [fst snd].
    rewrite Hx', Hy'. apply region_core; assumption.
Qed.

Example straight_segment_example :
  vdot (3 # 5, 4 # 5) (3 # 5, 4 # 5) == 1 /\ veq (vsub (3, 4) (0, 0)) (vscale 5 (3 # 5, 4 # 5)).
Proof. split; [reflexivity|split; reflexivity]. Qed.

(* ================================================================== (iii) RobustPath *)

Lemma Qltb_lt a b : Qltb a b = true <-> a < b.
Proof.
  unfold Qltb. rewrite negb_true_iff. split.
  - intros H. apply Qnot_le_lt. intros L. apply Qle_bool_iff in L. congruence.
  - intros H. destruct (Qle_bool b a) eqn:E; [|reflexivity]. apply Qle_bool_iff in E. lra.
Qed.
Lemma Qltb_ge a b : Qltb a b = false <-> b <= a.
Proof.
  split.
  - intros H. apply Qnot_lt_le. intros L. apply Qltb_lt in L. congruence.
  - intros H. destruct (Qltb a b) eqn:E; [|reflexivity]. apply Qltb_lt in E. lra.
Qed.

Lemma clamp01_spec u :
  (u <= 0 -> clamp01 u == 0) /\ (1 <= u -> clamp01 u == 1) /\
  (0 <= u <= 1 -> clamp01 u = u) /\ 0 <= clamp01 u <= 1.
Proof.
  unfold clamp01.
  destruct (Qltb u 0) eqn:A; [apply Qltb_lt in A|apply Qltb_ge in A];
    (destruct (Qltb 1 u) eqn:B; [apply Qltb_lt in B|apply Qltb_ge in B]);
    repeat split; intros; try lra; try reflexivity.
Qed.

(* constant / linear / smooth interpolation return the requested values at (and beyond) the two
   ends of a section, depend on u only through its clamp to [0, 1], and stay between the two values *)
Theorem interp_endpoints_lemma i :
  let ini := match i with IConstant v => v | ILinear a _ | ISmooth a _ => a end in
  let fin := match i with IConstant v => v | ILinear _ b | ISmooth _ b => b end in
  (forall u, u <= 0 -> interp i u == ini) /\
  (forall u, 1 <= u -> interp i u == fin) /\
  (forall u, interp i u = interp i (clamp01 u)) /\
  (forall u, ini <= fin -> ini <= interp i u <= fin).
Proof.
  intros ini fin. repeat split.
  - intros u Hu. destruct (clamp01_spec u) as (C0 & _). specialize (C0 Hu).
    unfold interp. set (c := clamp01 u) in *. destruct i; unfold ini, lerp, serp; try rewrite C0; ring.
  - intros u Hu. destruct (clamp01_spec u) as (_ & C1 & _). specialize (C1 Hu).
    unfold interp. set (c := clamp01 u) in *. destruct i; unfold fin, lerp, serp; try rewrite C1; ring.
  - intros u. unfold interp. destruct (clamp01_spec u) as (_ & _ & _ & R).
    destruct (clamp01_spec (clamp01 u)) as (_ & _ & C & _). now rewrite (C R).
  - destruct (clamp01_spec u) as (_ & _ & _ & R). unfold interp. set (c := clamp01 u) in *.
    destruct i; unfold ini, fin, lerp, serp in *; try lra.
    + nra.
    + assert (0 <= (3 - 2 * c) * c * c) by nra.
      assert (0 <= (final_value - initial_value) * ((3 - 2 * c) * c * c)) by nra. lra.
  - destruct (clamp01_spec u) as (_ & _ & _ & R). unfold interp. set (c := clamp01 u) in *.
    destruct i; unfold ini, fin, lerp, serp in *; try lra.
    + nra.
    + (* b - serp = (b - a) (1 - c)^2 (1 + 2 c) *)
      assert (E : initial_value + (final_value - initial_value) * (3 - 2 * c) * c * c
                  == final_value - (final_value - initial_value) * ((1 - c) * (1 - c) * (1 + 2 * c))) by ring.
      rewrite E. assert (S1 : 0 <= (1 - c) * (1 - c)) by nra.
      assert (S2 : 0 <= (1 - c) * (1 - c) * (1 + 2 * c)) by (apply Qmult_le_0_compat; lra).
      assert (S3 : 0 <= (final_value - initial_value) * ((1 - c) * (1 - c) * (1 + 2 * c)))
        by (apply Qmult_le_0_compat; lra).
      lra.
Qed.

(* SERP is monotone in u on [0, 1] *)
Theorem serp_monotone_lemma a b u v : 0 <= u -> u <= v -> v <= 1 -> a <= b -> serp a b u <= serp a b v.
Proof.
  intros Hu Huv Hv Hab. unfold serp.
  assert (E : a + (b - a) * (3 - 2 * v) * v * v - (a + (b - a) * (3 - 2 * u) * u * u)
              == (b - a) * ((v - u) * (2 * (u * (1 - u)) + 2 * (v * (1 - v)) + u * (1 - v) + v * (1 - u)))) by ring.
  assert (P1 : 0 <= u * (1 - u)) by nra. assert (P2 : 0 <= v * (1 - v)) by nra.
  assert (P3 : 0 <= u * (1 - v)) by nra. assert (P4 : 0 <= v * (1 - u)) by nra.
  assert (P5 : 0 <= (v - u) * (2 * (u * (1 - u)) + 2 * (v * (1 - v)) + u * (1 - v) + v * (1 - u))) by nra.
  assert (P6 : 0 <= (b - a) * ((v - u) * (2 * (u * (1 - u)) + 2 * (v * (1 - v)) + u * (1 - v) + v * (1 - u)))) by nra.
  lra.
Qed.

Example interp_example : interp (ISmooth 2 6) (1 # 2) == 4 /\ interp (ILinear 2 6) (1 # 4) == 3.
Proof. split; vm_compute; reflexivity. Qed.

(* ------------------------------------------------------------------ query_index *)

Lemma qnat_inj_Z z : (0 <= z)%Z -> qnat (Z.to_nat z) = inject_Z z.
Proof. intros H. unfold qnat. now rewrite Z2Nat.id. Qed.

Lemma qnat_S n : qnat (S n) == qnat n + 1.
Proof. unfold qnat. rewrite Nat2Z.inj_succ, <- Z.add_1_r, inject_Z_plus. reflexivity. Qed.

Lemma qnat_pred n : (0 < n)%nat -> qnat (n - 1) + 1 == qnat n.
Proof. intros H. destruct n; [lia|]. replace (S n - 1)%nat with n by lia. now rewrite qnat_S. Qed.

Lemma Qfloor_range x : inject_Z (Qfloor x) <= x /\ x < inject_Z (Qfloor x) + 1.
Proof.
  split; [apply Qfloor_le|]. pose proof (Qlt_floor x) as H. rewrite inject_Z_plus in H. exact H.
Qed.

(* position / gradient / width / offset at path parameter u use the section floor(u) with the
   local parameter u - floor(u); u is clamped to [0, count]; at an integer the previous section
   (local parameter 1) is used when from_below is set, and always at the very end of the path *)
Theorem query_index_lemma count u fb :
  (0 < count)%nat ->
  let uc := if Qle_bool (qnat count) u then qnat count else if Qltb u 0 then 0 else u in
  exists idx fr,
    query_index count u fb = Ok (idx, fr) /\ (idx < count)%nat /\ 0 <= fr <= 1 /\
    qnat idx + fr == uc /\ 0 <= uc <= qnat count /\
    (fr == 0 -> fb = false \/ idx = 0%nat) /\
    (fr == 1 -> fb = true \/ uc == qnat count).
Proof.
  intros Hc uc.
  assert (Hc0 : 0 <= qnat count) by (unfold qnat; rewrite <- (Zle_Qle 0); lia).
  assert (Huc : 0 <= uc <= qnat count).
  { unfold uc. destruct (Qle_bool (qnat count) u) eqn:A; [lra|].
    assert (u < qnat count).
    { apply Qnot_le_lt. intros L. apply Qle_bool_iff in L. congruence. }
    destruct (Qltb u 0) eqn:B; [lra|apply Qltb_ge in B; lra]. }
  unfold query_index. fold uc.
  set (f := Qfloor uc).
  destruct (Qfloor_range uc) as [F1 F2]. fold f in F1, F2.
  assert (Hf0 : (0 <= f)%Z).
  { change 0%Z with (Qfloor 0). apply Qfloor_resp_le. lra. }
  assert (Hfc : (f <= Z.of_nat count)%Z).
  { rewrite <- (Qfloor_Z (Z.of_nat count)). apply Qfloor_resp_le. exact (proj2 Huc). }
  rewrite (qnat_inj_Z f Hf0).
  set (idx := Z.to_nat f).
  assert (Hidx : (idx <= count)%nat) by (unfold idx; lia).
  assert (Qidx : qnat idx = inject_Z f) by (apply qnat_inj_Z; exact Hf0).
  destruct (fb && Qeq_bool (uc - inject_Z f) 0 && (0 <? idx)%nat) eqn:A.
  - apply andb_prop in A as [A A3]. apply andb_prop in A as [A1 A2].
    apply Qeq_bool_eq in A2. apply Nat.ltb_lt in A3.
    exists (idx - 1)%nat, 1. repeat split; try lra; try lia.
    + pose proof (qnat_pred idx A3). rewrite Qidx in H. lra.
    + intros. left. exact A1.
  - destruct (Nat.eqb_spec idx count) as [E|E].
    + destruct (Nat.eqb_spec count 0); [lia|].
      assert (Qc : qnat count = inject_Z f) by (rewrite <- E; exact Qidx).
      assert (Uc : uc == qnat count) by (destruct Huc as [U0 U1]; rewrite Qc in U1 |- *; lra).
      exists (idx - 1)%nat, 1. repeat split; try lra; try lia; try (intros; right; exact Uc).
      rewrite E. rewrite (qnat_pred count Hc). lra.
    + exists idx, (uc - inject_Z f). repeat split; try lra; try lia.
      * rewrite Qidx. ring.
      * intros Z. destruct fb; [|left; reflexivity]. right.
        apply Qeq_eq_bool in Z. rewrite Z in A. simpl in A.
        destruct (Nat.ltb_spec 0 idx); [discriminate|lia].
Qed.

Example query_index_example :
  query_index 3 (5 # 2) false = Ok (2%nat, (5 # 2) - qnat 2) /\
  query_index 3 2 true = Ok (1%nat, 1) /\ query_index 3 2 false = Ok (2%nat, 2 - qnat 2) /\
  query_index 3 7 false = Ok (2%nat, 1) /\ query_index 0 0 false = Crash.
Proof. repeat split. Qed.

(* ------------------------------------------------------------------ linear extrapolation *)

(* SubPath::eval continues a section outside [0, 1] along its end tangents, SubPath::gradient is
   the gradient at the clamped parameter; a Segment section is continued by its own line *)
Theorem eval_extrapolates_linearly_lemma s u tr :
  (u < 0 -> forall p v, sub_eval01 s 0 tr = Ok p -> sub_gradient s 0 tr = Ok v ->
            sub_eval s u tr = Ok (vadd p (vscale u v))) /\
  (1 < u -> forall p v, sub_eval01 s 1 tr = Ok p -> sub_gradient s 1 tr = Ok v ->
            sub_eval s u tr = Ok (vadd p (vscale (u - 1) v))) /\
  (0 <= u <= 1 -> sub_eval s u tr = sub_eval01 s u tr) /\
  sub_gradient s u tr = sub_gradient s (clamp01 u) tr.
Proof.
  repeat split.
  - intros Hu p v Ep Ev. unfold sub_eval. apply Qltb_lt in Hu. rewrite Hu, Ep, Ev. reflexivity.
  - intros Hu p v Ep Ev. unfold sub_eval.
    assert (A : Qltb u 0 = false) by (apply Qltb_ge; lra).
    apply Qltb_lt in Hu. rewrite A, Hu, Ep, Ev. reflexivity.
  - intros [H0 H1]. unfold sub_eval.
    assert (A : Qltb u 0 = false) by (apply Qltb_ge; lra).
    assert (B : Qltb 1 u = false) by (apply Qltb_ge; lra). now rewrite A, B.
  - unfold sub_gradient. destruct (clamp01_spec u) as (_ & _ & _ & R).
    destruct (clamp01_spec (clamp01 u)) as (_ & _ & C & _). now rewrite (C R).
Qed.

Theorem segment_extrapolation_is_line_lemma b e u tr :
  exists q, sub_eval (SSegment b e) u tr = Ok q /\
    fst q == lerp (fst b) (fst e) u * t0 tr + lerp (snd b) (snd e) u * t1 tr + t2 tr /\
    snd q == lerp (fst b) (fst e) u * t3 tr + lerp (snd b) (snd e) u * t4 tr + t5 tr.
Proof.
  unfold sub_eval. destruct (Qltb u 0) eqn:A; [|destruct (Qltb 1 u) eqn:B].
  - eexists. split; [reflexivity|].
    unfold vadd, vscale, lerp; cbn [fst snd]. split; ring.
  - eexists. split; [reflexivity|].
    unfold vadd, vscale, lerp; cbn [fst snd]. split; ring.
  - eexists. split; [reflexivity|]. cbn [fst snd]. split; reflexivity.
Qed.

(* ------------------------------------------------------------------ gradient = derivative *)

(* polynomial evaluation is a ring morphism on the operations used *)
Lemma peval_padd p : forall q u, peval (padd p q) u == peval p u + peval q u.
Proof.
  induction p as [|a p IH]; intros q u; simpl; [ring|].
  destruct q as [|b q]; simpl; [ring|]. rewrite IH. ring.
Qed.
Lemma peval_pscale k p u : peval (pscale k p) u == k * peval p u.
Proof. induction p as [|a p IH]; simpl; [ring|]. unfold pscale in IH. rewrite IH. ring. Qed.
Lemma peval_pmulX p u : peval (pmulX p) u == u * peval p u.
Proof. simpl. ring. Qed.
Lemma peval_pmul1mX p u : peval (pmul1mX p) u == (1 - u) * peval p u.
Proof. unfold pmul1mX. rewrite peval_padd, peval_pscale, peval_pmulX. ring. Qed.

(* the formal derivative is the textbook one: coefficient k of p' is (k + 1) a_(k+1) *)
Lemma nth_padd p : forall q k, nth k (padd p q) 0 == nth k p 0 + nth k q 0.
Proof.
  induction p as [|a p IH]; intros q k; simpl.
  - destruct k; ring.
  - destruct q as [|b q]; simpl.
    + destruct k; ring.
    + destruct k; [ring|apply IH].
Qed.
Theorem pderiv_coeff_lemma p : forall k, nth k (pderiv p) 0 == qnat (S k) * nth (S k) p 0.
Proof.
  induction p as [|a p IH]; intros k.
  - simpl. destruct k; ring.
  - simpl pderiv. rewrite nth_padd. change (nth (S k) (a :: p) 0) with (nth k p 0).
    destruct k.
    + simpl. destruct p; unfold qnat; simpl; ring.
    + change (nth (S k) (pmulX (pderiv p)) 0) with (nth k (pderiv p) 0).
      rewrite IH. rewrite (qnat_S (S k)). ring.
Qed.

(* differentiation rules, read through evaluation *)
Lemma pd_padd p : forall q u, peval (pderiv (padd p q)) u == peval (pderiv p) u + peval (pderiv q) u.
Proof.
  induction p as [|a p IH]; intros q u; simpl padd.
  - simpl. ring.
  - destruct q as [|b q].
    + simpl. ring.
    + simpl pderiv. rewrite !peval_padd, !peval_pmulX, IH. ring.
Qed.
Lemma pd_pscale k p u : peval (pderiv (pscale k p)) u == k * peval (pderiv p) u.
Proof.
  induction p as [|a p IH]; [simpl; ring|].
  change (pscale k (a :: p)) with (k * a :: pscale k p). simpl pderiv.
  rewrite !peval_padd, !peval_pmulX, peval_pscale, IH. ring.
Qed.
Lemma pd_pmulX p u : peval (pderiv (pmulX p)) u == peval p u + u * peval (pderiv p) u.
Proof. unfold pmulX. simpl pderiv. rewrite peval_padd, peval_pmulX. ring. Qed.
Lemma pd_pmul1mX p u : peval (pderiv (pmul1mX p)) u == (1 - u) * peval (pderiv p) u - peval p u.
Proof. unfold pmul1mX. rewrite pd_padd, pd_pscale, pd_pmulX. ring. Qed.
Lemma pd_const c u : peval (pderiv [c]) u == 0.
Proof. simpl. ring. Qed.

(* zipw *)
Lemma zipw_nil_r f l : zipw f l [] = [].
Proof. destruct l; reflexivity. Qed.
Lemma tl_zipw f l1 l2 : tl (zipw f l1 l2) = zipw f (tl l1) (tl l2).
Proof.
  destruct l1 as [|a t1]; [reflexivity|]. destruct l2 as [|b t2]; [simpl; now rewrite zipw_nil_r|reflexivity].
Qed.
Lemma length_zipw f : forall l1 l2, length (zipw f l1 l2) = Nat.min (length l1) (length l2).
Proof. induction l1 as [|a t1 IH]; intros [|b t2]; simpl; auto. Qed.
Lemma length_tl {A} (l : list A) : length (tl l) = (length l - 1)%nat.
Proof. destruct l; simpl; lia. Qed.

(* the Bernstein recurrence is linear in the control values *)
Lemma bz_lin f x y u : (forall a b, f a b == x * a + y * b) ->
  forall n l1 l2, (n < length l1)%nat -> (n < length l2)%nat ->
    bz n (zipw f l1 l2) u == x * bz n l1 u + y * bz n l2 u.
Proof.
  intros Hf. induction n as [|n IH]; intros l1 l2 H1 H2.
  - destruct l1 as [|a t1]; [simpl in H1; lia|]. destruct l2 as [|b t2]; [simpl in H2; lia|].
    simpl. apply Hf.
  - cbn [bz]. rewrite tl_zipw.
    rewrite (IH l1 l2) by lia. rewrite (IH (tl l1) (tl l2)) by (rewrite length_tl; lia). ring.
Qed.
Lemma bz_scale k u : forall n l, bz n (map (Qmult k) l) u == k * bz n l u.
Proof.
  induction n as [|n IH]; intros l.
  - destruct l; simpl; ring.
  - cbn [bz]. replace (tl (map (Qmult k) l)) with (map (Qmult k) (tl l)) by (destruct l; reflexivity).
    rewrite !IH. ring.
Qed.

(* eval_bezier (de Casteljau, as coded) computes the Bernstein recurrence *)
Lemma dc_bz t : forall n l, (n < length l)%nat -> dc_iter n t l == bz n l t.
Proof.
  induction n as [|n IH]; intros l H; [reflexivity|].
  cbn [dc_iter bz]. rewrite IH.
  - unfold dc_step. apply bz_lin; [intros; ring|lia|rewrite length_tl; lia].
  - unfold dc_step. rewrite length_zipw, length_tl. lia.
Qed.

Lemma peval_pbez u : forall n l, peval (pbez n l) u == bz n l u.
Proof.
  induction n as [|n IH]; intros l; [simpl; ring|].
  cbn [pbez bz]. rewrite peval_padd, peval_pmul1mX, peval_pmulX, !IH. ring.
Qed.

(* the gradient formula of the code: degree times the Bernstein form of the differences *)
Definition Dg (n : nat) (l : list Q) (u : Q) : Q :=
  match n with O => 0 | S m => qnat (S m) * bz m (diffs l) u end.

Lemma diffs_tl l : diffs (tl l) = tl (diffs l).
Proof. unfold diffs. now rewrite tl_zipw. Qed.
Lemma length_diffs l : length (diffs l) = (length l - 1)%nat.
Proof. unfold diffs. rewrite length_zipw, length_tl. lia. Qed.
Lemma bz_diffs u n l : (n < length l - 1)%nat -> bz n (diffs l) u == bz n (tl l) u - bz n l u.
Proof.
  intros H. unfold diffs. rewrite (bz_lin (fun a b => b - a) (-1) 1) by (try (intros; ring); try rewrite length_tl; lia).
  ring.
Qed.

Lemma pd_pbez u : forall n l, (n < length l)%nat -> peval (pderiv (pbez n l)) u == Dg n l u.
Proof.
  induction n as [|n IH]; intros l H.
  - cbn [pbez]. rewrite pd_const. reflexivity.
  - cbn [pbez]. rewrite pd_padd, pd_pmul1mX, pd_pmulX, !peval_pbez.
    rewrite (IH l) by lia. rewrite (IH (tl l)) by (rewrite length_tl; lia).
    destruct n as [|k].
    + cbn [Dg]. rewrite bz_diffs by lia. unfold qnat; simpl. ring.
    + cbn [Dg]. rewrite diffs_tl.
      pose proof (bz_diffs u (S k) l ltac:(lia)) as B.
      set (X := bz (S k) l u) in *. set (Y := bz (S k) (tl l) u) in *.
      rewrite (qnat_S (S k)). cbn [bz] in B |- *. lra.
Qed.

(* eval_bezier on the control values and on count * differences, as SubPath::eval / gradient call it *)
Lemma bezier_coord (xs : list Q) u :
  (2 <= length xs)%nat ->
  exists x dx,
    eval_bezier u xs = Ok x /\
    eval_bezier u (map (fun d => qnat (length xs - 1) * d) (diffs xs)) = Ok dx /\
    x == bz (length xs - 1) xs u /\ dx == Dg (length xs - 1) xs u.
Proof.
  intros H. destruct xs as [|x0 [|x1 r]]; [simpl in H; lia|simpl in H; lia|].
  assert (Ld : length (diffs (x0 :: x1 :: r)) = S (length r)) by (rewrite length_diffs; simpl; lia).
  remember (x0 :: x1 :: r) as xs eqn:Exs.
  assert (Lx : length xs = S (S (length r))) by (subst xs; reflexivity).
  rewrite Lx. cbn [Nat.sub]. rewrite ?Nat.sub_0_r.
  remember (map (fun d : Q => qnat (S (length r)) * d) (diffs xs)) as gs eqn:Egs.
  assert (Lg : length gs = S (length r)) by (subst gs; now rewrite map_length).
  unfold eval_bezier. rewrite Lx, Lg.
  destruct xs as [|y0 ys]; [discriminate|]. destruct gs as [|g0 gs']; [discriminate|].
  cbn [Nat.sub]. rewrite ?Nat.sub_0_r.
  do 2 eexists. split; [reflexivity|]. split; [reflexivity|]. split.
  - apply dc_bz. rewrite Lx. lia.
  - rewrite dc_bz by (rewrite Lg; lia). rewrite Egs.
    change (fun d : Q => qnat (S (length r)) * d) with (Qmult (qnat (S (length r)))).
    rewrite bz_scale. reflexivity.
Qed.

(* one coordinate of a section: value and raw gradient of the code against the Bernstein
   recurrence and Dg *)
Definition section_ok (s : section) : Prop :=
  match s with SBezier ctrl => (2 <= length ctrl)%nat | _ => True end.

Lemma section_coord s (sel : qpt -> Q) u :
  section_ok s ->
  let l := map sel (section_ctrl s) in
  let n := (length (section_ctrl s) - 1)%nat in
  exists x dx, point_raw s sel u = Ok x /\ grad_raw s sel u = Ok dx /\
               x == bz n l u /\ dx == Dg n l u.
Proof.
  intros Hok l n. destruct s as [b e|p0 p1 p2|p0 p1 p2 p3|ctrl]; unfold l, n; cbn [section_ctrl map length Nat.sub].
  - do 2 eexists. repeat split; try reflexivity.
    + unfold lerp; simpl. ring.
    + unfold Dg, diffs, qnat; simpl. ring.
  - do 2 eexists. repeat split; try reflexivity.
    + unfold eval_bezier2; simpl. ring.
    + unfold Dg, diffs, lerp, qnat; simpl. ring.
  - do 2 eexists. repeat split; try reflexivity.
    + unfold eval_bezier3; simpl. ring.
    + unfold Dg, diffs, eval_bezier2, qnat; simpl. ring.
  - simpl in Hok.
    assert (Lm : length (map sel ctrl) = length ctrl) by apply map_length.
    destruct (bezier_coord (map sel ctrl) u ltac:(lia)) as (x & dx & E1 & E2 & H1 & H2).
    rewrite Lm in *.
    exists x, dx. split; [exact E1|]. split; [|split; assumption].
    destruct ctrl as [|c0 ctrl']; [simpl in Hok; lia|]. exact E2.
Qed.

(* For every polynomial section (Segment, Bezier2, Bezier3, general Bezier with at least two
   control points), every transformation matrix and every 0 <= u <= 1:  SubPath::eval returns
   the value of the polynomial  row . (Px, Py, 1)  and SubPath::gradient returns the value of its
   FORMAL DERIVATIVE, where Px, Py are the Bernstein forms on the control points.  (Outside [0, 1]
   eval is affine in u with slope gradient(clamp u): eval_extrapolates_linearly_lemma.) *)
Theorem gradient_is_derivative_lemma s tr u :
  section_ok s -> 0 <= u <= 1 ->
  let PX := section_poly s (t0 tr) (t1 tr) (t2 tr) in
  let PY := section_poly s (t3 tr) (t4 tr) (t5 tr) in
  exists p g,
    sub_eval s u tr = Ok p /\ sub_gradient s u tr = Ok g /\
    fst p == peval PX u /\ snd p == peval PY u /\
    fst g == peval (pderiv PX) u /\ snd g == peval (pderiv PY) u.
Proof.
  intros Hok Hu PX PY.
  destruct (section_coord s fst u Hok) as (x & dx & Ex & Edx & Hx & Hdx).
  destruct (section_coord s snd u Hok) as (y & dy & Ey & Edy & Hy & Hdy).
  destruct (eval_extrapolates_linearly_lemma s u tr) as (_ & _ & E01 & _).
  destruct (clamp01_spec u) as (_ & _ & Cu & _).
  exists (x * t0 tr + y * t1 tr + t2 tr, x * t3 tr + y * t4 tr + t5 tr),
         (dx * t0 tr + dy * t1 tr, dx * t3 tr + dy * t4 tr).
  assert (Hn : (length (section_ctrl s) - 1 < length (map fst (section_ctrl s)))%nat /\
               (length (section_ctrl s) - 1 < length (map snd (section_ctrl s)))%nat).
  { rewrite !map_length. clear - Hok. destruct s as [| | |ctrl]; simpl in Hok |- *; unfold qpt in *; lia. }
  destruct Hn as [Hn1 Hn2].
  split; [|split].
  - rewrite (E01 Hu). unfold sub_eval01. rewrite Ex, Ey. reflexivity.
  - unfold sub_gradient. rewrite (Cu Hu), Edx, Edy. reflexivity.
  - unfold PX, PY, section_poly. cbn [fst snd].
    repeat split.
    + rewrite !peval_padd, !peval_pscale, !peval_pbez, Hx, Hy. simpl. unfold qpt in *. ring.
    + rewrite !peval_padd, !peval_pscale, !peval_pbez, Hx, Hy. simpl. unfold qpt in *. ring.
    + rewrite !pd_padd, !pd_pscale, pd_const, !pd_pbez by assumption. rewrite Hdx, Hdy. unfold qpt in *. ring.
    + rewrite !pd_padd, !pd_pscale, pd_const, !pd_pbez by assumption. rewrite Hdx, Hdy. unfold qpt in *. ring.
Qed.

Example gradient_example :
  let s := SBezier [(0, 0); (1, 2); (3, 3); (4, 0); (6, 1)] in
  section_ok s /\
  match sub_gradient s (1 # 2) trafo_id with
  | Ok g => Qeq_bool (fst g) (peval (pderiv (section_poly s 1 0 0)) (1 # 2)) &&
            Qeq_bool (snd g) (peval (pderiv (section_poly s 0 1 0)) (1 # 2))
  | _ => false
  end = true.
Proof. split; [simpl; lia|vm_compute; reflexivity]. Qed.

Print Assumptions flexpath_counts_invariant_lemma.
Print Assumptions flexpath_counts_every_fill_needed_lemma.
Print Assumptions fill_linear_lemma.
Print Assumptions segments_intersection_correct_lemma.
Print Assumptions cap_extents_lemma.
Print Assumptions straight_segment_region_lemma.
Print Assumptions interp_endpoints_lemma.
Print Assumptions serp_monotone_lemma.
Print Assumptions query_index_lemma.
Print Assumptions eval_extrapolates_linearly_lemma.
Print Assumptions segment_extrapolation_is_line_lemma.
Print Assumptions pderiv_coeff_lemma.
Print Assumptions gradient_is_derivative_lemma.
