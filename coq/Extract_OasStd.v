Require Import Base OasisInt OasisSpec PropList OasisWrite OasisStd.
Require Import Extraction ExtrOcamlBasic.
Extraction Blacklist List String Int.
Extraction "../ocaml/extracted/oas_std.ml" write_oas_model_std attach_std lib_after_write box_covered max_counts top_cells
  std_boxes box_values spec_oas_decode view_w
  mkStd mkSrc mkWCfg mkWLib mkWCell mkWPoly mkWPath mkWPel mkWLabel mkWRef
  Z.of_N. (* Z.of_N only so that the extracted module has the type z that ocaml/conv.ml mentions *)
