(* C02D (second part of C02 / C04) - the OASIS writer model WITH the shape-detection flags of Polygon::to_oas
   (OASIS_CONFIG_DETECT_RECTANGLES, OASIS_CONFIG_DETECT_TRAPEZOIDS; circle tolerance 0): coq/OasisWriteDetect.v.
   Theorem-only file: every proof is `exact <lemma>`; Print Assumptions under each.
   write_oas_model_d is compared byte for byte with Library::write_oas under the three non-zero flag words on every run
   (unit c04w, kind wrd). *)
Require Import Base OasisInt OasisSpec OasisSpecProofs OasisRead OasisWrite OasisWriteProofs OasisRoundtrip.
Require Import OasisDetect OasisDetectProofs OasisWriteDetect OasisWriteDetectProofs OasisReadRelaxed OasisWriteDetectRoundtrip.
Local Open Scope N_scope.

(* with both flags off the model is the writer model of OasisWrite.v, for every input: every theorem about write_oas_model
   is a theorem about write_oas_model_d cfg (false, false) *)
Theorem write_oas_model_d_off_thm : forall (cfg : wcfg) (l : wlib),
  write_oas_model_d cfg (false, false) l = write_oas_model cfg l.
Proof. exact write_oas_model_d_off_lemma. Qed.
Print Assumptions write_oas_model_d_off_thm.

Theorem view_w_d_off_thm : forall (cfg : wcfg) (l : wlib), view_w_d cfg (false, false) l = view_w cfg l.
Proof. exact view_w_d_off_lemma. Qed.
Print Assumptions view_w_d_off_thm.

(* (a) under EVERY flag word the strict decoder accepts the file and decodes it to the library as the file holds it
   (a detected polygon is the RECTANGLE / TRAPEZOID / CTRAPEZOID element the writer selected) ... *)
Theorem oas_writer_conforms_d_thm : forall (cfg : wcfg) (flags : dflags) (l : wlib), wlib_ok_d flags l ->
  spec_oas_decode (write_oas_model_d cfg flags l) = Some (view_w_d cfg flags l).
Proof. exact oas_writer_conforms_d_lemma. Qed.
Print Assumptions oas_writer_conforms_d_thm.

(* ... which is the saved library: same unit, library properties, cells, cell properties (up to the values of S_CELL_OFFSET,
   which are positions in the respective file), elements in the same order with the same properties, every element equal
   or - for a detected polygon - the same layer, datatype and repetition and a vertex list (elem_points) equal up to the
   starting vertex and the orientation (same_cycle: one of the 8 / 6 dihedral rearrangements of the 4 / 3 vertices) *)
Theorem view_w_d_sim_thm : forall (cfg : wcfg) (flags : dflags) (l : wlib), Forall wcell_okp (li_cells l) ->
  layout_sim (view_w_d cfg flags l) (view_w cfg l).
Proof. exact view_w_d_sim_lemma. Qed.
Print Assumptions view_w_d_sim_thm.

(* the detection never returns a negative size (the premise `sizes_ok` of trapezoid_detection_sound, discharged) *)
Theorem trapezoid_sizes_thm : forall (pts : list pt) (t : trapres), Forall ptc pts -> is_trapezoid pts = Some t -> sizes_ok t.
Proof. exact (fun pts t H1 H2 => trap_facts_sizes t (is_trapezoid_facts pts t H1 H2)). Qed.
Print Assumptions trapezoid_sizes_thm.

(* (c) flag independence for the strict decoder: any two flag words give similar layouts *)
Theorem decoder_flag_independence_thm : forall (cfg : wcfg) (f1 f2 : dflags) (l : wlib), wlib_ok_d f1 l -> wlib_ok_d f2 l ->
  exists L1 L2, spec_oas_decode (write_oas_model_d cfg f1 l) = Some L1 /\
                spec_oas_decode (write_oas_model_d cfg f2 l) = Some L2 /\ layout_sim L1 L2.
Proof. exact decoder_flag_independence_lemma. Qed.
Print Assumptions decoder_flag_independence_thm.

(* (b) the reader model.  Guard (c5) of the reader theorem relaxed (OasisReadRelaxed.v): the guarded decoder extended by
   CTRAPEZOID records that only (c5) rejects, the modal height being undefined afterwards, still predicts the reader *)
Theorem cov5_reader_ok_thm : forall (bs : list N) (L : layout), xdecode cov_record5 bs = Some L -> read_oas_model bs = Ok (view L).
Proof. exact cov5_reader_ok_lemma. Qed.
Print Assumptions cov5_reader_ok_thm.

(* the file written under ANY flag word is accepted by that decoder and decodes to the library as the file holds it *)
Theorem writer_output_cov5_decode_d_thm : forall (cfg : wcfg) (flags : dflags) (l : wlib),
  wlib_ok_d flags l -> wlib_small_d flags l ->
  xdecode cov_record5 (write_oas_model_d cfg flags l) = Some (view_w_d cfg flags l).
Proof. exact writer_output_cov5_decode_d_lemma. Qed.
Print Assumptions writer_output_cov5_decode_d_thm.

(* save under any flag word, load with the reader model: the library as the file holds it *)
Theorem oas_models_roundtrip_d_all_thm : forall (cfg : wcfg) (flags : dflags) (l : wlib),
  wlib_ok_d flags l -> wlib_small_d flags l ->
  read_oas_model (write_oas_model_d cfg flags l) = Ok (view (view_w_d cfg flags l)).
Proof. exact oas_models_roundtrip_d_all_lemma. Qed.
Print Assumptions oas_models_roundtrip_d_all_thm.

(* similar layouts are loaded as similar libraries (GPolygon vertices up to same_cycle, S_CELL_OFFSET values) *)
Theorem view_sim_thm : forall (L L' : layout), layout_sim L L' -> rlib_sim (view L) (view L').
Proof. exact view_sim_lemma. Qed.
Print Assumptions view_sim_thm.

(* loading the detected file = loading the undetected file, up to that *)
Theorem reader_detected_vs_plain_thm : forall (cfg : wcfg) (flags : dflags) (l : wlib),
  wlib_ok l -> wlib_small l -> wlib_ok_d flags l -> wlib_small_d flags l ->
  exists A B, read_oas_model (write_oas_model_d cfg flags l) = Ok A /\
              read_oas_model (write_oas_model cfg l) = Ok B /\ rlib_sim A B.
Proof. exact reader_detected_vs_plain_lemma. Qed.
Print Assumptions reader_detected_vs_plain_thm.

(* (c) flag independence for the reader model: any two flag words *)
Theorem reader_flag_independence_thm : forall (cfg : wcfg) (f1 f2 : dflags) (l : wlib),
  wlib_ok_d f1 l -> wlib_small_d f1 l -> wlib_ok_d f2 l -> wlib_small_d f2 l ->
  exists A B, read_oas_model (write_oas_model_d cfg f1 l) = Ok A /\
              read_oas_model (write_oas_model_d cfg f2 l) = Ok B /\ rlib_sim A B.
Proof. exact reader_flag_independence_lemma. Qed.
Print Assumptions reader_flag_independence_thm.

(* ---- the class `covered` of OasisRead.v as it stands (guard c5 included): the file is in it when no CTRAPEZOID of type 25
   is written ... *)
Theorem writer_output_covered_d_thm : forall (cfg : wcfg) (flags : dflags) (l : wlib),
  wlib_ok_d flags l -> wlib_small_d flags l -> no_ctrap25 flags l -> covered (write_oas_model_d cfg flags l).
Proof. exact writer_output_covered_d_lemma. Qed.
Print Assumptions writer_output_covered_d_thm.

(* ... which is the case for every library under the flag words (true, _) and (_, false) ... *)
Theorem no_ctrap25_flags_thm : forall (flags : dflags) (l : wlib), fst flags = true \/ snd flags = false -> no_ctrap25 flags l.
Proof. exact no_ctrap25_flags. Qed.
Print Assumptions no_ctrap25_flags_thm.

(* ... and not for a square under (false, true): "always covered" is refuted *)
Theorem writer_output_covered_d_refuted : exists cfg flags l,
  wlib_ok_d flags l /\ wlib_small_d flags l /\ ~ covered (write_oas_model_d cfg flags l).
Proof. exact writer_output_covered_d_refuted_lemma. Qed.
Print Assumptions writer_output_covered_d_refuted.
