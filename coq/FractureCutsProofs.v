(* FractureCutsProofs.v -- proofs about the model of the cut choice of Polygon::fracture (FractureCuts.v).

   Main results (names ending in _lemma / _refuted / _partial; restated in Properties_C12F.v):
     dlt_fin_finite, dlt_fin_swo        the comparator given to Sort.sort is IEEE `<` on finite doubles and a strict weak
                                        order on all of binary64, so SortProofs' ordered-permutation theorem applies
     cut_index_in_bounds_lemma          (1) (uint64_t)(j * frac) < interior_coords.count for 1 <= j <= num_cuts < count < 2^53,
                                        num_cuts <= 2^51, over Flocq binary64 (division, product, truncation)
     cut_index_monotone_lemma           the indices do not decrease with j
     fracture_cuts_ok_lemma             (1)-(3) for every vertex list of bounded doubles with more than max_points > 4 vertices
                                        whose chosen-axis coordinates are not all equal: no Crash / Hang, the axis is the one
                                        the extent test chooses, the cut list satisfies cuts_spec (between 1 and num_cuts cuts,
                                        finite, non-decreasing; the midpoint when no coordinate is strictly inside, otherwise
                                        coordinates of the subject STRICTLY between the minimum and the maximum)
     fracture_cuts_no_crash_lemma       EVERY vertex list of finite doubles with 4 < max_points < n < 2^53: the model returns a
                                        cut list (no Crash / Hang: no out-of-bounds access anywhere), 1 .. num_cuts cuts
     fracture_cuts_all_equal_lemma      all chosen-axis coordinates equal: the repaired first scan stops at the end of the
                                        array, interior count 0, the single cut is the midpoint of two equal numbers = that
                                        coordinate
     fracture_cuts_unrepaired_crash_lemma, fracture_cuts_unrepaired_refuted
                                        the code before commit e912cb9 (unbounded first scan): Crash on exactly those inputs
     degenerate_axis_iff_lemma          ... which happens exactly when all vertices are one point (given the axis rule)
     cuts_within_lemma                  (3) every cut lies within [min, max] (midpoint included: rounding cannot leave it)
     midpoint_exact_strict_lemma        the midpoint is exact and strictly inside when both values are multiples of one power
                                        of two (sum below 2^53 units): the dyadic database grid
     midpoint_strict_refuted            witness: the midpoint of two adjacent doubles IS one of them
     cuts_grid_sorted_lemma, fracture_cuts_strips_lemma
                                        (2) the cuts, taken to the integer grid by llround(scaling * c), satisfy `sortedZ`,
                                        the hypothesis of ClipGlueProofs.strips_partition_lemma / slice_partition_partial
     strips_narrower_lemma, grid_midpoint_strict_lemma, grid_chop_decreases_lemma,
     fracture_terminates_generic, fracture_terminates_partial
                                        (4) progress and termination on the integer grid, CONDITIONAL on Clipper's contract
                                        (Section hypotheses): extent-sum measure
   The R-level results depend on the axioms of the Coq reals through Flocq; the grid-level ones are closed. *)
Require Import Base Generated Sort SortProofs FractureCuts.
Require Import Winding ClipGlue ClipGlueProofs.
From Coq Require Import Reals Lra Lia Permutation Sorted Psatz.
From Flocq Require Import Core BinarySingleNaN Binary Bits Relative Plus_error.
Local Open Scope R_scope.

(* ====================================================================== part 1 *)

Notation fexp64 := (FLT_exp (-1074) 53).
Notation rnd := (round radix2 fexp64 ZnearestE).
Notation fmt := (generic_format radix2 fexp64).

Local Instance prec53_gt_0 : Prec_gt_0 53 := eq_refl _.
Local Instance fexp64_valid : Valid_exp fexp64 := FLT_exp_valid (-1074) 53.

Lemma dcmp_spec : forall a b : dbl, d_finite a = true -> d_finite b = true ->
  b64_compare a b = Some (Rcompare (R64 a) (R64 b)).
Proof. intros a b Ha Hb. unfold b64_compare. now apply Bcompare_correct. Qed.

Lemma dlt_spec : forall a b : dbl, d_finite a = true -> d_finite b = true ->
  dlt a b = Rlt_bool (R64 a) (R64 b).
Proof. intros a b Ha Hb. unfold dlt, Rlt_bool. rewrite dcmp_spec by assumption. now destruct Rcompare. Qed.

Lemma fmt_R64 : forall x : dbl, fmt (R64 x).
Proof. intros x. apply generic_format_B2R. Qed.

Lemma b64_plus_ok : forall x y : dbl, d_finite x = true -> d_finite y = true ->
  Rabs (rnd (R64 x + R64 y)) < bpow radix2 1024 ->
  R64 (b64_plus mode_NE x y) = rnd (R64 x + R64 y) /\ d_finite (b64_plus mode_NE x y) = true.
Proof.
  intros x y Hx Hy Hb. unfold b64_plus.
  generalize (Bplus_correct 53 1024 (eq_refl _) (eq_refl _) binop_nan_pl64 mode_NE x y Hx Hy).
  rewrite Rlt_bool_true by exact Hb. intros (H1 & H2 & _). split; assumption.
Qed.

Lemma b64_mult_ok : forall x y : dbl, d_finite x = true -> d_finite y = true ->
  Rabs (rnd (R64 x * R64 y)) < bpow radix2 1024 ->
  R64 (b64_mult mode_NE x y) = rnd (R64 x * R64 y) /\ d_finite (b64_mult mode_NE x y) = true.
Proof.
  intros x y Hx Hy Hb. unfold b64_mult.
  generalize (Bmult_correct 53 1024 (eq_refl _) (eq_refl _) binop_nan_pl64 mode_NE x y).
  rewrite Rlt_bool_true by exact Hb. intros (H1 & H2 & _). split; [assumption|].
  unfold d_finite in *. rewrite H2. now rewrite Hx, Hy.
Qed.

Lemma b64_minus_ok : forall x y : dbl, d_finite x = true -> d_finite y = true ->
  Rabs (rnd (R64 x - R64 y)) < bpow radix2 1024 ->
  R64 (b64_minus mode_NE x y) = rnd (R64 x - R64 y) /\ d_finite (b64_minus mode_NE x y) = true.
Proof.
  intros x y Hx Hy Hb. unfold b64_minus.
  generalize (Bminus_correct 53 1024 (eq_refl _) (eq_refl _) binop_nan_pl64 mode_NE x y Hx Hy).
  rewrite Rlt_bool_true by exact Hb. intros (H1 & H2 & _). split; assumption.
Qed.

Lemma b64_div_ok : forall x y : dbl, d_finite x = true -> R64 y <> 0 ->
  Rabs (rnd (R64 x / R64 y)) < bpow radix2 1024 ->
  R64 (b64_div mode_NE x y) = rnd (R64 x / R64 y) /\ d_finite (b64_div mode_NE x y) = true.
Proof.
  intros x y Hx Hy Hb. unfold b64_div.
  generalize (Bdiv_correct 53 1024 (eq_refl _) (eq_refl _) binop_nan_pl64 mode_NE x y Hy).
  rewrite Rlt_bool_true by exact Hb. intros (H1 & H2 & _). split; [assumption|].
  unfold d_finite in *. rewrite H2. exact Hx.
Qed.

(* integers below 2^53 scaled by a power of two above the subnormal limit are doubles *)
Lemma fmt_F2R : forall m e : Z, (Z.abs m < 2 ^ 53)%Z -> (-1074 <= e)%Z -> fmt (F2R (Float radix2 m e)).
Proof.
  intros m e Hm He. apply generic_format_FLT.
  apply (FLT_spec radix2 (-1074) 53 _ (Float radix2 m e)); auto.
Qed.

Lemma fmt_IZR : forall m : Z, (Z.abs m < 2 ^ 53)%Z -> fmt (IZR m).
Proof.
  intros m Hm. replace (IZR m) with (F2R (Float radix2 m 0)).
  - apply fmt_F2R; auto; lia.
  - unfold F2R; simpl. ring.
Qed.

Lemma bpow1024_big : forall m : Z, (Z.abs m < 2 ^ 53)%Z -> Rabs (IZR m) < bpow radix2 1024.
Proof.
  intros m Hm. rewrite <- abs_IZR. apply Rlt_le_trans with (IZR (2 ^ 53)).
  - now apply IZR_lt.
  - change (2 ^ 53)%Z with (Zpower radix2 53). rewrite IZR_Zpower by lia. apply bpow_le. lia.
Qed.

Lemma d_of_uint_ok : forall n : N, (Z.of_N n < 2 ^ 53)%Z ->
  R64 (d_of_uint n) = IZR (Z.of_N n) /\ d_finite (d_of_uint n) = true.
Proof.
  intros n Hn. unfold d_of_uint.
  generalize (binary_normalize_correct 53 1024 (eq_refl _) (eq_refl _) mode_NE (Z.of_N n) 0 false).
  assert (E : F2R (Float radix2 (Z.of_N n) 0) = IZR (Z.of_N n)) by (unfold F2R; simpl; ring).
  rewrite E. cbn [round_mode].
  rewrite round_generic; [| apply valid_rnd_N | apply fmt_IZR; lia].
  rewrite Rlt_bool_true by (apply bpow1024_big; lia).
  intros (H1 & H2 & _). split; assumption.
Qed.

(* ------------------------------------------------------------------ constants *)
Lemma R64_of_bits_finite : forall (b : Z) s m e,
  binary_float_of_bits_aux 52 11 b = F754_finite s m e ->
  R64 (b64_of_bits b) = F2R (Float radix2 (cond_Zopp s (Zpos m)) e) /\ d_finite (b64_of_bits b) = true.
Proof.
  intros b s m e H. unfold b64_of_bits, binary_float_of_bits, d_finite.
  rewrite B2R_FF2B, is_finite_FF2B. rewrite H. split; reflexivity.
Qed.

Lemma d_one_ok : R64 d_one = 1 /\ d_finite d_one = true.
Proof.
  destruct (R64_of_bits_finite 4607182418800017408 false 4503599627370496 (-52)) as (H1 & H2);
    [vm_compute; reflexivity|].
  split; [|exact H2]. unfold d_one. rewrite H1. unfold F2R; cbn [Fnum Fexp cond_Zopp bpow radix2 radix_val Z.pow_pos].
  change (Z.pow_pos 2 52) with 4503599627370496%Z. field.
Qed.

Lemma d_half_ok : R64 d_half = /2 /\ d_finite d_half = true.
Proof.
  destruct (R64_of_bits_finite 4602678819172646912 false 4503599627370496 (-53)) as (H1 & H2);
    [vm_compute; reflexivity|].
  split; [|exact H2]. unfold d_half. rewrite H1. unfold F2R; cbn [Fnum Fexp cond_Zopp bpow radix2 radix_val Z.pow_pos].
  change (Z.pow_pos 2 53) with 9007199254740992%Z. field.
Qed.

(* ------------------------------------------------------------------ the index (uint64_t)(j * frac) *)
Lemma rnd_le : forall x y, x <= y -> rnd x <= rnd y.
Proof. intros x y H; apply round_le; [apply FLT_exp_valid; reflexivity | apply valid_rnd_N | exact H]. Qed.

Lemma rnd_id : forall x, fmt x -> rnd x = x.
Proof. intros x H; apply round_generic; [apply valid_rnd_N | exact H]. Qed.

Definition u53 : R := / 9007199254740992.   (* 2^-53 *)

(* relative error of rounding to nearest in the normal range *)
Lemma rnd_rel : forall x, 1 <= x -> rnd x <= x * (1 + u53).
Proof.
  intros x Hx.
  assert (H := relative_error_N_FLT radix2 (-1074) 53 (eq_refl _) (fun t => negb (Z.even t)) x).
  assert (Hb : bpow radix2 (-1074 + 53 - 1) <= Rabs x).
  { rewrite Rabs_pos_eq by lra. apply Rle_trans with (bpow radix2 0); [apply bpow_le; lia| simpl; lra]. }
  specialize (H Hb). rewrite (Rabs_pos_eq x) in H by lra.
  assert (E : / 2 * bpow radix2 (- (53) + 1) = u53).
  { unfold u53. cbn [bpow Z.add Z.opp Z.pos_sub Pos.pred_double radix2 radix_val]. 
    change (Z.pow_pos 2 52) with 4503599627370496%Z. field. }
  rewrite E in H. apply Rabs_le_inv in H. lra.
Qed.

Lemma IZR_pow53 : IZR (2 ^ 53) = 9007199254740992.
Proof. change (2 ^ 53)%Z with 9007199254740992%Z. reflexivity. Qed.

Lemma cut_frac_ok : forall count num_cuts : N,
  (num_cuts < count)%N -> (Z.of_N count < 2 ^ 53)%Z ->
  let q := IZR (Z.of_N count) / (IZR (Z.of_N num_cuts) + 1) in
  d_finite (cut_frac count num_cuts) = true /\
  R64 (cut_frac count num_cuts) = rnd q /\
  1 <= rnd q <= IZR (Z.of_N count).
Proof.
  intros count k Hk Hc q. unfold cut_frac.
  destruct (d_of_uint_ok count Hc) as (Ec & Fc).
  destruct (d_of_uint_ok k) as (Ek & Fk); [lia|].
  destruct d_one_ok as (E1 & F1).
  assert (Hk0 : 0 <= IZR (Z.of_N k)) by (apply IZR_le; lia).
  assert (Hck : IZR (Z.of_N k) + 1 <= IZR (Z.of_N count)).
  { rewrite <- plus_IZR. apply IZR_le. lia. }
  assert (Fk1 : fmt (IZR (Z.of_N k) + 1)).
  { rewrite <- plus_IZR. apply fmt_IZR. lia. }
  destruct (b64_plus_ok (d_of_uint k) d_one Fk F1) as (Ep & Fp).
  { rewrite Ek, E1, rnd_id by exact Fk1. rewrite <- plus_IZR. apply bpow1024_big. lia. }
  rewrite Ek, E1, rnd_id in Ep by exact Fk1.
  assert (Hq : 1 <= q <= IZR (Z.of_N count)).
  { unfold q. split.
    - apply Rmult_le_reg_r with (IZR (Z.of_N k) + 1); [lra|]. field_simplify; lra.
    - apply Rmult_le_reg_r with (IZR (Z.of_N k) + 1); [lra|]. field_simplify; [|lra]. nra. }
  assert (Hr : 1 <= rnd q <= IZR (Z.of_N count)).
  { split.
    - rewrite <- (rnd_id 1) by (apply (fmt_IZR 1); lia). apply rnd_le; lra.
    - rewrite <- (rnd_id (IZR (Z.of_N count))) by (apply fmt_IZR; lia). apply rnd_le; lra. }
  destruct (b64_div_ok (d_of_uint count) (b64_plus mode_NE (d_of_uint k) d_one) Fc) as (Ed & Fd).
  { rewrite Ep. lra. }
  { rewrite Ec, Ep. fold q. rewrite Rabs_pos_eq by lra.
    apply Rle_lt_trans with (IZR (Z.of_N count)); [lra|].
    rewrite <- (Rabs_pos_eq (IZR (Z.of_N count))) by (apply IZR_le; lia). apply bpow1024_big; lia. }
  rewrite Ec, Ep in Ed. fold q in Ed. auto.
Qed.

(* the index as a function over the reals: trunc(RN(j * RN(count / (num_cuts + 1)))) *)
Definition idxR (count num_cuts j : N) : Z :=
  Ztrunc (rnd (IZR (Z.of_N j) * rnd (IZR (Z.of_N count) / (IZR (Z.of_N num_cuts) + 1)))).

Lemma key_ineq : forall k c : R, 1 <= k <= 2251799813685248 -> 0 < c ->
  k * (c / (k + 1)) * (1 + u53) * (1 + u53) < c.
Proof.
  intros k c Hk Hc.
  assert (H : k * (1 + u53) * (1 + u53) < k + 1) by (unfold u53; lra).
  replace (k * (c / (k + 1)) * (1 + u53) * (1 + u53)) with ((k * (1 + u53) * (1 + u53)) * (c / (k + 1))) by (field; lra).
  replace c with ((k + 1) * (c / (k + 1))) at 2 by (field; lra).
  apply Rmult_lt_compat_r; [|exact H]. apply Rdiv_lt_0_compat; lra.
Qed.

Lemma idxR_bounds : forall count num_cuts j : N,
  (1 <= j)%N -> (j <= num_cuts)%N -> (num_cuts < count)%N -> (Z.of_N count < 2 ^ 53)%Z -> (Z.of_N num_cuts <= 2 ^ 51)%Z ->
  let p := rnd (IZR (Z.of_N j) * rnd (IZR (Z.of_N count) / (IZR (Z.of_N num_cuts) + 1))) in
  1 <= p < IZR (Z.of_N count) /\ (0 <= idxR count num_cuts j < Z.of_N count)%Z.
Proof.
  intros count k j Hj1 Hjk Hk Hc Hk51 p.
  destruct (cut_frac_ok count k Hk Hc) as (_ & _ & HF). cbv zeta in HF.
  set (q := IZR (Z.of_N count) / (IZR (Z.of_N k) + 1)) in *.
  set (F := rnd q) in *.
  assert (HJ : 1 <= IZR (Z.of_N j) <= IZR (Z.of_N k)) by (split; apply IZR_le; lia).
  assert (HK : 1 <= IZR (Z.of_N k) <= 2251799813685248).
  { split; [lra|]. change 2251799813685248 with (IZR (2 ^ 51)). apply IZR_le; lia. }
  assert (HC : 0 < IZR (Z.of_N count)) by (apply IZR_lt; lia).
  assert (Hq : 1 <= q).
  { unfold q. apply Rmult_le_reg_r with (IZR (Z.of_N k) + 1); [lra|]. field_simplify; [|lra].
    rewrite <- plus_IZR. replace (IZR (Z.of_N count) / 1) with (IZR (Z.of_N count)) by field.
    replace (IZR (Z.of_N k + 1) / 1) with (IZR (Z.of_N k + 1)) by field. apply IZR_le; lia. }
  assert (HFq : F <= q * (1 + u53)) by (apply rnd_rel; exact Hq).
  assert (HjF : 1 <= IZR (Z.of_N j) * F) by nra.
  assert (Hp1 : 1 <= p).
  { unfold p. fold q. fold F. rewrite <- (rnd_id 1) by (apply (fmt_IZR 1); lia). apply rnd_le; exact HjF. }
  assert (Hp2 : p <= IZR (Z.of_N j) * F * (1 + u53)) by (apply rnd_rel; exact HjF).
  assert (Hu : 0 < u53) by (unfold u53; lra).
  assert (Hlt : p < IZR (Z.of_N count)).
  { apply Rle_lt_trans with (IZR (Z.of_N k) * q * (1 + u53) * (1 + u53)); [|apply key_ineq; auto].
    apply Rle_trans with (1 := Hp2). apply Rmult_le_compat_r; [lra|].
    apply Rle_trans with (IZR (Z.of_N k) * F); [apply Rmult_le_compat_r; lra|].
    rewrite Rmult_assoc. apply Rmult_le_compat_l; lra. }
  split; [split; assumption|].
  unfold idxR. fold q. fold F. fold p. rewrite Ztrunc_floor by lra. split.
  - apply Zfloor_lub. simpl. lra.
  - apply lt_IZR. apply Rle_lt_trans with (2 := Hlt). apply Zfloor_lb.
Qed.

Lemma idxR_mono : forall count num_cuts j j' : N,
  (num_cuts < count)%N -> (Z.of_N count < 2 ^ 53)%Z ->
  (j <= j')%N -> (idxR count num_cuts j <= idxR count num_cuts j')%Z.
Proof.
  intros count k j j' Hk Hc Hjj. unfold idxR.
  destruct (cut_frac_ok count k Hk Hc) as (_ & _ & HF). cbv zeta in HF.
  apply Ztrunc_le. apply rnd_le. apply Rmult_le_compat_r; [lra|]. apply IZR_le; lia.
Qed.

Lemma cut_index_ok : forall count num_cuts j : N,
  (1 <= j)%N -> (j <= num_cuts)%N -> (num_cuts < count)%N -> (Z.of_N count < 2 ^ 53)%Z -> (Z.of_N num_cuts <= 2 ^ 51)%Z ->
  cut_index (cut_frac count num_cuts) j = Ok (Z.to_N (idxR count num_cuts j)).
Proof.
  intros count k j Hj1 Hjk Hk Hc Hk51.
  destruct (cut_frac_ok count k Hk Hc) as (Ff & Ef & HF). cbv zeta in Ef, HF.
  destruct (idxR_bounds count k j Hj1 Hjk Hk Hc Hk51) as ((Hp1 & Hp2) & Hi1 & Hi2).
  destruct (d_of_uint_ok j) as (Ej & Fj); [lia|].
  unfold cut_index.
  destruct (b64_mult_ok (d_of_uint j) (cut_frac count k) Fj Ff) as (Em & Fm).
  { rewrite Ej, Ef. rewrite Rabs_pos_eq by lra. apply Rlt_trans with (1 := Hp2).
    rewrite <- (Rabs_pos_eq (IZR (Z.of_N count))) by (apply IZR_le; lia). apply bpow1024_big; lia. }
  unfold d_to_uint64. rewrite Fm.
  assert (Et : Btrunc 53 1024 (b64_mult mode_NE (d_of_uint j) (cut_frac count k)) = idxR count k j).
  { apply eq_IZR. rewrite Btrunc_correct by reflexivity. rewrite round_FIX_IZR. rewrite Em, Ej, Ef. reflexivity. }
  rewrite Et.
  destruct (Z.leb_spec 0 (idxR count k j)); [|lia].
  destruct (Z.ltb_spec (idxR count k j) (2 ^ 64)); [reflexivity|lia].
Qed.

(* ------------------------------------------------------------------ sums, differences, the midpoint *)

Lemma fmt_double : forall x, fmt x -> fmt (2 * x).
Proof.
  intros x Hx. apply FLT_format_generic in Hx; [|reflexivity]. destruct Hx as [f Hf Hm He].
  apply generic_format_FLT. apply (FLT_spec radix2 (-1074) 53 _ (Float radix2 (Fnum f) (Fexp f + 1))).
  - rewrite Hf. unfold F2R; cbn [Fnum Fexp]. rewrite bpow_plus. change (bpow radix2 1) with 2. ring.
  - exact Hm.
  - cbn [Fexp]. lia.
Qed.

Lemma fmt_abs : forall x, fmt x -> fmt (Rabs x).
Proof. intros; apply generic_format_abs; assumption. Qed.

Lemma fmt_opp : forall x, fmt x -> fmt (- x).
Proof. intros; apply generic_format_opp; assumption. Qed.

Lemma rnd_abs_le : forall x m, fmt m -> Rabs x <= m -> Rabs (rnd x) <= m.
Proof.
  intros x m Hm H. apply abs_round_le_generic; auto.
  - apply FLT_exp_valid; reflexivity.
  - apply valid_rnd_N.
Qed.

Lemma rnd_sum_small : forall x y, fmt x -> fmt y -> Rabs x < bpow radix2 1023 -> Rabs y < bpow radix2 1023 ->
  Rabs (rnd (x + y)) < bpow radix2 1024.
Proof.
  intros x y Fx Fy Hx Hy.
  assert (E : bpow radix2 1024 = 2 * bpow radix2 1023).
  { change 1024%Z with (1 + 1023)%Z. rewrite bpow_plus. change (bpow radix2 1) with 2. ring. }
  destruct (Rle_or_lt (Rabs x) (Rabs y)) as [H|H].
  - apply Rle_lt_trans with (2 * Rabs y); [|lra].
    apply rnd_abs_le; [apply fmt_double, fmt_abs, Fy|]. apply Rle_trans with (1 := Rabs_triang _ _). lra.
  - apply Rle_lt_trans with (2 * Rabs x); [|lra].
    apply rnd_abs_le; [apply fmt_double, fmt_abs, Fx|]. apply Rle_trans with (1 := Rabs_triang _ _). lra.
Qed.

Lemma d_small_fin : forall x, d_small x -> d_finite x = true.
Proof. intros x H; apply H. Qed.

(* max - min of two bounded doubles: finite, the rounded difference; zero exactly when they are equal *)
Lemma d_minus_ok : forall a b : dbl, d_small a -> d_small b ->
  d_finite (b64_minus mode_NE a b) = true /\ R64 (b64_minus mode_NE a b) = rnd (R64 a - R64 b).
Proof.
  intros a b (Fa & Ha) (Fb & Hb).
  destruct (b64_minus_ok a b Fa Fb) as (E & F); [|auto].
  unfold Rminus. apply rnd_sum_small; try apply fmt_R64; auto.
  - apply fmt_opp, fmt_R64.
  - now rewrite Rabs_Ropp.
Qed.

Lemma rnd_minus_eq_0 : forall x y, fmt x -> fmt y -> rnd (x - y) = 0 -> x = y.
Proof.
  intros x y Fx Fy H.
  assert (x + - y = 0); [|lra].
  apply (round_plus_eq_0 radix2 fexp64 ZnearestE); auto.
  now apply fmt_opp.
Qed.

Lemma rnd_0 : rnd 0 = 0.
Proof. apply round_0. apply valid_rnd_N. Qed.

Lemma rnd_nonneg : forall x, 0 <= x -> 0 <= rnd x.
Proof. intros x H. rewrite <- rnd_0. now apply rnd_le. Qed.

(* (a + b) * 0.5 stays between a and b *)
Theorem midpoint_within_lemma : forall a b : dbl, d_small a -> d_small b -> R64 a <= R64 b ->
  d_finite (midpoint a b) = true /\ R64 a <= R64 (midpoint a b) <= R64 b.
Proof.
  intros a b (Fa & Ha) (Fb & Hb) Hab. unfold midpoint.
  destruct d_half_ok as (Eh & Fh).
  destruct (b64_plus_ok a b Fa Fb) as (Es & Fs).
  { apply rnd_sum_small; auto using fmt_R64. }
  set (s := b64_plus mode_NE a b) in *.
  assert (Hs : 2 * R64 a <= R64 s <= 2 * R64 b).
  { rewrite Es. split.
    - rewrite <- (rnd_id (2 * R64 a)) by apply fmt_double, fmt_R64. apply rnd_le; lra.
    - rewrite <- (rnd_id (2 * R64 b)) by apply fmt_double, fmt_R64. apply rnd_le; lra. }
  assert (Hm : R64 a <= rnd (R64 s * / 2) <= R64 b).
  { split.
    - rewrite <- (rnd_id (R64 a)) by apply fmt_R64. apply rnd_le; lra.
    - rewrite <- (rnd_id (R64 b)) by apply fmt_R64. apply rnd_le; lra. }
  destruct (b64_mult_ok s d_half Fs Fh) as (Em & Fm).
  { rewrite Eh. apply Rle_lt_trans with (Rmax (Rabs (R64 a)) (Rabs (R64 b))).
    - unfold Rmax. destruct Rle_dec; apply Rabs_le; split; 
        try (generalize (Rabs_le_inv _ _ (Rle_refl (Rabs (R64 a)))) (Rabs_le_inv _ _ (Rle_refl (Rabs (R64 b)))); lra).
    - apply Rmax_lub_lt.
      + apply Rlt_trans with (1 := Ha). apply bpow_lt; lia.
      + apply Rlt_trans with (1 := Hb). apply bpow_lt; lia. }
  rewrite Eh in Em. rewrite Em. auto.
Qed.

(* ====================================================================== part 2 *)

Lemma midpoint_val : forall a b : dbl, d_small a -> d_small b ->
  d_finite (midpoint a b) = true /\ R64 (midpoint a b) = rnd (rnd (R64 a + R64 b) * / 2).
Proof.
  intros a b (Fa & Ha) (Fb & Hb). unfold midpoint.
  destruct d_half_ok as (Eh & Fh).
  destruct (b64_plus_ok a b Fa Fb) as (Es & Fs).
  { apply rnd_sum_small; auto using fmt_R64. }
  set (s := b64_plus mode_NE a b) in *.
  set (m := Rmax (Rabs (R64 a)) (Rabs (R64 b))).
  assert (Fm : fmt m) by (unfold m, Rmax; destruct Rle_dec; apply fmt_abs, fmt_R64).
  assert (Hm : m < bpow radix2 1023) by (unfold m; apply Rmax_lub_lt; assumption).
  assert (Hs : Rabs (R64 s) <= 2 * m).
  { rewrite Es. apply rnd_abs_le; [apply fmt_double, Fm|].
    apply Rle_trans with (1 := Rabs_triang _ _).
    generalize (Rmax_l (Rabs (R64 a)) (Rabs (R64 b))) (Rmax_r (Rabs (R64 a)) (Rabs (R64 b))). fold m. lra. }
  destruct (b64_mult_ok s d_half Fs Fh) as (Em & Fmid).
  { rewrite Eh. apply Rle_lt_trans with m.
    - apply rnd_abs_le; [exact Fm|]. rewrite Rabs_mult, (Rabs_pos_eq (/2)) by lra. lra.
    - apply Rlt_trans with (1 := Hm). apply bpow_lt; lia. }
  rewrite Eh, Es in Em. auto.
Qed.

(* a and b multiples of one power of two with a sum below 2^53 units: the midpoint is exact *)
Lemma midpoint_exact : forall (a b : dbl) (A B e : Z), d_small a -> d_small b ->
  R64 a = IZR A * bpow radix2 e -> R64 b = IZR B * bpow radix2 e ->
  (Z.abs (A + B) < 2 ^ 53)%Z -> (-1073 <= e)%Z ->
  R64 (midpoint a b) = IZR (A + B) * bpow radix2 (e - 1).
Proof.
  intros a b A B e Sa Sb Ea Eb HAB He.
  destruct (midpoint_val a b Sa Sb) as (_ & E). rewrite E, Ea, Eb.
  replace (IZR A * bpow radix2 e + IZR B * bpow radix2 e) with (F2R (Float radix2 (A + B) e))
    by (unfold F2R; cbn [Fnum Fexp]; rewrite plus_IZR; ring).
  rewrite (rnd_id (F2R (Float radix2 (A + B) e))) by (apply fmt_F2R; [exact HAB|lia]).
  replace (F2R (Float radix2 (A + B) e) * / 2) with (F2R (Float radix2 (A + B) (e - 1))).
  - rewrite rnd_id by (apply fmt_F2R; [exact HAB|lia]). reflexivity.
  - unfold F2R; cbn [Fnum Fexp]. unfold Z.sub. rewrite bpow_plus. replace (bpow radix2 (- (1))) with (/2) by reflexivity. ring.
Qed.

Theorem midpoint_exact_strict_lemma : forall (a b : dbl) (A B e : Z), d_small a -> d_small b ->
  R64 a = IZR A * bpow radix2 e -> R64 b = IZR B * bpow radix2 e ->
  (Z.abs (A + B) < 2 ^ 53)%Z -> (-1073 <= e)%Z -> (A < B)%Z ->
  R64 a < R64 (midpoint a b) < R64 b.
Proof.
  intros a b A B e Sa Sb Ea Eb HAB He Hlt.
  rewrite (midpoint_exact a b A B e Sa Sb Ea Eb HAB He), Ea, Eb.
  replace (bpow radix2 e) with (2 * bpow radix2 (e - 1)).
  2:{ unfold Z.sub. rewrite bpow_plus. replace (bpow radix2 (- (1))) with (/2) by reflexivity. field. }
  assert (P := bpow_gt_0 radix2 (e - 1)). apply IZR_lt in Hlt. rewrite plus_IZR. nra.
Qed.

(* ====================================================================== part 3 *)

(* ------------------------------------------------------------------ comparisons *)
Lemma deq_spec : forall a b : dbl, d_finite a = true -> d_finite b = true ->
  (deq a b = true <-> R64 a = R64 b).
Proof.
  intros a b Ha Hb. unfold deq. rewrite dcmp_spec by assumption.
  destruct (Rcompare_spec (R64 a) (R64 b)); split; intros; try discriminate; try lra; auto.
Qed.

Lemma deq_false : forall a b : dbl, d_finite a = true -> d_finite b = true ->
  (deq a b = false <-> R64 a <> R64 b).
Proof.
  intros a b Ha Hb. generalize (deq_spec a b Ha Hb). destruct (deq a b); intros [H1 H2]; split; intros; try discriminate; auto.
  - exfalso. apply H. apply H1. reflexivity.
  - intro E. apply H2 in E. discriminate.
Qed.

Lemma dgt_spec : forall a b : dbl, d_finite a = true -> d_finite b = true ->
  dgt a b = Rlt_bool (R64 b) (R64 a).
Proof.
  intros a b Ha Hb. unfold dgt, Rlt_bool. rewrite dcmp_spec by assumption.
  rewrite (Rcompare_sym (R64 b)). now destruct Rcompare.
Qed.

Lemma fin_finite : forall x, d_finite (fin x) = true.
Proof. intros x; unfold fin. destruct (d_finite x) eqn:E; [exact E|reflexivity]. Qed.

Lemma fin_id : forall x, d_finite x = true -> fin x = x.
Proof. intros x H; unfold fin. now rewrite H. Qed.

Lemma dlt_fin_R : forall a b, dlt_fin a b = Rlt_bool (R64 (fin a)) (R64 (fin b)).
Proof. intros; unfold dlt_fin. apply dlt_spec; apply fin_finite. Qed.

(* on finite doubles the comparator given to sort IS the IEEE `<` *)
Lemma dlt_fin_finite : forall a b, d_finite a = true -> d_finite b = true -> dlt_fin a b = dlt a b.
Proof. intros a b Ha Hb; unfold dlt_fin. now rewrite !fin_id. Qed.

Lemma dlt_fin_swo : strict_weak_order dlt_fin.
Proof.
  constructor; intros *; rewrite !dlt_fin_R.
  - apply Rlt_bool_false; lra.
  - intros H1 H2. apply Rlt_bool_true.
    revert H1 H2; do 2 (case Rlt_bool_spec; try discriminate); intros; lra.
  - intros H1 H2. apply Rlt_bool_false.
    revert H1 H2; do 2 (case Rlt_bool_spec; try discriminate); intros; lra.
Qed.

(* ------------------------------------------------------------------ sorted lists of doubles *)

Lemma nondecr_app_inv : forall l1 l2, nondecr (l1 ++ l2) ->
  nondecr l1 /\ nondecr l2 /\ (forall x y, In x l1 -> In y l2 -> R64 x <= R64 y).
Proof.
  induction l1 as [|a l1 IH]; intros l2 H; cbn in *.
  - repeat split; auto. constructor. intros x y [].
  - inversion H as [|? ? H1 H2]; subst. destruct (IH l2 H1) as (A & B & C).
    apply Forall_app in H2. destruct H2 as (H2a & H2b).
    repeat split; auto.
    + constructor; auto.
    + intros x y [Hx|Hx] Hy; [subst; rewrite Forall_forall in H2b; auto | auto].
Qed.

Lemma nondecr_head_min : forall a l x, nondecr (a :: l) -> In x (a :: l) -> R64 a <= R64 x.
Proof.
  intros a l x H [Hx|Hx]; [subst; lra|]. inversion H as [|? ? _ H2]; subst.
  rewrite Forall_forall in H2. auto.
Qed.

Lemma nondecr_last_max : forall l b x, nondecr (l ++ [b]) -> In x (l ++ [b]) -> R64 x <= R64 b.
Proof.
  intros l b x H Hx. destruct (nondecr_app_inv _ _ H) as (_ & _ & C).
  apply in_app_or in Hx. destruct Hx as [Hx|[Hx|[]]]; [apply C; cbn; auto | subst; lra].
Qed.

Lemma split_le : forall (t : R) l, nondecr l ->
  exists l1 l2, l = l1 ++ l2 /\ Forall (fun x => R64 x <= t) l1 /\ Forall (fun x => t < R64 x) l2.
Proof.
  intros t; induction l as [|a l IH]; intros H.
  - exists [], []; repeat split; constructor.
  - inversion H as [|? ? H1 H2]; subst. destruct (Rle_or_lt (R64 a) t) as [Ha|Ha].
    + destruct (IH H1) as (l1 & l2 & E & A & B). exists (a :: l1), l2. subst; repeat split; auto.
    + exists [], (a :: l). repeat split; auto. constructor; auto.
      rewrite Forall_forall in *. intros x Hx. specialize (H2 x Hx). cbn in H2. lra.
Qed.

Lemma split_lt : forall (t : R) l, nondecr l ->
  exists l1 l2, l = l1 ++ l2 /\ Forall (fun x => R64 x < t) l1 /\ Forall (fun x => t <= R64 x) l2.
Proof.
  intros t; induction l as [|a l IH]; intros H.
  - exists [], []; repeat split; constructor.
  - inversion H as [|? ? H1 H2]; subst. destruct (Rlt_or_le (R64 a) t) as [Ha|Ha].
    + destruct (IH H1) as (l1 & l2 & E & A & B). exists (a :: l1), l2. subst; repeat split; auto.
    + exists [], (a :: l). repeat split; auto. constructor; auto.
      rewrite Forall_forall in *. intros x Hx. specialize (H2 x Hx). cbn in H2. lra.
Qed.

(* a sorted list whose first value is below its last value: the run of minima, the interior, the run of maxima *)
Lemma sorted_three : forall (c0 cl : dbl) (body : list dbl),
  nondecr (c0 :: body ++ [cl]) -> R64 c0 < R64 cl ->
  exists pre mid suf, c0 :: body ++ [cl] = (c0 :: pre) ++ mid ++ (suf ++ [cl]) /\
    Forall (fun x => R64 x = R64 c0) pre /\
    Forall (fun x => R64 c0 < R64 x < R64 cl) mid /\
    Forall (fun x => R64 x = R64 cl) suf.
Proof.
  intros c0 cl body H Hlt.
  assert (Hmin : forall x, In x (c0 :: body ++ [cl]) -> R64 c0 <= R64 x) by (intros; eapply nondecr_head_min; eauto).
  assert (Hmax : forall x, In x (c0 :: body ++ [cl]) -> R64 x <= R64 cl).
  { intros x Hx. apply (nondecr_last_max (c0 :: body) cl x); auto. }
  inversion H as [|? ? Hb _]; subst.
  destruct (nondecr_app_inv _ _ Hb) as (Hbody & _ & _).
  destruct (split_le (R64 c0) body Hbody) as (pre & rest & E1 & A1 & B1). subst body.
  destruct (nondecr_app_inv _ _ Hbody) as (_ & Hrest & _).
  destruct (split_lt (R64 cl) rest Hrest) as (mid & suf & E2 & A2 & B2). subst rest.
  exists pre, mid, suf. repeat split.
  - cbn. now rewrite <- !app_assoc.
  - rewrite Forall_forall in *. intros x Hx. specialize (A1 x Hx).
    assert (R64 c0 <= R64 x) by (apply Hmin; right; apply in_or_app; left; apply in_or_app; auto). lra.
  - rewrite Forall_forall in *. intros x Hx. split; [|auto].
    apply B1. apply in_or_app; auto.
  - rewrite Forall_forall in *. intros x Hx. specialize (B2 x Hx).
    assert (R64 x <= R64 cl); [|lra].
    apply Hmax. right. apply in_or_app; left. apply in_or_app; right. apply in_or_app; auto.
Qed.

(* ====================================================================== part 4 *)

Definition dd : dbl := B754_zero 53 1024 false.   (* default element of the index lemmas: never read *)

Lemma get_app_mid : forall (l1 : list dbl) x l2, get (l1 ++ x :: l2) (Z.of_nat (length l1)) = Ok x.
Proof.
  intros l1 x l2. rewrite (get_ok dd).
  - unfold sel. rewrite Nat2Z.id, app_nth2, Nat.sub_diag by lia. reflexivity.
  - unfold len. rewrite app_length. cbn [length]. lia.
Qed.

(* ------------------------------------------------------------------ the front scan *)
Lemma scan_front_ok : forall c0 pre x rest k,
  Forall (fun y => deq y c0 = true) pre -> deq x c0 = false ->
  scan_front c0 (pre ++ x :: rest) k = Ok (k + N.of_nat (length pre))%N.
Proof.
  intros c0; induction pre as [|a pre IH]; intros x rest k Hp Hx; cbn [app scan_front length].
  - rewrite Hx. f_equal. lia.
  - inversion Hp; subst. rewrite H1. rewrite IH by assumption. f_equal. lia.
Qed.

(* every element equals coords[0]: the repaired scan stops at the end of the allocation ... *)
Lemma scan_front_all : forall c0 l k, Forall (fun y => deq y c0 = true) l ->
  scan_front c0 l k = Ok (k + N.of_nat (length l))%N.
Proof.
  intros c0; induction l as [|a l IH]; intros k H; cbn [scan_front length]; [f_equal; lia|].
  inversion H; subst. rewrite H2, IH by assumption. f_equal. lia.
Qed.

(* ... the scan before commit e912cb9 left it *)
Lemma scan_front_unrepaired_crash : forall c0 l k, Forall (fun y => deq y c0 = true) l ->
  scan_front_unrepaired c0 l k = Crash.
Proof.
  intros c0; induction l as [|a l IH]; intros k H; cbn [scan_front_unrepaired]; [reflexivity|].
  inversion H; subst. rewrite H2. now apply IH.
Qed.

(* ------------------------------------------------------------------ the back scan *)
Lemma scan_back_ok : forall cl mid suf rest fuel,
  Forall (fun y => deq y cl = true) suf ->
  (mid = [] \/ deq (last mid dd) cl = false) ->
  (length suf < fuel)%nat ->
  scan_back fuel (mid ++ suf ++ rest) cl (N.of_nat (length mid + length suf)) = Ok (N.of_nat (length mid)).
Proof.
  intros cl mid suf. induction suf as [|y suf IH] using rev_ind; intros rest fuel Hs Hm Hf.
  - destruct fuel as [|f]; [cbn in Hf; lia|]. cbn [scan_back length app]. rewrite Nat.add_0_r.
    destruct (N.ltb_spec 0 (N.of_nat (length mid))) as [Hpos|Hz]; [|f_equal; lia].
    destruct Hm as [Hm|Hm]; [subst; cbn in Hpos; lia|].
    destruct (exists_last (l := mid)) as (m' & z & E); [intro; subst; cbn in Hpos; lia|]. subst mid.
    rewrite last_last in Hm. rewrite <- app_assoc. cbn [app].
    replace (Z.of_N (N.of_nat (length (m' ++ [z]))) - 1)%Z with (Z.of_nat (length m')) by (rewrite app_length; cbn [length]; lia).
    rewrite get_app_mid. cbn [obind]. rewrite Hm. reflexivity.
  - destruct fuel as [|f]; [lia|]. rewrite app_length in Hf. cbn [length] in Hf.
    apply Forall_app in Hs. destruct Hs as (Hs & Hy). inversion Hy; subst.
    cbn [scan_back]. rewrite app_length. cbn [length].
    destruct (N.ltb_spec 0 (N.of_nat (length mid + (length suf + 1)))) as [_|Hz]; [|lia].
    replace (mid ++ (suf ++ [y]) ++ rest) with ((mid ++ suf) ++ y :: rest) by (rewrite <- !app_assoc; reflexivity).
    replace (Z.of_N (N.of_nat (length mid + (length suf + 1))) - 1)%Z with (Z.of_nat (length (mid ++ suf))) by (rewrite app_length; lia).
    rewrite get_app_mid. cbn [obind]. rewrite H1.
    replace (N.of_nat (length mid + (length suf + 1)) - 1)%N with (N.of_nat (length mid + length suf)) by lia.
    rewrite <- app_assoc. apply (IH (y :: rest) f); auto. lia.
Qed.

(* ------------------------------------------------------------------ the frac loop *)
Fixpoint nseq (j : N) (n : nat) : list N :=
  match n with O => [] | S n' => j :: nseq (j + 1)%N n' end.

Lemma in_nseq : forall n j x, In x (nseq j n) <-> (j <= x < j + N.of_nat n)%N.
Proof.
  induction n as [|n IH]; intros j x; cbn [nseq In].
  - split; [intros []|lia].
  - rewrite IH. lia.
Qed.

Lemma cut_loop_ok : forall (interior : list dbl) frac (I : N -> N) n j0,
  (forall j, (j0 <= j < j0 + N.of_nat n)%N -> cut_index frac j = Ok (I j) /\ (Z.of_N (I j) < len interior)%Z) ->
  cut_loop interior frac j0 n = Ok (map (fun j => sel dd interior (Z.of_N (I j))) (nseq j0 n)).
Proof.
  intros interior frac I; induction n as [|n IH]; intros j0 H; cbn [cut_loop nseq map]; [reflexivity|].
  destruct (H j0) as (E & B); [lia|]. rewrite E. cbn [obind].
  rewrite (get_ok dd) by lia. cbn [obind].
  rewrite IH; [reflexivity|]. intros j Hj. apply H. lia.
Qed.

Lemma nondecr_map_nseq : forall (mid : list dbl) (I : N -> N) n j0,
  nondecr mid ->
  (forall j, (j0 <= j < j0 + N.of_nat n)%N -> (Z.of_N (I j) < len mid)%Z) ->
  (forall j j', (j0 <= j)%N -> (j <= j')%N -> (j' < j0 + N.of_nat n)%N -> (I j <= I j')%N) ->
  nondecr (map (fun j => sel dd mid (Z.of_N (I j))) (nseq j0 n)).
Proof.
  intros mid I n; induction n as [|n IH]; intros j0 Hm Hb Hmono; cbn [nseq map]; [constructor|].
  constructor.
  - apply IH; auto.
    + intros j Hj. apply Hb. lia.
    + intros j j' H1 H2 H3. apply Hmono; lia.
  - apply Forall_forall. intros x Hx. apply in_map_iff in Hx. destruct Hx as (j & Ej & Hj). subst x.
    apply in_nseq in Hj.
    assert (Hle : (I j0 <= I j)%N) by (apply Hmono; lia).
    assert (B1 : (Z.of_N (I j) < len mid)%Z) by (apply Hb; lia).
    (* positions i <= i' of a sorted list *)
    clear - Hm Hle B1. unfold sel, len in *.
    assert (G : forall (l : list dbl) a b, nondecr l -> (a <= b < length l)%nat -> R64 (nth a l dd) <= R64 (nth b l dd)).
    { induction l as [|h l IHl]; intros a b Hs Hab; [cbn in Hab; lia|].
      inversion Hs as [|? ? Hs1 Hs2]; subst. destruct a as [|a], b as [|b]; cbn [nth]; try lia; try lra.
      - rewrite Forall_forall in Hs2. apply Hs2. apply nth_In. cbn in Hab. lia.
      - apply IHl; auto. cbn in Hab. lia. }
    apply G; auto. lia.
Qed.

(* ====================================================================== part 5 *)

Lemma sel_app1 : forall (l1 l2 : list dbl) i, (0 <= i < len l1)%Z -> sel dd (l1 ++ l2) i = sel dd l1 i.
Proof. intros l1 l2 i H. unfold sel, len in *. apply app_nth1. lia. Qed.

Lemma firstn_app_exact : forall (l1 l2 : list dbl), firstn (length l1) (l1 ++ l2) = l1.
Proof. intros. rewrite firstn_app, Nat.sub_diag, firstn_all. cbn. apply app_nil_r. Qed.

Lemma length_nseq : forall n j, length (nseq j n) = n.
Proof. induction n as [|n IH]; intros j; cbn [nseq length]; [reflexivity|]. now rewrite IH. Qed.

(* what choose_cuts returns when `mid` is the window of interior coordinates *)
Lemma choose_cuts_ok : forall (c0 cl : dbl) (mid tail : list dbl) (k : N),
  nondecr mid -> (1 <= k)%N -> (Z.of_N k <= 2 ^ 51)%Z -> (Z.of_nat (length mid) < 2 ^ 53)%Z ->
  exists cs, choose_cuts c0 cl (mid ++ tail) (N.of_nat (length mid)) k = Ok cs /\
    (1 <= length cs)%nat /\ (N.of_nat (length cs) <= k)%N /\
    ((mid = [] /\ cs = [midpoint c0 cl]) \/
     (mid <> [] /\ nondecr cs /\ Forall (fun c => In c mid) cs)).
Proof.
  intros c0 cl mid tail k Hs Hk1 Hk51 Hlen. unfold choose_cuts.
  destruct (N.eqb_spec (N.of_nat (length mid)) 0) as [Hz|Hnz].
  - exists [midpoint c0 cl]. destruct mid; [|cbn [length] in Hz; lia]. cbn [length]. split; [reflexivity|]. split; [lia|]. split; [lia|]. left; split; reflexivity.
  - assert (Hne : mid <> []) by (intro; subst; cbn [length] in Hnz; lia).
    destruct (N.leb_spec (N.of_nat (length mid)) k) as [Hle|Hgt].
    + destruct (N.leb_spec (N.of_nat (length mid)) (N.of_nat (length (mid ++ tail)))) as [_|Hbad];
        [|rewrite app_length in Hbad; lia].
      exists mid. rewrite Nat2N.id, firstn_app_exact. split; [reflexivity|].
      split; [destruct mid; [congruence|cbn [length]; lia]|]. split; [exact Hle|].
      right. split; [exact Hne|]. split; [exact Hs|]. apply Forall_forall. auto.
    + set (count := N.of_nat (length mid)) in *.
      set (I := fun j => Z.to_N (idxR count k j)).
      assert (HI : forall j, (1 <= j < 1 + N.of_nat (N.to_nat k))%N ->
                 cut_index (cut_frac count k) j = Ok (I j) /\ (Z.of_N (I j) < len (mid ++ tail))%Z).
      { intros j Hj. assert (Hc : (Z.of_N count < 2 ^ 53)%Z) by (unfold count; lia).
        split; [apply cut_index_ok; lia|].
        destruct (idxR_bounds count k j ltac:(lia) ltac:(lia) ltac:(lia) Hc ltac:(lia)) as (_ & B1 & B2).
        unfold I, len. rewrite app_length. unfold count in *. lia. }
      rewrite (cut_loop_ok (mid ++ tail) (cut_frac count k) I (N.to_nat k) 1%N HI).
      eexists; split; [reflexivity|].
      assert (Hlen' : length (nseq 1 (N.to_nat k)) = N.to_nat k).
      { apply length_nseq. }
      rewrite map_length, Hlen'. split; [lia|]. split; [lia|]. right. split; [exact Hne|].
      assert (HB : forall j, (1 <= j < 1 + N.of_nat (N.to_nat k))%N -> (Z.of_N (I j) < len mid)%Z).
      { intros j Hj.
        destruct (idxR_bounds count k j ltac:(lia) ltac:(lia) ltac:(lia) ltac:(unfold count; lia) ltac:(lia)) as (_ & B1 & B2).
        unfold I, len. unfold count in *. lia. }
      assert (E : map (fun j => sel dd (mid ++ tail) (Z.of_N (I j))) (nseq 1 (N.to_nat k))
                = map (fun j => sel dd mid (Z.of_N (I j))) (nseq 1 (N.to_nat k))).
      { apply map_ext_in. intros j Hj. apply in_nseq in Hj. apply sel_app1. specialize (HB j Hj). lia. }
      rewrite E. split.
      * apply nondecr_map_nseq; auto.
        intros j j' H1 H2 H3. unfold I.
        assert (M := idxR_mono count k j j'). 
        destruct (idxR_bounds count k j ltac:(lia) ltac:(lia) ltac:(lia) ltac:(unfold count; lia) ltac:(lia)) as (_ & B1 & _).
        specialize (M ltac:(lia) ltac:(unfold count; lia) H2). lia.
      * apply Forall_forall. intros x Hx. apply in_map_iff in Hx. destruct Hx as (j & Ej & Hj). subst x.
        apply in_nseq in Hj. apply sel_In. specialize (HB j Hj). lia.
Qed.

(* ====================================================================== part 6 *)

Lemma all_fin_app : forall l1 l2, all_fin (l1 ++ l2) <-> all_fin l1 /\ all_fin l2.
Proof. intros; unfold all_fin; apply Forall_app. Qed.

Lemma cuts_of_sorted_ok : forall (c0 cl : dbl) (pre mid suf : list dbl) (k : N),
  let r := (c0 :: pre) ++ mid ++ (suf ++ [cl]) in
  all_fin r ->
  Forall (fun x => R64 x = R64 c0) pre ->
  Forall (fun x => R64 c0 < R64 x < R64 cl) mid ->
  Forall (fun x => R64 x = R64 cl) suf ->
  R64 c0 < R64 cl ->
  (Z.of_nat (length r) < 2 ^ 64)%Z ->
  cuts_of_sorted r (N.of_nat (length r)) k = choose_cuts c0 cl (mid ++ suf ++ [cl]) (N.of_nat (length mid)) k.
Proof.
  intros c0 cl pre mid suf k r Hfin Hpre Hmid Hsuf Hlt Hlen.
  assert (Hf := Hfin). unfold r in Hf. apply all_fin_app in Hf. destruct Hf as (Fp & Hf).
  apply all_fin_app in Hf. destruct Hf as (Fm & Fs).
  inversion Fp as [|? ? Fc0 Fpre]; subst.
  assert (Fcl : d_finite cl = true).
  { apply all_fin_app in Fs. destruct Fs as (_ & Fs). inversion Fs; auto. }
  assert (Fsuf : all_fin suf) by (apply all_fin_app in Fs; apply Fs).
  unfold cuts_of_sorted, cuts_of_sorted_with.
  (* coords[0] *)
  assert (E0 : get r 0 = Ok c0) by reflexivity. rewrite E0. cbn [obind].
  (* coords[num_points - 1] *)
  assert (El : get r (Z.of_N (N.of_nat (length r)) - 1) = Ok cl).
  { unfold r. replace ((c0 :: pre) ++ mid ++ suf ++ [cl]) with (((c0 :: pre) ++ mid ++ suf) ++ cl :: [])
      by (rewrite <- !app_assoc; reflexivity).
    replace (Z.of_N (N.of_nat (length (((c0 :: pre) ++ mid ++ suf) ++ [cl]))) - 1)%Z
      with (Z.of_nat (length ((c0 :: pre) ++ mid ++ suf))) by (rewrite (app_length _ [cl]); cbn [length]; lia).
    apply get_app_mid. }
  rewrite El. cbn [obind].
  (* the front scan stops at the first element of mid ++ suf ++ [cl] *)
  assert (Hpre' : Forall (fun y => deq y c0 = true) (c0 :: pre)).
  { constructor; [apply deq_spec; auto|].
    apply Forall_forall. intros y Hy. rewrite Forall_forall in Hpre, Fpre. apply deq_spec; auto. }
  assert (Ek : scan_front c0 r 0 = Ok (N.of_nat (length (c0 :: pre)))).
  { unfold r. destruct (mid ++ suf ++ [cl]) as [|x rest] eqn:Ex; [destruct mid, suf; discriminate|].
    rewrite scan_front_ok; [f_equal; lia|exact Hpre'|].
    assert (Hx : In x (mid ++ suf ++ [cl])) by (rewrite Ex; left; reflexivity).
    assert (Fx : d_finite x = true).
    { assert (A : all_fin (mid ++ suf ++ [cl])) by (apply all_fin_app; auto).
      unfold all_fin in A. rewrite Forall_forall in A. auto. }
    apply deq_false; auto.
    apply in_app_or in Hx. destruct Hx as [Hx|Hx].
    - rewrite Forall_forall in Hmid. specialize (Hmid x Hx). lra.
    - apply in_app_or in Hx. destruct Hx as [Hx|[Hx|[]]].
      + rewrite Forall_forall in Hsuf. rewrite (Hsuf x Hx). lra.
      + subst x. lra. }
  rewrite Ek. cbn [obind]. rewrite Nat2N.id.
  assert (Ei : skipn (length (c0 :: pre)) r = mid ++ suf ++ [cl]).
  { unfold r. rewrite skipn_app, Nat.sub_diag, skipn_all. reflexivity. }
  rewrite Ei.
  assert (Ec : ((N.of_nat (length r) + 2 ^ 64 - N.of_nat (length (c0 :: pre))) mod 2 ^ 64)%N
             = N.of_nat (length mid + length (suf ++ [cl]))).
  { assert (L : length r = (length (c0 :: pre) + (length mid + length (suf ++ [cl])))%nat)
      by (unfold r; rewrite !app_length; reflexivity).
    rewrite L in *.
    replace (N.of_nat (length (c0 :: pre) + (length mid + length (suf ++ [cl]))) + 2 ^ 64 - N.of_nat (length (c0 :: pre)))%N
      with (N.of_nat (length mid + length (suf ++ [cl])) + 1 * 2 ^ 64)%N by lia.
    rewrite N.mod_add by lia. apply N.mod_small.
    change (2 ^ 64)%N with (Z.to_N (2 ^ 64)). lia. }
  rewrite Ec.
  (* the back scan *)
  assert (Hsuf' : Forall (fun y => deq y cl = true) (suf ++ [cl])).
  { apply Forall_app; split.
    - apply Forall_forall. intros y Hy. unfold all_fin in Fsuf. rewrite Forall_forall in Hsuf, Fsuf. apply deq_spec; auto.
    - constructor; [apply deq_spec; auto|constructor]. }
  assert (Hm' : mid = [] \/ deq (last mid dd) cl = false).
  { destruct mid as [|a0 m0]; [left; reflexivity|right].
    destruct (@exists_last _ (a0 :: m0)) as (mid' & z & E); [discriminate|]. rewrite E in *. clear E.
    rename z into m0'. rewrite last_last. apply Forall_app in Hmid. destruct Hmid as (_ & Hm0). inversion Hm0; subst.
    apply all_fin_app in Fm. destruct Fm as (_ & Fm0). inversion Fm0; subst.
    apply deq_false; auto. lra. }
  replace (mid ++ suf ++ [cl]) with (mid ++ (suf ++ [cl]) ++ []) at 1 2 by (rewrite app_nil_r; reflexivity).
  rewrite (scan_back_ok cl mid (suf ++ [cl]) [] _ Hsuf' Hm') by (rewrite !app_length; lia).
  cbn [obind]. reflexivity.
Qed.

(* ====================================================================== part 7 *)

(* all the sorted coordinates equal: interior_coords.items stops at coords + num_points, interior_coords.count = 0 *)
Lemma cuts_of_sorted_all_equal : forall (c0 cl : dbl) (body : list dbl) (k : N),
  let r := c0 :: body ++ [cl] in
  all_fin r -> Forall (fun x => R64 x = R64 c0) r -> (Z.of_nat (length r) < 2 ^ 64)%Z ->
  cuts_of_sorted r (N.of_nat (length r)) k = Ok [midpoint c0 cl].
Proof.
  intros c0 cl body k r Hfin Heq Hlen. unfold cuts_of_sorted, cuts_of_sorted_with.
  assert (E0 : get r 0 = Ok c0) by reflexivity. rewrite E0. cbn [obind].
  assert (El : get r (Z.of_N (N.of_nat (length r)) - 1) = Ok cl).
  { unfold r. replace (Z.of_N (N.of_nat (length (c0 :: body ++ [cl]))) - 1)%Z with (Z.of_nat (length (c0 :: body))).
    - apply (get_app_mid (c0 :: body) cl []).
    - cbn [length]. rewrite app_length. cbn [length]. lia. }
  rewrite El. cbn [obind].
  assert (F0 : d_finite c0 = true) by (inversion Hfin; auto).
  assert (Hd : Forall (fun y => deq y c0 = true) r).
  { apply Forall_forall. intros y Hy. unfold all_fin in Hfin. rewrite Forall_forall in Hfin, Heq. apply deq_spec; auto. }
  rewrite (scan_front_all c0 r 0 Hd). cbn [obind]. rewrite N.add_0_l, Nat2N.id, skipn_all.
  replace ((N.of_nat (length r) + 2 ^ 64 - N.of_nat (length r)) mod 2 ^ 64)%N with 0%N.
  - reflexivity.
  - replace (N.of_nat (length r) + 2 ^ 64 - N.of_nat (length r))%N with (0 + 1 * 2 ^ 64)%N by lia.
    rewrite N.mod_add by lia. reflexivity.
Qed.

Lemma midpoint_same : forall a b : dbl, d_small a -> d_small b -> R64 a = R64 b ->
  d_finite (midpoint a b) = true /\ R64 (midpoint a b) = R64 a.
Proof.
  intros a b Sa Sb E. destruct (midpoint_within_lemma a b Sa Sb) as (F & M); [lra|]. split; [exact F|lra].
Qed.

Lemma num_cuts_bounds : forall n mp : N, (4 < mp)%N -> (mp < n)%N -> (Z.of_N n < 2 ^ 53)%Z ->
  (1 <= n / mp)%N /\ (Z.of_N (n / mp) <= 2 ^ 51)%Z.
Proof.
  intros n mp H4 Hn H53.
  assert (E := N.div_mod n mp ltac:(lia)). assert (B := N.mod_lt n mp ltac:(lia)).
  set (k := (n / mp)%N) in *. set (m := (n mod mp)%N) in *. split; nia.
Qed.

Lemma nonempty_ends : forall (l : list dbl), (2 <= length l)%nat -> exists c0 body cl, l = c0 :: body ++ [cl].
Proof.
  intros [|c0 t] H; [cbn in H; lia|]. destruct (@exists_last _ t) as (body & cl & E).
  - intro; subst; cbn in H; lia.
  - exists c0, body, cl. now rewrite E.
Qed.

Lemma sorted_nondecr : forall r, all_fin r -> StronglySorted (le_of dlt_fin) r -> nondecr r.
Proof.
  induction r as [|a r IH]; intros Hf Hs; [constructor|].
  inversion Hs as [|? ? H1 H2]; subst. inversion Hf as [|? ? Fa Fr]; subst.
  constructor; [apply IH; auto|].
  unfold all_fin in Fr. rewrite Forall_forall in *. intros x Hx. specialize (H2 x Hx). unfold le_of in H2.
  rewrite dlt_fin_R, !fin_id in H2 by auto. revert H2. case Rlt_bool_spec; [discriminate|]. intros; lra.
Qed.

Lemma axis_coords_small : forall ax pts, Forall pt_small pts -> Forall d_small (axis_coords ax pts).
Proof.
  intros ax pts H. unfold axis_coords. apply Forall_forall. intros c Hc. apply in_map_iff in Hc.
  destruct Hc as (p & E & Hp). rewrite Forall_forall in H. destruct (H p Hp) as (A & B). subst c. destruct ax; auto.
Qed.

Lemma pts_finite : forall pts, Forall pt_small pts -> forallb pt_finite pts = true.
Proof.
  intros pts H. apply forallb_forall. intros p Hp. rewrite Forall_forall in H. destruct (H p Hp) as ((A & _) & (B & _)).
  unfold pt_finite. now rewrite A, B.
Qed.

Lemma axis_coords_fin : forall ax pts, forallb pt_finite pts = true -> all_fin (axis_coords ax pts).
Proof.
  intros ax pts H. unfold all_fin, axis_coords. apply Forall_forall. intros c Hc. apply in_map_iff in Hc.
  destruct Hc as (p & E & Hp). rewrite forallb_forall in H. specialize (H p Hp). unfold pt_finite in H.
  apply andb_prop in H. destruct H as (A & B). subst c. destruct ax; auto.
Qed.

Section Main.
Variable max_points : N.
Variable pts : list dpoint.
Let n := N.of_nat (length pts).
Hypothesis Hfin : forallb pt_finite pts = true.
Hypothesis H4 : (4 < max_points)%N.
Hypothesis Hn : (max_points < n)%N.
Hypothesis Hn53 : (Z.of_N n < 2 ^ 53)%Z.
Let ax := choose_x_axis (bounding_box pts).
Let coords := axis_coords ax pts.
Let k := (n / max_points)%N.

Lemma fracture_cuts_unfold :
  fracture_cuts max_points pts =
    obind (Sort.sort dlt_fin coords) (fun sorted =>
    obind (cuts_of_sorted sorted n k) (fun cuts => Ok (Cuts ax cuts))).
Proof.
  unfold fracture_cuts, fracture_cuts_with. rewrite Hfin. cbn [negb].
  destruct (N.leb_spec max_points 4); [lia|]. fold n.
  destruct (N.leb_spec n max_points); [lia|]. reflexivity.
Qed.

Lemma sorted_coords : exists r, Sort.sort dlt_fin coords = Ok r /\ Permutation coords r /\ nondecr r /\
  all_fin r /\ length r = length pts.
Proof.
  destruct (sort_ordered_permutation_lemma dbl dlt_fin coords dlt_fin_swo) as (r & E & P & _).
  destruct (sort_sorted_lemma dbl dlt_fin coords r dlt_fin_swo E) as (_ & S).
  assert (Hs : all_fin r).
  { unfold all_fin. apply Forall_forall. intros x Hx. apply Permutation_sym in P.
    assert (Hc := Permutation_in x P Hx). generalize (axis_coords_fin ax pts Hfin). unfold all_fin. rewrite Forall_forall. auto. }
  exists r. repeat split; auto.
  - apply sorted_nondecr; auto.
  - rewrite <- (Permutation_length P). unfold coords, axis_coords. apply map_length.
Qed.

(* one round, for every finite input: the sorted coordinates c0 ... cl, and what fracture_cuts computes in the two cases *)
Lemma fracture_cuts_run : exists c0 body cl,
  Permutation coords (c0 :: body ++ [cl]) /\ nondecr (c0 :: body ++ [cl]) /\ all_fin (c0 :: body ++ [cl]) /\
  (R64 c0 < R64 cl ->
     exists pre mid suf, c0 :: body ++ [cl] = (c0 :: pre) ++ mid ++ suf ++ [cl] /\
       Forall (fun x => R64 x = R64 c0) pre /\ Forall (fun x => R64 c0 < R64 x < R64 cl) mid /\
       Forall (fun x => R64 x = R64 cl) suf /\ nondecr mid /\ (Z.of_nat (length mid) < 2 ^ 53)%Z /\
       fracture_cuts max_points pts =
         obind (choose_cuts c0 cl (mid ++ suf ++ [cl]) (N.of_nat (length mid)) k) (fun cuts => Ok (Cuts ax cuts))) /\
  (~ R64 c0 < R64 cl ->
     Forall (fun x => R64 x = R64 c0) (c0 :: body ++ [cl]) /\
     fracture_cuts max_points pts = Ok (Cuts ax [midpoint c0 cl])).
Proof.
  destruct sorted_coords as (r & E & P & S & Fr & L).
  destruct (nonempty_ends r) as (c0 & body & cl & Er); [unfold n in Hn; lia|].
  rewrite Er in S, Fr, P, L. exists c0, body, cl. split; [exact P|]. split; [exact S|]. split; [exact Fr|].
  assert (Hmin : forall x, In x (c0 :: body ++ [cl]) -> R64 c0 <= R64 x) by (intros; eapply nondecr_head_min; eauto).
  assert (Hmax : forall x, In x (c0 :: body ++ [cl]) -> R64 x <= R64 cl).
  { intros x Hx. apply (nondecr_last_max (c0 :: body) cl x); auto. }
  assert (Ln : n = N.of_nat (length (c0 :: body ++ [cl]))) by (unfold n; now rewrite L).
  assert (L64 : (Z.of_nat (length (c0 :: body ++ [cl])) < 2 ^ 64)%Z) by (rewrite L; unfold n in Hn53; lia).
  split.
  - intros Hlt. destruct (sorted_three c0 cl body S Hlt) as (pre & mid & suf & Ed & Apre & Amid & Asuf).
    exists pre, mid, suf. split; [exact Ed|]. split; [exact Apre|]. split; [exact Amid|]. split; [exact Asuf|].
    rewrite Ed in S, Fr, Ln, L64.
    destruct (nondecr_app_inv _ _ S) as (_ & S2 & _). destruct (nondecr_app_inv _ _ S2) as (Smid & _ & _).
    split; [exact Smid|]. split.
    { rewrite Ln in Hn53. rewrite !app_length in Hn53. lia. }
    rewrite fracture_cuts_unfold, E. cbn [obind]. rewrite Er, Ed.
    rewrite (f_equal (fun z => cuts_of_sorted ((c0 :: pre) ++ mid ++ suf ++ [cl]) z k) Ln).
    rewrite cuts_of_sorted_ok; auto.
  - intros Hnlt.
    assert (Heq : Forall (fun x => R64 x = R64 c0) (c0 :: body ++ [cl])).
    { apply Forall_forall. intros x Hx. generalize (Hmin x Hx) (Hmax x Hx). lra. }
    split; [exact Heq|].
    rewrite fracture_cuts_unfold, E. cbn [obind]. rewrite Er.
    rewrite (f_equal (fun z => cuts_of_sorted (c0 :: body ++ [cl]) z k) Ln).
    rewrite cuts_of_sorted_all_equal; auto.
Qed.

(* no out-of-bounds access anywhere: for EVERY vertex list of finite doubles the model returns a cut list *)
Lemma fracture_cuts_no_crash_main :
  exists cs, fracture_cuts max_points pts = Ok (Cuts ax cs) /\ (1 <= length cs)%nat /\ (N.of_nat (length cs) <= k)%N.
Proof.
  destruct fracture_cuts_run as (c0 & body & cl & P & S & Fr & Hlt & Heq).
  destruct (num_cuts_bounds n max_points H4 Hn Hn53) as (K1 & K51). fold k in K1, K51.
  destruct (Rlt_dec (R64 c0) (R64 cl)) as [H|H].
  - destruct (Hlt H) as (pre & mid & suf & _ & _ & _ & _ & Smid & Lmid & E).
    destruct (choose_cuts_ok c0 cl mid (suf ++ [cl]) k Smid K1 K51 Lmid) as (cs & Ecs & C1 & C2 & _).
    exists cs. rewrite E, Ecs. cbn [obind]. auto.
  - destruct (Heq H) as (_ & E). exists [midpoint c0 cl]. rewrite E. cbn [length]. repeat split; lia.
Qed.

(* (1)-(3): the chosen-axis coordinates are not all equal -> slice is called with a cut list as specified *)
Lemma fracture_cuts_ok_main : Forall pt_small pts ->
  ~ all_equal coords ->
  exists cs, fracture_cuts max_points pts = Ok (Cuts ax cs) /\ cuts_spec coords cs k.
Proof.
  intros Hsmall Hne.
  destruct fracture_cuts_run as (c0 & body & cl & P & S & Fr & Hlt & Heq).
  assert (Hs : Forall d_small (c0 :: body ++ [cl])).
  { apply Forall_forall. intros x Hx. apply Permutation_sym in P.
    assert (Hc := Permutation_in x P Hx). generalize (axis_coords_small ax pts Hsmall). rewrite Forall_forall. auto. }
  assert (Hmin : forall x, In x (c0 :: body ++ [cl]) -> R64 c0 <= R64 x) by (intros; eapply nondecr_head_min; eauto).
  assert (Hmax : forall x, In x (c0 :: body ++ [cl]) -> R64 x <= R64 cl).
  { intros x Hx. apply (nondecr_last_max (c0 :: body) cl x); auto. }
  assert (Hl : R64 c0 < R64 cl).
  { destruct (Rlt_or_le (R64 c0) (R64 cl)) as [H|H]; [exact H|]. exfalso. apply Hne.
    intros c c' Hc Hc'. apply (Permutation_in _ P) in Hc. apply (Permutation_in _ P) in Hc'.
    generalize (Hmin c Hc) (Hmax c Hc) (Hmin c' Hc') (Hmax c' Hc'). lra. }
  destruct (Hlt Hl) as (pre & mid & suf & Ed & Apre & Amid & Asuf & Smid & Lmid & E).
  destruct (num_cuts_bounds n max_points H4 Hn Hn53) as (K1 & K51). fold k in K1, K51.
  destruct (choose_cuts_ok c0 cl mid (suf ++ [cl]) k Smid K1 K51 Lmid) as (cs & Ecs & C1 & C2 & C3).
  rewrite E, Ecs. cbn [obind]. exists cs. split; [reflexivity|].
  rewrite Ed in P, Hs, Hmin, Hmax.
  assert (In0 : In c0 coords) by (apply (Permutation_in _ (Permutation_sym P)); left; reflexivity).
  assert (Inl : In cl coords).
  { apply (Permutation_in _ (Permutation_sym P)). apply in_or_app; right. apply in_or_app; right. apply in_or_app; right. left; reflexivity. }
  assert (Inmid : forall c, In c mid -> In c coords).
  { intros c Hc. apply (Permutation_in _ (Permutation_sym P)). apply in_or_app; right. apply in_or_app; left; exact Hc. }
  exists c0, cl. split; [exact In0|]. split; [exact Inl|]. split.
  { intros c Hc. apply (Permutation_in _ P) in Hc. split; [apply Hmin|apply Hmax]; exact Hc. }
  split; [exact Hl|]. split; [exact C1|]. split; [exact C2|].
  assert (S0 : d_small c0) by (rewrite Forall_forall in Hs; apply Hs; left; reflexivity).
  assert (Sl : d_small cl).
  { rewrite Forall_forall in Hs; apply Hs. apply in_or_app; right. apply in_or_app; right. apply in_or_app; right. left; reflexivity. }
  destruct C3 as [(Em & Ec)|(Nm & Sc & Ic)].
  - subst cs mid. split; [constructor; [apply (midpoint_val c0 cl S0 Sl)|constructor]|].
    split; [constructor; [constructor|constructor]|]. left. split; [reflexivity|].
    intros c Hc. apply (Permutation_in _ P) in Hc. cbn [app] in Hc.
    rewrite Forall_forall in Apre, Asuf.
    destruct Hc as [Hc|Hc]; [subst; auto|]. apply in_app_or in Hc. destruct Hc as [Hc|Hc]; [left; auto|].
    apply in_app_or in Hc. destruct Hc as [Hc|[Hc|[]]]; [right; auto|subst; auto].
  - split.
    + unfold all_fin. apply Forall_forall. intros c Hc. rewrite Forall_forall in Ic.
      assert (Hs' := axis_coords_small ax pts Hsmall). rewrite Forall_forall in Hs'. apply (Hs' c). apply Inmid, Ic, Hc.
    + split; [exact Sc|]. right. apply Forall_forall. intros c Hc. rewrite Forall_forall in Ic, Amid.
      split; [apply Inmid, Ic, Hc | apply Amid, Ic, Hc].
Qed.

(* the chosen-axis coordinates are all equal (all vertices one point): since commit e912cb9 the first scan stops at the end
   of the array, interior_coords.count is 0 and the single cut is the midpoint of two equal numbers, that is the coordinate *)
Lemma fracture_cuts_all_equal_main : Forall pt_small pts ->
  all_equal coords ->
  exists c c', In c coords /\ In c' coords /\
    fracture_cuts max_points pts = Ok (Cuts ax [midpoint c c']) /\
    d_finite (midpoint c c') = true /\ forall x, In x coords -> R64 (midpoint c c') = R64 x.
Proof.
  intros Hsmall Heq.
  destruct fracture_cuts_run as (c0 & body & cl & P & S & Fr & _ & Hrun).
  assert (In0 : In c0 coords) by (apply (Permutation_in _ (Permutation_sym P)); left; reflexivity).
  assert (Inl : In cl coords).
  { apply (Permutation_in _ (Permutation_sym P)). right. apply in_or_app; right. left; reflexivity. }
  assert (Hs := axis_coords_small ax pts Hsmall). rewrite Forall_forall in Hs.
  destruct Hrun as (_ & E); [rewrite (Heq c0 cl In0 Inl); lra|].
  exists c0, cl. split; [exact In0|]. split; [exact Inl|]. split; [exact E|].
  destruct (midpoint_same c0 cl (Hs _ In0) (Hs _ Inl) (Heq c0 cl In0 Inl)) as (F & M).
  split; [exact F|]. intros x Hx. rewrite M. apply Heq; auto.
Qed.
End Main.

Theorem fracture_cuts_no_crash_lemma : forall (max_points : N) (pts : list dpoint),
  forallb pt_finite pts = true -> (4 < max_points)%N -> (max_points < N.of_nat (length pts))%N ->
  (Z.of_N (N.of_nat (length pts)) < 2 ^ 53)%Z ->
  exists cs, fracture_cuts max_points pts = Ok (Cuts (choose_x_axis (bounding_box pts)) cs) /\
    (1 <= length cs)%nat /\ (N.of_nat (length cs) <= N.of_nat (length pts) / max_points)%N.
Proof. exact fracture_cuts_no_crash_main. Qed.

Theorem fracture_cuts_ok_lemma : forall (max_points : N) (pts : list dpoint),
  Forall pt_small pts -> (4 < max_points)%N -> (max_points < N.of_nat (length pts))%N ->
  (Z.of_N (N.of_nat (length pts)) < 2 ^ 53)%Z ->
  ~ all_equal (axis_coords (choose_x_axis (bounding_box pts)) pts) ->
  exists cs, fracture_cuts max_points pts = Ok (Cuts (choose_x_axis (bounding_box pts)) cs) /\
    cuts_spec (axis_coords (choose_x_axis (bounding_box pts)) pts) cs (N.of_nat (length pts) / max_points).
Proof. intros mp pts Hs H4 Hn H53. exact (fracture_cuts_ok_main mp pts (pts_finite pts Hs) H4 Hn H53 Hs). Qed.

Theorem fracture_cuts_all_equal_lemma : forall (max_points : N) (pts : list dpoint),
  Forall pt_small pts -> (4 < max_points)%N -> (max_points < N.of_nat (length pts))%N ->
  (Z.of_N (N.of_nat (length pts)) < 2 ^ 53)%Z ->
  all_equal (axis_coords (choose_x_axis (bounding_box pts)) pts) ->
  exists c c', In c (axis_coords (choose_x_axis (bounding_box pts)) pts) /\
    In c' (axis_coords (choose_x_axis (bounding_box pts)) pts) /\
    fracture_cuts max_points pts = Ok (Cuts (choose_x_axis (bounding_box pts)) [midpoint c c']) /\
    d_finite (midpoint c c') = true /\
    forall x, In x (axis_coords (choose_x_axis (bounding_box pts)) pts) -> R64 (midpoint c c') = R64 x.
Proof. intros mp pts Hs H4 Hn H53. exact (fracture_cuts_all_equal_main mp pts (pts_finite pts Hs) H4 Hn H53 Hs). Qed.

(* the code before commit e912cb9 on the same inputs: the scan ran off the array *)
Theorem fracture_cuts_unrepaired_crash_lemma : forall (max_points : N) (pts : list dpoint),
  forallb pt_finite pts = true -> (4 < max_points)%N -> (max_points < N.of_nat (length pts))%N ->
  all_equal (axis_coords (choose_x_axis (bounding_box pts)) pts) ->
  fracture_cuts_unrepaired max_points pts = Crash.
Proof.
  intros mp pts Hfin H4 Hn Heq.
  unfold fracture_cuts_unrepaired, fracture_cuts_with. rewrite Hfin. cbn [negb].
  destruct (N.leb_spec mp 4); [lia|]. destruct (N.leb_spec (N.of_nat (length pts)) mp); [lia|].
  set (ax := choose_x_axis (bounding_box pts)) in *. set (coords := axis_coords ax pts) in *.
  destruct (sort_ordered_permutation_lemma dbl dlt_fin coords dlt_fin_swo) as (r & E & P & _).
  rewrite E. cbn [obind].
  assert (L : length r = length pts).
  { rewrite <- (Permutation_length P). unfold coords, axis_coords. apply map_length. }
  assert (Fr : all_fin r).
  { unfold all_fin. apply Forall_forall. intros x Hx. apply Permutation_sym in P.
    assert (Hc := Permutation_in x P Hx). generalize (axis_coords_fin ax pts Hfin). unfold all_fin. rewrite Forall_forall. auto. }
  destruct (nonempty_ends r) as (c0 & body & cl & Er); [lia|].
  unfold cuts_of_sorted_with. rewrite Er. assert (E0 : get (c0 :: body ++ [cl]) 0 = Ok c0) by reflexivity. rewrite E0. cbn [obind].
  assert (El : get (c0 :: body ++ [cl]) (Z.of_N (N.of_nat (length pts)) - 1) = Ok cl).
  { replace (Z.of_N (N.of_nat (length pts)) - 1)%Z with (Z.of_nat (length (c0 :: body))).
    - apply (get_app_mid (c0 :: body) cl []).
    - rewrite <- L, Er. cbn [length]. rewrite app_length. cbn [length]. lia. }
  rewrite El. cbn [obind]. rewrite scan_front_unrepaired_crash; [reflexivity|].
  apply Forall_forall. intros y Hy. rewrite <- Er in Hy. unfold all_fin in Fr. rewrite Forall_forall in Fr.
  apply deq_spec; [apply Fr; auto|apply Fr; rewrite Er; left; reflexivity|].
  apply Heq; apply (Permutation_in _ (Permutation_sym P)); auto. rewrite Er; left; reflexivity.
Qed.

(* ====================================================================== part 8 *)

(* ------------------------------------------------------------------ Polygon::bounding_box *)
Definition min_step (m x : dbl) : dbl := if dlt x m then x else m.
Definition max_step (m x : dbl) : dbl := if dgt x m then x else m.

Lemma bb_fold : forall pts b,
  let r := fold_left bb_step pts b in
  bb_minx r = fold_left min_step (map fst pts) (bb_minx b) /\
  bb_miny r = fold_left min_step (map snd pts) (bb_miny b) /\
  bb_maxx r = fold_left max_step (map fst pts) (bb_maxx b) /\
  bb_maxy r = fold_left max_step (map snd pts) (bb_maxy b).
Proof.
  induction pts as [|p pts IH]; intros b; cbn [fold_left map]; [auto|].
  destruct (IH (bb_step b p)) as (A & B & C & D). cbv zeta. rewrite A, B, C, D. auto.
Qed.

Lemma fold_min_spec : forall l m0, d_finite m0 = true -> all_fin l ->
  let m := fold_left min_step l m0 in
  (m = m0 \/ In m l) /\ R64 m <= R64 m0 /\ (forall x, In x l -> R64 m <= R64 x).
Proof.
  induction l as [|a l IH]; intros m0 F0 Fl; cbn [fold_left].
  - split; [left; reflexivity|]. split; [lra|intros x []].
  - inversion Fl as [|? ? Fa Fl']; subst.
    assert (Fs : d_finite (min_step m0 a) = true) by (unfold min_step; destruct (dlt a m0); auto).
    destruct (IH (min_step m0 a) Fs Fl') as (A & B & C). cbv zeta in *.
    assert (Hs : R64 (min_step m0 a) <= R64 m0 /\ R64 (min_step m0 a) <= R64 a /\ (min_step m0 a = m0 \/ min_step m0 a = a)).
    { unfold min_step. rewrite dlt_spec by auto. case Rlt_bool_spec; intros; repeat split; auto; lra. }
    destruct Hs as (S1 & S2 & S3). split; [|split].
    + destruct A as [A|A]; [rewrite A; destruct S3 as [S3|S3]; rewrite S3; [left; reflexivity|right; left; reflexivity]|right; right; exact A].
    + lra.
    + intros x [Hx|Hx]; [subst; lra|auto].
Qed.

Lemma fold_max_spec : forall l m0, d_finite m0 = true -> all_fin l ->
  let m := fold_left max_step l m0 in
  (m = m0 \/ In m l) /\ R64 m0 <= R64 m /\ (forall x, In x l -> R64 x <= R64 m).
Proof.
  induction l as [|a l IH]; intros m0 F0 Fl; cbn [fold_left].
  - split; [left; reflexivity|]. split; [lra|intros x []].
  - inversion Fl as [|? ? Fa Fl']; subst.
    assert (Fs : d_finite (max_step m0 a) = true) by (unfold max_step; destruct (dgt a m0); auto).
    destruct (IH (max_step m0 a) Fs Fl') as (A & B & C). cbv zeta in *.
    assert (Hs : R64 m0 <= R64 (max_step m0 a) /\ R64 a <= R64 (max_step m0 a) /\ (max_step m0 a = m0 \/ max_step m0 a = a)).
    { unfold max_step. rewrite dgt_spec by auto. case Rlt_bool_spec; intros; repeat split; auto; lra. }
    destruct Hs as (S1 & S2 & S3). split; [|split].
    + destruct A as [A|A]; [rewrite A; destruct S3 as [S3|S3]; rewrite S3; [left; reflexivity|right; left; reflexivity]|right; right; exact A].
    + lra.
    + intros x [Hx|Hx]; [subst; lra|auto].
Qed.

Lemma d_max_ok : R64 d_max = 9007199254740991 * bpow radix2 971 /\ d_finite d_max = true.
Proof.
  destruct (R64_of_bits_finite 9218868437227405311 false 9007199254740991 971) as (H1 & H2);
    [vm_compute; reflexivity|].
  split; [|exact H2]. unfold d_max. rewrite H1. unfold F2R; cbn [Fnum Fexp cond_Zopp]. reflexivity.
Qed.

Lemma d_nmax_ok : R64 d_nmax = - (9007199254740991 * bpow radix2 971) /\ d_finite d_nmax = true.
Proof.
  destruct (R64_of_bits_finite 18442240474082181119 true 9007199254740991 971) as (H1 & H2);
    [vm_compute; reflexivity|].
  split; [|exact H2]. unfold d_nmax. rewrite H1. unfold F2R; cbn [Fnum Fexp cond_Zopp Z.opp]. change (IZR (Z.neg 9007199254740991)) with (- IZR 9007199254740991). ring.
Qed.

Lemma small_lt_max : forall x, d_small x -> - R64 d_max < R64 x < R64 d_max.
Proof.
  intros x (_ & H). destruct d_max_ok as (E & _). rewrite E.
  assert (B : bpow radix2 1023 = 4503599627370496 * bpow radix2 971).
  { change 1023%Z with (52 + 971)%Z. rewrite bpow_plus. f_equal. }
  assert (P := bpow_gt_0 radix2 971). apply Rabs_lt_inv in H. rewrite B in H. nra.
Qed.

(* minimum / maximum of a non-empty list of bounded doubles, started from +-DBL_MAX *)
Lemma fold_min_nonempty : forall a l, Forall d_small (a :: l) ->
  let m := fold_left min_step (a :: l) d_max in
  In m (a :: l) /\ (forall x, In x (a :: l) -> R64 m <= R64 x).
Proof.
  intros a l Hs. inversion Hs as [|? ? Sa Sl]; subst. cbn [fold_left].
  assert (E : min_step d_max a = a).
  { unfold min_step. rewrite dlt_spec by (try apply Sa; apply d_max_ok).
    rewrite Rlt_bool_true; [reflexivity|]. apply (small_lt_max a Sa). }
  rewrite E. assert (Fl : all_fin l).
  { unfold all_fin. apply Forall_forall. intros x Hx. rewrite Forall_forall in Sl. apply (Sl x Hx). }
  destruct (fold_min_spec l a (proj1 Sa) Fl) as (A & B & C). cbv zeta in *. split.
  - destruct A as [A|A]; [rewrite A; left; reflexivity|right; exact A].
  - intros x [Hx|Hx]; [subst; exact B|auto].
Qed.

Lemma fold_max_nonempty : forall a l, Forall d_small (a :: l) ->
  let m := fold_left max_step (a :: l) d_nmax in
  In m (a :: l) /\ (forall x, In x (a :: l) -> R64 x <= R64 m).
Proof.
  intros a l Hs. inversion Hs as [|? ? Sa Sl]; subst. cbn [fold_left].
  assert (E : max_step d_nmax a = a).
  { unfold max_step. rewrite dgt_spec by (try apply Sa; apply d_nmax_ok).
    rewrite Rlt_bool_true; [reflexivity|]. destruct d_nmax_ok as (En & _), d_max_ok as (Em & _).
    rewrite En, <- Em. apply (small_lt_max a Sa). }
  rewrite E. assert (Fl : all_fin l).
  { unfold all_fin. apply Forall_forall. intros x Hx. rewrite Forall_forall in Sl. apply (Sl x Hx). }
  destruct (fold_max_spec l a (proj1 Sa) Fl) as (A & B & C). cbv zeta in *. split.
  - destruct A as [A|A]; [rewrite A; left; reflexivity|right; exact A].
  - intros x [Hx|Hx]; [subst; exact B|auto].
Qed.

(* ------------------------------------------------------------------ which inputs reach the unbounded scan *)
Lemma map_small : forall (f : dpoint -> dbl) pts, (forall p, pt_small p -> d_small (f p)) ->
  Forall pt_small pts -> Forall d_small (map f pts).
Proof.
  intros f pts Hf H. apply Forall_forall. intros c Hc. apply in_map_iff in Hc. destruct Hc as (p & E & Hp).
  subst c. apply Hf. rewrite Forall_forall in H. auto.
Qed.

Theorem degenerate_axis_iff_lemma : forall pts : list dpoint,
  Forall pt_small pts -> pts <> [] ->
  (all_equal (axis_coords (choose_x_axis (bounding_box pts)) pts) <-> one_point pts).
Proof.
  intros pts Hs Hne.
  destruct pts as [|p0 pts']; [congruence|]. set (pts := p0 :: pts') in *.
  assert (Sx : Forall d_small (map fst pts)) by (apply map_small; auto; intros p Hp; apply Hp).
  assert (Sy : Forall d_small (map snd pts)) by (apply map_small; auto; intros p Hp; apply Hp).
  destruct (bb_fold pts bb_init) as (E1 & E2 & E3 & E4). cbv zeta in *. fold (bounding_box pts) in *.
  cbn [bb_init bb_minx bb_miny bb_maxx bb_maxy] in *.
  destruct (fold_min_nonempty (fst p0) (map fst pts') Sx) as (Imx & Lmx).
  destruct (fold_max_nonempty (fst p0) (map fst pts') Sx) as (IMx & LMx).
  destruct (fold_min_nonempty (snd p0) (map snd pts') Sy) as (Imy & Lmy).
  destruct (fold_max_nonempty (snd p0) (map snd pts') Sy) as (IMy & LMy).
  change (fst p0 :: map fst pts') with (map fst pts) in *. change (snd p0 :: map snd pts') with (map snd pts) in *.
  cbv zeta in *. rewrite <- E1 in Imx, Lmx. rewrite <- E3 in IMx, LMx. rewrite <- E2 in Imy, Lmy. rewrite <- E4 in IMy, LMy.
  set (bb := bounding_box pts) in *.
  assert (Smx : d_small (bb_minx bb)) by (rewrite Forall_forall in Sx; auto).
  assert (SMx : d_small (bb_maxx bb)) by (rewrite Forall_forall in Sx; auto).
  assert (Smy : d_small (bb_miny bb)) by (rewrite Forall_forall in Sy; auto).
  assert (SMy : d_small (bb_maxy bb)) by (rewrite Forall_forall in Sy; auto).
  destruct (d_minus_ok _ _ SMx Smx) as (Fdx & Edx). destruct (d_minus_ok _ _ SMy Smy) as (Fdy & Edy).
  assert (Hax : choose_x_axis bb = Rlt_bool (rnd (R64 (bb_maxy bb) - R64 (bb_miny bb))) (rnd (R64 (bb_maxx bb) - R64 (bb_minx bb)))).
  { unfold choose_x_axis. rewrite dgt_spec by auto. now rewrite Edx, Edy. }
  assert (Hdx : 0 <= R64 (bb_maxx bb) - R64 (bb_minx bb)) by (generalize (Lmx _ IMx); lra).
  assert (Hdy : 0 <= R64 (bb_maxy bb) - R64 (bb_miny bb)) by (generalize (Lmy _ IMy); lra).
  assert (Inx : forall p, In p pts -> In (fst p) (map fst pts)) by (intros; now apply in_map).
  assert (Iny : forall p, In p pts -> In (snd p) (map snd pts)) by (intros; now apply in_map).
  split.
  - intros Heq. rewrite Hax in Heq. revert Heq. case Rlt_bool_spec; intros Hcmp Heq.
    + (* x axis chosen although all x are equal: impossible *)
      exfalso. assert (E : R64 (bb_maxx bb) = R64 (bb_minx bb)).
      { apply Heq; unfold axis_coords; [apply in_map_iff in IMx|apply in_map_iff in Imx].
        - destruct IMx as (p & Ep & Hp). apply in_map_iff. exists p; split; [exact Ep|exact Hp].
        - destruct Imx as (p & Ep & Hp). apply in_map_iff. exists p; split; [exact Ep|exact Hp]. }
      rewrite E in Hcmp. replace (R64 (bb_minx bb) - R64 (bb_minx bb)) with 0 in Hcmp by ring.
      rewrite rnd_0 in Hcmp. generalize (rnd_nonneg _ Hdy). lra.
    + assert (Ey : R64 (bb_maxy bb) = R64 (bb_miny bb)).
      { apply Heq; unfold axis_coords; [apply in_map_iff in IMy|apply in_map_iff in Imy].
        - destruct IMy as (p & Ep & Hp). apply in_map_iff. exists p; split; [exact Ep|exact Hp].
        - destruct Imy as (p & Ep & Hp). apply in_map_iff. exists p; split; [exact Ep|exact Hp]. }
      assert (Ex : R64 (bb_maxx bb) = R64 (bb_minx bb)).
      { apply rnd_minus_eq_0; try apply fmt_R64.
        rewrite Ey in Hcmp. replace (R64 (bb_miny bb) - R64 (bb_miny bb)) with 0 in Hcmp by ring.
        rewrite rnd_0 in Hcmp. generalize (rnd_nonneg _ Hdx). lra. }
      intros p q Hp Hq. split.
      * generalize (Lmx _ (Inx p Hp)) (LMx _ (Inx p Hp)) (Lmx _ (Inx q Hq)) (LMx _ (Inx q Hq)). lra.
      * apply Heq; unfold axis_coords; apply in_map_iff; [exists p|exists q]; auto.
  - intros Hone c c' Hc Hc'. unfold axis_coords in *. apply in_map_iff in Hc, Hc'.
    destruct Hc as (p & Ep & Hp), Hc' as (q & Eq & Hq). subst c c'.
    destruct (Hone p q Hp Hq). destruct (choose_x_axis bb); auto.
Qed.

(* ====================================================================== part 9 *)

(* ------------------------------------------------------------------ (1) the index never leaves the window *)
Theorem cut_index_in_bounds_lemma : forall count num_cuts j : N,
  (1 <= j)%N -> (j <= num_cuts)%N -> (num_cuts < count)%N ->
  (Z.of_N count < 2 ^ 53)%Z -> (Z.of_N num_cuts <= 2 ^ 51)%Z ->
  exists i, cut_index (cut_frac count num_cuts) j = Ok i /\ (i < count)%N.
Proof.
  intros count k j H1 H2 H3 H4 H5. exists (Z.to_N (idxR count k j)). split; [now apply cut_index_ok|].
  destruct (idxR_bounds count k j H1 H2 H3 H4 H5) as (_ & B1 & B2). lia.
Qed.

Theorem cut_index_monotone_lemma : forall count num_cuts j j' i i' : N,
  (1 <= j)%N -> (j <= j')%N -> (j' <= num_cuts)%N -> (num_cuts < count)%N ->
  (Z.of_N count < 2 ^ 53)%Z -> (Z.of_N num_cuts <= 2 ^ 51)%Z ->
  cut_index (cut_frac count num_cuts) j = Ok i -> cut_index (cut_frac count num_cuts) j' = Ok i' -> (i <= i')%N.
Proof.
  intros count k j j' i i' H1 H2 H3 H4 H5 H6 E E'.
  rewrite cut_index_ok in E, E' by lia. injection E as <-. injection E' as <-.
  assert (M := idxR_mono count k j j' H4 H5 H2).
  destruct (idxR_bounds count k j) as (_ & B1 & _); try lia.
Qed.

(* ------------------------------------------------------------------ (3) every cut within [min, max] *)
Theorem cuts_within_lemma : forall coords cs k, Forall d_small coords -> cuts_spec coords cs k ->
  forall lo hi, (forall x, In x coords -> R64 lo <= R64 x <= R64 hi) -> In lo coords -> In hi coords ->
  forall c, In c cs -> R64 lo <= R64 c <= R64 hi.
Proof.
  intros coords cs k Hs (lo' & hi' & Il & Ih & B & Hlt & _ & _ & _ & _ & D) lo hi Hb Ilo Ihi c Hc.
  assert (E1 : R64 lo = R64 lo') by (generalize (Hb lo' Il) (B lo Ilo); lra).
  assert (E2 : R64 hi = R64 hi') by (generalize (Hb hi' Ih) (B hi Ihi); lra).
  destruct D as [(E & _)|D].
  - subst cs. destruct Hc as [<-|[]]. rewrite Forall_forall in Hs.
    destruct (midpoint_within_lemma lo' hi' (Hs _ Il) (Hs _ Ih)) as (_ & M); [lra|]. lra.
  - rewrite Forall_forall in D. destruct (D c Hc) as (_ & M). lra.
Qed.

(* the midpoint of two ADJACENT doubles is one of them: "strictly inside" fails in floating point *)
Theorem midpoint_strict_refuted : exists a b : dbl,
  d_small a /\ d_small b /\ R64 a < R64 b /\ midpoint a b = a.
Proof.
  exists d_one, (b64_of_bits 4607182418800017409).
  destruct d_one_ok as (E1 & F1).
  destruct (R64_of_bits_finite 4607182418800017409 false 4503599627370497 (-52)) as (E2 & F2); [vm_compute; reflexivity|].
  assert (V2 : R64 (b64_of_bits 4607182418800017409) = 4503599627370497 / 4503599627370496).
  { rewrite E2. unfold F2R; cbn [Fnum Fexp cond_Zopp bpow radix2 radix_val Z.pow_pos].
    change (Z.pow_pos 2 52) with 4503599627370496%Z. field. }
  assert (B : 2 < bpow radix2 1023).
  { change 2 with (bpow radix2 1). apply bpow_lt. lia. }
  split; [split; [exact F1|rewrite E1, Rabs_R1; lra]|].
  split; [split; [exact F2|rewrite V2, Rabs_pos_eq; lra]|].
  split; [rewrite E1, V2; lra|].
  rewrite <- (binary_float_of_bits_of_binary_float 52 11 eq_refl eq_refl eq_refl (midpoint d_one (b64_of_bits 4607182418800017409))).
  rewrite <- (binary_float_of_bits_of_binary_float 52 11 eq_refl eq_refl eq_refl d_one).
  f_equal.
Qed.

(* ------------------------------------------------------------------ (2) the cuts satisfy the hypothesis of slice's strip theorems *)
(* slice converts a cut with `llround(scaling * positions[i])`: any monotone conversion to the integer grid keeps the order *)
Lemma sortedZ_map : forall (P : dbl -> Prop) (g : dbl -> Z) (cs : list dbl),
  (forall a b, P a -> P b -> R64 a <= R64 b -> (g a <= g b)%Z) ->
  Forall P cs -> nondecr cs -> sortedZ (map g cs).
Proof.
  intros P g cs Hg. induction cs as [|a cs IH]; intros HP Hs; [exact I|].
  inversion HP as [|? ? Pa Pcs]; subst. inversion Hs as [|? ? Hs1 Hs2]; subst.
  destruct cs as [|b cs]; [exact I|]. cbn [map sortedZ]. split.
  - inversion Pcs; subst. apply Hg; auto. rewrite Forall_forall in Hs2. apply Hs2. left; reflexivity.
  - apply IH; auto.
Qed.

(* llround(scaling * c): the double product, then round half away from zero *)
Definition grid_of (scaling c : dbl) : Z := ZnearestA (R64 (b64_mult mode_NE scaling c)).
Definition grid_ok (scaling c : dbl) : Prop :=
  d_finite c = true /\ Rabs (rnd (R64 scaling * R64 c)) < bpow radix2 1024.

Lemma grid_of_monotone : forall scaling a b : dbl, d_finite scaling = true -> 0 <= R64 scaling ->
  grid_ok scaling a -> grid_ok scaling b -> R64 a <= R64 b -> (grid_of scaling a <= grid_of scaling b)%Z.
Proof.
  intros s a b Fs Hs (Fa & Ba) (Fb & Bb) Hab. unfold grid_of.
  destruct (b64_mult_ok s a Fs Fa Ba) as (Ea & _). destruct (b64_mult_ok s b Fs Fb Bb) as (Eb & _).
  rewrite Ea, Eb. apply (@Zrnd_le _ (valid_rnd_N _)). apply rnd_le. now apply Rmult_le_compat_l.
Qed.

Theorem cuts_grid_sorted_lemma : forall coords cs k scaling,
  cuts_spec coords cs k -> d_finite scaling = true -> 0 <= R64 scaling -> Forall (grid_ok scaling) cs ->
  sortedZ (map (grid_of scaling) cs).
Proof.
  intros coords cs k s (lo & hi & _ & _ & _ & _ & _ & _ & _ & Hs & _) Fs Hpos Hok.
  apply (sortedZ_map (grid_ok s)); auto. intros a b Ha Hb. now apply grid_of_monotone.
Qed.

(* ... hence the strips slice builds from them cover the box and meet only on cut lines (ClipGlueProofs) *)
Theorem fracture_cuts_strips_lemma : forall coords cs k scaling (bb0 bb1 x : Z),
  cuts_spec coords cs k -> d_finite scaling = true -> 0 <= R64 scaling -> Forall (grid_ok scaling) cs ->
  (bb0 < x < bb1)%Z ->
  let zc := map (grid_of scaling) cs in
  (count_true (strictly_in x) (strips bb0 bb1 zc) <= 1)%Z /\
  (~ In x zc -> count_true (strictly_in x) (strips bb0 bb1 zc) = 1%Z).
Proof.
  intros coords cs k s bb0 bb1 x Hc Fs Hpos Hok Hx zc.
  apply strips_partition_lemma; [|exact Hx]. eapply cuts_grid_sorted_lemma; eauto.
Qed.

(* ====================================================================== part 11 *)

(* ------------------------------------------------------------------ a decidable test for d_small, and the examples *)
Definition d_small_b (x : dbl) : bool :=
  match x with
  | B754_zero _ _ _ => true
  | B754_finite _ _ _ m e _ => (e <=? 1023)%Z && (Z.pos m <? 2 ^ (1023 - e))%Z
  | _ => false
  end.

Lemma d_small_b_ok : forall x, d_small_b x = true -> d_small x.
Proof.
  intros [s|s|s pl H|s m e H]; cbn [d_small_b]; try discriminate; intros Hb.
  - split; [reflexivity|]. cbn [B2R]. rewrite Rabs_R0. apply bpow_gt_0.
  - apply andb_prop in Hb. destruct Hb as (H1 & H2). apply Z.leb_le in H1. apply Z.ltb_lt in H2.
    split; [reflexivity|]. cbn [B2R]. apply F2R_lt_bpow. cbn [Fnum Fexp].
    destruct (Z.leb_spec 0 (1023 - e)); [|lia]. rewrite abs_cond_Zopp. cbn [Z.abs]. exact H2.
Qed.

Definition ex_pts : list dpoint :=
  map (fun p : N * N => (dbl_of_bits (fst p), dbl_of_bits (snd p)))
    [ (0x0000000000000000, 0x0000000000000000); (0x3FF0000000000000, 0x3FF0000000000000);
      (0x4000000000000000, 0x0000000000000000); (0x4008000000000000, 0x3FF0000000000000);
      (0x4010000000000000, 0x8000000000000000); (0x4014000000000000, 0x3FF0000000000000);
      (0x4000000000000000, 0x3FE0000000000000) ]%N.
  (* (0,0) (1,1) (2,0) (3,1) (4,-0) (5,1) (2,0.5) *)

Lemma ex_pts_small : Forall pt_small ex_pts.
Proof. unfold ex_pts. repeat (constructor; [split; apply d_small_b_ok; vm_compute; reflexivity|]). constructor. Qed.

(* seven vertices, limit 5: the x axis is chosen (5 > 1), one cut, coords[ (uint64_t)(1 * (5 / 2.0)) ] = interior[2] = 2.0 *)
Example fracture_cuts_example :
  match fracture_cuts 5 ex_pts with
  | Ok (Cuts ax cs) => ax = true /\ map bits_of_dbl cs = [0x4000000000000000%N]
  | _ => False
  end.
Proof. vm_compute. split; reflexivity. Qed.

Example fracture_cuts_hypotheses_example :
  Forall pt_small ex_pts /\ (4 < 5)%N /\ (5 < N.of_nat (length ex_pts))%N /\ (Z.of_N (N.of_nat (length ex_pts)) < 2 ^ 53)%Z /\
  ~ all_equal (axis_coords (choose_x_axis (bounding_box ex_pts)) ex_pts).
Proof.
  split; [exact ex_pts_small|]. split; [lia|]. split; [cbn; lia|]. split; [cbn; lia|].
  intros H.
  assert (E : choose_x_axis (bounding_box ex_pts) = true) by (vm_compute; reflexivity). rewrite E in H.
  specialize (H (dbl_of_bits 0) (dbl_of_bits 0x3FF0000000000000)).
  assert (V0 : R64 (dbl_of_bits 0) = 0) by reflexivity.
  assert (V1 : R64 (dbl_of_bits 0x3FF0000000000000) = 1) by (apply d_one_ok).
  rewrite V0, V1 in H. 
  assert (0 = 1); [|lra]. apply H; unfold axis_coords, ex_pts; rewrite map_map; cbn [map fst snd]; [left|right; left]; reflexivity.
Qed.

(* all vertices one point (1.5, 2.5): the y axis, the single cut 2.5 *)
Example fracture_cuts_one_point_example :
  match fracture_cuts 5 (repeat (dbl_of_bits 0x3FF8000000000000, dbl_of_bits 0x4004000000000000) 6) with
  | Ok (Cuts ax cs) => ax = false /\ map bits_of_dbl cs = [0x4004000000000000%N]
  | _ => False
  end.
Proof. vm_compute. split; reflexivity. Qed.

(* regression witness: the code before commit e912cb9 read past the coords allocation on that input *)
Theorem fracture_cuts_unrepaired_refuted : exists (max_points : N) (pts : list dpoint),
  forallb pt_finite pts = true /\ (4 < max_points)%N /\ (max_points < N.of_nat (length pts))%N /\
  fracture_cuts_unrepaired max_points pts = Crash.
Proof.
  exists 5%N, (repeat (dbl_of_bits 0x3FF8000000000000, dbl_of_bits 0x4004000000000000) 6).
  split; [vm_compute; reflexivity|]. split; [lia|]. split; [cbn; lia|]. vm_compute. reflexivity.
Qed.

Example cut_index_example :
  cut_index (cut_frac 1000 7) 3 = Ok 375%N /\ (1 <= 3)%N /\ (3 <= 7)%N /\ (7 < 1000)%N /\ (1000 < 2 ^ 53)%Z /\ (7 <= 2 ^ 51)%Z.
Proof. split; [vm_compute; reflexivity|lia]. Qed.

(* ====================================================================== the integer grid *)
Local Close Scope R_scope.
Local Open Scope Z_scope.


(* ------------------------------------------------------------------ extents on the grid *)
Lemma zmin_spec : forall l a, zmin a l <= a /\ (forall x, In x l -> zmin a l <= x) /\ (zmin a l = a \/ In (zmin a l) l).
Proof.
  induction l as [|x l IH]; intros a; cbn [zmin In].
  - split; [lia|]. split; [intros ? []|left; reflexivity].
  - destruct (IH (Z.min a x)) as (A & B & C). split; [lia|]. split.
    + intros y [Hy|Hy]; [subst; lia|auto].
    + destruct C as [C|C]; [|right; right; exact C].
      destruct (Z.min_spec a x) as [(_ & E)|(_ & E)]; [left; rewrite C; exact E|right; left; rewrite C; symmetry; exact E].
Qed.

Lemma zmax_spec : forall l a, a <= zmax a l /\ (forall x, In x l -> x <= zmax a l) /\ (zmax a l = a \/ In (zmax a l) l).
Proof.
  induction l as [|x l IH]; intros a; cbn [zmax In].
  - split; [lia|]. split; [intros ? []|left; reflexivity].
  - destruct (IH (Z.max a x)) as (A & B & C). split; [lia|]. split.
    + intros y [Hy|Hy]; [subst; lia|auto].
    + destruct C as [C|C]; [|right; right; exact C].
      destruct (Z.max_spec a x) as [(_ & E)|(_ & E)]; [right; left; rewrite C; symmetry; exact E|left; rewrite C; exact E].
Qed.

Lemma axis_bounds : forall ax (p : polygon) v, In v p -> axis_lo ax p <= coordZ ax v <= axis_hi ax p.
Proof.
  intros ax p v Hv. unfold axis_lo, axis_hi. apply (in_map (coordZ ax)) in Hv.
  destruct (map (coordZ ax) p) as [|a t]; [destruct Hv|].
  destruct (zmin_spec t a) as (A1 & A2 & _), (zmax_spec t a) as (B1 & B2 & _).
  destruct Hv as [Hv|Hv]; [rewrite <- Hv; lia|]. split; auto.
Qed.

(* all vertices between L and H on the axis: the extent is at most H - L *)
Lemma extent_le : forall ax (p : polygon) L H, L <= H ->
  (forall v, In v p -> L <= coordZ ax v <= H) -> 0 <= extent ax p <= H - L.
Proof.
  intros ax p L H HLH Hb. unfold extent, axis_lo, axis_hi.
  assert (Hb' : forall x, In x (map (coordZ ax) p) -> L <= x <= H).
  { intros x Hx. apply in_map_iff in Hx. destruct Hx as (v & <- & Hv). auto. }
  destruct (map (coordZ ax) p) as [|a t]; [lia|].
  destruct (zmin_spec t a) as (A1 & _ & A3), (zmax_spec t a) as (B1 & _ & B3).
  assert (L <= zmin a t <= H) by (destruct A3 as [->|A3]; apply Hb'; [left; reflexivity|right; exact A3]).
  assert (L <= zmax a t <= H) by (destruct B3 as [->|B3]; apply Hb'; [left; reflexivity|right; exact B3]).
  lia.
Qed.

Lemma extent_nonneg : forall ax p, 0 <= extent ax p.
Proof.
  intros ax p. unfold extent, axis_lo, axis_hi. destruct (map (coordZ ax) p) as [|a t]; [lia|].
  destruct (zmin_spec t a) as (A1 & _), (zmax_spec t a) as (B1 & _). lia.
Qed.

(* ------------------------------------------------------------------ strips of strictly interior cuts are narrower than the box *)
Lemma strips_narrower_from : forall bb0 bb1 cuts pos,
  bb0 <= pos <= bb1 -> (forall c, In c cuts -> bb0 < c < bb1) -> sortedZ (pos :: cuts) -> (cuts = [] -> bb0 < pos) ->
  forall lo hi, In (Some (lo, hi)) (strips pos bb1 cuts) -> bb0 <= lo /\ lo < hi /\ hi <= bb1 /\ (bb0 < lo \/ hi < bb1).
Proof.
  intros bb0 bb1; induction cuts as [|c t IH]; intros pos Hpos Hc Hs Hne lo hi Hin; cbn [strips In] in Hin.
  - destruct Hin as [Hin|[]]. destruct (Z.eqb_spec pos bb1); [discriminate|]. injection Hin as <- <-.
    specialize (Hne eq_refl). lia.
  - assert (Hcc : bb0 < c < bb1) by (apply Hc; left; reflexivity).
    assert (Hpc : pos <= c) by (cbn in Hs; tauto).
    destruct Hin as [Hin|Hin].
    + destruct (Z.eqb_spec c pos); [discriminate|]. injection Hin as <- <-. lia.
    + apply (IH c); auto; try lia.
      * intros x Hx. apply Hc. right; exact Hx.
      * destruct t; [exact I|]. cbn in Hs |- *. tauto.
Qed.

Theorem strips_narrower_lemma : forall bb0 bb1 cuts,
  sortedZ cuts -> cuts <> [] -> (forall c, In c cuts -> bb0 < c < bb1) ->
  forall lo hi, In (Some (lo, hi)) (strips bb0 bb1 cuts) ->
  bb0 <= lo /\ lo < hi /\ hi <= bb1 /\ hi - lo < bb1 - bb0.
Proof.
  intros bb0 bb1 cuts Hs Hne Hc lo hi Hin.
  destruct cuts as [|c t]; [congruence|].
  assert (Hcc : bb0 < c < bb1) by (apply Hc; left; reflexivity).
  destruct (strips_narrower_from bb0 bb1 (c :: t) bb0 ltac:(lia) Hc) with (lo := lo) (hi := hi) as (A & B & C & D); auto.
  - cbn [sortedZ]. split; [lia|exact Hs].
  - discriminate.
  - lia.
Qed.

(* the cut llround((A + B) / 2) of the midpoint rule on the grid: strictly between A and B exactly when they are two or
   more grid steps apart *)
Theorem grid_midpoint_strict_lemma : forall A B : Z, A < B ->
  (A < round_div (A + B) 2 < B <-> 2 <= B - A).
Proof.
  intros A B H. unfold round_div. change (Z.sgn 2) with 1. change (Z.abs 2) with 2. change (2 * 2) with 4.
  destruct (Z.sgn_spec (A + B)) as [(P & ->)|[(P & ->)|(P & ->)]].
  - rewrite Z.abs_eq by lia. assert (E := Z.div_mod (2 * (A + B) + 2) 4 ltac:(lia)).
    assert (M := Z.mod_pos_bound (2 * (A + B) + 2) 4 ltac:(lia)). split; intros; lia.
  - rewrite <- P. cbn. split; intros; lia.
  - rewrite Z.abs_neq by lia. assert (E := Z.div_mod (2 * - (A + B) + 2) 4 ltac:(lia)).
    assert (M := Z.mod_pos_bound (2 * - (A + B) + 2) 4 ltac:(lia)). split; intros; lia.
Qed.

(* ------------------------------------------------------------------ termination of the work-list loop under a decreasing measure *)
Lemma list_sum_perm : forall l1 l2, Permutation l1 l2 -> list_sum l1 = list_sum l2.
Proof. intros l1 l2 H; induction H; unfold list_sum in *; cbn [fold_right]; lia. Qed.

Lemma list_sum_cons : forall a l, list_sum (a :: l) = (a + list_sum l)%nat.
Proof. reflexivity. Qed.

Section Termination.
  Variable chop : polygon -> list polygon.
  Variable max_points : nat.
  Variable mu : polygon -> nat.
  Variable inv : polygon -> Prop.       (* what is known of every polygon on the work list *)
  Hypothesis inv_chop : forall subj c,
    inv subj -> (max_points < length subj)%nat -> In c (chop subj) -> inv c.
  (* every piece cut from an over-long polygon has a smaller measure *)
  Hypothesis chop_decreases : forall subj c,
    inv subj -> (max_points < length subj)%nat -> In c (chop subj) -> (mu c < mu subj)%nat.

  Let cost := frac_cost chop max_points.

  Lemma chop_nil_of_mu0 : forall p, inv p -> (max_points < length p)%nat -> mu p = O -> chop p = [].
  Proof.
    intros p Ip Hp Em. destruct (chop p) as [|c t] eqn:Ec; [reflexivity|]. exfalso.
    assert (H := chop_decreases p c Ip Hp). rewrite Ec, Em in H. specialize (H (or_introl eq_refl)). lia.
  Qed.

  Lemma cost_stable : forall d p, inv p -> (mu p <= d)%nat -> cost d p = cost (mu p) p.
  Proof.
    induction d as [d IH] using lt_wf_ind. intros p Ip Hp.
    destruct (Nat.leb (length p) max_points) eqn:Esmall.
    - destruct d, (mu p); unfold cost; cbn [frac_cost]; rewrite ?Esmall; reflexivity.
    - assert (Ebig : (max_points < length p)%nat) by (apply Nat.leb_gt; exact Esmall).
      destruct (mu p) as [|m] eqn:Em.
      + destruct d; unfold cost; cbn [frac_cost]; [reflexivity|].
        rewrite Esmall, (chop_nil_of_mu0 p Ip Ebig Em). reflexivity.
      + destruct d as [|d]; [lia|]. unfold cost; cbn [frac_cost]. rewrite Esmall. f_equal. f_equal.
        apply map_ext_in. intros c Hc. assert (H := chop_decreases p c Ip Ebig Hc). rewrite Em in H.
        assert (Ic := inv_chop p c Ip Ebig Hc).
        fold cost. rewrite (IH d ltac:(lia) c Ic ltac:(lia)). rewrite (IH m ltac:(lia) c Ic ltac:(lia)). reflexivity.
  Qed.

  Definition total (i : nat) (result : list polygon) : nat :=
    list_sum (map (fun p => cost (mu p) p) (skipn i result)).

  Lemma cost_big : forall p, inv p -> (max_points < length p)%nat ->
    cost (mu p) p = S (list_sum (map (fun c => cost (mu c) c) (chop p))).
  Proof.
    intros p Ip Hp. destruct (mu p) as [|m] eqn:Em.
    - rewrite (chop_nil_of_mu0 p Ip Hp Em). reflexivity.
    - unfold cost at 1; cbn [frac_cost]. assert (E : Nat.leb (length p) max_points = false) by (apply Nat.leb_gt; exact Hp).
      rewrite E. f_equal. f_equal. apply map_ext_in. intros c Hc.
      assert (H := chop_decreases p c Ip Hp Hc). rewrite Em in H. fold cost. apply cost_stable; [|lia].
      exact (inv_chop p c Ip Hp Hc).
  Qed.

  Lemma cost_pos : forall d p, (1 <= cost d p)%nat.
  Proof. intros [|d] p; unfold cost; cbn [frac_cost]; [lia|]. destruct (Nat.leb (length p) max_points); lia. Qed.

  Lemma frac_loop_terminates : forall fuel i result, Forall inv result ->
    (total i result < fuel)%nat -> frac_loop chop max_points fuel i result <> FracOutOfFuel.
  Proof.
    induction fuel as [|fuel IH]; intros i result Hinv Hf; [lia|]. cbn [frac_loop].
    destruct (nth_error result i) as [subj|] eqn:En; [|discriminate].
    assert (Hi : (i < length result)%nat) by (apply nth_error_Some; rewrite En; discriminate).
    assert (Isubj : inv subj) by (rewrite Forall_forall in Hinv; apply Hinv; eapply nth_error_In; eauto).
    assert (Esk : skipn i result = subj :: skipn (S i) result).
    { rewrite (nth_error_split_at result i subj En) at 1. rewrite skipn_app, firstn_length, Nat.min_l by lia.
      rewrite Nat.sub_diag, skipn_all2 by (rewrite firstn_length; lia). reflexivity. }
    destruct (Nat.leb (length subj) max_points) eqn:Esmall.
    - apply IH; [exact Hinv|]. unfold total in *. rewrite Esk in Hf. cbn [map] in Hf. rewrite list_sum_cons in Hf.
      assert (P := cost_pos (mu subj) subj). lia.
    - apply Nat.leb_gt in Esmall. 
      assert (PR := remove_unordered_perm i result subj En).
      apply IH.
      + apply Forall_app; split.
        * apply Forall_forall. intros y Hy. rewrite Forall_forall in Hinv. apply Hinv.
          apply (Permutation_in _ PR). right; exact Hy.
        * apply Forall_forall. intros c Hc. exact (inv_chop subj c Isubj Esmall Hc).
      + unfold total in *. rewrite Esk in Hf. cbn [map] in Hf. rewrite list_sum_cons in Hf.
        rewrite (cost_big subj Isubj Esmall) in Hf.
        destruct (remove_unordered_prefix i result Hi) as (X & EX).
        assert (PX : Permutation X (skipn (S i) result)).
        { assert (P := PR). rewrite EX in P.
          rewrite (nth_error_split_at result i subj En) in P at 2.
          apply Permutation_cons_app_inv with (l1 := firstn i result) in P.
          apply Permutation_app_inv_l in P. exact P. }
        rewrite EX. rewrite <- app_assoc, skipn_app, firstn_length, Nat.min_l by lia.
        rewrite Nat.sub_diag, skipn_all2 by (rewrite firstn_length; lia). cbn [skipn app].
        rewrite map_app, list_sum_app.
        rewrite (list_sum_perm _ _ (Permutation_map _ PX)). lia.
  Qed.

  (* Polygon::fracture returns: enough fuel exists, and more fuel does not change that *)
  Theorem fracture_terminates_generic : forall poly, inv poly ->
    exists fuel, forall fuel', (fuel <= fuel')%nat -> fracture chop max_points fuel' poly <> FracOutOfFuel.
  Proof.
    intros poly Ip. exists (S (total 0 [poly])). intros fuel' Hf. unfold fracture.
    destruct (Nat.leb max_points 4); [discriminate|]. apply frac_loop_terminates; [|lia].
    constructor; [exact Ip|constructor].
  Qed.
End Termination.

(* ------------------------------------------------------------------ (4) progress on the grid: the extent-sum measure *)
Section GridFracture.
  Variable max_points : nat.
  Variable clip_strip : polygon -> bool -> Z -> Z -> list polygon.   (* Clipper: subject /\ strip [lo, hi] on the axis *)
  Variable cut_choice : polygon -> bool * list Z.                    (* axis, cut positions on the grid *)

  (* Clipper's contract: every vertex of a strip result lies inside its strip (and inside the subject's box) *)
  Hypothesis clip_inside : forall subj ax lo hi c v,
    In c (clip_strip subj ax lo hi) -> In v c ->
    Z.min lo hi <= coordZ ax v <= Z.max lo hi /\
    axis_lo (negb ax) subj <= coordZ (negb ax) v <= axis_hi (negb ax) subj.
  (* `inv`: what is known of every polygon on the work list (e.g. what Clipper guarantees of its output); it must
     be kept by the pieces *)
  Variable inv : polygon -> Prop.
  Hypothesis inv_pieces : forall subj c, inv subj -> (max_points < length subj)%nat ->
    In c (grid_chop clip_strip cut_choice subj) -> inv c.
  (* the cut choice: a non-empty sorted list of positions strictly inside the subject's extent on the chosen axis *)
  Hypothesis cuts_interior : forall subj, inv subj -> (max_points < length subj)%nat ->
    let ax := fst (cut_choice subj) in let cuts := snd (cut_choice subj) in
    sortedZ cuts /\ cuts <> [] /\ forall c, In c cuts -> axis_lo ax subj < c < axis_hi ax subj.

  Theorem grid_chop_decreases_lemma : forall subj c,
    inv subj -> (max_points < length subj)%nat -> In c (grid_chop clip_strip cut_choice subj) ->
    (extent_sum c < extent_sum subj)%nat.
  Proof.
    intros subj c Isubj Hbig Hc. destruct (cuts_interior subj Isubj Hbig) as (Hs & Hne & Hin). cbv zeta in *.
    unfold grid_chop in Hc. set (ax := fst (cut_choice subj)) in *. set (cuts := snd (cut_choice subj)) in *.
    apply in_flat_map in Hc. destruct Hc as (s & Hs1 & Hs2). destruct s as [(lo, hi)|]; [|destruct Hs2].
    destruct (strips_narrower_lemma _ _ cuts Hs Hne Hin lo hi Hs1) as (A & B & C & D).
    assert (E1 : 0 <= extent ax c <= hi - lo).
    { apply extent_le; [lia|]. intros v Hv. destruct (clip_inside subj ax lo hi c v Hs2 Hv) as (H1 & _). lia. }
    assert (E2 : 0 <= extent (negb ax) c <= axis_hi (negb ax) subj - axis_lo (negb ax) subj).
    { apply extent_le.
      - assert (Hx := extent_nonneg (negb ax) subj). unfold extent in Hx. lia.
      - intros v Hv. apply (clip_inside subj ax lo hi c v Hs2 Hv). }
    fold (extent (negb ax) subj) in E2.
    assert (Hsub : hi - lo < extent ax subj) by (unfold extent; lia).
    assert (N1 := extent_nonneg true subj). assert (N2 := extent_nonneg false subj).
    unfold extent_sum. destruct ax; cbn [negb] in *; lia.
  Qed.

  (* Polygon::fracture on the grid returns, GIVEN that Clipper keeps every strip result inside its strip and that the
     cuts are strictly interior (FractureCutsProofs: the interior rules always, the midpoint rule when the two
     coordinate values are two or more grid steps apart) *)
  Theorem fracture_terminates_partial : forall poly, inv poly ->
    exists fuel, forall fuel', (fuel <= fuel')%nat ->
      fracture (grid_chop clip_strip cut_choice) max_points fuel' poly <> FracOutOfFuel.
  Proof.
    apply (fracture_terminates_generic (grid_chop clip_strip cut_choice) max_points extent_sum inv).
    - exact inv_pieces.
    - exact grid_chop_decreases_lemma.
  Qed.
End GridFracture.

(* ------------------------------------------------------------------ the hypotheses of fracture_terminates_partial are satisfiable *)
From Coq Require Import Sorted.

Definition ex_clip (subj : polygon) (ax : bool) (lo hi : Z) : list polygon :=
  [filter (fun v => (Z.min lo hi <=? coordZ ax v) && (coordZ ax v <=? Z.max lo hi)) subj].
Definition ex_cuts (subj : polygon) : bool * list Z := (true, [axis_lo true subj + 1]).
Definition ex_inv (p : polygon) : Prop := StronglySorted (fun a b : Winding.point => fst a < fst b) p.

Lemma ssorted_filter : forall (A : Type) (R : A -> A -> Prop) f l, StronglySorted R l -> StronglySorted R (filter f l).
Proof.
  intros A R f; induction l as [|a l IH]; intros H; cbn [filter]; [constructor|].
  inversion H as [|? ? H1 H2]; subst. destruct (f a); [|auto]. constructor; [auto|].
  apply Forall_forall. intros x Hx. apply filter_In in Hx. rewrite Forall_forall in H2. apply H2, Hx.
Qed.

Example fracture_terminates_example :
  let poly := [(0, 0); (1, 5); (2, 1); (3, 6); (4, 0); (5, 7); (6, 2); (7, 5); (9, 0); (10, 3); (12, 1); (13, 8); (15, 2)] in
  ex_inv poly /\
  (exists fuel, forall fuel', (fuel <= fuel')%nat -> fracture (grid_chop ex_clip ex_cuts) 5 fuel' poly <> FracOutOfFuel) /\
  fracture (grid_chop ex_clip ex_cuts) 5 30 poly =
    FracDone [[(0, 0); (1, 5)]; [(1, 5); (2, 1)]; [(2, 1); (3, 6)]; [(3, 6); (4, 0)]; [(4, 0); (5, 7)]; [(5, 7); (6, 2)]; [(6, 2); (7, 5)];
              [(7, 5)]; [(9, 0); (10, 3); (12, 1); (13, 8); (15, 2)]].
Proof.
  intros poly.
  assert (Hinv : ex_inv poly).
  { unfold ex_inv, poly. repeat (constructor; [|repeat (constructor; [cbn; lia|]); constructor]). constructor. }
  split; [exact Hinv|]. split; [|vm_compute; reflexivity].
  apply (fracture_terminates_partial 5 ex_clip ex_cuts) with (inv := ex_inv); [| | |exact Hinv].
  - (* Clipper's contract for the example clipper *)
    intros subj ax lo hi c v [<-|[]] Hv. apply filter_In in Hv. destruct Hv as (Hv & Ht).
    apply andb_prop in Ht. destruct Ht as (T1 & T2). apply Z.leb_le in T1, T2. split; [lia|]. now apply axis_bounds.
  - (* the invariant is kept *)
    intros subj c Is _ Hc. unfold grid_chop in Hc. apply in_flat_map in Hc. destruct Hc as ([(lo, hi)|] & _ & Hc); [|destruct Hc].
    destruct Hc as [<-|[]]. now apply ssorted_filter.
  - (* strictly interior cut: three vertices with increasing x *)
    intros subj Is Hlen. cbv zeta. unfold ex_cuts; cbn [fst snd]. split; [exact I|]. split; [discriminate|].
    intros c [<-|[]]. destruct subj as [|a [|b [|c subj]]]; cbn [length] in Hlen; try lia.
    inversion Is as [|? ? Is1 Ha]; subst. inversion Is1 as [|? ? Is2 Hb]; subst.
    inversion Ha as [|? ? Hab Ha']; subst. inversion Hb as [|? ? Hbc _]; subst.
    assert (B1 := axis_bounds true (a :: b :: c :: subj) a (or_introl eq_refl)).
    assert (B3 := axis_bounds true (a :: b :: c :: subj) c (or_intror (or_intror (or_introl eq_refl)))).
    cbn [coordZ] in B1, B3. lia.
Qed.
