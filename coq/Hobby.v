(* Statement-level model of gauss_jordan_elimination and hobby_interpolation (src/utils.cpp).
   Definitions only.  Both functions are written over an abstract carrier T given as Section variables,
   so that ONE definition is instantiated
     - by a field (Qc, exact arithmetic) for the theorems of HobbyProofs.v,
     - by Flocq's binary64 (round to nearest even) for the bit-exact tie with the C++ (bottom of this file),
     - by "dyadic rationals that a double holds exactly, else poison" for the specification line of the tie.

   ------------------------------------------------------------------ gauss_jordan_elimination
     uint64_t gauss_jordan_elimination(double* m, uint64_t* pivots, uint64_t rows, uint64_t cols) {
         assert(cols >= rows);
         uint64_t result = 0;
         for (i < rows) pivots[i] = i;
         for (uint64_t i = 0; i < rows; ++i) {
             double pivot_value = fabs(m[pivots[i] * cols + i]);           // partial pivoting: largest absolute value of
             uint64_t pivot_row = i;                                       // column i among the rows pivots[i..rows-1],
             for (uint64_t j = i + 1; j < rows; ++j) {                     // the FIRST one on ties (strict >; a NaN never
                 double candidate = fabs(m[pivots[j] * cols + i]);         // replaces, a NaN at j = i is never replaced)
                 if (candidate > pivot_value) { pivot_value = candidate; pivot_row = j; }
             }
             if (pivot_value == 0) { result += 1; continue; }              // singular column: counted, SKIPPED, loop goes on
             uint64_t row = pivots[pivot_row];
             pivots[pivot_row] = pivots[i];  pivots[i] = row;              // the rows never move: only the index vector
             double* element = m + (row * cols + i);
             double factor = 1.0 / *element;
             for (uint64_t j = i; j < cols; ++j) *element++ *= factor;     // columns i.. only; m[row][i] = e * (1/e)
             for (uint64_t r = 0; r < rows; ++r) {
                 if (r == row) continue;
                 element = m + row * cols;  double* other_row = m + r * cols;
                 factor = other_row[i];
                 for (uint64_t j = 0; j < cols; ++j) *other_row++ -= factor * *element++;   // ALL columns
             }
         }
         return result;                                                    // number of skipped columns, nothing printed
     }
   The matrix is a list of rows (row-major like the C++; the comment "column-major" above hobby_interpolation is wrong:
   every access there is m[row * cols + col]).  The loop over r touches only row r and reads only row `row` <> r, which
   it does not change: the iterations are independent and the model applies them as one map in the same row order.
   Nothing is printed and nothing is divided by zero on a singular matrix: the zero pivot is skipped BEFORE 1.0 / element.

   ------------------------------------------------------------------ hobby_interpolation
   see the comment above each definition of the second Section.  libm enters through the Section variables
   fatan2 / fsin / fcos (binary64 instance: finite tables shipped with each case, filled by the harness with the
   library's own libm calls); sqrt is the correctly rounded operation (Flocq's Bsqrt). *)
Require Import Base.
From Coq Require Import List Arith.
Import ListNotations.

Fixpoint set_nth {A : Type} (n : nat) (v : A) (l : list A) : list A :=
  match l, n with
  | [], _ => []
  | _ :: t, O => v :: t
  | h :: t, S k => h :: set_nth k v t
  end.

(* map with the index of the element *)
Fixpoint map_idx_from {A B : Type} (f : nat -> A -> B) (k : nat) (l : list A) : list B :=
  match l with
  | [] => []
  | h :: t => f k h :: map_idx_from f (S k) t
  end.
Definition map_idx {A B : Type} (f : nat -> A -> B) (l : list A) : list B := map_idx_from f 0 l.

Section GaussJordan.
  Variable T : Type.
  Variables f0 f1 : T.
  Variables fsub fmul fdiv : T -> T -> T.
  Variable fabs : T -> T.
  Variable fgt : T -> T -> bool.        (* a > b  (false when either is a NaN) *)
  Variable feq0 : T -> bool.            (* a == 0 (true for -0.0, false for a NaN) *)

  Definition mget (m : list (list T)) (r c : nat) : T := nth c (nth r m []) f0.
  Definition mset (m : list (list T)) (r c : nat) (v : T) : list (list T) :=
    set_nth r (set_nth c v (nth r m [])) m.

  (* pivot search of column i: (pivot_value, pivot_row) *)
  Definition find_pivot (m : list (list T)) (piv : list nat) (rows i : nat) : T * nat :=
    fold_left (fun (acc : T * nat) j =>
                 let candidate := fabs (mget m (nth j piv 0) i) in
                 if fgt candidate (fst acc) then (candidate, j) else acc)
              (seq (S i) (rows - S i))
              (fabs (mget m (nth i piv 0) i), i).

  (* `*element++ *= factor` for j = i .. cols-1 *)
  Definition scale_from (i : nat) (factor : T) (r : list T) : list T :=
    firstn i r ++ map (fun x => fmul x factor) (skipn i r).

  (* `factor = other_row[i]; *other_row++ -= factor * *element++` for j = 0 .. cols-1 *)
  Definition elim_row (i : nat) (prow other : list T) : list T :=
    let factor := nth i other f0 in
    map (fun oe => fsub (fst oe) (fmul factor (snd oe))) (combine other prow).

  Definition gj_state : Type := (list (list T) * list nat * nat)%type.

  Definition gj_step (rows : nat) (st : gj_state) (i : nat) : gj_state :=
    let '(m, piv, res) := st in
    let '(pv, pr) := find_pivot m piv rows i in
    if feq0 pv then (m, piv, S res)
    else
      let row := nth pr piv 0 in
      let piv1 := set_nth pr (nth i piv 0) piv in
      let piv2 := set_nth i row piv1 in
      let prow0 := nth row m [] in
      let factor := fdiv f1 (nth i prow0 f0) in
      let prow := scale_from i factor prow0 in
      let m1 := set_nth row prow m in
      let m2 := map_idx (fun r other => if r =? row then other else elim_row i prow other) m1 in
      (m2, piv2, res).

  (* the function without the shape test: final matrix, pivots, result *)
  Definition gj_run (rows : nat) (m : list (list T)) : gj_state :=
    fold_left (gj_step rows) (seq 0 rows) (m, seq 0 rows, 0).

  (* cols < rows violates the assert (compiled out under NDEBUG: column i >= cols then reads the next row and, in the
     last row, beyond the buffer): Crash *)
  Definition gauss_jordan (rows cols : nat) (m : list (list T)) : outcome gj_state :=
    if cols <? rows then Crash else Ok (gj_run rows m).

  (* what the callers read back: x[r] = m[pivots[r] * cols + rows] *)
  Definition gj_solution (rows : nat) (st : gj_state) : list T :=
    let '(m, piv, _) := st in map (fun r => mget m (nth r piv 0) rows) (seq 0 rows).
End GaussJordan.

Section Hobby.
  Variable T : Type.
  Variables f0 f1 f2 f3 f5 fhalf fB fpi ftwopi : T.     (* 0 1 2 3 5 0.5 1/16 M_PI 2*M_PI *)
  Variables fadd fsub fmul fdiv : T -> T -> T.
  Variables fopp fabs fsqrt fsin fcos : T -> T.
  Variable fatan2 : T -> T -> T.                         (* atan2 y x *)
  Variables fgt fle : T -> T -> bool.
  Variable feq0 : T -> bool.

  Definition vec : Type := (T * T)%type.
  Definition vzero : vec := (f0, f0).
  Definition vsub (a b : vec) : vec := (fsub (fst a) (fst b), fsub (snd a) (snd b)).
  Definition vadd (a b : vec) : vec := (fadd (fst a) (fst b), fadd (snd a) (snd b)).
  Definition vscale (a : vec) (s : T) : vec := (fmul (fst a) s, fmul (snd a) s).       (* Vec2 * double *)
  Definition vdiv (a : vec) (s : T) : vec := (fdiv (fst a) s, fdiv (snd a) s).         (* Vec2 / double *)
  (* length() = sqrt(e0 * e0 + e1 * e1), angle() = atan2(y, x), cplx_from_angle(a) = {cos a, sin a} *)
  Definition vlen (a : vec) : T := fsqrt (fadd (fmul (fst a) (fst a)) (fmul (snd a) (snd a))).
  Definition vang (a : vec) : T := fatan2 (snd a) (fst a).
  Definition cplx_from_angle (a : T) : vec := (fcos a, fsin a).

  (* A = sqrt(2.0), B = 1.0 / 16.0, C = 0.5 * (3.0 - sqrt(5.0)) *)
  Definition cA : T := fsqrt f2.
  Definition cC : T := fmul fhalf (fsub f3 (fsqrt f5)).

  (*   while (psi <= -M_PI) psi += 2 * M_PI;   while (psi > M_PI) psi -= 2 * M_PI;
     None = more than 4 rounds of one of the loops (Hang); a difference of two atan2 values needs at most one *)
  Fixpoint psi_up (fuel : nat) (psi : T) : option T :=
    if fle psi (fopp fpi) then match fuel with O => None | S f => psi_up f (fadd psi ftwopi) end else Some psi.
  Fixpoint psi_down (fuel : nat) (psi : T) : option T :=
    if fgt psi fpi then match fuel with O => None | S f => psi_down f (fsub psi ftwopi) end else Some psi.
  Definition norm_psi (psi : T) : option T :=
    match psi_up 4 psi with None => None | Some p => psi_down 4 p end.

  Fixpoint all_some {A : Type} (l : list (option A)) : option (list A) :=
    match l with
    | [] => Some []
    | None :: _ => None
    | Some a :: t => match all_some t with None => None | Some r => Some (a :: r) end
    end.

  Definition zero_matrix (rows cols : nat) : list (list T) := repeat (repeat f0 cols) rows.
  Notation mset := (mset T).
  Notation mget := (mget T f0).

  (* the rho / sigma fractions and the two control points of one piece (both solvers end with this):
       alpha = A * (st - B * sp) * (sp - B * st) * (ct - cp);
       cta = p + w * length_v * ((2 + alpha) / (1 + (1 - C) * ct + C * cp)) / (3 * t_out);
       ctb = q - w_next * length_v * ((2 - alpha) / (1 + (1 - C) * cp + C * ct)) / (3 * t_in);            *)
  Definition piece_ctrl (p q w w_next : vec) (length_v theta phi t_out t_in : T) : vec * vec :=
    let st := fsin theta in let ct := fcos theta in
    let sp := fsin phi in let cp := fcos phi in
    let alpha := fmul (fmul (fmul cA (fsub st (fmul fB sp))) (fsub sp (fmul fB st))) (fsub ct cp) in
    let ra := fdiv (fadd f2 alpha) (fadd (fadd f1 (fmul (fsub f1 cC) ct)) (fmul cC cp)) in
    let rb := fdiv (fsub f2 alpha) (fadd (fadd f1 (fmul (fsub f1 cC) cp)) (fmul cC ct)) in
    (vadd p (vdiv (vscale (vscale w length_v) ra) (fmul f3 t_out)),
     vsub q (vdiv (vscale (vscale w_next length_v) rb) (fmul f3 t_in))).

  Section Arrays.
    (* the four argument arrays as the solver sees them (already rotated in the constrained closed case) *)
    Variable pts : list vec.
    Variable tens : list vec.             (* (u, v) = (tension into the knot, tension out of the knot) *)
    Variable ang : list T.
    Variable ang_c : list bool.
    Variables initial_curl final_curl : T.

    Definition P (k : nat) : vec := nth k pts vzero.
    Definition tu (k : nat) : T := fst (nth k tens vzero).
    Definition tv (k : nat) : T := snd (nth k tens vzero).
    Definition angk (k : nat) : T := nth k ang f0.
    Definition angc (k : nat) : bool := nth k ang_c false.

    (* ---------------------------------------------------------------- open curve solver, n = points_size - 1 *)
    Definition seg (k : nat) : vec := vsub (P (S k)) (P k).          (* pts[3 * (k + 1)] - pts[3 * k] *)

    (* one round of `for (k = 0; k < range - 1; k++)`: rows k1 (turning angle) and l (mock curvature) of the range [i, j].
       The carried length_v_prev / delta_prev are the length / angle of chord i0, those of the round are chord i1's. *)
    Definition open_psi (i k : nat) : option T :=
      norm_psi (fsub (vang (seg (i + k + 1))) (vang (seg (i + k)))).

    Definition open_body (i range : nat) (psis : list T) (m : list (list T)) (k : nat) : list (list T) :=
      let rows := 2 * range in
      let k1 := k + 1 in
      let i0 := i + k in let i1 := i0 + 1 in let i2 := i0 + 2 in
      let l := k + range in let l1 := l + 1 in
      let length_v := vlen (seg i1) in
      let length_v_prev := vlen (seg i0) in
      let m := mset m k1 rows (fopp (nth k psis f0)) in
      let m := mset m k1 k1 f1 in
      let m := mset m k1 l f1 in
      (* A_k *)
      let m := mset m l k (fmul (fmul (fmul length_v (tu i2)) (tu i1)) (tu i1)) in
      (* B_{k+1} *)
      let m := mset m l k1 (fmul (fmul (fmul (fmul (fopp length_v_prev) (tv i0)) (tv i1)) (tv i1))
                                 (fsub f1 (fmul f3 (tu i2)))) in
      (* C_{k+1} *)
      let m := mset m l l (fmul (fmul (fmul (fmul length_v (tu i2)) (tu i1)) (tu i1))
                                (fsub f1 (fmul f3 (tv i0)))) in
      (* D_{k+2} *)
      let m := mset m l l1 (fmul (fmul (fmul (fopp length_v_prev) (tv i0)) (tv i1)) (tv i1)) in
      m.

    (* first row: the requested direction, or the curl condition (tens[0], tens[1]: this branch is reached with i = 0 only) *)
    Definition open_first (n i range : nat) (theta_i : T) (m : list (list T)) : list (list T) :=
      let rows := 2 * range in
      if angc i then
        let m := mset m 0 rows theta_i in
        mset m 0 0 f1
      else
        let to3 := fmul (fmul (tv 0) (tv 0)) (tv 0) in
        let cti3 := fmul (fmul (fmul initial_curl (tu 1)) (tu 1)) (tu 1) in
        let m := mset m 0 0 (fsub (fmul to3 (fsub f1 (fmul f3 (tu 1)))) cti3) in
        mset m 0 range (fsub to3 (fmul cti3 (fsub f1 (fmul f3 (tv 0))))).

    (* last row (tens[n], tens[n - 1]: the free branch is reached with j = n only) *)
    Definition open_last (n j range : nat) (phi_j1 : T) (m : list (list T)) : list (list T) :=
      let rows := 2 * range in
      if angc j then
        let m := mset m (rows - 1) rows phi_j1 in
        mset m (rows - 1) (rows - 1) f1
      else
        let ti3 := fmul (fmul (tu n) (tu n)) (tu n) in
        let cto3 := fmul (fmul (fmul final_curl (tv (n - 1))) (tv (n - 1))) (tv (n - 1)) in
        let m := mset m (rows - 1) (range - 1) (fsub ti3 (fmul cto3 (fsub f1 (fmul f3 (tu n))))) in
        mset m (rows - 1) (rows - 1) (fsub (fmul ti3 (fsub f1 (fmul f3 (tv (n - 1))))) cto3).

    Definition open_matrix (n i j : nat) (psis : list T) (theta_i phi_j1 : T) : list (list T) :=
      let range := j - i in
      let rows := 2 * range in
      let m := zero_matrix rows (S rows) in
      let m := fold_left (open_body i range psis) (seq 0 (range - 1)) m in
      let m := open_first n i range theta_i m in
      open_last n j range phi_j1 m.

    (* `while (j < n + 1 && !ang_c[j]) j++` from j = i + 1 *)
    Fixpoint find_j (fuel j n : nat) : nat :=
      match fuel with
      | O => j
      | S f => if (j <? n + 1) && negb (angc j) then find_j f (S j) n else j
      end.

    (* theta[i + r] = m[pivots[r] * cols + rows]; phi[i + r] = m[pivots[range + r] * cols + rows] *)
    Definition store_solution (i range : nat) (sol : list T) (theta phi : list T) : list T * list T :=
      fold_left (fun (tp : list T * list T) r =>
                   (set_nth (i + r) (nth r sol f0) (fst tp), set_nth (i + r) (nth (range + r) sol f0) (snd tp)))
                (seq 0 range) (theta, phi).

    (* one round of `while (i < n)`; returns the next i *)
    Definition open_round (n i : nat) (theta phi : list T) : option (nat * list T * list T * nat) :=
      let j0 := find_j (S n) (i + 1) n in
      let '(j, theta, phi) :=
        if j0 =? n + 1 then (j0 - 1, theta, phi)
        else
          let phi := set_nth (j0 - 1) (fsub (vang (seg (j0 - 1))) (angk j0)) phi in
          let theta := if j0 <? n then set_nth j0 (fsub (angk j0) (vang (seg j0))) theta else theta in
          (j0, theta, phi) in
      let range := j - i in
      let rows := 2 * range in
      match all_some (map (open_psi i) (seq 0 (range - 1))) with
      | None => None
      | Some psis =>
          let m := open_matrix n i j psis (nth i theta f0) (nth (j - 1) phi f0) in
          if (1 <? range) || negb (angc i) || negb (angc j) then
            let st := gj_run T f0 f1 fsub fmul fdiv fabs fgt feq0 rows m in
            let '(theta, phi) := store_solution i range (gj_solution T f0 rows st) theta phi in
            Some (j, theta, phi, snd st)
          else Some (j, theta, phi, 0)
      end.

    (* [sk] = the return values of gauss_jordan_elimination added up (hobby_interpolation ignores them) *)
    Fixpoint open_loop (fuel n i : nat) (theta phi : list T) (sk : nat) : option (list T * list T * nat) :=
      if i <? n then
        match fuel with
        | O => None
        | S f => match open_round n i theta phi with
                 | None => None
                 | Some (j, theta, phi, r) => open_loop f n j theta phi (sk + r)
                 end
        end
      else Some (theta, phi, sk).

    (* theta / phi are uninitialised allocations in the C++; every entry is written before it is read *)
    Definition open_angles (n : nat) : option (list T * list T * nat) :=
      let theta := repeat f0 n in
      let phi := repeat f0 n in
      let theta := if angc 0 then set_nth 0 (fsub (angk 0) (vang (seg 0))) theta else theta in
      open_loop n n 0 theta phi 0.

    (* the control points: piece ii runs from pts[ii] to pts[ii + 1]
         w = cplx_from_angle(theta[0] + v.angle());
         w_next = ii == n - 1 ? cplx_from_angle(v.angle() - phi[n - 1]) : cplx_from_angle(theta[i1] + v_next.angle()) *)
    Definition open_w (n : nat) (theta phi : list T) (ii : nat) : vec :=
      if ii =? n then cplx_from_angle (fsub (vang (seg (n - 1))) (nth (n - 1) phi f0))
      else cplx_from_angle (fadd (nth ii theta f0) (vang (seg ii))).

    Definition open_ctrl (n : nat) (theta phi : list T) : list (vec * vec) :=
      map (fun ii => piece_ctrl (P ii) (P (S ii)) (open_w n theta phi ii) (open_w n theta phi (S ii))
                                (vlen (seg ii)) (nth ii theta f0) (nth ii phi f0) (tv ii) (tu (S ii)))
          (seq 0 n).

    (* ---------------------------------------------------------------- closed curve without angle constraints *)
    Definition cseg (count k : nat) : vec := vsub (P (if S k =? count then 0 else S k)) (P k).

    Definition closed_psi (count i : nat) : option T :=
      let i_1 := if i =? 0 then count - 1 else i - 1 in
      norm_psi (fsub (vang (cseg count i)) (vang (cseg count i_1))).

    Definition closed_body (count : nat) (psis : list T) (m : list (list T)) (i : nat) : list (list T) :=
      let rows := 2 * count in
      let i_1 := if i =? 0 then count - 1 else i - 1 in
      let i1 := if i =? count - 1 then 0 else i + 1 in
      let i2 := if i <? count - 2 then i + 2 else if i =? count - 2 then 0 else 1 in
      let j := count + i in let j_1 := count + i_1 in let j1 := count + i1 in
      let length_v := vlen (cseg count i) in
      let length_v_next := vlen (cseg count i1) in
      let m := mset m i rows (fopp (nth i psis f0)) in
      let m := mset m i i f1 in
      let m := mset m i j_1 f1 in
      let m := mset m j i (fmul (fmul (fmul length_v_next (tu i2)) (tu i1)) (tu i1)) in
      let m := mset m j i1 (fmul (fmul (fmul (fmul (fopp length_v) (tv i)) (tv i1)) (tv i1))
                                 (fsub f1 (fmul f3 (tu i2)))) in
      let m := mset m j j (fmul (fmul (fmul (fmul length_v_next (tu i2)) (tu i1)) (tu i1))
                                (fsub f1 (fmul f3 (tv i)))) in
      let m := mset m j j1 (fmul (fmul (fmul (fopp length_v) (tv i)) (tv i1)) (tv i1)) in
      m.

    Definition closed_matrix (count : nat) (psis : list T) : list (list T) :=
      fold_left (closed_body count psis) (seq 0 count) (zero_matrix (2 * count) (S (2 * count))).

    Definition closed_angles (count : nat) : option (list T * list T * nat) :=
      match all_some (map (closed_psi count) (seq 0 count)) with
      | None => None
      | Some psis =>
          let st := gj_run T f0 f1 fsub fmul fdiv fabs fgt feq0 (2 * count) (closed_matrix count psis) in
          let sol := gj_solution T f0 (2 * count) st in
          Some (firstn count sol, skipn count sol, snd st)
      end.

    Definition closed_ctrl (count : nat) (theta phi : list T) : list (vec * vec) :=
      map (fun i =>
             let i1 := if i =? count - 1 then 0 else i + 1 in
             let w := cplx_from_angle (fadd (nth i theta f0) (vang (cseg count i))) in
             let w_next := cplx_from_angle (fadd (nth i1 theta f0) (vang (cseg count i1))) in
             piece_ctrl (P i) (P i1) w w_next (vlen (cseg count i)) (nth i theta f0) (nth i phi f0) (tv i) (tu i1))
          (seq 0 count).
  End Arrays.

  (* `while (rotate < count && !angle_constraints[rotate]) rotate++` *)
  Fixpoint first_true (l : list bool) : nat :=
    match l with
    | [] => 0
    | b :: t => if b then 0 else S (first_true t)
    end.

  (* memcpy(dst, src + rotate, count - rotate); memcpy(dst + count - rotate, src, rotate + 1) *)
  Definition rotate_arr {A : Type} (rotate : nat) (l : list A) : list A := skipn rotate l ++ firstn (S rotate) l.

  (* the inverse of `ci = ii + rotate >= count ? ii + rotate - count : ii + rotate`: the piece written at points[3 * c + 1 .. 2] *)
  Definition unrotate_idx (count rotate c : nat) : nat := if c <? rotate then c + count - rotate else c - rotate.

  Record hobby_result : Type := mk_hobby {
    hr_theta : list T;                  (* in the order of the solver (rotated in the constrained closed case) *)
    hr_phi : list T;
    hr_ctrl : list (vec * vec);         (* points[3 * c + 1], points[3 * c + 2] for c = 0 .. *)
    hr_skipped : nat                    (* sum of the ignored return values of gauss_jordan_elimination (not observable) *)
  }.

  (* count < 2: the open solver writes theta[0] into a zero-size allocation / the closed one reads points[3] and
     tension[2] that do not exist: Crash.  None of the loops can hang on atan2 data; Hang = see norm_psi. *)
  Definition hobby (count : nat) (pts : list vec) (ang : list T) (ang_c : list bool) (tens : list vec)
             (initial_curl final_curl : T) (cycle : bool) : outcome hobby_result :=
    if count <? 2 then Crash
    else
      let rotate := if cycle then first_true (firstn count ang_c) else 0 in
      if cycle && (rotate =? count) then
        match closed_angles pts tens count with
        | None => Hang
        | Some (theta, phi, sk) => Ok (mk_hobby theta phi (closed_ctrl pts tens count theta phi) sk)
        end
      else
        let pts' := if cycle then rotate_arr rotate (firstn count pts) else pts in
        let tens' := if cycle then rotate_arr rotate (firstn count tens) else tens in
        let ang' := if cycle then rotate_arr rotate (firstn count ang) else ang in
        let ang_c' := if cycle then rotate_arr rotate (firstn count ang_c) else ang_c in
        let n := if cycle then count else count - 1 in
        match open_angles pts' tens' ang' ang_c' initial_curl final_curl n with
        | None => Hang
        | Some (theta, phi, sk) =>
            let ctrl := open_ctrl pts' tens' n theta phi in
            let ctrl := if cycle then map (fun c => nth (unrotate_idx count rotate c) ctrl (vzero, vzero)) (seq 0 count)
                        else ctrl in
            Ok (mk_hobby theta phi ctrl sk)
        end.
End Hobby.
