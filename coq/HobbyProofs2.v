(* Part 4: the linear systems hobby_interpolation assembles (open solver, one range [i, j] between two constrained knots or
   curve ends), over a field.
     open_matrix_rows          every row of the assembled matrix, explicitly
     open_system_spec_lemma    a vector (theta_0..theta_{r-1}, phi_0..phi_{r-1}) solves the assembled system IFF
                               - theta_{k+1} + phi_k + psi_k = 0 at every interior knot (the tangent turns by the chord's turning angle),
                               - A_k theta_k + B_k theta_{k+1} + C_k phi_k + D_k phi_{k+1} = 0 at every interior knot,
                               - first row: theta_0 = the requested offset, or the initial curl equation,
                               - last row: phi_{r-1} = the requested offset, or the final curl equation
     mock_curvature_equation   the A B C D equation IS continuity of Hobby's mock curvature (lengths and tensions non-zero)
     curl_equation_*           the free-end rows ARE "mock curvature at the end = curl x mock curvature at the neighbour"
     open_round_solved_lemma   a range solved without skipped column stores angles that satisfy all of this
     open_unconstrained_lemma  whole curve, no angle constraints *)
Require Import Base Hobby HobbyProofs.
From Coq Require Import List Arith Lia Permutation Field Ring.
Import ListNotations.

Section HobbyAsm.
  Variable T : Type.
  Variables f0 f1 f2 f3 f5 fhalf fB fpi ftwopi : T.
  Variables fadd fsub fmul fdiv : T -> T -> T.
  Variables fopp fabs fsqrt fsin fcos : T -> T.
  Variable fatan2 : T -> T -> T.
  Variables fgt fle : T -> T -> bool.
  Variable feq0 : T -> bool.
  Variable finv : T -> T.
  Hypothesis Tfield : field_theory f0 f1 fadd fmul fsub fopp fdiv finv (@eq T).
  Add Field Tf2 : Tfield.
  Hypothesis feq0_abs : forall x, feq0 (fabs x) = true <-> x = f0.

  Variable pts : list (vec T).
  Variable tens : list (vec T).
  Variable ang : list T.
  Variable ang_c : list bool.
  Variables initial_curl final_curl : T.

  Local Infix "[+]" := fadd (at level 50, left associativity).
  Local Infix "[-]" := fsub (at level 50, left associativity).
  Local Infix "[*]" := fmul (at level 40, left associativity).
  Local Infix "[/]" := fdiv (at level 40, left associativity).

  Notation dot := (dot T f0 fadd fmul).
  Notation sol := (sol T f0 fadd fmul).
  Notation solves := (solves T f0 fadd fmul).
  Notation wf := (wf T).
  Notation mset := (mset T).
  Notation tu := (tu T f0 tens).
  Notation tv := (tv T f0 tens).
  Notation angc := (angc ang_c).
  Notation angk := (angk T f0 ang).
  Notation seg := (seg T f0 fsub pts).
  Notation len := (fun k => vlen T fadd fmul fsqrt (seg k)).
  Notation dirc := (fun k => vang T fatan2 (seg k)).
  Notation open_body := (open_body T f0 f1 f3 fadd fsub fmul fopp fsqrt pts tens).
  Notation open_first := (open_first T f0 f1 f3 fsub fmul tens ang_c initial_curl).
  Notation open_last := (open_last T f0 f1 f3 fsub fmul tens ang_c final_curl).
  Notation open_matrix := (open_matrix T f0 f1 f3 fadd fsub fmul fopp fsqrt pts tens ang_c initial_curl final_curl).
  Notation zero_matrix := (zero_matrix T f0).

  (* ---------------------------------------------------------------- rows of the assembled matrix *)
  Definition Zr (rows : nat) : list T := repeat f0 (S rows).

  Definition cfA (i k : nat) : T := len (i + k + 1) [*] tu (i + k + 2) [*] tu (i + k + 1) [*] tu (i + k + 1).
  Definition cfB (i k : nat) : T :=
    fopp (len (i + k)) [*] tv (i + k) [*] tv (i + k + 1) [*] tv (i + k + 1) [*] (f1 [-] f3 [*] tu (i + k + 2)).
  Definition cfC (i k : nat) : T :=
    len (i + k + 1) [*] tu (i + k + 2) [*] tu (i + k + 1) [*] tu (i + k + 1) [*] (f1 [-] f3 [*] tv (i + k)).
  Definition cfD (i k : nat) : T := fopp (len (i + k)) [*] tv (i + k) [*] tv (i + k + 1) [*] tv (i + k + 1).

  Definition turnrow (range : nat) (psis : list T) (k : nat) : list T :=
    set_nth (k + range) f1 (set_nth (k + 1) f1 (set_nth (2 * range) (fopp (nth k psis f0)) (Zr (2 * range)))).
  Definition curvrow (i range k : nat) : list T :=
    set_nth (k + range + 1) (cfD i k) (set_nth (k + range) (cfC i k) (set_nth (k + 1) (cfB i k)
      (set_nth k (cfA i k) (Zr (2 * range))))).

  Definition to3 : T := tv 0 [*] tv 0 [*] tv 0.
  Definition cti3 : T := initial_curl [*] tu 1 [*] tu 1 [*] tu 1.
  Definition firstrow (i range : nat) (theta_i : T) : list T :=
    if angc i then set_nth 0 f1 (set_nth (2 * range) theta_i (Zr (2 * range)))
    else set_nth range (to3 [-] cti3 [*] (f1 [-] f3 [*] tv 0))
           (set_nth 0 (to3 [*] (f1 [-] f3 [*] tu 1) [-] cti3) (Zr (2 * range))).
  Definition ti3 (n : nat) : T := tu n [*] tu n [*] tu n.
  Definition cto3 (n : nat) : T := final_curl [*] tv (n - 1) [*] tv (n - 1) [*] tv (n - 1).
  Definition lastrow (n j range : nat) (phi_j1 : T) : list T :=
    if angc j then set_nth (2 * range - 1) f1 (set_nth (2 * range) phi_j1 (Zr (2 * range)))
    else set_nth (2 * range - 1) (ti3 n [*] (f1 [-] f3 [*] tv (n - 1)) [-] cto3 n)
           (set_nth (range - 1) (ti3 n [-] cto3 n [*] (f1 [-] f3 [*] tu n)) (Zr (2 * range))).

  Lemma mset_length : forall m r c v, length (mset m r c v) = length m.
  Proof. intros. unfold Hobby.mset. apply set_nth_length. Qed.

  Lemma nth_mset : forall m r c v r', r < length m ->
    nth r' (mset m r c v) [] = if r' =? r then set_nth c v (nth r m []) else nth r' m [].
  Proof.
    intros m r c v r' Hr. unfold Hobby.mset. destruct (r' =? r) eqn:E.
    - apply Nat.eqb_eq in E. subst. apply nth_set_nth_eq. exact Hr.
    - apply Nat.eqb_neq in E. apply nth_set_nth_neq. exact E.
  Qed.

  Lemma zero_matrix_length : forall rows cols, length (zero_matrix rows cols) = rows.
  Proof. intros. unfold Hobby.zero_matrix. apply repeat_length. Qed.

  Lemma nth_repeat_lt : forall (A : Type) (a d : A) n k, k < n -> nth k (repeat a n) d = a.
  Proof. intros A a d n. induction n as [|n IH]; intros [|k] H; simpl; try lia; auto. apply IH. lia. Qed.

  Lemma nth_zero_matrix : forall rows r, r < rows -> nth r (zero_matrix rows (S rows)) [] = Zr rows.
  Proof. intros rows r Hr. unfold Hobby.zero_matrix, Zr. apply nth_repeat_lt. exact Hr. Qed.

  (* the state of the matrix after K rounds of the loop over k *)
  Definition body_rows (i range : nat) (psis : list T) (K r : nat) : list T :=
    if (1 <=? r) && (r <=? K) then turnrow range psis (r - 1)
    else if (range <=? r) && (r <? range + K) then curvrow i range (r - range)
    else Zr (2 * range).

  Lemma open_body_length : forall i range psis m K, length (open_body i range psis m K) = length m.
  Proof. intros. unfold Hobby.open_body. cbv zeta. rewrite !mset_length. reflexivity. Qed.

  Lemma open_body_nth : forall i range psis m K r, length m = 2 * range -> K + 1 < range ->
    nth r (open_body i range psis m K) [] =
    if r =? K + 1 then
      set_nth (K + range) f1 (set_nth (K + 1) f1 (set_nth (2 * range) (fopp (nth K psis f0)) (nth (K + 1) m [])))
    else if r =? K + range then
      set_nth (K + range + 1) (cfD i K) (set_nth (K + range) (cfC i K) (set_nth (K + 1) (cfB i K)
        (set_nth K (cfA i K) (nth (K + range) m []))))
    else nth r m [].
  Proof.
    intros i range psis m K r HL HK. unfold Hobby.open_body. cbv zeta.
    repeat (rewrite nth_mset by (rewrite ?mset_length; lia)).
    replace (K + 1 =? K + range) with false by (symmetry; apply Nat.eqb_neq; lia).
    replace (K + range =? K + 1) with false by (symmetry; apply Nat.eqb_neq; lia).
    rewrite !Nat.eqb_refl.
    destruct (r =? K + 1) eqn:E1.
    - apply Nat.eqb_eq in E1. subst r.
      replace (K + 1 =? K + range) with false by (symmetry; apply Nat.eqb_neq; lia). reflexivity.
    - destruct (r =? K + range) eqn:E2; [|reflexivity].
      unfold cfA, cfB, cfC, cfD. replace (i + K + 1 + 1) with (i + K + 2) by lia. reflexivity.
  Qed.

  Lemma open_body_rows : forall i range psis K, K <= range - 1 ->
    let m := fold_left (open_body i range psis) (seq 0 K) (zero_matrix (2 * range) (S (2 * range))) in
    length m = 2 * range /\ forall r, r < 2 * range -> nth r m [] = body_rows i range psis K r.
  Proof.
    intros i range psis K. induction K as [|K IH]; intros HK.
    - cbn [seq fold_left]. split; [apply zero_matrix_length|]. intros r Hr. rewrite nth_zero_matrix by exact Hr.
      unfold body_rows.
      destruct ((1 <=? r) && (r <=? 0)) eqn:E1.
      { apply andb_true_iff in E1. destruct E1 as [E1 E2]. apply Nat.leb_le in E1, E2. lia. }
      destruct ((range <=? r) && (r <? range + 0)) eqn:E2; [|reflexivity].
      apply andb_true_iff in E2. destruct E2 as [E2 E3]. apply Nat.leb_le in E2. apply Nat.ltb_lt in E3. lia.
    - rewrite seq_S, fold_left_app. cbv zeta in IH |- *. cbn [fold_left]. rewrite Nat.add_0_l.
      destruct (IH (ltac:(lia))) as [HL HR]. clear IH.
      set (m := fold_left (open_body i range psis) (seq 0 K) (zero_matrix (2 * range) (S (2 * range)))) in *.
      split; [rewrite open_body_length; exact HL|].
      intros r Hr. rewrite (open_body_nth i range psis m K r HL (ltac:(lia))).
      unfold body_rows.
      destruct (Nat.eq_dec r (K + 1)) as [->|N1].
      + rewrite Nat.eqb_refl.
        replace ((1 <=? K + 1) && (K + 1 <=? S K)) with true
          by (symmetry; apply andb_true_iff; split; apply Nat.leb_le; lia).
        rewrite (HR (K + 1)) by lia. unfold body_rows.
        replace ((1 <=? K + 1) && (K + 1 <=? K)) with false
          by (symmetry; apply andb_false_iff; right; apply Nat.leb_gt; lia).
        replace ((range <=? K + 1) && (K + 1 <? range + K)) with false
          by (symmetry; apply andb_false_iff; left; apply Nat.leb_gt; lia).
        unfold turnrow. replace (K + 1 - 1) with K by lia. reflexivity.
      + replace (r =? K + 1) with false by (symmetry; apply Nat.eqb_neq; lia).
        destruct (Nat.eq_dec r (K + range)) as [->|N2].
        * rewrite Nat.eqb_refl.
          replace ((1 <=? K + range) && (K + range <=? S K)) with false
            by (symmetry; apply andb_false_iff; right; apply Nat.leb_gt; lia).
          replace ((range <=? K + range) && (K + range <? range + S K)) with true
            by (symmetry; apply andb_true_iff; split; [apply Nat.leb_le | apply Nat.ltb_lt]; lia).
          rewrite (HR (K + range)) by lia. unfold body_rows.
          replace ((1 <=? K + range) && (K + range <=? K)) with false
            by (symmetry; apply andb_false_iff; right; apply Nat.leb_gt; lia).
          replace ((range <=? K + range) && (K + range <? range + K)) with false
            by (symmetry; apply andb_false_iff; right; apply Nat.ltb_ge; lia).
          unfold curvrow. replace (K + range - range) with K by lia. reflexivity.
        * replace (r =? K + range) with false by (symmetry; apply Nat.eqb_neq; lia).
          rewrite (HR r Hr). unfold body_rows.
          destruct ((1 <=? r) && (r <=? K)) eqn:E1.
          { apply andb_true_iff in E1. destruct E1 as [E1 E2]. apply Nat.leb_le in E1, E2.
            replace ((1 <=? r) && (r <=? S K)) with true
              by (symmetry; apply andb_true_iff; split; apply Nat.leb_le; lia). reflexivity. }
          replace ((1 <=? r) && (r <=? S K)) with false.
          2:{ symmetry. apply andb_false_iff. apply andb_false_iff in E1. destruct E1 as [E1|E1];
              [left; exact E1 | right; apply Nat.leb_gt in E1; apply Nat.leb_gt; lia]. }
          destruct ((range <=? r) && (r <? range + K)) eqn:E2.
          { apply andb_true_iff in E2. destruct E2 as [E2 E3]. apply Nat.leb_le in E2. apply Nat.ltb_lt in E3.
            replace ((range <=? r) && (r <? range + S K)) with true
              by (symmetry; apply andb_true_iff; split; [apply Nat.leb_le | apply Nat.ltb_lt]; lia). reflexivity. }
          replace ((range <=? r) && (r <? range + S K)) with false; [reflexivity|].
          symmetry. apply andb_false_iff. apply andb_false_iff in E2. destruct E2 as [E2|E2];
            [left; exact E2 | right; apply Nat.ltb_ge in E2; apply Nat.ltb_ge; lia].
  Qed.

  Lemma body_rows_zero : forall i range psis K r, (r = 0 \/ r = 2 * range - 1) -> 0 < range -> K <= range - 1 ->
    body_rows i range psis K r = Zr (2 * range).
  Proof.
    intros i range psis K r Hr Hrange HK. unfold body_rows.
    replace ((1 <=? r) && (r <=? K)) with false.
    2:{ symmetry. apply andb_false_iff. destruct Hr as [->| ->]; [left; reflexivity | right; apply Nat.leb_gt; lia]. }
    replace ((range <=? r) && (r <? range + K)) with false; [reflexivity|].
    symmetry. apply andb_false_iff. destruct Hr as [->| ->]; [left; apply Nat.leb_gt; lia | right; apply Nat.ltb_ge; lia].
  Qed.

  (* every row of the matrix the solver hands to gauss_jordan_elimination *)
  Lemma open_matrix_rows : forall n i j psis theta_i phi_j1, i < j ->
    let range := j - i in
    let M := open_matrix n i j psis theta_i phi_j1 in
    length M = 2 * range /\
    nth 0 M [] = firstrow i range theta_i /\
    nth (2 * range - 1) M [] = lastrow n j range phi_j1 /\
    (forall k, k < range - 1 -> nth (k + 1) M [] = turnrow range psis k /\ nth (k + range) M [] = curvrow i range k).
  Proof.
    intros n i j psis theta_i phi_j1 Hij range M. subst M. unfold Hobby.open_matrix. fold range. cbv zeta.
    destruct (open_body_rows i range psis (range - 1) (le_n _)) as [HL HR]. cbv zeta in HL, HR.
    set (m := fold_left (open_body i range psis) (seq 0 (range - 1)) (zero_matrix (2 * range) (S (2 * range)))) in *.
    assert (Hrange : 0 < range) by (unfold range; lia).
    (* open_first touches row 0 only *)
    assert (HF : length (open_first n i range theta_i m) = 2 * range /\
                 forall r, nth r (open_first n i range theta_i m) [] =
                           if r =? 0 then firstrow i range theta_i else nth r m []).
    { unfold Hobby.open_first, firstrow. cbv zeta. destruct (angc i).
      - split; [rewrite !mset_length; exact HL|]. intros r.
        repeat (rewrite nth_mset by (rewrite ?mset_length; lia)). rewrite Nat.eqb_refl.
        destruct (r =? 0); [|reflexivity].
        rewrite (HR 0) by lia. rewrite (body_rows_zero i range psis (range - 1) 0) by (auto; lia). reflexivity.
      - split; [rewrite !mset_length; exact HL|]. intros r.
        repeat (rewrite nth_mset by (rewrite ?mset_length; lia)). rewrite Nat.eqb_refl.
        destruct (r =? 0); [|reflexivity].
        rewrite (HR 0) by lia. rewrite (body_rows_zero i range psis (range - 1) 0) by (auto; lia). reflexivity. }
    destruct HF as [HFL HFR].
    set (mf := open_first n i range theta_i m) in *.
    assert (HLa : length (open_last n j range phi_j1 mf) = 2 * range /\
                 forall r, nth r (open_last n j range phi_j1 mf) [] =
                           if r =? 2 * range - 1 then lastrow n j range phi_j1 else nth r mf []).
    { assert (HZ : nth (2 * range - 1) mf [] = Zr (2 * range)).
      { rewrite HFR. replace (2 * range - 1 =? 0) with false by (symmetry; apply Nat.eqb_neq; lia).
        rewrite (HR (2 * range - 1)) by lia. apply body_rows_zero; auto; lia. }
      unfold Hobby.open_last, lastrow. cbv zeta. destruct (angc j).
      - split; [rewrite !mset_length; exact HFL|]. intros r.
        repeat (rewrite nth_mset by (rewrite ?mset_length; lia)). rewrite Nat.eqb_refl.
        destruct (r =? 2 * range - 1); [|reflexivity]. rewrite HZ. reflexivity.
      - split; [rewrite !mset_length; exact HFL|]. intros r.
        repeat (rewrite nth_mset by (rewrite ?mset_length; lia)). rewrite Nat.eqb_refl.
        destruct (r =? 2 * range - 1); [|reflexivity]. rewrite HZ. reflexivity. }
    destruct HLa as [HLL HLR].
    split; [exact HLL|]. split; [|split].
    - rewrite HLR. replace (0 =? 2 * range - 1) with false by (symmetry; apply Nat.eqb_neq; lia).
      rewrite HFR. reflexivity.
    - rewrite HLR, Nat.eqb_refl. reflexivity.
    - intros k Hk. split.
      + rewrite HLR. replace (k + 1 =? 2 * range - 1) with false by (symmetry; apply Nat.eqb_neq; lia).
        rewrite HFR. replace (k + 1 =? 0) with false by (symmetry; apply Nat.eqb_neq; lia).
        rewrite (HR (k + 1)) by lia. unfold body_rows.
        replace ((1 <=? k + 1) && (k + 1 <=? range - 1)) with true
          by (symmetry; apply andb_true_iff; split; apply Nat.leb_le; lia).
        replace (k + 1 - 1) with k by lia. reflexivity.
      + rewrite HLR. replace (k + range =? 2 * range - 1) with false by (symmetry; apply Nat.eqb_neq; lia).
        rewrite HFR. replace (k + range =? 0) with false by (symmetry; apply Nat.eqb_neq; lia).
        rewrite (HR (k + range)) by lia. unfold body_rows.
        replace ((1 <=? k + range) && (k + range <=? range - 1)) with false
          by (symmetry; apply andb_false_iff; right; apply Nat.leb_gt; lia).
        replace ((range <=? k + range) && (k + range <? range + (range - 1))) with true
          by (symmetry; apply andb_true_iff; split; [apply Nat.leb_le | apply Nat.ltb_lt]; lia).
        replace (k + range - range) with k by lia. reflexivity.
  Qed.

  (* ---------------------------------------------------------------- the rows against (theta, phi, -1) *)
  Lemma dot_set_nth : forall r x c v, c < length r ->
    dot (set_nth c v r) x = dot r x [+] (v [-] nth c r f0) [*] nth c x f0.
  Proof.
    intros r. induction r as [|a r IH]; intros [|b x] [|c] v H; simpl in *; try lia; try ring.
    rewrite IH by lia. ring.
  Qed.

  Lemma Zr_length : forall rows, length (Zr rows) = S rows.
  Proof. intros. unfold Zr. apply repeat_length. Qed.
  Lemma nth_Zr : forall rows c, nth c (Zr rows) f0 = f0.
  Proof. intros. unfold Zr. apply (nth_repeat_f0 T f0). Qed.
  Lemma dot_Zr : forall rows x, dot (Zr rows) x = f0.
  Proof. intros. apply (dot_zero_l T f0 f1 fadd fmul fsub fopp fdiv finv Tfield). intros. apply nth_Zr. Qed.

  Section Vector.
    Variables th ph : list T.
    Variable range : nat.
    Hypothesis Hth : length th = range.
    Hypothesis Hph : length ph = range.
    Definition zv : list T := (th ++ ph) ++ [fopp f1].

    Lemma zv_th : forall k, k < range -> nth k zv f0 = nth k th f0.
    Proof. intros k Hk. unfold zv. rewrite app_nth1 by (rewrite app_length; lia). rewrite app_nth1 by lia. reflexivity. Qed.
    Lemma zv_ph : forall k, k < range -> nth (k + range) zv f0 = nth k ph f0.
    Proof.
      intros k Hk. unfold zv. rewrite app_nth1 by (rewrite app_length; lia). rewrite app_nth2 by lia.
      rewrite Hth. f_equal. lia.
    Qed.
    Lemma zv_last : nth (2 * range) zv f0 = fopp f1.
    Proof. unfold zv. rewrite app_nth2 by (rewrite app_length; lia). rewrite app_length, Hth, Hph.
      replace (2 * range - (range + range)) with 0 by lia. reflexivity. Qed.

    Lemma dot_turnrow : forall psis k, k + 1 < range ->
      dot (turnrow range psis k) zv = nth (k + 1) th f0 [+] nth k ph f0 [+] nth k psis f0.
    Proof.
      intros psis k Hk. unfold turnrow.
      rewrite dot_set_nth by (rewrite !set_nth_length, Zr_length; lia).
      rewrite dot_set_nth by (rewrite !set_nth_length, Zr_length; lia).
      rewrite dot_set_nth by (rewrite Zr_length; lia).
      rewrite !nth_set_nth_neq by lia. rewrite !nth_Zr, dot_Zr.
      rewrite zv_last, (zv_ph k) by lia. rewrite (zv_th (k + 1)) by lia. ring.
    Qed.

    Lemma dot_curvrow : forall i k, k + 1 < range ->
      dot (curvrow i range k) zv =
      cfA i k [*] nth k th f0 [+] cfB i k [*] nth (k + 1) th f0 [+] cfC i k [*] nth k ph f0 [+] cfD i k [*] nth (k + 1) ph f0.
    Proof.
      intros i k Hk. unfold curvrow.
      rewrite dot_set_nth by (rewrite !set_nth_length, Zr_length; lia).
      rewrite dot_set_nth by (rewrite !set_nth_length, Zr_length; lia).
      rewrite dot_set_nth by (rewrite !set_nth_length, Zr_length; lia).
      rewrite dot_set_nth by (rewrite Zr_length; lia).
      rewrite !nth_set_nth_neq by lia. rewrite !nth_Zr, dot_Zr.
      replace (k + range + 1) with ((k + 1) + range) by lia.
      rewrite (zv_ph k), (zv_ph (k + 1)), (zv_th k), (zv_th (k + 1)) by lia. ring.
    Qed.

    Lemma dot_firstrow : forall i theta_i, 0 < range ->
      dot (firstrow i range theta_i) zv =
      if angc i then nth 0 th f0 [-] theta_i
      else (to3 [*] (f1 [-] f3 [*] tu 1) [-] cti3) [*] nth 0 th f0 [+] (to3 [-] cti3 [*] (f1 [-] f3 [*] tv 0)) [*] nth 0 ph f0.
    Proof.
      intros i theta_i Hr. unfold firstrow. destruct (angc i).
      - rewrite dot_set_nth by (rewrite !set_nth_length, Zr_length; lia).
        rewrite dot_set_nth by (rewrite Zr_length; lia).
        rewrite !nth_set_nth_neq by lia. rewrite !nth_Zr, dot_Zr. rewrite zv_last, (zv_th 0) by lia. ring.
      - rewrite dot_set_nth by (rewrite !set_nth_length, Zr_length; lia).
        rewrite dot_set_nth by (rewrite Zr_length; lia).
        rewrite !nth_set_nth_neq by lia. rewrite !nth_Zr, dot_Zr.
        replace range with (0 + range) at 1 by lia. rewrite (zv_ph 0), (zv_th 0) by lia. ring.
    Qed.

    Lemma dot_lastrow : forall n j phi_j1, 0 < range ->
      dot (lastrow n j range phi_j1) zv =
      if angc j then nth (range - 1) ph f0 [-] phi_j1
      else (ti3 n [-] cto3 n [*] (f1 [-] f3 [*] tu n)) [*] nth (range - 1) th f0
           [+] (ti3 n [*] (f1 [-] f3 [*] tv (n - 1)) [-] cto3 n) [*] nth (range - 1) ph f0.
    Proof.
      intros n j phi_j1 Hr. unfold lastrow.
      assert (E : 2 * range - 1 = (range - 1) + range) by lia.
      destruct (angc j).
      - rewrite dot_set_nth by (rewrite !set_nth_length, Zr_length; lia).
        rewrite dot_set_nth by (rewrite Zr_length; lia).
        rewrite !nth_set_nth_neq by lia. rewrite !nth_Zr, dot_Zr. rewrite zv_last. rewrite E, (zv_ph (range - 1)) by lia. ring.
      - rewrite dot_set_nth by (rewrite !set_nth_length, Zr_length; lia).
        rewrite dot_set_nth by (rewrite Zr_length; lia).
        rewrite !nth_set_nth_neq by lia. rewrite !nth_Zr, dot_Zr.
        rewrite E, (zv_ph (range - 1)), (zv_th (range - 1)) by lia. ring.
    Qed.
  End Vector.

  (* the four kinds of equations of a range *)
  Definition eq_first (i : nat) (theta_i : T) (th ph : list T) : Prop :=
    if angc i then nth 0 th f0 = theta_i
    else (to3 [*] (f1 [-] f3 [*] tu 1) [-] cti3) [*] nth 0 th f0 [+] (to3 [-] cti3 [*] (f1 [-] f3 [*] tv 0)) [*] nth 0 ph f0 = f0.
  Definition eq_last (n j range : nat) (phi_j1 : T) (th ph : list T) : Prop :=
    if angc j then nth (range - 1) ph f0 = phi_j1
    else (ti3 n [-] cto3 n [*] (f1 [-] f3 [*] tu n)) [*] nth (range - 1) th f0
         [+] (ti3 n [*] (f1 [-] f3 [*] tv (n - 1)) [-] cto3 n) [*] nth (range - 1) ph f0 = f0.
  Definition eq_turn (psis th ph : list T) (k : nat) : Prop :=
    nth (k + 1) th f0 [+] nth k ph f0 [+] nth k psis f0 = f0.
  Definition eq_curv (i : nat) (th ph : list T) (k : nat) : Prop :=
    cfA i k [*] nth k th f0 [+] cfB i k [*] nth (k + 1) th f0 [+] cfC i k [*] nth k ph f0 [+] cfD i k [*] nth (k + 1) ph f0 = f0.

  Lemma open_matrix_wf : forall n i j psis theta_i phi_j1, i < j ->
    wf (2 * (j - i)) (S (2 * (j - i))) (open_matrix n i j psis theta_i phi_j1).
  Proof.
    intros n i j psis theta_i phi_j1 Hij.
    destruct (open_matrix_rows n i j psis theta_i phi_j1 Hij) as (HL & H0 & H1 & Hk). cbv zeta in *.
    set (range := j - i) in *. set (M := open_matrix n i j psis theta_i phi_j1) in *.
    split; [exact HL|]. apply Forall_forall. intros row Hin.
    destruct (In_nth M row [] Hin) as (r & Hr & E). rewrite <- E. rewrite HL in Hr.
    destruct (Nat.eq_dec r 0) as [->|N0].
    { rewrite H0. unfold firstrow. destruct (angc i); rewrite !set_nth_length; apply Zr_length. }
    destruct (Nat.eq_dec r (2 * range - 1)) as [->|N1].
    { rewrite H1. unfold lastrow. destruct (angc j); rewrite !set_nth_length; apply Zr_length. }
    destruct (Nat.lt_ge_cases r range) as [Hlt|Hge].
    - destruct (Hk (r - 1) (ltac:(lia))) as [Ht _]. replace (r - 1 + 1) with r in Ht by lia. rewrite Ht.
      unfold turnrow. rewrite !set_nth_length. apply Zr_length.
    - destruct (Hk (r - range) (ltac:(lia))) as [_ Hc]. replace (r - range + range) with r in Hc by lia. rewrite Hc.
      unfold curvrow. rewrite !set_nth_length. apply Zr_length.
  Qed.

  (* MAIN (assembly): a vector solves the assembled system exactly when it satisfies the four kinds of equations *)
  Theorem open_system_spec_lemma : forall n i j psis theta_i phi_j1 th ph, i < j ->
    length th = j - i -> length ph = j - i ->
    (solves (2 * (j - i)) (open_matrix n i j psis theta_i phi_j1) (th ++ ph) <->
     eq_first i theta_i th ph /\ eq_last n j (j - i) phi_j1 th ph /\
     forall k, k + 1 < j - i -> eq_turn psis th ph k /\ eq_curv i th ph k).
  Proof.
    intros n i j psis theta_i phi_j1 th ph Hij Hth Hph.
    pose proof (open_matrix_wf n i j psis theta_i phi_j1 Hij) as Hwf.
    destruct (open_matrix_rows n i j psis theta_i phi_j1 Hij) as (HL & H0 & H1 & Hk). cbv zeta in *.
    set (range := j - i) in *. set (M := open_matrix n i j psis theta_i phi_j1) in *.
    assert (Hrange : 0 < range) by (unfold range; lia).
    rewrite (solves_sol T f0 f1 fadd fmul fsub fopp fdiv finv Tfield (2 * range) M (th ++ ph) Hwf)
      by (rewrite app_length; lia).
    fold (zv th ph).
    rewrite (sol_nth T f0 fadd fmul). rewrite HL.
    assert (EF : dot (firstrow i range theta_i) (zv th ph) = f0 <-> eq_first i theta_i th ph).
    { rewrite (dot_firstrow th ph range Hth Hph i theta_i Hrange). unfold eq_first.
      destruct (angc i); [apply (sub_zero_eq T f0 f1 fadd fmul fsub fopp fdiv finv Tfield) | reflexivity]. }
    assert (EL : dot (lastrow n j range phi_j1) (zv th ph) = f0 <-> eq_last n j range phi_j1 th ph).
    { rewrite (dot_lastrow th ph range Hth Hph n j phi_j1 Hrange). unfold eq_last.
      destruct (angc j); [apply (sub_zero_eq T f0 f1 fadd fmul fsub fopp fdiv finv Tfield) | reflexivity]. }
    split.
    - intros H. split; [|split].
      + apply EF. rewrite <- H0. apply H. lia.
      + apply EL. rewrite <- H1. apply H. lia.
      + intros k Hk1. destruct (Hk k (ltac:(lia))) as [Ht Hc]. split.
        * unfold eq_turn. rewrite <- (dot_turnrow th ph range Hth Hph psis k Hk1). rewrite <- Ht. apply H. lia.
        * unfold eq_curv. rewrite <- (dot_curvrow th ph range Hth Hph i k Hk1). rewrite <- Hc. apply H. lia.
    - intros (HF & HLa & HK) r Hr.
      destruct (Nat.eq_dec r 0) as [->|N0]; [rewrite H0; apply EF; exact HF|].
      destruct (Nat.eq_dec r (2 * range - 1)) as [->|N1]; [rewrite H1; apply EL; exact HLa|].
      destruct (Nat.lt_ge_cases r range) as [Hlt|Hge].
      + destruct (Hk (r - 1) (ltac:(lia))) as [Ht _]. replace (r - 1 + 1) with r in Ht by lia. rewrite Ht.
        rewrite (dot_turnrow th ph range Hth Hph psis (r - 1)) by lia. apply (HK (r - 1)). lia.
      + destruct (Hk (r - range) (ltac:(lia))) as [_ Hc]. replace (r - range + range) with r in Hc by lia. rewrite Hc.
        rewrite (dot_curvrow th ph range Hth Hph i (r - range)) by lia. apply (HK (r - range)). lia.
  Qed.

  (* ---------------------------------------------------------------- what the equations mean *)
  (* Hobby's mock curvature (the curvature of the piece linearised in the offset angles, up to the common factor -2)
     of a piece with offsets theta (leaving) / phi (arriving), tensions t_out at its start and t_in at its end, chord d:
       at its start   t_out^2 / d * ((3 - 1/t_in) theta - phi / t_in)
       at its end     the same with the roles exchanged (the piece reversed and mirrored)              [f3 stands for 3] *)
  Definition mock_start (theta phi t_out t_in d : T) : T :=
    t_out [*] t_out [/] d [*] ((f3 [-] f1 [/] t_in) [*] theta [-] phi [/] t_in).
  Definition mock_end (theta phi t_out t_in d : T) : T := mock_start phi theta t_in t_out d.

  Lemma prod_nonzero : forall a b, a <> f0 -> b <> f0 -> a [*] b <> f0.
  Proof.
    intros a b Ha Hb E. apply Ha.
    replace a with (a [*] b [/] b) by (field; exact Hb). rewrite E. field. exact Hb.
  Qed.

  (* the row  A theta_k + B theta_{k+1} + C phi_k + D phi_{k+1} = 0  of knot i+k+1 IS: mock curvature at the end of piece
     i+k = mock curvature at the start of piece i+k+1 *)
  Theorem mock_curvature_equation_lemma : forall i k th ph,
    len (i + k) <> f0 -> len (i + k + 1) <> f0 -> tv (i + k) <> f0 -> tu (i + k + 2) <> f0 ->
    (eq_curv i th ph k <->
     mock_end (nth k th f0) (nth k ph f0) (tv (i + k)) (tu (i + k + 1)) (len (i + k)) =
     mock_start (nth (k + 1) th f0) (nth (k + 1) ph f0) (tv (i + k + 1)) (tu (i + k + 2)) (len (i + k + 1))).
  Proof.
    intros i k th ph Hd0 Hd1 Htv Htu. unfold eq_curv, mock_end, mock_start, cfA, cfB, cfC, cfD.
    set (d0 := len (i + k)) in *. set (d1 := len (i + k + 1)) in *.
    set (a := tv (i + k)) in *. set (b := tu (i + k + 2)) in *.
    set (u1 := tu (i + k + 1)). set (v1 := tv (i + k + 1)).
    set (t0 := nth k th f0). set (t1 := nth (k + 1) th f0). set (p0 := nth k ph f0). set (p1 := nth (k + 1) ph f0).
    set (E := d1 [*] b [*] u1 [*] u1 [*] t0 [+] fopp d0 [*] a [*] v1 [*] v1 [*] (f1 [-] f3 [*] b) [*] t1
              [+] d1 [*] b [*] u1 [*] u1 [*] (f1 [-] f3 [*] a) [*] p0 [+] fopp d0 [*] a [*] v1 [*] v1 [*] p1).
    set (L := u1 [*] u1 [/] d0 [*] ((f3 [-] f1 [/] a) [*] p0 [-] t0 [/] a)).
    set (R := v1 [*] v1 [/] d1 [*] ((f3 [-] f1 [/] b) [*] t1 [-] p1 [/] b)).
    assert (Hk : L [-] R = fopp E [/] (d0 [*] d1 [*] a [*] b)).
    { unfold L, R, E. field. repeat split; assumption. }
    assert (Hp : d0 [*] d1 [*] a [*] b <> f0) by (repeat apply prod_nonzero; assumption).
    split; intros H.
    - apply (sub_zero_eq T f0 f1 fadd fmul fsub fopp fdiv finv Tfield). rewrite Hk. fold E in H. rewrite H. field; repeat split; assumption.
    - apply (sub_zero_eq T f0 f1 fadd fmul fsub fopp fdiv finv Tfield) in H. rewrite Hk in H. fold E.
      replace E with (fopp (fopp E [/] (d0 [*] d1 [*] a [*] b) [*] (d0 [*] d1 [*] a [*] b))) by (field; repeat split; assumption).
      rewrite H. ring.
  Qed.

  (* free first knot: mock curvature at knot 0 = initial_curl x mock curvature at knot 1 (both on piece 0) *)
  Theorem curl_equation_first_lemma : forall i theta_i th ph d, angc i = false ->
    d <> f0 -> tv 0 <> f0 -> tu 1 <> f0 ->
    (eq_first i theta_i th ph <->
     mock_start (nth 0 th f0) (nth 0 ph f0) (tv 0) (tu 1) d =
     initial_curl [*] mock_end (nth 0 th f0) (nth 0 ph f0) (tv 0) (tu 1) d).
  Proof.
    intros i theta_i th ph d Hc Hd Ha Hb. unfold eq_first. rewrite Hc. unfold mock_end, mock_start, to3, cti3.
    set (a := tv 0) in *. set (b := tu 1) in *. set (t := nth 0 th f0). set (p := nth 0 ph f0). set (g := initial_curl).
    set (E := (a [*] a [*] a [*] (f1 [-] f3 [*] b) [-] g [*] b [*] b [*] b) [*] t
              [+] (a [*] a [*] a [-] g [*] b [*] b [*] b [*] (f1 [-] f3 [*] a)) [*] p).
    set (L := a [*] a [/] d [*] ((f3 [-] f1 [/] b) [*] t [-] p [/] b)).
    set (R := g [*] (b [*] b [/] d [*] ((f3 [-] f1 [/] a) [*] p [-] t [/] a))).
    assert (Hk : L [-] R = fopp E [/] (d [*] a [*] b)) by (unfold L, R, E; field; repeat split; assumption).
    assert (Hp : d [*] a [*] b <> f0) by (repeat apply prod_nonzero; assumption).
    split; intros H.
    - apply (sub_zero_eq T f0 f1 fadd fmul fsub fopp fdiv finv Tfield). rewrite Hk. fold E in H. rewrite H. field; repeat split; assumption.
    - apply (sub_zero_eq T f0 f1 fadd fmul fsub fopp fdiv finv Tfield) in H. rewrite Hk in H. fold E.
      replace E with (fopp (fopp E [/] (d [*] a [*] b) [*] (d [*] a [*] b))) by (field; repeat split; assumption).
      rewrite H. ring.
  Qed.

  (* free last knot: mock curvature at knot n = final_curl x mock curvature at knot n-1 (both on the last piece) *)
  Theorem curl_equation_last_lemma : forall n j range phi_j1 th ph d, angc j = false ->
    d <> f0 -> tv (n - 1) <> f0 -> tu n <> f0 ->
    (eq_last n j range phi_j1 th ph <->
     mock_end (nth (range - 1) th f0) (nth (range - 1) ph f0) (tv (n - 1)) (tu n) d =
     final_curl [*] mock_start (nth (range - 1) th f0) (nth (range - 1) ph f0) (tv (n - 1)) (tu n) d).
  Proof.
    intros n j range phi_j1 th ph d Hc Hd Ha Hb. unfold eq_last. rewrite Hc. unfold mock_end, mock_start, ti3, cto3.
    set (a := tv (n - 1)) in *. set (b := tu n) in *.
    set (t := nth (range - 1) th f0). set (p := nth (range - 1) ph f0). set (g := final_curl).
    set (E := (b [*] b [*] b [-] g [*] a [*] a [*] a [*] (f1 [-] f3 [*] b)) [*] t
              [+] (b [*] b [*] b [*] (f1 [-] f3 [*] a) [-] g [*] a [*] a [*] a) [*] p).
    set (L := b [*] b [/] d [*] ((f3 [-] f1 [/] a) [*] p [-] t [/] a)).
    set (R := g [*] (a [*] a [/] d [*] ((f3 [-] f1 [/] b) [*] t [-] p [/] b))).
    assert (Hk : L [-] R = fopp E [/] (d [*] a [*] b)) by (unfold L, R, E; field; repeat split; assumption).
    assert (Hp : d [*] a [*] b <> f0) by (repeat apply prod_nonzero; assumption).
    split; intros H.
    - apply (sub_zero_eq T f0 f1 fadd fmul fsub fopp fdiv finv Tfield). rewrite Hk. fold E in H. rewrite H. field; repeat split; assumption.
    - apply (sub_zero_eq T f0 f1 fadd fmul fsub fopp fdiv finv Tfield) in H. rewrite Hk in H. fold E.
      replace E with (fopp (fopp E [/] (d [*] a [*] b) [*] (d [*] a [*] b))) by (field; repeat split; assumption).
      rewrite H. ring.
  Qed.

  (* ---------------------------------------------------------------- link with the elimination *)
  Notation gj_run := (gj_run T f0 f1 fsub fmul fdiv fabs fgt feq0).
  Notation store_solution := (store_solution T f0).

  (* a range whose elimination skipped no column: the vector read back through the pivots satisfies every equation *)
  Theorem open_range_solved_lemma : forall n i j psis theta_i phi_j1 st, i < j ->
    gj_run (2 * (j - i)) (open_matrix n i j psis theta_i phi_j1) = st -> snd st = 0 ->
    let x := gj_solution T f0 (2 * (j - i)) st in
    let th := firstn (j - i) x in
    let ph := skipn (j - i) x in
    length th = j - i /\ length ph = j - i /\
    eq_first i theta_i th ph /\ eq_last n j (j - i) phi_j1 th ph /\
    forall k, k + 1 < j - i -> eq_turn psis th ph k /\ eq_curv i th ph k.
  Proof.
    intros n i j psis theta_i phi_j1 st Hij Erun Hres x th ph.
    pose proof (gauss_jordan_solves_lemma T f0 f1 fadd fmul fsub fopp fdiv finv Tfield fabs fgt feq0 feq0_abs
                  (2 * (j - i)) _ st (open_matrix_wf n i j psis theta_i phi_j1 Hij) Erun Hres) as Hs.
    fold x in Hs.
    assert (Hx : length x = 2 * (j - i)) by (apply (gj_solution_length T f0)).
    assert (Hth : length th = j - i) by (unfold th; rewrite firstn_length; lia).
    assert (Hph : length ph = j - i) by (unfold ph; rewrite skipn_length; lia).
    split; [exact Hth|]. split; [exact Hph|].
    apply (open_system_spec_lemma n i j psis theta_i phi_j1 th ph Hij Hth Hph).
    unfold th, ph. rewrite firstn_skipn. exact Hs.
  Qed.

  (* theta[i + r] = x[r], phi[i + r] = x[range + r] for r < range, nothing else is written *)
  Lemma store_solution_spec : forall i range x theta phi K, K <= range ->
    i + range <= length theta -> i + range <= length phi ->
    let tp := fold_left (fun (tp : list T * list T) r =>
                (set_nth (i + r) (nth r x f0) (fst tp), set_nth (i + r) (nth (range + r) x f0) (snd tp)))
              (seq 0 K) (theta, phi) in
    length (fst tp) = length theta /\ length (snd tp) = length phi /\
    (forall r, r < K -> nth (i + r) (fst tp) f0 = nth r x f0 /\ nth (i + r) (snd tp) f0 = nth (range + r) x f0) /\
    (forall k, k < i \/ i + K <= k -> nth k (fst tp) f0 = nth k theta f0 /\ nth k (snd tp) f0 = nth k phi f0).
  Proof.
    intros i range x theta phi K. induction K as [|K IH]; intros HK Ht Hp.
    - cbn [seq fold_left fst snd]. repeat split; auto; intros; lia.
    - rewrite seq_S, fold_left_app. cbn [fold_left]. rewrite Nat.add_0_l.
      destruct (IH (ltac:(lia)) Ht Hp) as (L1 & L2 & HR & HO). clear IH. cbv zeta in *.
      set (tp := fold_left _ (seq 0 K) (theta, phi)) in *. cbn [fst snd].
      split; [rewrite set_nth_length; exact L1|]. split; [rewrite set_nth_length; exact L2|]. split.
      + intros r Hr. destruct (Nat.eq_dec r K) as [->|Hne].
        * split; apply nth_set_nth_eq; lia.
        * rewrite !nth_set_nth_neq by lia. apply HR. lia.
      + intros k Hk. rewrite !nth_set_nth_neq by lia. apply HO. lia.
  Qed.

  (* ---------------------------------------------------------------- the whole open curve without angle constraints *)
  Notation find_j := (find_j ang_c).
  Notation open_psi := (open_psi T f0 fpi ftwopi fadd fsub fopp fatan2 fgt fle pts).
  Notation open_round := (open_round T f0 f1 f3 fpi ftwopi fadd fsub fmul fdiv fopp fabs fsqrt fatan2 fgt fle feq0
                                     pts tens ang ang_c initial_curl final_curl).
  Notation open_angles := (open_angles T f0 f1 f3 fpi ftwopi fadd fsub fmul fdiv fopp fabs fsqrt fatan2 fgt fle feq0
                                       pts tens ang ang_c initial_curl final_curl).

  Lemma find_j_all_false : (forall k, angc k = false) -> forall fuel j n, j <= n + 1 -> n + 1 - j <= fuel ->
    find_j fuel j n = n + 1.
  Proof.
    intros Hc fuel. induction fuel as [|fuel IH]; intros j n Hj Hf; simpl.
    - lia.
    - rewrite Hc. simpl. destruct (j <? n + 1) eqn:E; simpl.
      + apply Nat.ltb_lt in E. apply IH; lia.
      + apply Nat.ltb_ge in E. lia.
  Qed.

  Lemma all_some_nth : forall (A : Type) (l : list (option A)) (r : list A) (d : A),
    all_some l = Some r -> length r = length l /\ forall k, k < length l -> nth k l None = Some (nth k r d).
  Proof.
    intros A l. induction l as [|[a|] l IH]; intros r d E; simpl in E.
    - inversion E. split; [reflexivity | intros k Hk; simpl in Hk; lia].
    - destruct (all_some l) as [r'|] eqn:E'; [|discriminate]. inversion E; subst.
      destruct (IH r' d eq_refl) as [HL HN]. split; [simpl; lia|].
      intros [|k] Hk; simpl in *; [reflexivity | apply HN; lia].
    - discriminate.
  Qed.

  Lemma nth_skipn_add : forall (l : list T) n r, nth r (skipn n l) f0 = nth (n + r) l f0.
  Proof.
    intros l n. revert l. induction n as [|n IH]; intros [|a l] r; simpl; auto.
    - destruct r; reflexivity.
  Qed.

  Notation open_loop := (open_loop T f0 f1 f3 fpi ftwopi fadd fsub fmul fdiv fopp fabs fsqrt fatan2 fgt fle feq0
                                   pts tens ang ang_c initial_curl final_curl).

  Lemma open_loop_done : forall fuel n i theta phi sk, n <= i -> open_loop fuel n i theta phi sk = Some (theta, phi, sk).
  Proof.
    intros fuel n i theta phi sk H. destruct fuel; simpl;
      replace (i <? n) with false by (symmetry; apply Nat.ltb_ge; lia); reflexivity.
  Qed.

  Lemma open_loop_step : forall fuel n i theta phi sk, i < n ->
    open_loop (S fuel) n i theta phi sk =
    match open_round n i theta phi with
    | None => None
    | Some (j, theta, phi, r) => open_loop fuel n j theta phi (sk + r)
    end.
  Proof.
    intros fuel n i theta phi sk H. cbn [Hobby.open_loop].
    replace (i <? n) with true by (symmetry; apply Nat.ltb_lt; lia). reflexivity.
  Qed.

  (* MAIN (open curve, no constraints): when the elimination skips no column, the angles hobby_interpolation works with
     satisfy: the turning equation and the mock-curvature equation at every interior knot, the curl equation at both ends;
     psis are the normalised turning angles of the chords *)
  Theorem open_unconstrained_lemma : forall n theta phi,
    (forall k, angc k = false) -> 0 < n -> open_angles n = Some (theta, phi, 0) ->
    exists psis, length psis = n - 1 /\
      (forall k, k < n - 1 -> open_psi 0 k = Some (nth k psis f0)) /\
      length theta = n /\ length phi = n /\
      eq_first 0 f0 theta phi /\ eq_last n n n f0 theta phi /\
      forall k, k + 1 < n -> eq_turn psis theta phi k /\ eq_curv 0 theta phi k.
  Proof.
    intros n theta phi Hc Hn E. unfold Hobby.open_angles in E. rewrite Hc in E.
    destruct n as [|n']; [lia|]. rewrite open_loop_step in E by lia. set (n := S n') in *.
    unfold Hobby.open_round in E.
    rewrite (find_j_all_false Hc (S n) (0 + 1) n) in E by lia.
    rewrite Nat.eqb_refl in E. replace (n + 1 - 1) with n in E by lia. rewrite Nat.sub_0_r in E.
    destruct (all_some (map (open_psi 0) (seq 0 (n - 1)))) as [psis|] eqn:EP; [|discriminate].
    rewrite (Hc 0), (Hc n) in E. replace ((1 <? n) || negb false || negb false) with true in E
      by (destruct (1 <? n); reflexivity).
    rewrite !(nth_repeat_f0 T f0) in E.
    set (m := open_matrix n 0 n psis f0 f0) in *.
    set (st := gj_run (2 * n) m) in *.
    set (x := gj_solution T f0 (2 * n) st) in *.
    destruct (store_solution 0 n x (repeat f0 n) (repeat f0 n)) as [theta' phi'] eqn:ES.
    rewrite open_loop_done in E by lia. injection E as Et Ep Er. subst theta' phi'.
    assert (Hres : snd st = 0) by lia. clear Er.
    pose proof (open_range_solved_lemma n 0 n psis f0 f0 st Hn) as HS. rewrite Nat.sub_0_r in HS.
    specialize (HS eq_refl Hres). cbv zeta in HS. fold x in HS.
    destruct HS as (Hth & Hph & HF & HL & HK).
    pose proof (store_solution_spec 0 n x (repeat f0 n) (repeat f0 n) n (le_n n)) as HST.
    rewrite !repeat_length in HST. specialize (HST (le_n _) (le_n _)). cbv zeta in HST.
    unfold Hobby.store_solution in ES. rewrite ES in HST. cbn [fst snd] in HST.
    destruct HST as (L1 & L2 & HR & _).
    assert (Eth : theta = firstn n x).
    { apply (nth_ext _ _ f0 f0); [rewrite L1, Hth; reflexivity|]. intros r Hr. rewrite L1 in Hr.
      rewrite (nth_firstn_lt T f0) by exact Hr. apply (HR r Hr). }
    assert (Eph : phi = skipn n x).
    { apply (nth_ext _ _ f0 f0); [rewrite L2, Hph; reflexivity|]. intros r Hr. rewrite L2 in Hr.
      rewrite nth_skipn_add. apply (HR r Hr). }
    destruct (all_some_nth _ _ psis f0 EP) as [HPL HPN]. rewrite map_length, seq_length in HPL, HPN.
    exists psis. split; [exact HPL|]. split.
    { intros k Hk. rewrite <- (HPN k Hk).
      rewrite (nth_indep _ None (open_psi 0 0)) by (rewrite map_length, seq_length; exact Hk).
      rewrite (map_nth (open_psi 0)). rewrite seq_nth by exact Hk. reflexivity. }
    rewrite Eth, Eph. repeat split; auto; apply HK; assumption.
  Qed.


  (* ---------------------------------------------------------------- the whole open solver with angle constraints *)
  Lemma find_j_spec : forall fuel j n, j <= n + 1 -> n + 1 - j <= fuel ->
    j <= find_j fuel j n <= n + 1 /\
    (forall k, j <= k < find_j fuel j n -> angc k = false) /\
    (find_j fuel j n < n + 1 -> angc (find_j fuel j n) = true).
  Proof.
    intros fuel. induction fuel as [|fuel IH]; intros j n Hj Hf; simpl.
    - split; [lia|]. split; [intros; lia | intros; lia].
    - destruct (j <? n + 1) eqn:E1; simpl.
      + apply Nat.ltb_lt in E1. destruct (angc j) eqn:E2; simpl.
        * split; [lia|]. split; [intros; lia | intros _; exact E2].
        * destruct (IH (S j) n (ltac:(lia)) (ltac:(lia))) as (H1 & H2 & H3).
          split; [lia|]. split; [|exact H3].
          intros k Hk. destruct (Nat.eq_dec k j) as [->|Hne]; [exact E2 | apply H2; lia].
      + apply Nat.ltb_ge in E1. split; [lia|]. split; [intros; lia | intros; lia].
  Qed.

  (* the conditions a knot must satisfy, on the final angle vectors *)
  Definition knot_dep (k : nat) (theta : list T) : Prop := nth k theta f0 = angk k [-] dirc k.
  Definition knot_arr (k : nat) (phi : list T) : Prop := nth (k - 1) phi f0 = dirc (k - 1) [-] angk k.
  Definition knot_free (k : nat) (theta phi : list T) : Prop :=
    exists psi, open_psi 0 (k - 1) = Some psi /\
      nth k theta f0 [+] nth (k - 1) phi f0 [+] psi = f0 /\ eq_curv 0 theta phi (k - 1).
  Definition first_free (theta phi : list T) : Prop :=
    (to3 [*] (f1 [-] f3 [*] tu 1) [-] cti3) [*] nth 0 theta f0 [+] (to3 [-] cti3 [*] (f1 [-] f3 [*] tv 0)) [*] nth 0 phi f0 = f0.
  Definition last_free (n : nat) (theta phi : list T) : Prop :=
    (ti3 n [-] cto3 n [*] (f1 [-] f3 [*] tu n)) [*] nth (n - 1) theta f0
    [+] (ti3 n [*] (f1 [-] f3 [*] tv (n - 1)) [-] cto3 n) [*] nth (n - 1) phi f0 = f0.

  Lemma open_psi_shift : forall i k, open_psi i k = open_psi 0 (i + k).
  Proof. intros. unfold Hobby.open_psi. reflexivity. Qed.

  Lemma cf_shift : forall i k, cfA i k = cfA 0 (i + k) /\ cfB i k = cfB 0 (i + k) /\ cfC i k = cfC 0 (i + k) /\ cfD i k = cfD 0 (i + k).
  Proof. intros. unfold cfA, cfB, cfC, cfD. repeat split; reflexivity. Qed.

  (* open_round with its tuple patterns spelled out *)
  Definition round_j0 (n i : nat) : nat := find_j (S n) (i + 1) n.
  Definition round_j (n i : nat) : nat := if round_j0 n i =? n + 1 then round_j0 n i - 1 else round_j0 n i.
  Definition round_theta1 (n i : nat) (theta : list T) : list T :=
    if round_j0 n i =? n + 1 then theta
    else if round_j0 n i <? n then set_nth (round_j0 n i) (angk (round_j0 n i) [-] dirc (round_j0 n i)) theta else theta.
  Definition round_phi1 (n i : nat) (phi : list T) : list T :=
    if round_j0 n i =? n + 1 then phi
    else set_nth (round_j0 n i - 1) (dirc (round_j0 n i - 1) [-] angk (round_j0 n i)) phi.

  Lemma open_round_eq : forall n i theta phi,
    open_round n i theta phi =
    let j := round_j n i in
    let theta1 := round_theta1 n i theta in
    let phi1 := round_phi1 n i phi in
    let range := j - i in
    match all_some (map (open_psi i) (seq 0 (range - 1))) with
    | None => None
    | Some psis =>
        let m := open_matrix n i j psis (nth i theta1 f0) (nth (j - 1) phi1 f0) in
        if (1 <? range) || negb (angc i) || negb (angc j) then
          let st := gj_run (2 * range) m in
          let tp := store_solution i range (gj_solution T f0 (2 * range) st) theta1 phi1 in
          Some (j, fst tp, snd tp, snd st)
        else Some (j, theta1, phi1, 0)
    end.
  Proof.
    intros n i theta phi. unfold Hobby.open_round, round_j, round_theta1, round_phi1, round_j0.
    destruct (find_j (S n) (i + 1) n =? n + 1).
    - cbv zeta. destruct (all_some _); [|reflexivity].
      destruct (_ || _ || _); [|reflexivity].
      destruct (store_solution _ _ _ _ _); reflexivity.
    - cbv zeta. destruct (all_some _); [|reflexivity].
      destruct (_ || _ || _); [|reflexivity].
      destruct (store_solution _ _ _ _ _); reflexivity.
  Qed.

  (* what one round of the while loop establishes *)
  Definition round_post (n i j : nat) (theta phi theta' phi' : list T) : Prop :=
    i < j /\ j <= n /\ length theta' = n /\ length phi' = n /\
    (forall k, k < i -> nth k theta' f0 = nth k theta f0 /\ nth k phi' f0 = nth k phi f0) /\
    (forall k, i < k < j -> angc k = false /\ knot_free k theta' phi') /\
    (angc i = true -> nth i theta' f0 = nth i theta f0) /\
    (angc i = false -> i = 0 -> first_free theta' phi') /\
    (j < n -> angc j = true /\ knot_arr j phi' /\ knot_dep j theta') /\
    (j = n -> if angc n then knot_arr n phi' else last_free n theta' phi').

  Lemma open_round_post : forall n i theta phi j theta' phi',
    i < n -> length theta = n -> length phi = n ->
    open_round n i theta phi = Some (j, theta', phi', 0) -> round_post n i j theta phi theta' phi'.
  Proof.
    intros n i theta phi j' theta' phi' Hi Ht Hp E. rewrite open_round_eq in E. cbv zeta in E.
    destruct (find_j_spec (S n) (i + 1) n (ltac:(lia)) (ltac:(lia))) as (HJ1 & HJ2 & HJ3).
    fold (round_j0 n i) in HJ1, HJ2, HJ3.
    set (j0 := round_j0 n i) in *.
    set (j := round_j n i) in *. set (theta1 := round_theta1 n i theta) in *. set (phi1 := round_phi1 n i phi) in *.
    (* facts about j, theta1, phi1 *)
    assert (Hj : i < j /\ j <= n /\ (forall k, i < k < j -> angc k = false) /\
                 ((j0 = n + 1 /\ j = n /\ angc n = false /\ theta1 = theta /\ phi1 = phi) \/
                  (j0 = j /\ angc j = true /\ nth (j - 1) phi1 f0 = dirc (j - 1) [-] angk j /\
                   (j < n -> nth j theta1 f0 = angk j [-] dirc j)))).
    { unfold j, theta1, phi1, round_j, round_theta1, round_phi1. fold j0.
      destruct (j0 =? n + 1) eqn:EJ.
      - apply Nat.eqb_eq in EJ. split; [lia|]. split; [lia|]. split; [intros k Hk; apply HJ2; lia|].
        left. repeat split; auto; try lia. apply HJ2. lia.
      - apply Nat.eqb_neq in EJ. split; [lia|]. split; [lia|]. split; [intros k Hk; apply HJ2; lia|].
        right. split; [reflexivity|]. split; [apply HJ3; lia|]. split.
        + apply nth_set_nth_eq. lia.
        + intros Hlt. replace (j0 <? n) with true by (symmetry; apply Nat.ltb_lt; exact Hlt).
          apply nth_set_nth_eq. lia. }
    destruct Hj as (Hij & Hjn & Hfalse & Hcase).
    assert (HL1 : length theta1 = n /\ length phi1 = n).
    { unfold theta1, phi1, round_theta1, round_phi1. fold j0.
      destruct (j0 =? n + 1); [split; assumption|]. destruct (j0 <? n); rewrite ?set_nth_length; split; assumption. }
    destruct HL1 as [Ht1 Hp1].
    assert (Hlow : forall k, k <= i -> nth k theta1 f0 = nth k theta f0).
    { intros k Hk. unfold theta1, round_theta1. fold j0. destruct (j0 =? n + 1); [reflexivity|].
      destruct (j0 <? n); [|reflexivity]. apply nth_set_nth_neq. lia. }
    assert (Hlowp : forall k, k < i -> nth k phi1 f0 = nth k phi f0).
    { intros k Hk. unfold phi1, round_phi1. fold j0. destruct (j0 =? n + 1); [reflexivity|].
      apply nth_set_nth_neq. lia. }
    set (range := j - i) in *.
    destruct (all_some (map (open_psi i) (seq 0 (range - 1)))) as [psis|] eqn:EP; [|discriminate].
    destruct ((1 <? range) || negb (angc i) || negb (angc j)) eqn:EC.
    - (* the range is solved *)
      set (st := gj_run (2 * range) (open_matrix n i j psis (nth i theta1 f0) (nth (j - 1) phi1 f0))) in *.
      set (x := gj_solution T f0 (2 * range) st) in *.
      injection E as Ej Eth Eph Eres. subst j'.
      pose proof (open_range_solved_lemma n i j psis (nth i theta1 f0) (nth (j - 1) phi1 f0) st Hij eq_refl Eres) as HS.
      cbv zeta in HS. fold range in HS. fold x in HS. destruct HS as (Hth & Hph & HF & HL & HK).
      pose proof (store_solution_spec i range x theta1 phi1 range (le_n _)) as HST.
      rewrite Ht1, Hp1 in HST. specialize (HST (ltac:(unfold range; lia)) (ltac:(unfold range; lia))). cbv zeta in HST.
      change (fold_left _ (seq 0 range) (theta1, phi1)) with (store_solution i range x theta1 phi1) in HST.
      rewrite Eth, Eph in HST. destruct HST as (L1 & L2 & HR & HO).
      assert (HRt : forall r, r < range -> nth (i + r) theta' f0 = nth r (firstn range x) f0).
      { intros r Hr. rewrite (nth_firstn_lt T f0) by exact Hr. apply (HR r Hr). }
      assert (HRp : forall r, r < range -> nth (i + r) phi' f0 = nth r (skipn range x) f0).
      { intros r Hr. rewrite nth_skipn_add. apply (HR r Hr). }
      destruct (all_some_nth _ _ psis f0 EP) as [HPL HPN]. rewrite map_length, seq_length in HPL, HPN.
      unfold round_post. split; [exact Hij|]. split; [exact Hjn|]. split; [exact L1|]. split; [exact L2|].
      split; [|split; [|split; [|split; [|split]]]].
      + intros k Hk. destruct (HO k (or_introl Hk)) as [H1 H2]. rewrite H1, H2. split; [apply Hlow; lia | apply Hlowp; exact Hk].
      + intros k Hk. split; [apply Hfalse; exact Hk|].
        set (r := k - i - 1). assert (Hr : r + 1 < range) by (unfold r, range; lia).
        destruct (HK r Hr) as [HT HC]. unfold eq_turn in HT. unfold eq_curv in HC.
        exists (nth r psis f0). split; [|split].
        * replace (k - 1) with (i + r) by (unfold r; lia). rewrite <- open_psi_shift.
          rewrite <- (HPN r (ltac:(lia))).
          rewrite (nth_indep _ None (open_psi i 0)) by (rewrite map_length, seq_length; lia).
          rewrite (map_nth (open_psi i)). rewrite seq_nth by lia. reflexivity.
        * replace k with (i + (r + 1)) at 1 by (unfold r; lia). replace (k - 1) with (i + r) by (unfold r; lia).
          rewrite HRt, HRp by lia. exact HT.
        * unfold eq_curv. destruct (cf_shift i r) as (EA & EB & EC' & ED).
          replace (k - 1) with (i + r) by (unfold r; lia).
          rewrite <- EA, <- EB, <- EC', <- ED.
          replace (i + r + 1) with (i + (r + 1)) by lia.
          rewrite !HRt, !HRp by lia. exact HC.
      + intros Hci. unfold eq_first in HF. rewrite Hci in HF.
        replace i with (i + 0) at 1 by lia. rewrite HRt by (unfold range; lia). rewrite HF. apply Hlow. lia.
      + intros Hci Hi0. unfold eq_first in HF. rewrite Hci in HF. unfold first_free.
        subst i. rewrite <- (HRt 0), <- (HRp 0) in HF by (unfold range; lia). exact HF.
      + intros Hlt. destruct Hcase as [(EJ & Ejn & _)|(EJ & Hcj & Hphi & Hth1)]; [lia|].
        split; [exact Hcj|]. split.
        * unfold knot_arr. unfold eq_last in HL. rewrite Hcj in HL.
          replace (j - 1) with (i + (range - 1)) at 1 by (unfold range; lia).
          rewrite HRp by (unfold range; lia). rewrite HL. exact Hphi.
        * unfold knot_dep. assert (Hge : j < i \/ i + range <= j) by (right; unfold range; lia).
          destruct (HO j Hge) as [H1 _]. rewrite H1. apply Hth1. exact Hlt.
      + intros Ejn. unfold eq_last in HL.
        assert (Hr1 : range - 1 < range) by (unfold range; lia).
        pose proof (HRt (range - 1) Hr1) as A. pose proof (HRp (range - 1) Hr1) as B.
        assert (E1 : i + (range - 1) = n - 1) by (unfold range; lia).
        rewrite E1 in A, B.
        destruct Hcase as [(EJ & _ & Hcn & _)|(EJ & Hcj & Hphi & _)].
        * rewrite Ejn in HL. rewrite Hcn in HL |- *. unfold last_free. rewrite A, B. exact HL.
        * rewrite Hcj in HL. rewrite Ejn in Hcj, Hphi. rewrite Hcj. unfold knot_arr.
          rewrite B, HL. rewrite Ejn. exact Hphi.
    - (* one piece between two constrained knots: nothing to solve *)
      injection E as Ej Eth Eph. subst j' theta' phi'.
      apply orb_false_iff in EC. destruct EC as [EC Ecj]. apply orb_false_iff in EC. destruct EC as [Er Eci].
      apply Nat.ltb_ge in Er. apply negb_false_iff in Eci, Ecj.
      destruct Hcase as [(EJ & Ejn & Hcn & _)|(EJ & Hcj & Hphi & Hth1)].
      { rewrite Ejn in Ecj. congruence. }
      unfold round_post. split; [exact Hij|]. split; [exact Hjn|]. split; [exact Ht1|]. split; [exact Hp1|].
      split; [|split; [|split; [|split; [|split]]]].
      + intros k Hk. split; [apply Hlow; lia | apply Hlowp; exact Hk].
      + intros k Hk. unfold range in Er. lia.
      + intros _. apply Hlow. lia.
      + intros Hci. congruence.
      + intros Hlt. split; [exact Hcj|]. split; [exact Hphi | apply Hth1; exact Hlt].
      + intros Ejn. rewrite Ejn in Hcj, Hphi. rewrite Hcj. exact Hphi.
  Qed.

  Definition knot_ok (k : nat) (theta phi : list T) : Prop :=
    if angc k then knot_arr k phi /\ knot_dep k theta else knot_free k theta phi.

  Definition loop_inv (n i : nat) (theta phi : list T) : Prop :=
    length theta = n /\ length phi = n /\ i <= n /\
    (forall k, 0 < k < i -> knot_ok k theta phi) /\
    (0 < i -> if angc 0 then knot_dep 0 theta else first_free theta phi) /\
    (0 < i -> i < n -> angc i = true /\ knot_arr i phi /\ knot_dep i theta) /\
    (0 < i -> i = n -> if angc n then knot_arr n phi else last_free n theta phi) /\
    (i = 0 -> angc 0 = true -> knot_dep 0 theta).

  (* the knot conditions below i only read entries below i *)
  Section Stable.
    Variables theta phi theta' phi' : list T.
    Variable i : nat.
    Hypothesis Hag : forall k, k < i -> nth k theta' f0 = nth k theta f0 /\ nth k phi' f0 = nth k phi f0.

    Lemma knot_dep_stable : forall k, k < i -> knot_dep k theta -> knot_dep k theta'.
    Proof. intros k Hk H. unfold knot_dep in *. rewrite (proj1 (Hag k Hk)). exact H. Qed.
    Lemma knot_arr_stable : forall k, k - 1 < i -> knot_arr k phi -> knot_arr k phi'.
    Proof. intros k Hk H. unfold knot_arr in *. rewrite (proj2 (Hag (k - 1) Hk)). exact H. Qed.
    Lemma knot_free_stable : forall k, 0 < k -> k < i -> knot_free k theta phi -> knot_free k theta' phi'.
    Proof.
      intros k Hk0 Hk (psi & H1 & H2 & H3). exists psi. split; [exact H1|]. split.
      - rewrite (proj1 (Hag k Hk)), (proj2 (Hag (k - 1) (ltac:(lia)))). exact H2.
      - unfold eq_curv in *. replace (k - 1 + 1) with k in * by lia.
        rewrite (proj1 (Hag k Hk)), (proj2 (Hag k Hk)), (proj1 (Hag (k - 1) (ltac:(lia)))), (proj2 (Hag (k - 1) (ltac:(lia)))).
        exact H3.
    Qed.
    Lemma first_free_stable : 0 < i -> first_free theta phi -> first_free theta' phi'.
    Proof. intros Hi H. unfold first_free in *. rewrite (proj1 (Hag 0 Hi)), (proj2 (Hag 0 Hi)). exact H. Qed.
  End Stable.

  Lemma loop_inv_step : forall n i j theta phi theta' phi',
    i < n -> loop_inv n i theta phi -> round_post n i j theta phi theta' phi' -> loop_inv n j theta' phi'.
  Proof.
    intros n i j theta phi theta' phi' Hi (L1 & L2 & Hin & HK & H0 & Hcur & _ & Hz)
           (Hij & Hjn & L1' & L2' & Hag & Hfree & Hkeep & Hff & Hjlt & Hjeq).
    unfold loop_inv. split; [exact L1'|]. split; [exact L2'|]. split; [exact Hjn|].
    split; [|split; [|split; [|split]]].
    - intros k Hk. destruct (Nat.lt_trichotomy k i) as [Hlt|[->|Hgt]].
      + specialize (HK k (ltac:(lia))). unfold knot_ok in *. destruct (angc k).
        * destruct HK as [Ha Hd]. split.
          -- apply (knot_arr_stable theta phi theta' phi' i Hag k (ltac:(lia)) Ha).
          -- apply (knot_dep_stable theta phi theta' phi' i Hag k Hlt Hd).
        * apply (knot_free_stable theta phi theta' phi' i Hag k (ltac:(lia)) Hlt HK).
      + destruct (Hcur (ltac:(lia)) Hi) as (Hci & Ha & Hd). unfold knot_ok. rewrite Hci. split.
        * apply (knot_arr_stable theta phi theta' phi' i Hag i (ltac:(lia)) Ha).
        * unfold knot_dep in *. rewrite (Hkeep Hci). exact Hd.
      + destruct (Hfree k (ltac:(lia))) as [Hc Hf]. unfold knot_ok. rewrite Hc. exact Hf.
    - intros _. destruct (Nat.eq_dec i 0) as [->|Hne].
      + destruct (angc 0) eqn:E0.
        * unfold knot_dep in *. rewrite (Hkeep eq_refl). apply (Hz eq_refl eq_refl).
        * apply (Hff eq_refl eq_refl).
      + specialize (H0 (ltac:(lia))). destruct (angc 0).
        * apply (knot_dep_stable theta phi theta' phi' i Hag 0 (ltac:(lia)) H0).
        * apply (first_free_stable theta phi theta' phi' i Hag (ltac:(lia)) H0).
    - intros _ Hlt. apply Hjlt. exact Hlt.
    - intros _ Hje. apply Hjeq. exact Hje.
    - intros Hj0. lia.
  Qed.

  Lemma open_loop_sk_mono : forall fuel n i theta phi sk theta' phi' sk',
    open_loop fuel n i theta phi sk = Some (theta', phi', sk') -> sk <= sk'.
  Proof.
    intros fuel. induction fuel as [|fuel IH]; intros n i theta phi sk theta' phi' sk' E; cbn [Hobby.open_loop] in E.
    - destruct (i <? n); [discriminate | injection E as _ _ <-; lia].
    - destruct (i <? n); [|injection E as _ _ <-; lia].
      destruct (open_round n i theta phi) as [[[[j t] p] r]|]; [|discriminate].
      apply IH in E. lia.
  Qed.

  Lemma open_loop_inv : forall fuel n i theta phi sk theta' phi',
    loop_inv n i theta phi -> open_loop fuel n i theta phi sk = Some (theta', phi', 0) -> loop_inv n n theta' phi'.
  Proof.
    intros fuel. induction fuel as [|fuel IH]; intros n i theta phi sk theta' phi' HI E; cbn [Hobby.open_loop] in E.
    - destruct (i <? n) eqn:El; [discriminate|]. apply Nat.ltb_ge in El. injection E as <- <- _.
      assert (i = n) by (destruct HI as (_ & _ & Hle & _); lia). subst i. exact HI.
    - destruct (i <? n) eqn:El.
      + apply Nat.ltb_lt in El.
        destruct (open_round n i theta phi) as [[[[j t] p] r]|] eqn:ER; [|discriminate].
        pose proof (open_loop_sk_mono _ _ _ _ _ _ _ _ _ E) as Hm.
        assert (r = 0) by lia. subst r.
        destruct HI as (L1 & L2 & HIrest).
        pose proof (open_round_post n i theta phi j t p El L1 L2 ER) as HP.
        apply (IH n j t p (sk + 0) theta' phi'); [|exact E].
        apply (loop_inv_step n i j theta phi t p El (conj L1 (conj L2 HIrest)) HP).
      + apply Nat.ltb_ge in El. injection E as <- <- _.
        assert (i = n) by (destruct HI as (_ & _ & Hle & _); lia). subst i. exact HI.
  Qed.

  (* MAIN (open curve, any angle constraints): when no elimination skips a column, the angles hobby_interpolation works with
     satisfy, at every interior knot: constrained => the curve arrives and leaves in exactly the requested direction
     (dirc (k-1) - phi_{k-1} = ang_k = dirc k + theta_k), unconstrained => turning equation and mock-curvature equation;
     first / last knot: requested direction or curl equation *)
  Theorem open_constrained_lemma : forall n theta phi, 0 < n -> open_angles n = Some (theta, phi, 0) ->
    length theta = n /\ length phi = n /\
    (forall k, 0 < k < n -> knot_ok k theta phi) /\
    (if angc 0 then knot_dep 0 theta else first_free theta phi) /\
    (if angc n then knot_arr n phi else last_free n theta phi).
  Proof.
    intros n theta phi Hn E. unfold Hobby.open_angles in E.
    apply open_loop_inv in E.
    - destruct E as (L1 & L2 & _ & HK & H0 & _ & HN & _).
      split; [exact L1|]. split; [exact L2|]. split; [exact HK|]. split; [apply H0; exact Hn | apply HN; [exact Hn | reflexivity]].
    - unfold loop_inv. split.
      { destruct (angc 0); rewrite ?set_nth_length; apply repeat_length. }
      split; [apply repeat_length|]. split; [lia|].
      split; [intros k Hk; lia|]. split; [intros H; lia|]. split; [intros H; lia|]. split; [intros H; lia|].
      intros _ Hc. rewrite Hc. unfold knot_dep. apply nth_set_nth_eq. rewrite repeat_length. exact Hn.
  Qed.

  (* the directions at a constrained knot, spelled out: chord direction + theta = requested angle = chord direction - phi *)
  Corollary constrained_direction_lemma : forall n theta phi k, 0 < n -> open_angles n = Some (theta, phi, 0) ->
    k <= n -> angc k = true ->
    (k < n -> dirc k [+] nth k theta f0 = angk k) /\ (0 < k -> dirc (k - 1) [-] nth (k - 1) phi f0 = angk k).
  Proof.
    intros n theta phi k Hn E Hk Hc.
    destruct (open_constrained_lemma n theta phi Hn E) as (_ & _ & HK & H0 & HN).
    assert (Hdep : k < n -> knot_dep k theta).
    { intros Hlt. destruct (Nat.eq_dec k 0) as [->|Hne]; [rewrite Hc in H0; exact H0|].
      specialize (HK k (ltac:(lia))). unfold knot_ok in HK. rewrite Hc in HK. apply HK. }
    assert (Harr : 0 < k -> knot_arr k phi).
    { intros Hgt. destruct (Nat.eq_dec k n) as [->|Hne]; [rewrite Hc in HN; exact HN|].
      specialize (HK k (ltac:(lia))). unfold knot_ok in HK. rewrite Hc in HK. apply HK. }
    split.
    - intros Hlt. specialize (Hdep Hlt). unfold knot_dep in Hdep. rewrite Hdep. ring.
    - intros Hgt. specialize (Harr Hgt). unfold knot_arr in Harr. rewrite Harr. ring.
  Qed.

  (* at an unconstrained interior knot the mock curvature is continuous (chords and tensions non-zero) *)
  Corollary open_mock_curvature_lemma : forall n theta phi k, 0 < n -> open_angles n = Some (theta, phi, 0) ->
    0 < k < n -> angc k = false ->
    len (k - 1) <> f0 -> len k <> f0 -> tv (k - 1) <> f0 -> tu (k + 1) <> f0 ->
    mock_end (nth (k - 1) theta f0) (nth (k - 1) phi f0) (tv (k - 1)) (tu k) (len (k - 1)) =
    mock_start (nth k theta f0) (nth k phi f0) (tv k) (tu (k + 1)) (len k).
  Proof.
    intros n theta phi k Hn E Hk Hc Hd0 Hd1 Ha Hb.
    destruct (open_constrained_lemma n theta phi Hn E) as (_ & _ & HK & _).
    specialize (HK k Hk). unfold knot_ok in HK. rewrite Hc in HK. destruct HK as (psi & _ & _ & HC).
    pose proof (mock_curvature_equation_lemma 0 (k - 1) theta phi) as HM. cbn [Nat.add] in HM.
    replace (k - 1 + 1) with k in HM by lia. replace (k - 1 + 2) with (k + 1) in HM by lia.
    apply (HM Hd0 Hd1 Ha Hb). exact HC.
  Qed.

  (* the top-level function on an open curve *)
  Notation hobby := (hobby T f0 f1 f2 f3 f5 fhalf fB fpi ftwopi fadd fsub fmul fdiv fopp fabs fsqrt fsin fcos fatan2 fgt fle feq0).

  Theorem hobby_open_lemma : forall count r,
    hobby count pts ang ang_c tens initial_curl final_curl false = Ok r -> hr_skipped T r = 0 ->
    2 <= count /\
    length (hr_theta T r) = count - 1 /\ length (hr_phi T r) = count - 1 /\
    (forall k, 0 < k < count - 1 -> knot_ok k (hr_theta T r) (hr_phi T r)) /\
    (if angc 0 then knot_dep 0 (hr_theta T r) else first_free (hr_theta T r) (hr_phi T r)) /\
    (if angc (count - 1) then knot_arr (count - 1) (hr_phi T r) else last_free (count - 1) (hr_theta T r) (hr_phi T r)).
  Proof.
    intros count r E Hs. unfold Hobby.hobby in E.
    destruct (count <? 2) eqn:Ec; [discriminate|]. apply Nat.ltb_ge in Ec.
    cbn [andb] in E.
    destruct (open_angles (count - 1)) as [[[theta phi] sk]|] eqn:EA; [|discriminate].
    injection E as <-. cbn [hr_skipped hr_theta hr_phi] in *. subst sk.
    split; [exact Ec|]. apply open_constrained_lemma; [lia | exact EA].
  Qed.

  (* ---------------------------------------------------------------- the closed curve without angle constraints *)
  Notation cseg := (cseg T f0 fsub pts).
  Notation clen := (fun count k => vlen T fadd fmul fsqrt (cseg count k)).
  Notation closed_body := (closed_body T f0 f1 f3 fadd fsub fmul fopp fsqrt pts tens).
  Notation closed_matrix := (closed_matrix T f0 f1 f3 fadd fsub fmul fopp fsqrt pts tens).
  Notation closed_psi := (closed_psi T f0 fpi ftwopi fadd fsub fopp fatan2 fgt fle pts).
  Notation closed_angles := (closed_angles T f0 f1 f3 fpi ftwopi fadd fsub fmul fdiv fopp fabs fsqrt fatan2 fgt fle feq0 pts tens).

  Definition cprev (count i : nat) : nat := if i =? 0 then count - 1 else i - 1.
  Definition cnext (count i : nat) : nat := if i =? count - 1 then 0 else i + 1.
  Definition cnext2 (count i : nat) : nat := if i <? count - 2 then i + 2 else if i =? count - 2 then 0 else 1.

  Definition ccA (count i : nat) : T :=
    clen count (cnext count i) [*] tu (cnext2 count i) [*] tu (cnext count i) [*] tu (cnext count i).
  Definition ccB (count i : nat) : T :=
    fopp (clen count i) [*] tv i [*] tv (cnext count i) [*] tv (cnext count i) [*] (f1 [-] f3 [*] tu (cnext2 count i)).
  Definition ccC (count i : nat) : T :=
    clen count (cnext count i) [*] tu (cnext2 count i) [*] tu (cnext count i) [*] tu (cnext count i) [*] (f1 [-] f3 [*] tv i).
  Definition ccD (count i : nat) : T := fopp (clen count i) [*] tv i [*] tv (cnext count i) [*] tv (cnext count i).

  Definition cturnrow (count : nat) (psis : list T) (i : nat) : list T :=
    set_nth (count + cprev count i) f1 (set_nth i f1 (set_nth (2 * count) (fopp (nth i psis f0)) (Zr (2 * count)))).
  Definition ccurvrow (count i : nat) : list T :=
    set_nth (count + cnext count i) (ccD count i) (set_nth (count + i) (ccC count i) (set_nth (cnext count i) (ccB count i)
      (set_nth i (ccA count i) (Zr (2 * count))))).

  Lemma closed_body_length : forall count psis m i, length (closed_body count psis m i) = length m.
  Proof. intros. unfold Hobby.closed_body. cbv zeta. rewrite !mset_length. reflexivity. Qed.

  Lemma closed_body_nth : forall count psis m i r, length m = 2 * count -> i < count ->
    nth r (closed_body count psis m i) [] =
    if r =? i then
      set_nth (count + cprev count i) f1 (set_nth i f1 (set_nth (2 * count) (fopp (nth i psis f0)) (nth i m [])))
    else if r =? count + i then
      set_nth (count + cnext count i) (ccD count i) (set_nth (count + i) (ccC count i) (set_nth (cnext count i) (ccB count i)
        (set_nth i (ccA count i) (nth (count + i) m []))))
    else nth r m [].
  Proof.
    intros count psis m i r HL Hi. unfold Hobby.closed_body. cbv zeta.
    repeat (rewrite nth_mset by (rewrite ?mset_length; lia)).
    replace (i =? count + i) with false by (symmetry; apply Nat.eqb_neq; lia).
    replace (count + i =? i) with false by (symmetry; apply Nat.eqb_neq; lia).
    rewrite !Nat.eqb_refl.
    destruct (r =? i) eqn:E1.
    - apply Nat.eqb_eq in E1. subst r.
      replace (i =? count + i) with false by (symmetry; apply Nat.eqb_neq; lia). reflexivity.
    - destruct (r =? count + i) eqn:E2; reflexivity.
  Qed.

  Definition cbody_rows (count : nat) (psis : list T) (K r : nat) : list T :=
    if r <? K then cturnrow count psis r
    else if (count <=? r) && (r <? count + K) then ccurvrow count (r - count)
    else Zr (2 * count).

  Lemma closed_body_rows : forall count psis K, K <= count ->
    let m := fold_left (closed_body count psis) (seq 0 K) (zero_matrix (2 * count) (S (2 * count))) in
    length m = 2 * count /\ forall r, r < 2 * count -> nth r m [] = cbody_rows count psis K r.
  Proof.
    intros count psis K. induction K as [|K IH]; intros HK.
    - cbn [seq fold_left]. split; [apply zero_matrix_length|]. intros r Hr. rewrite nth_zero_matrix by exact Hr.
      unfold cbody_rows. replace (r <? 0) with false by (symmetry; apply Nat.ltb_ge; lia).
      destruct ((count <=? r) && (r <? count + 0)) eqn:E2; [|reflexivity].
      apply andb_true_iff in E2. destruct E2 as [E2 E3]. apply Nat.leb_le in E2. apply Nat.ltb_lt in E3. lia.
    - rewrite seq_S, fold_left_app. cbv zeta in IH |- *. cbn [fold_left]. rewrite Nat.add_0_l.
      destruct (IH (ltac:(lia))) as [HL HR]. clear IH.
      set (m := fold_left (closed_body count psis) (seq 0 K) (zero_matrix (2 * count) (S (2 * count)))) in *.
      split; [rewrite closed_body_length; exact HL|].
      intros r Hr. rewrite (closed_body_nth count psis m K r HL (ltac:(lia))).
      unfold cbody_rows.
      destruct (Nat.eq_dec r K) as [->|N1].
      + rewrite Nat.eqb_refl. replace (K <? S K) with true by (symmetry; apply Nat.ltb_lt; lia).
        rewrite (HR K) by lia. unfold cbody_rows.
        replace (K <? K) with false by (symmetry; apply Nat.ltb_ge; lia).
        replace ((count <=? K) && (K <? count + K)) with false
          by (symmetry; apply andb_false_iff; left; apply Nat.leb_gt; lia).
        reflexivity.
      + replace (r =? K) with false by (symmetry; apply Nat.eqb_neq; lia).
        destruct (Nat.eq_dec r (count + K)) as [->|N2].
        * rewrite Nat.eqb_refl.
          replace (count + K <? S K) with false by (symmetry; apply Nat.ltb_ge; lia).
          replace ((count <=? count + K) && (count + K <? count + S K)) with true
            by (symmetry; apply andb_true_iff; split; [apply Nat.leb_le | apply Nat.ltb_lt]; lia).
          rewrite (HR (count + K)) by lia. unfold cbody_rows.
          replace (count + K <? K) with false by (symmetry; apply Nat.ltb_ge; lia).
          replace ((count <=? count + K) && (count + K <? count + K)) with false
            by (symmetry; apply andb_false_iff; right; apply Nat.ltb_ge; lia).
          unfold ccurvrow. replace (count + K - count) with K by lia. reflexivity.
        * replace (r =? count + K) with false by (symmetry; apply Nat.eqb_neq; lia).
          rewrite (HR r Hr). unfold cbody_rows.
          destruct (r <? K) eqn:E1.
          { apply Nat.ltb_lt in E1. replace (r <? S K) with true by (symmetry; apply Nat.ltb_lt; lia). reflexivity. }
          apply Nat.ltb_ge in E1. replace (r <? S K) with false by (symmetry; apply Nat.ltb_ge; lia).
          destruct ((count <=? r) && (r <? count + K)) eqn:E2.
          { apply andb_true_iff in E2. destruct E2 as [E2 E3]. apply Nat.leb_le in E2. apply Nat.ltb_lt in E3.
            replace ((count <=? r) && (r <? count + S K)) with true
              by (symmetry; apply andb_true_iff; split; [apply Nat.leb_le | apply Nat.ltb_lt]; lia). reflexivity. }
          replace ((count <=? r) && (r <? count + S K)) with false; [reflexivity|].
          symmetry. apply andb_false_iff. apply andb_false_iff in E2. destruct E2 as [E2|E2];
            [left; exact E2 | right; apply Nat.ltb_ge in E2; apply Nat.ltb_ge; lia].
  Qed.

  Lemma closed_matrix_rows : forall count psis,
    length (closed_matrix count psis) = 2 * count /\
    forall i, i < count -> nth i (closed_matrix count psis) [] = cturnrow count psis i /\
                           nth (count + i) (closed_matrix count psis) [] = ccurvrow count i.
  Proof.
    intros count psis. unfold Hobby.closed_matrix.
    destruct (closed_body_rows count psis count (le_n _)) as [HL HR]. cbv zeta in HL, HR.
    split; [exact HL|]. intros i Hi. split.
    - rewrite (HR i) by lia. unfold cbody_rows. replace (i <? count) with true by (symmetry; apply Nat.ltb_lt; lia). reflexivity.
    - rewrite (HR (count + i)) by lia. unfold cbody_rows.
      replace (count + i <? count) with false by (symmetry; apply Nat.ltb_ge; lia).
      replace ((count <=? count + i) && (count + i <? count + count)) with true
        by (symmetry; apply andb_true_iff; split; [apply Nat.leb_le | apply Nat.ltb_lt]; lia).
      replace (count + i - count) with i by lia. reflexivity.
  Qed.

  Lemma cidx_bounds : forall count i, 2 <= count -> i < count ->
    cprev count i < count /\ cnext count i < count /\ cnext count i <> i.
  Proof.
    intros count i Hc Hi. unfold cprev, cnext.
    destruct (Nat.eqb_spec i 0) as [E0|E0]; destruct (Nat.eqb_spec i (count - 1)) as [E1|E1]; lia.
  Qed.

  Definition ceq_turn (count : nat) (psis th ph : list T) (i : nat) : Prop :=
    nth i th f0 [+] nth (cprev count i) ph f0 [+] nth i psis f0 = f0.
  Definition ceq_curv (count : nat) (th ph : list T) (i : nat) : Prop :=
    ccA count i [*] nth i th f0 [+] ccB count i [*] nth (cnext count i) th f0
    [+] ccC count i [*] nth i ph f0 [+] ccD count i [*] nth (cnext count i) ph f0 = f0.

  Lemma dot_cturnrow : forall count psis th ph i, 2 <= count -> length th = count -> length ph = count -> i < count ->
    dot (cturnrow count psis i) (zv th ph) = nth i th f0 [+] nth (cprev count i) ph f0 [+] nth i psis f0.
  Proof.
    intros count psis th ph i Hc Hth Hph Hi. destruct (cidx_bounds count i Hc Hi) as (Hp & Hn & Hne).
    unfold cturnrow.
    rewrite dot_set_nth by (rewrite !set_nth_length, Zr_length; lia).
    rewrite dot_set_nth by (rewrite !set_nth_length, Zr_length; lia).
    rewrite dot_set_nth by (rewrite Zr_length; lia).
    rewrite !nth_set_nth_neq by lia. rewrite !nth_Zr, dot_Zr.
    rewrite (zv_last th ph count Hth Hph).
    replace (count + cprev count i) with (cprev count i + count) by lia.
    rewrite (zv_ph th ph count Hth Hph _ Hp), (zv_th th ph count Hth Hph i Hi). ring.
  Qed.

  Lemma dot_ccurvrow : forall count th ph i, 2 <= count -> length th = count -> length ph = count -> i < count ->
    dot (ccurvrow count i) (zv th ph) =
    ccA count i [*] nth i th f0 [+] ccB count i [*] nth (cnext count i) th f0
    [+] ccC count i [*] nth i ph f0 [+] ccD count i [*] nth (cnext count i) ph f0.
  Proof.
    intros count th ph i Hc Hth Hph Hi. destruct (cidx_bounds count i Hc Hi) as (Hp & Hn & Hne).
    unfold ccurvrow.
    rewrite dot_set_nth by (rewrite !set_nth_length, Zr_length; lia).
    rewrite dot_set_nth by (rewrite !set_nth_length, Zr_length; lia).
    rewrite dot_set_nth by (rewrite !set_nth_length, Zr_length; lia).
    rewrite dot_set_nth by (rewrite Zr_length; lia).
    rewrite !nth_set_nth_neq by lia. rewrite !nth_Zr, dot_Zr.
    replace (count + cnext count i) with (cnext count i + count) by lia.
    replace (count + i) with (i + count) by lia.
    rewrite (zv_ph th ph count Hth Hph _ Hn), (zv_ph th ph count Hth Hph i Hi),
            (zv_th th ph count Hth Hph i Hi), (zv_th th ph count Hth Hph _ Hn). ring.
  Qed.

  Lemma closed_matrix_wf : forall count psis, wf (2 * count) (S (2 * count)) (closed_matrix count psis).
  Proof.
    intros count psis. destruct (closed_matrix_rows count psis) as [HL HR].
    split; [exact HL|]. apply Forall_forall. intros row Hin.
    destruct (In_nth _ row [] Hin) as (r & Hr & E). rewrite <- E. rewrite HL in Hr.
    destruct (Nat.lt_ge_cases r count) as [Hlt|Hge].
    - rewrite (proj1 (HR r Hlt)). unfold cturnrow. rewrite !set_nth_length. apply Zr_length.
    - replace r with (count + (r - count)) by lia. rewrite (proj2 (HR (r - count) (ltac:(lia)))).
      unfold ccurvrow. rewrite !set_nth_length. apply Zr_length.
  Qed.

  (* MAIN (assembly, closed): a vector solves the closed system IFF the turning and curvature equations hold at every knot *)
  Theorem closed_system_spec_lemma : forall count psis th ph, 2 <= count -> length th = count -> length ph = count ->
    (solves (2 * count) (closed_matrix count psis) (th ++ ph) <->
     forall i, i < count -> ceq_turn count psis th ph i /\ ceq_curv count th ph i).
  Proof.
    intros count psis th ph Hc Hth Hph.
    pose proof (closed_matrix_wf count psis) as Hwf. destruct (closed_matrix_rows count psis) as [HL HR].
    rewrite (solves_sol T f0 f1 fadd fmul fsub fopp fdiv finv Tfield (2 * count) _ (th ++ ph) Hwf)
      by (rewrite app_length; lia).
    fold (zv th ph). rewrite (sol_nth T f0 fadd fmul). rewrite HL.
    split.
    - intros H i Hi. destruct (HR i Hi) as [Ht Hcv]. split.
      + unfold ceq_turn. rewrite <- (dot_cturnrow count psis th ph i Hc Hth Hph Hi). rewrite <- Ht. apply H. lia.
      + unfold ceq_curv. rewrite <- (dot_ccurvrow count th ph i Hc Hth Hph Hi). rewrite <- Hcv. apply H. lia.
    - intros H r Hr. destruct (Nat.lt_ge_cases r count) as [Hlt|Hge].
      + rewrite (proj1 (HR r Hlt)). rewrite (dot_cturnrow count psis th ph r Hc Hth Hph Hlt). apply (H r Hlt).
      + replace r with (count + (r - count)) by lia. rewrite (proj2 (HR (r - count) (ltac:(lia)))).
        rewrite (dot_ccurvrow count th ph (r - count) Hc Hth Hph (ltac:(lia))). apply (H (r - count)). lia.
  Qed.

  (* the curvature row of knot cnext i IS continuity of the mock curvature there *)
  Theorem closed_mock_curvature_equation_lemma : forall count th ph i,
    clen count i <> f0 -> clen count (cnext count i) <> f0 -> tv i <> f0 -> tu (cnext2 count i) <> f0 ->
    (ceq_curv count th ph i <->
     mock_end (nth i th f0) (nth i ph f0) (tv i) (tu (cnext count i)) (clen count i) =
     mock_start (nth (cnext count i) th f0) (nth (cnext count i) ph f0) (tv (cnext count i)) (tu (cnext2 count i))
                (clen count (cnext count i))).
  Proof.
    intros count th ph i Hd0 Hd1 Htv Htu. unfold ceq_curv, mock_end, mock_start, ccA, ccB, ccC, ccD.
    set (d0 := clen count i) in *. set (d1 := clen count (cnext count i)) in *.
    set (a := tv i) in *. set (b := tu (cnext2 count i)) in *.
    set (u1 := tu (cnext count i)). set (v1 := tv (cnext count i)).
    set (t0 := nth i th f0). set (t1 := nth (cnext count i) th f0). set (p0 := nth i ph f0). set (p1 := nth (cnext count i) ph f0).
    set (E := d1 [*] b [*] u1 [*] u1 [*] t0 [+] fopp d0 [*] a [*] v1 [*] v1 [*] (f1 [-] f3 [*] b) [*] t1
              [+] d1 [*] b [*] u1 [*] u1 [*] (f1 [-] f3 [*] a) [*] p0 [+] fopp d0 [*] a [*] v1 [*] v1 [*] p1).
    set (L := u1 [*] u1 [/] d0 [*] ((f3 [-] f1 [/] a) [*] p0 [-] t0 [/] a)).
    set (R := v1 [*] v1 [/] d1 [*] ((f3 [-] f1 [/] b) [*] t1 [-] p1 [/] b)).
    assert (Hk : L [-] R = fopp E [/] (d0 [*] d1 [*] a [*] b)).
    { unfold L, R, E. field. repeat split; assumption. }
    split; intros H.
    - apply (sub_zero_eq T f0 f1 fadd fmul fsub fopp fdiv finv Tfield). rewrite Hk. fold E in H. rewrite H.
      field; repeat split; assumption.
    - apply (sub_zero_eq T f0 f1 fadd fmul fsub fopp fdiv finv Tfield) in H. rewrite Hk in H. fold E.
      replace E with (fopp (fopp E [/] (d0 [*] d1 [*] a [*] b) [*] (d0 [*] d1 [*] a [*] b))) by (field; repeat split; assumption).
      rewrite H. ring.
  Qed.

  (* MAIN (closed curve, no constraints): when the elimination skips no column the angles satisfy the turning equation
     and the curvature equation at EVERY knot, indices taken cyclically *)
  Theorem closed_unconstrained_lemma : forall count theta phi, 2 <= count ->
    closed_angles count = Some (theta, phi, 0) ->
    exists psis, length psis = count /\
      (forall i, i < count -> closed_psi count i = Some (nth i psis f0)) /\
      length theta = count /\ length phi = count /\
      forall i, i < count -> ceq_turn count psis theta phi i /\ ceq_curv count theta phi i.
  Proof.
    intros count theta phi Hc E. unfold Hobby.closed_angles in E.
    destruct (all_some (map (closed_psi count) (seq 0 count))) as [psis|] eqn:EP; [|discriminate].
    set (st := gj_run (2 * count) (closed_matrix count psis)) in *.
    set (x := gj_solution T f0 (2 * count) st) in *.
    injection E as Et Ep Er.
    pose proof (gauss_jordan_solves_lemma T f0 f1 fadd fmul fsub fopp fdiv finv Tfield fabs fgt feq0 feq0_abs
                  (2 * count) _ st (closed_matrix_wf count psis) eq_refl Er) as Hs. fold x in Hs.
    assert (Hx : length x = 2 * count) by (apply (gj_solution_length T f0)).
    assert (Hth : length theta = count) by (rewrite <- Et, firstn_length; lia).
    assert (Hph : length phi = count) by (rewrite <- Ep, skipn_length; lia).
    destruct (all_some_nth _ _ psis f0 EP) as [HPL HPN]. rewrite map_length, seq_length in HPL, HPN.
    exists psis. split; [exact HPL|]. split.
    { intros i Hi. rewrite <- (HPN i Hi).
      rewrite (nth_indep _ None (closed_psi count 0)) by (rewrite map_length, seq_length; exact Hi).
      rewrite (map_nth (closed_psi count)). rewrite seq_nth by exact Hi. reflexivity. }
    split; [exact Hth|]. split; [exact Hph|].
    apply (closed_system_spec_lemma count psis theta phi Hc Hth Hph).
    rewrite <- Et, <- Ep, firstn_skipn. exact Hs.
  Qed.

  (* the top-level function on a closed curve without constrained knot *)
  Theorem hobby_closed_unconstrained_lemma : forall count r,
    first_true (firstn count ang_c) = count ->
    hobby count pts ang ang_c tens initial_curl final_curl true = Ok r -> hr_skipped T r = 0 ->
    2 <= count /\
    exists psis, length psis = count /\
      (forall i, i < count -> closed_psi count i = Some (nth i psis f0)) /\
      length (hr_theta T r) = count /\ length (hr_phi T r) = count /\
      forall i, i < count -> ceq_turn count psis (hr_theta T r) (hr_phi T r) i /\ ceq_curv count (hr_theta T r) (hr_phi T r) i.
  Proof.
    intros count r Hrot E Hs. unfold Hobby.hobby in E.
    destruct (count <? 2) eqn:Ec; [discriminate|]. apply Nat.ltb_ge in Ec.
    rewrite Hrot, Nat.eqb_refl in E. cbn [andb] in E.
    destruct (closed_angles count) as [[[theta phi] sk]|] eqn:EA; [|discriminate].
    injection E as <-. cbn [hr_skipped hr_theta hr_phi] in *. subst sk.
    split; [exact Ec|]. apply closed_unconstrained_lemma; [exact Ec | exact EA].
  Qed.
End HobbyAsm.

(* a closed curve with at least one constrained knot: the arrays are rotated so that the first constrained knot comes first,
   the first point is appended, and the open solver runs on count + 1 knots: every statement about the open solver holds
   for the rotated arrays *)
Section HobbyClosedConstrained.
  Variable T : Type.
  Variables f0 f1 f2 f3 f5 fhalf fB fpi ftwopi : T.
  Variables fadd fsub fmul fdiv : T -> T -> T.
  Variables fopp fabs fsqrt fsin fcos : T -> T.
  Variable fatan2 : T -> T -> T.
  Variables fgt fle : T -> T -> bool.
  Variable feq0 : T -> bool.
  Variable finv : T -> T.
  Hypothesis Tfield : field_theory f0 f1 fadd fmul fsub fopp fdiv finv (@eq T).
  Hypothesis feq0_abs : forall x, feq0 (fabs x) = true <-> x = f0.

  Theorem hobby_closed_constrained_lemma : forall count pts ang ang_c tens initial_curl final_curl r,
    let rotate := first_true (firstn count ang_c) in
    rotate < count ->
    hobby T f0 f1 f2 f3 f5 fhalf fB fpi ftwopi fadd fsub fmul fdiv fopp fabs fsqrt fsin fcos fatan2 fgt fle feq0
          count pts ang ang_c tens initial_curl final_curl true = Ok r -> hr_skipped T r = 0 ->
    let pts' := rotate_arr rotate (firstn count pts) in
    let tens' := rotate_arr rotate (firstn count tens) in
    let ang' := rotate_arr rotate (firstn count ang) in
    let ang_c' := rotate_arr rotate (firstn count ang_c) in
    length (hr_theta T r) = count /\ length (hr_phi T r) = count /\
    (forall k, 0 < k < count ->
       knot_ok T f0 f1 f3 fpi ftwopi fadd fsub fmul fopp fsqrt fatan2 fgt fle pts' tens' ang' ang_c' k (hr_theta T r) (hr_phi T r)) /\
    (if angc ang_c' 0 then knot_dep T f0 fsub fatan2 pts' ang' 0 (hr_theta T r)
     else first_free T f0 f1 f3 fadd fsub fmul tens' initial_curl (hr_theta T r) (hr_phi T r)) /\
    (if angc ang_c' count then knot_arr T f0 fsub fatan2 pts' ang' count (hr_phi T r)
     else last_free T f0 f1 f3 fadd fsub fmul tens' final_curl count (hr_theta T r) (hr_phi T r)).
  Proof.
    intros count pts ang ang_c tens initial_curl final_curl r rotate Hrot E Hs pts' tens' ang' ang_c'.
    unfold Hobby.hobby in E. fold rotate in E.
    destruct (count <? 2) eqn:Ec; [discriminate|]. apply Nat.ltb_ge in Ec.
    replace (rotate =? count) with false in E by (symmetry; apply Nat.eqb_neq; lia).
    cbn [andb] in E. fold pts' tens' ang' ang_c' in E.
    destruct (open_angles T f0 f1 f3 fpi ftwopi fadd fsub fmul fdiv fopp fabs fsqrt fatan2 fgt fle feq0
                pts' tens' ang' ang_c' initial_curl final_curl count) as [[[theta phi] sk]|] eqn:EA; [|discriminate].
    injection E as <-. cbn [hr_skipped hr_theta hr_phi] in *. subst sk.
    apply (open_constrained_lemma T f0 f1 f3 fpi ftwopi fadd fsub fmul fdiv fopp fabs fsqrt fatan2 fgt fle feq0 finv
             Tfield feq0_abs pts' tens' ang' ang_c' initial_curl final_curl count theta phi (ltac:(lia)) EA).
  Qed.
End HobbyClosedConstrained.
