(* Witnesses for the model of GdsWriter / RawCell::to_gds: the two clauses of "each raw cell and each dependency exactly
   once" that the code does not satisfy, and examples showing that the hypotheses of the theorems of GdsWriterProofs.v are
   satisfiable on non-trivial inputs. *)
Require Import Base GdsFrame GdsFrameProofs GdsModel GdsWrite GdsRoundtrip GdsSpec GdsSpecProofs GdsConform GdsRaw GdsTransplant
  GdsRawProofs GdsWriterModel GdsWriterProofs.
From Coq Require Import ZArith Lia ZifyBool ZifyN ZifyNat.
Local Open Scope N_scope.

(* ================================================================== J. witnesses *)
Lemma byte_ok_dec l : forallb (fun b => b <? 256) l = true -> Forall byte_ok l.
Proof. intros H. apply Forall_forall. intros x Hx. rewrite forallb_forall in H. apply N.ltb_lt. apply H. exact Hx. Qed.

Definition ex_ts : list Z := [2020; 6; 17; 11; 22; 33]%Z.
Definition ex_file : bytes := write_gds_model ex_ts ex_lib.      (* cells "A" and "BB"; BB references A (and X) *)
Definition ex_res : rawres := match read_rawcells_model ex_file with Ok r => r | _ => ([], [], false) end.
Notation ex_heap := (heap_add_file empty_heap ex_file ex_res).
Definition ex_writer : gwriter := {| gw_units := g_units ex_lib; gw_max_points := 0; gw_ts := ex_ts |}.
Definition ex_name : bytes := [78; 69; 87].    (* "NEW": odd length, padded *)

Lemma ex_file_decodes : spec_decode ex_file = Some (canon_lib ex_lib).
Proof. destruct ex_lib_ok as [H1 H2]. apply writer_conforms_lemma; [reflexivity|exact H1|exact H2]. Qed.
Lemma ex_file_bytes : Forall byte_ok ex_file.
Proof. apply byte_ok_dec. vm_compute. reflexivity. Qed.
Lemma ex_res_read : read_rawcells_model ex_file = Ok ex_res.
Proof. vm_compute. reflexivity. Qed.
Lemma ex_writer_ok : writer_ok ex_name ex_writer.
Proof.
  unfold writer_ok, ex_name, ex_writer, name_fits, no_nul, unit_ok, real_mantissa. cbn [gw_units gw_ts ex_lib g_units fst snd length ex_ts].
  repeat split; try lia. repeat constructor; discriminate.
Qed.

Lemma ex_heap_facts : heap_wf ex_heap /\ length (rh_cells ex_heap) = 2%nat /\
  forall name w ops, writer_ok name w -> Forall (op_ok_in (gw_max_points w) (canon_lib ex_lib)) ops ->
    exists h' out, gdswriter_run name w ex_heap ops = ROk (h', out, repeat false (length ops)) /\ heap_wf h' /\
      spec_decode out = Some {| g_name := name; g_units := gw_units w; g_cells := map (denote_in (canon_lib ex_lib)) ops |} /\
      read_gds_model None out = Ok {| g_name := name; g_units := gw_units w; g_cells := map (denote_in (canon_lib ex_lib)) ops |}.
Proof.
  destruct (gdswriter_c17_lemma ex_file (canon_lib ex_lib) ex_file_decodes ex_file_bytes ltac:(cbn; lia)) as (res & Hres & H).
  rewrite ex_res_read in Hres.
  assert (Er : res = ex_res) by exact (f_equal (fun o => match o with Ok r => r | _ => res end) (eq_sym Hres)).
  rewrite Er in H. exact H.
Qed.

(* "no structure is emitted twice" does not hold of the code: RawCell::to_gds keeps no mark.  The same raw cell written
   twice (here through one writer; by session_writer_independent also through two) is emitted twice - the file is still
   accepted by the strict decoder and holds two structures of the same name *)
Theorem rawcell_once_refuted_lemma :
  exists F L res, spec_decode F = Some L /\ read_rawcells_model F = Ok res /\
    let h := heap_add_file empty_heap F res in
    heap_wf h /\
    exists name w h' out c, writer_ok name w /\
      gdswriter_run name w h [WRaw 0%nat; WRaw 0%nat] = ROk (h', out, [false; false]) /\
      spec_decode out = Some {| g_name := name; g_units := gw_units w; g_cells := [c; c] |}.
Proof.
  exists ex_file, (canon_lib ex_lib), ex_res. split; [exact ex_file_decodes|]. split; [exact ex_res_read|]. cbn zeta.
  destruct ex_heap_facts as (Hwf & _ & Hrun). split; [exact Hwf|].
  destruct (Hrun ex_name ex_writer [WRaw 0%nat; WRaw 0%nat] ex_writer_ok) as (h' & out & E & _ & Hd & _).
  { repeat constructor; cbn; lia. }
  exists ex_name, ex_writer, h', out, (nth 0 (g_cells (canon_lib ex_lib)) empty_cell). split; [exact ex_writer_ok|]. split; [exact E|exact Hd].
Qed.

(* "every dependency is emitted" does not hold of the code either: to_gds never reads `dependencies`.  Raw cell BB
   depends on raw cell A; written alone it yields a file that loads to one cell with a reference to a cell "A" that
   is not in the file *)
Theorem rawcell_closure_refuted_lemma :
  exists F L res, spec_decode F = Some L /\ read_rawcells_model F = Ok res /\
    let h := heap_add_file empty_heap F res in
    heap_wf h /\ raw_deps_of h 1 = [0%nat] /\
    exists name w h' out c, writer_ok name w /\
      gdswriter_run name w h [WRaw 1%nat] = ROk (h', out, [false]) /\
      read_gds_model None out = Ok {| g_name := name; g_units := gw_units w; g_cells := [c] |} /\
      In [65] (map r_name (c_refs c)) /\ c_name c <> [65].
Proof.
  exists ex_file, (canon_lib ex_lib), ex_res. split; [exact ex_file_decodes|]. split; [exact ex_res_read|]. cbn zeta.
  destruct ex_heap_facts as (Hwf & _ & Hrun). split; [exact Hwf|]. split; [vm_compute; reflexivity|].
  destruct (Hrun ex_name ex_writer [WRaw 1%nat] ex_writer_ok) as (h' & out & E & _ & _ & Hr).
  { repeat constructor; cbn; lia. }
  exists ex_name, ex_writer, h', out, (nth 1 (g_cells (canon_lib ex_lib)) empty_cell). split; [exact ex_writer_ok|]. split; [exact E|].
  split; [exact Hr|]. split; [cbn; left; reflexivity|cbn; discriminate].
Qed.

(* ------------------------------------------------------------------ the hypotheses of the main theorems are satisfiable *)
Example gdswriter_is_library_ex :
  (length ex_ts = 6)%nat /\ name_fits ex_name /\ no_fracture 0 (g_cells ex_lib) /\
  gdswriter_run ex_name ex_writer empty_heap (map WCell (g_cells ex_lib)) =
  ROk (empty_heap, write_gds_model ex_ts {| g_name := ex_name; g_units := g_units ex_lib; g_cells := g_cells ex_lib |}, [false; false]).
Proof.
  split; [reflexivity|]. split; [unfold name_fits; cbn; lia|]. split; [repeat constructor|]. vm_compute. reflexivity.
Qed.

(* a mixed session: raw cell BB, an ordinary cell, raw cell A, raw cell BB again *)
Example gdswriter_c17_ex :
  exists h' out, gdswriter_run ex_name ex_writer ex_heap [WRaw 1%nat; WCell (nth 0 (g_cells ex_lib) empty_cell); WRaw 0%nat; WRaw 1%nat] =
                   ROk (h', out, [false; false; false; false]) /\
    read_gds_model None out =
    Ok {| g_name := ex_name; g_units := g_units ex_lib;
          g_cells := map (fun i => nth i (g_cells (canon_lib ex_lib)) empty_cell) [1; 0; 0; 1]%nat |}.
Proof.
  destruct ex_heap_facts as (_ & _ & Hrun).
  destruct (Hrun ex_name ex_writer [WRaw 1%nat; WCell (nth 0 (g_cells ex_lib) empty_cell); WRaw 0%nat; WRaw 1%nat] ex_writer_ok)
    as (h' & out & E & _ & _ & Hr).
  { destruct ex_lib_ok as [(_ & _ & _ & Hc) (_ & Hf)]. inversion Hc as [|? ? Hc0 _]. inversion Hf as [|? ? Hf0 _].
    apply Forall_cons; [cbn; lia|]. apply Forall_cons; [|repeat (apply Forall_cons; [cbn; lia|]); apply Forall_nil].
    cbn [op_ok_in]. match goal with H : cell_ok ?c |- cell_ok ?d /\ _ => change d with c end.
    split; [exact Hc0|]. split; [exact Hf0|reflexivity]. }
  exists h', out. split; [exact E|exact Hr].
Qed.

(* a diamond: 3 depends on 1 and 2, both depend on 0 (shared dependency): each raw cell once, dependencies first *)
Definition ex_dag : rheap :=
  {| rh_cells := [ {| rw_name := [65]; rw_src := Loaded [1; 2]; rw_size := 2; rw_deps := [] |};
                   {| rw_name := [66]; rw_src := Loaded [3; 4]; rw_size := 2; rw_deps := [0%nat] |};
                   {| rw_name := [67]; rw_src := Loaded [5; 6]; rw_size := 2; rw_deps := [0%nat] |};
                   {| rw_name := [68]; rw_src := Loaded [7; 8]; rw_size := 2; rw_deps := [1%nat; 2%nat] |} ];
     rh_srcs := [] |}.
Example raw_closure_diamond :
  dag ex_dag (fun x => x) /\ (forall x, In x [0; 1; 2; 3]%nat -> (x <= length (rh_cells ex_dag))%nat) /\
  raw_closure ex_dag [3%nat] = Some [0; 1; 2; 3]%nat /\ raw_closure ex_dag [2; 3; 2]%nat = Some [0; 2; 1; 3]%nat.
Proof.
  split.
  { intros x d. unfold raw_deps_of, ex_dag. cbn [rh_cells].
    destruct x as [|[|[|[|x]]]]; cbn [nth_error rw_deps In]; try (intros []); try lia.
    destruct x; cbn; intros []. }
  split; [intros x Hx; cbn in *; lia|]. split; vm_compute; reflexivity.
Qed.

(* a cyclic dependency graph (A references B, B references A: a legal GDSII file): the closure recursion does not end -
   like RawCell::get_dependencies(true, ...), the only traversal of raw dependencies the C++ has (Graph.raw_deps: Crash,
   stack exhaustion).  RawCell::to_gds itself never recurses: it returns on every graph (rawcell_to_gds is not recursive) *)
Definition ex_cycle : rheap :=
  {| rh_cells := [ {| rw_name := [65]; rw_src := Loaded [1; 2]; rw_size := 2; rw_deps := [1%nat] |};
                   {| rw_name := [66]; rw_src := Loaded [3; 4]; rw_size := 2; rw_deps := [0%nat] |} ];
     rh_srcs := [] |}.
Example raw_closure_cycle :
  raw_closure ex_cycle [0%nat] = None /\
  exists h', gdswriter_ops ex_writer ex_cycle [WRaw 0%nat; WRaw 1%nat] = ROk (h', [1; 2; 3; 4], [false; false]).
Proof. split; [vm_compute; reflexivity|]. eexists. vm_compute. reflexivity. Qed.

(* a source file that shrank: 10 bytes wanted from offset 2 of a 5-byte file *)
Example rawcell_short_read_ex :
  let h := {| rh_cells := [ {| rw_name := [65]; rw_src := Lazy 0 2; rw_size := 10; rw_deps := [] |} ];
              rh_srcs := [ {| rs_file := [1; 2; 3; 4; 5]; rs_uses := 1; rs_open := true |} ] |} in
  exists h1, gdswriter_ops ex_writer h [WRaw 0%nat; WRaw 0%nat] = ROk (h1, [], [true; false]) /\ open_sources h1 = 0.
Proof. eexists. vm_compute. split; reflexivity. Qed.

(* outside name_fits: a library name of 65532 bytes makes `(uint16_t)(4 + len)` wrap to 0 - the LIBNAME record of the file
   gdswriter_init (and, same statements, Library::write_gds) writes claims length 0 and no reader accepts the file *)
Example gdswriter_long_name :
  let name := repeat 65 (N.to_nat 65532) in
  exists (h : rheap) (out : bytes),
    (gdswriter_run name ex_writer empty_heap [] = ROk (h, out, [])) /\
    (firstn 4%nat (skipn 34%nat out) = [0; 0; 2; 6]) /\ (spec_decode out = None) /\ (read_gds_model None out = ErrInvalid).
Proof. cbn zeta. eexists. eexists. split; [reflexivity|]. split; [vm_compute; reflexivity|]. split; vm_compute; reflexivity. Qed.

Print Assumptions rawcell_once_refuted_lemma.
Print Assumptions rawcell_closure_refuted_lemma.
