Require Import Base OasisInt OasisSpec PropList OasisWrite OasisWriteDetect.
Require Import Extraction ExtrOcamlBasic.
Extraction Blacklist List String Int.
Extraction "../ocaml/extracted/c04w.ml" write_oas_model write_oas_run cell_offsets view_w spec_oas_decode
  write_oas_model_d view_w_d geom_d
  mkWCfg mkWLib mkWCell mkWPoly mkWPath mkWPel mkWLabel mkWRef
  Z.of_N. (* Z.of_N only so that the extracted module has the type z that ocaml/conv.ml mentions *)
