(* C14 -- proofs about the model of Contain.v.
   Main results (names end in _lemma):
     contain_correct_lemma, inside_in_bbox_lemma, contain_in_box_lemma,
     contain_all_spec_lemma, contain_any_spec_lemma,
     inside_spec_lemma, all_inside_spec_lemma, any_inside_spec_lemma,
     signed_area_shoelace_lemma, area_lemma, perimeter_edges_lemma, perimeter_short_lemma. *)
Require Import Base Contain.
From Coq Require Import ZifyBool Lia.
Local Open Scope Z_scope.

Ltac dif := repeat match goal with |- context [if ?c then _ else _] => destruct c eqn:? end.

(* ------------------------------------------------------------------ lists of edges *)
(* the edges in the order Polygon::contain visits them, starting from the vertex [a] *)
Fixpoint edges_from (a : pt) (l : list pt) : list (pt * pt) :=
  match l with
  | [] => []
  | b :: tl => (a, b) :: edges_from b tl
  end.

Lemma last_cons : forall (t : list pt) h d, last (h :: t) d = last t h.
Proof. induction t as [|a t IH]; intros h d; [reflexivity|]. change (last (a :: t) d = last (a :: t) h).
  rewrite !IH. reflexivity. Qed.

Lemma combine_edges_from : forall t h x, combine (h :: t) (t ++ [x]) = edges_from h (t ++ [x]).
Proof. induction t as [|a t IH]; intros h x; [reflexivity|].
  change (((h, a) :: combine (a :: t) (t ++ [x])) = (h, a) :: edges_from a (t ++ [x])).
  rewrite IH. reflexivity. Qed.

Lemma edges_from_app : forall l x y, edges_from x (l ++ [y]) = edges_from x l ++ [(last l x, y)].
Proof. induction l as [|a l IH]; intros x y; [reflexivity|].
  cbn [app edges_from]. rewrite IH, last_cons. reflexivity. Qed.

(* the closed edge list is the visiting order of `contain` rotated by one edge *)
Lemma closed_edges_cons : forall h t,
  closed_edges (h :: t) = edges_from h t ++ [(last t h, h)].
Proof. intros. unfold closed_edges. rewrite combine_edges_from, edges_from_app. reflexivity. Qed.

Lemma zsum_app : forall l1 l2, zsum (l1 ++ l2) = zsum l1 + zsum l2.
Proof. induction l1 as [|a l IH]; intros; cbn [app zsum]; [reflexivity | rewrite IH; lia]. Qed.

Lemma closed_edges_In : forall poly a b, In (a, b) (closed_edges poly) -> In a poly /\ In b poly.
Proof. intros [|h t] a b H; [destruct H|]. unfold closed_edges in H. split.
  - eapply in_combine_l; eauto.
  - apply in_combine_r in H. apply in_app_or in H. destruct H as [H|[H|[]]]; [right; exact H | left; exact H]. Qed.

(* ------------------------------------------------------------------ one edge, one branch of the loop *)
Lemma pt_neq : forall p a : pt, p <> a -> px p <> px a \/ py p <> py a.
Proof. intros [x y] [ax ay] H; unfold px, py; cbn [fst snd].
  destruct (Z.eq_dec x ax); destruct (Z.eq_dec y ay); try lia. subst; congruence. Qed.

Lemma pt_eqb_eq : forall p a, pt_eqb p a = true <-> p = a.
Proof. intros [x y] [ax ay]; unfold pt_eqb, px, py; cbn [fst snd]. split; intros H.
  - f_equal; lia.
  - inversion H; subst; lia. Qed.

Definition exit1 (p a b : pt) : bool :=
  (py b =? py p) && ((px b =? px p) || ((py a =? py p) && Bool.eqb (px b >? px p) (px a <? px p))).
Definition straddle (p a b : pt) : bool := negb (Bool.eqb (py a <? py p) (py b <? py p)).

Ltac unf := unfold exit1, straddle, on_edge, cross_sign, wstep, det, cross, vsub, px, py in *; cbn [fst snd] in *.

(* the first early exit fires only on the edge: p = b, or p strictly inside a horizontal edge *)
Lemma exit1_on : forall p a b, exit1 p a b = true -> on_edge p (a, b) = true.
Proof. intros [x y] [ax ay] [bx by_] H. unf. nia. Qed.

Lemma exit1_neq : forall p a b, exit1 p a b = false -> p <> b.
Proof. intros [x y] [ax ay] [bx by_] H E. inversion E; subst. unf. lia. Qed.

(* both end points to the right of the query: the edge counts, the query is not on it *)
Lemma br_right : forall p a b, p <> a -> exit1 p a b = false -> straddle p a b = true ->
  (px a >=? px p) = true -> (px b >? px p) = true ->
  on_edge p (a, b) = false /\ cross_sign p (a, b) = wstep a b.
Proof. intros p a b Hne. apply pt_neq in Hne. destruct p as [x y], a as [ax ay], b as [bx by_].
  intros. unf. split; [nia | dif; nia]. Qed.

(* the two branches that evaluate det *)
Lemma br_det : forall p a b, p <> a -> exit1 p a b = false -> straddle p a b = true ->
  ((px a >=? px p) = true /\ (px b >? px p) = false) \/ ((px a >=? px p) = false /\ (px b >? px p) = true) ->
  let d := cross (vsub a p) (vsub b p) in
  on_edge p (a, b) = (d =? 0) /\
  ((d =? 0) = false ->
   cross_sign p (a, b) = if Bool.eqb (d >? 0) (py b >? py a) then wstep a b else 0).
Proof. intros p a b Hne. apply pt_neq in Hne. destruct p as [x y], a as [ax ay], b as [bx by_].
  intros H1 H2 H3 d. subst d. unf. split.
  - destruct ((ax - x) * (by_ - y) - (ay - y) * (bx - x) =? 0) eqn:E; nia.
  - intros E. dif; nia. Qed.

(* both end points to the left (a strictly): the edge does not count, the query is not on it *)
Lemma br_left : forall p a b, p <> a -> exit1 p a b = false -> straddle p a b = true ->
  (px a >=? px p) = false -> (px b >? px p) = false ->
  on_edge p (a, b) = false /\ cross_sign p (a, b) = 0.
Proof. intros p a b Hne. apply pt_neq in Hne. destruct p as [x y], a as [ax ay], b as [bx by_].
  intros. unf. split; [nia | dif; nia]. Qed.

(* no straddle *)
Lemma br_nostr : forall p a b, p <> a -> exit1 p a b = false -> straddle p a b = false ->
  on_edge p (a, b) = false /\ cross_sign p (a, b) = 0.
Proof. intros p a b Hne. apply pt_neq in Hne. destruct p as [x y], a as [ax ay], b as [bx by_].
  intros. unf. split; [nia | dif; nia]. Qed.

(* ------------------------------------------------------------------ the loop *)
Lemma loop_correct : forall vs p p0 w, p <> p0 ->
  contain_loop vs p p0 w =
  existsb (on_edge p) (edges_from p0 vs) || negb (w + zsum (map (cross_sign p) (edges_from p0 vs)) =? 0).
Proof.
  induction vs as [|p1 tl IH]; intros p p0 w Hne.
  - cbn. rewrite Z.add_0_r. reflexivity.
  - cbn [contain_loop edges_from existsb map zsum].
    fold (exit1 p p0 p1). fold (straddle p p0 p1).
    destruct (exit1 p p0 p1) eqn:E1.
    { rewrite (exit1_on _ _ _ E1). reflexivity. }
    pose proof (exit1_neq _ _ _ E1) as Hne1.
    destruct (straddle p p0 p1) eqn:E2.
    + destruct (px p0 >=? px p) eqn:E3.
      * destruct (px p1 >? px p) eqn:E4.
        -- destruct (br_right p p0 p1 Hne E1 E2 E3 E4) as [Ho Hc].
           rewrite Ho, Hc, IH by exact Hne1. rewrite Z.add_assoc. reflexivity.
        -- destruct (br_det p p0 p1 Hne E1 E2 (or_introl (conj E3 E4))) as [Ho Hc].
           cbv zeta in Ho, Hc. rewrite Ho.
           destruct (cross (vsub p0 p) (vsub p1 p) =? 0) eqn:E5; [reflexivity|].
           rewrite (Hc eq_refl).
           destruct (Bool.eqb (cross (vsub p0 p) (vsub p1 p) >? 0) (py p1 >? py p0)) eqn:E6;
             rewrite IH by exact Hne1; rewrite ?Z.add_assoc, ?Z.add_0_r; reflexivity.
      * destruct (px p1 >? px p) eqn:E4.
        -- destruct (br_det p p0 p1 Hne E1 E2 (or_intror (conj E3 E4))) as [Ho Hc].
           cbv zeta in Ho, Hc. rewrite Ho.
           destruct (cross (vsub p0 p) (vsub p1 p) =? 0) eqn:E5; [reflexivity|].
           rewrite (Hc eq_refl).
           destruct (Bool.eqb (cross (vsub p0 p) (vsub p1 p) >? 0) (py p1 >? py p0)) eqn:E6;
             rewrite IH by exact Hne1; rewrite ?Z.add_assoc, ?Z.add_0_r; reflexivity.
        -- destruct (br_left p p0 p1 Hne E1 E2 E3 E4) as [Ho Hc].
           rewrite Ho, Hc, IH by exact Hne1. rewrite Z.add_0_l. reflexivity.
    + destruct (br_nostr p p0 p1 Hne E1 E2) as [Ho Hc].
      rewrite Ho, Hc, IH by exact Hne1. rewrite Z.add_0_l. reflexivity.
Qed.

Lemma on_edge_start : forall p b, on_edge p (p, b) = true.
Proof. intros [x y] [bx by_]. unf. nia. Qed.

(* ================================================================== main theorem *)
Theorem contain_correct_lemma : forall poly p,
  contain poly p = on_boundary poly p || negb (wn poly p =? 0).
Proof.
  intros [|h t] p; [reflexivity|].
  unfold contain, on_boundary, wn. rewrite closed_edges_cons, last_cons.
  rewrite existsb_app, map_app, zsum_app. cbn [existsb map zsum].
  destruct (pt_eqb p (last t h)) eqn:E.
  - apply pt_eqb_eq in E. subst p. rewrite on_edge_start. rewrite !orb_true_r. reflexivity.
  - assert (Hne : p <> last t h) by (intro H; apply pt_eqb_eq in H; congruence).
    rewrite loop_correct by exact Hne. cbn [edges_from existsb map zsum].
    destruct (on_edge p (last t h, h)); destruct (existsb (on_edge p) (edges_from h t));
      cbn [orb]; try reflexivity.
    f_equal. f_equal. lia.
Qed.

Corollary contain_spec_lemma : forall poly p, contain poly p = spec_contain poly p.
Proof. exact contain_correct_lemma. Qed.

(* ================================================================== bounding boxes *)
(* [emin c m] is what `if (c < m) m = c` leaves in m, [emax] the same for `>` *)
Lemma emin_le_r : forall c m q, ez_leb m (Fin q) = true ->
  ez_leb (if ez_ltb c m then c else m) (Fin q) = true.
Proof. intros c m q; destruct c, m; cbv [ez_leb ez_gtb ez_ltb]; intros; dif; cbv [ez_leb ez_gtb ez_ltb] in *; lia. Qed.
Lemma emin_le_l : forall c m q, ez_leb c (Fin q) = true ->
  ez_leb (if ez_ltb c m then c else m) (Fin q) = true.
Proof. intros c m q; destruct c, m; cbv [ez_leb ez_gtb ez_ltb]; intros; dif; cbv [ez_leb ez_gtb ez_ltb] in *; lia. Qed.
Lemma emax_ge_r : forall c m q, ez_leb (Fin q) m = true ->
  ez_leb (Fin q) (if ez_gtb c m then c else m) = true.
Proof. intros c m q; destruct c, m; cbv [ez_leb ez_gtb ez_ltb]; intros; dif; cbv [ez_leb ez_gtb ez_ltb] in *; lia. Qed.
Lemma emax_ge_l : forall c m q, ez_leb (Fin q) c = true ->
  ez_leb (Fin q) (if ez_gtb c m then c else m) = true.
Proof. intros c m q; destruct c, m; cbv [ez_leb ez_gtb ez_ltb]; intros; dif; cbv [ez_leb ez_gtb ez_ltb] in *; lia. Qed.

Lemma in_box_iff : forall b p, in_box b p = true <->
  ez_leb (bminx b) (Fin (px p)) = true /\ ez_leb (Fin (px p)) (bmaxx b) = true /\
  ez_leb (bminy b) (Fin (py p)) = true /\ ez_leb (Fin (py p)) (bmaxy b) = true.
Proof. intros. unfold in_box. rewrite !andb_true_iff. tauto. Qed.

Lemma bbox_step_mono : forall b v q, in_box b q = true -> in_box (bbox_step b v) q = true.
Proof. intros b v q H. apply in_box_iff in H. destruct H as (H1 & H2 & H3 & H4).
  apply in_box_iff. unfold bbox_step; cbn [bminx bminy bmaxx bmaxy].
  repeat split; [apply emin_le_r | apply emax_ge_r | apply emin_le_r | apply emax_ge_r]; assumption. Qed.

Lemma ez_leb_refl : forall z, ez_leb (Fin z) (Fin z) = true.
Proof. intros; cbv [ez_leb ez_ltb]; lia. Qed.

Lemma bbox_step_self : forall b v, in_box (bbox_step b v) v = true.
Proof. intros. apply in_box_iff. unfold bbox_step; cbn [bminx bminy bmaxx bmaxy].
  repeat split; [apply emin_le_l | apply emax_ge_l | apply emin_le_l | apply emax_ge_l]; apply ez_leb_refl. Qed.

Lemma bbox_fold_has : forall l b q, in_box b q = true \/ In q l ->
  in_box (fold_left bbox_step l b) q = true.
Proof. induction l as [|v l IH]; intros b q H; cbn [fold_left].
  - destruct H as [H|[]]; exact H.
  - apply IH. destruct H as [H|[H|H]].
    + left; apply bbox_step_mono; exact H.
    + subst; left; apply bbox_step_self.
    + right; exact H. Qed.

(* the box of the vertex loop contains every vertex *)
Lemma bbox_pts_has : forall l v, In v l -> in_box (bbox_pts l) v = true.
Proof. intros. apply bbox_fold_has. right; assumption. Qed.

Lemma bbox_ext_step_mono : forall b0 b off q, in_box b q = true -> in_box (bbox_ext_step b0 b off) q = true.
Proof. intros b0 b off q H. apply in_box_iff in H. destruct H as (H1 & H2 & H3 & H4).
  apply in_box_iff. unfold bbox_ext_step; cbn [bminx bminy bmaxx bmaxy].
  repeat split; [apply emin_le_r | apply emax_ge_r | apply emin_le_r | apply emax_ge_r]; assumption. Qed.

(* the repetition extrema only enlarge the box *)
Lemma bbox_ext_fold_mono : forall l b0 b q, in_box b q = true ->
  in_box (fold_left (bbox_ext_step b0) l b) q = true.
Proof. induction l as [|off l IH]; intros b0 b q H; cbn [fold_left]; [exact H|].
  apply IH. apply bbox_ext_step_mono. exact H. Qed.
Lemma bounding_box_mono : forall P q, in_box (bbox_pts (pts P)) q = true -> in_box (bounding_box P) q = true.
Proof. intros P q H. unfold bounding_box. apply bbox_ext_fold_mono. exact H. Qed.

Lemma group_step_mono : forall b P q, in_box b q = true -> in_box (group_step b P) q = true.
Proof. intros b P q H. apply in_box_iff in H. destruct H as (H1 & H2 & H3 & H4).
  apply in_box_iff. unfold group_step; cbn [bminx bminy bmaxx bmaxy].
  repeat split; [apply emin_le_r | apply emax_ge_r | apply emin_le_r | apply emax_ge_r]; assumption. Qed.
Lemma group_step_self : forall b P q, in_box (bounding_box P) q = true -> in_box (group_step b P) q = true.
Proof. intros b P q H. apply in_box_iff in H. destruct H as (H1 & H2 & H3 & H4).
  apply in_box_iff. unfold group_step; cbn [bminx bminy bmaxx bmaxy].
  repeat split; [apply emin_le_l | apply emax_ge_l | apply emin_le_l | apply emax_ge_l]; assumption. Qed.

Lemma group_fold_has : forall polys b q,
  in_box b q = true \/ (exists P, In P polys /\ in_box (bounding_box P) q = true) ->
  in_box (fold_left group_step polys b) q = true.
Proof. induction polys as [|P l IH]; intros b q H; cbn [fold_left].
  - destruct H as [H|[P [[] _]]]; exact H.
  - apply IH. destruct H as [H|[P' [[H|H] H']]].
    + left; apply group_step_mono; exact H.
    + subst; left; apply group_step_self; exact H'.
    + right; exists P'; split; assumption. Qed.

Lemma group_box_has : forall polys P q, In P polys -> in_box (bounding_box P) q = true ->
  in_box (group_box polys) q = true.
Proof. intros. apply group_fold_has. right. exists P. split; assumption. Qed.

(* a point of the box passes both forms of the pre-filter -- whatever the fourth comparison reads *)
Lemma in_box_prefilter : forall b p, in_box b p = true -> prefilter_in b p = true /\ prefilter_out b p = false.
Proof. intros b p H. apply in_box_iff in H. destruct H as (H1 & H2 & H3 & H4).
  unfold prefilter_in, prefilter_out, ez_geb, ez_gtb, ez_leb in *.
  destruct (ez_ltb (Fin (px p)) (bminx b)), (ez_ltb (bmaxx b) (Fin (px p))), (ez_ltb (Fin (py p)) (bminy b));
    cbn in *; try discriminate; split; reflexivity. Qed.

(* ------------------------------------------------------------------ winding number outside a box *)
Lemma zsum_map_zero : forall (A : Type) (f : A -> Z) l, (forall e, In e l -> f e = 0) -> zsum (map f l) = 0.
Proof. induction l as [|a l IH]; intros H; cbn [map zsum]; [reflexivity|].
  rewrite H by (left; reflexivity). rewrite IH; [reflexivity|]. intros; apply H; right; assumption. Qed.

Lemma zsum_map_ext : forall (A : Type) (f g : A -> Z) l, (forall e, In e l -> f e = g e) ->
  zsum (map f l) = zsum (map g l).
Proof. induction l as [|a l IH]; intros H; cbn [map zsum]; [reflexivity|].
  rewrite H by (left; reflexivity). rewrite IH; [reflexivity|]. intros; apply H; right; assumption. Qed.

Lemma wn_zero_edges : forall poly p,
  (forall a b, In a poly -> In b poly -> cross_sign p (a, b) = 0) -> wn poly p = 0.
Proof. intros poly p H. unfold wn. apply zsum_map_zero. intros [a b] Hin.
  apply closed_edges_In in Hin. destruct Hin. apply H; assumption. Qed.

Lemma wn_below : forall poly p, (forall v, In v poly -> py p < py v) -> wn poly p = 0.
Proof. intros poly p H. apply wn_zero_edges. intros a b Ha Hb. apply H in Ha, Hb.
  destruct p as [x y], a as [ax ay], b as [bx by_]. unf. dif; lia. Qed.
Lemma wn_above : forall poly p, (forall v, In v poly -> py v < py p) -> wn poly p = 0.
Proof. intros poly p H. apply wn_zero_edges. intros a b Ha Hb. apply H in Ha, Hb.
  destruct p as [x y], a as [ax ay], b as [bx by_]. unf. dif; lia. Qed.
Lemma wn_right : forall poly p, (forall v, In v poly -> px v < px p) -> wn poly p = 0.
Proof. intros poly p H. apply wn_zero_edges. intros a b Ha Hb. apply H in Ha, Hb.
  destruct p as [x y], a as [ax ay], b as [bx by_]. unf. dif; nia. Qed.

(* left of every vertex each straddling edge counts: the sum telescopes around the closed cycle *)
Definition lowf (p v : pt) : Z := if py v <? py p then 1 else 0.
Lemma zsum_combine_diff : forall (g : pt -> Z) l l', length l = length l' ->
  zsum (map (fun e : pt * pt => g (fst e) - g (snd e)) (combine l l')) = zsum (map g l) - zsum (map g l').
Proof. induction l as [|a l IH]; intros [|b l'] Hlen; try discriminate; cbn [combine map zsum fst snd]; [reflexivity|].
  rewrite IH by (injection Hlen; auto). lia. Qed.

Lemma wn_left : forall poly p, (forall v, In v poly -> px p < px v) -> wn poly p = 0.
Proof. intros poly p H. unfold wn.
  rewrite (zsum_map_ext _ (cross_sign p) (fun e => lowf p (fst e) - lowf p (snd e))).
  - destruct poly as [|h t]; [reflexivity|]. unfold closed_edges.
    rewrite zsum_combine_diff by (rewrite app_length; cbn; lia).
    rewrite map_app, zsum_app. cbn [map zsum]. lia.
  - intros [a b] Hin. apply closed_edges_In in Hin. destruct Hin as [Ha Hb]. apply H in Ha, Hb.
    destruct p as [x y], a as [ax ay], b as [bx by_]. unfold lowf. unf. dif; nia. Qed.

Lemma on_edge_in_box : forall B p a b, in_box B a = true -> in_box B b = true ->
  on_edge p (a, b) = true -> in_box B p = true.
Proof. intros B p a b Ha Hb H. apply in_box_iff in Ha, Hb. apply in_box_iff.
  destruct Ha as (A1 & A2 & A3 & A4), Hb as (B1 & B2 & B3 & B4).
  destruct p as [x y], a as [ax ay], b as [bx by_]. unf.
  destruct B as [m1 m2 m3 m4]; cbn [bminx bminy bmaxx bmaxy] in *.
  repeat split; [destruct m1 | destruct m3 | destruct m2 | destruct m4]; cbv [ez_leb ez_ltb] in *; lia. Qed.

(* whatever box contains the vertices contains every point reported inside *)
Theorem contain_in_box_lemma : forall B poly p, (forall v, In v poly -> in_box B v = true) ->
  contain poly p = true -> in_box B p = true.
Proof.
  intros B poly p HB H. rewrite contain_correct_lemma in H. apply orb_true_iff in H. destruct H as [H|H].
  - unfold on_boundary in H. apply existsb_exists in H. destruct H as [[a b] [Hin Hon]].
    apply closed_edges_In in Hin. destruct Hin as [Ha Hb].
    apply (on_edge_in_box B p a b); [apply HB; exact Ha | apply HB; exact Hb | exact Hon].
  - destruct (in_box B p) eqn:E; [reflexivity|]. exfalso.
    assert (W : wn poly p = 0).
    { unfold in_box in E. destruct B as [m1 m2 m3 m4]; cbn [bminx bminy bmaxx bmaxy] in *.
      assert (HB' : forall v, In v poly ->
                ez_leb m1 (Fin (px v)) = true /\ ez_leb (Fin (px v)) m3 = true /\
                ez_leb m2 (Fin (py v)) = true /\ ez_leb (Fin (py v)) m4 = true).
      { intros v Hv. apply HB in Hv. apply in_box_iff in Hv. exact Hv. }
      repeat (apply andb_false_iff in E; destruct E as [E|E]).
      - apply wn_left. intros v Hv. apply HB' in Hv. destruct Hv as (V & _). destruct m1; cbv [ez_leb ez_ltb] in *; lia.
      - apply wn_right. intros v Hv. apply HB' in Hv. destruct Hv as (_ & V & _). destruct m3; cbv [ez_leb ez_ltb] in *; lia.
      - apply wn_below. intros v Hv. apply HB' in Hv. destruct Hv as (_ & _ & V & _). destruct m2; cbv [ez_leb ez_ltb] in *; lia.
      - apply wn_above. intros v Hv. apply HB' in Hv. destruct Hv as (_ & _ & _ & V). destruct m4; cbv [ez_leb ez_ltb] in *; lia. }
    rewrite W in H. discriminate.
Qed.

Theorem inside_in_bbox_lemma : forall poly p, contain poly p = true -> in_box (bbox_pts poly) p = true.
Proof. intros. eapply contain_in_box_lemma; eauto. apply bbox_pts_has. Qed.

Lemma contain_prefilter : forall P p, contain (pts P) p = true ->
  prefilter_in (bounding_box P) p = true /\ prefilter_out (bounding_box P) p = false.
Proof. intros. apply in_box_prefilter, bounding_box_mono, inside_in_bbox_lemma. assumption. Qed.

(* ================================================================== group queries *)
Definition in_group (polys : list polygon) (p : pt) : bool := existsb (fun P => contain (pts P) p) polys.

Lemma in_some_spec : forall polys p, in_some polys p = in_group polys p.
Proof. induction polys as [|P l IH]; intros p; cbn [in_some in_group existsb]; [reflexivity|].
  destruct (contain (pts P) p); [reflexivity | apply IH]. Qed.

Lemma in_some_prefilter : forall polys p, in_some polys p = true ->
  prefilter_in (group_box polys) p = true /\ prefilter_out (group_box polys) p = false.
Proof. intros polys p H. rewrite in_some_spec in H. apply existsb_exists in H. destruct H as [P [HP Hc]].
  apply in_box_prefilter. eapply group_box_has; eauto.
  apply bounding_box_mono, inside_in_bbox_lemma. exact Hc. Qed.

(* Polygon::contain_all = conjunction of the single answers *)
Theorem contain_all_spec_lemma : forall P points,
  contain_all P points = forallb (contain (pts P)) points.
Proof.
  intros P points. unfold contain_all.
  assert (A : forall l, all_contained (pts P) l = forallb (contain (pts P)) l).
  { induction l as [|p l IH]; cbn [all_contained forallb]; [reflexivity|].
    destruct (contain (pts P) p); cbn [negb andb]; [exact IH | reflexivity]. }
  destruct (any_out (bounding_box P) points) eqn:E; [|apply A].
  symmetry. induction points as [|p l IH]; cbn [any_out forallb] in *; [discriminate|].
  destruct (prefilter_out (bounding_box P) p) eqn:E1.
  - destruct (contain (pts P) p) eqn:E2; [|reflexivity].
    apply contain_prefilter in E2. destruct E2; congruence.
  - rewrite IH by exact E. apply andb_false_r. Qed.

(* Polygon::contain_any = existence over the single answers *)
Theorem contain_any_spec_lemma : forall P points,
  contain_any P points = existsb (contain (pts P)) points.
Proof.
  intros P points. unfold contain_any.
  induction points as [|p l IH]; cbn [contain_any_loop existsb]; [reflexivity|].
  destruct (contain (pts P) p) eqn:E2.
  - apply contain_prefilter in E2. destruct E2 as [E2 _]. rewrite E2. reflexivity.
  - rewrite andb_false_r. exact IH. Qed.

(* inside: flag i = exists polygon of the group containing point i *)
Theorem inside_spec_lemma : forall points polys,
  inside points polys = map (in_group polys) points.
Proof.
  intros points polys. unfold inside. apply map_ext. intros p. rewrite <- in_some_spec.
  destruct (in_some polys p) eqn:E.
  - apply in_some_prefilter in E. destruct E as [E _]. rewrite E. reflexivity.
  - destruct (prefilter_in (group_box polys) p); reflexivity. Qed.

Theorem all_inside_spec_lemma : forall points polys,
  all_inside points polys = forallb (in_group polys) points.
Proof.
  intros points polys. unfold all_inside.
  assert (A : forall l, all_in_some polys l = forallb (in_group polys) l).
  { induction l as [|p l IH]; cbn [all_in_some forallb]; [reflexivity|]. rewrite in_some_spec.
    destruct (in_group polys p); cbn [negb andb]; [exact IH | reflexivity]. }
  destruct (any_out (group_box polys) points) eqn:E; [|apply A].
  symmetry. induction points as [|p l IH]; cbn [any_out forallb] in *; [discriminate|].
  destruct (prefilter_out (group_box polys) p) eqn:E1.
  - destruct (in_group polys p) eqn:E2; [|reflexivity].
    rewrite <- in_some_spec in E2. apply in_some_prefilter in E2. destruct E2; congruence.
  - rewrite IH by exact E. apply andb_false_r. Qed.

Theorem any_inside_spec_lemma : forall points polys,
  any_inside points polys = existsb (in_group polys) points.
Proof.
  intros points polys. unfold any_inside.
  induction points as [|p l IH]; cbn [any_inside_loop existsb]; [reflexivity|].
  rewrite <- in_some_spec.
  destruct (in_some polys p) eqn:E2.
  - apply in_some_prefilter in E2. destruct E2 as [E2 _]. rewrite E2. reflexivity.
  - rewrite andb_false_r. exact IH. Qed.

(* ================================================================== the half-open rule is immaterial *)
(* indicator of "v is on the ray from p towards +x" *)
Definition onray (p v : pt) : Z := if (py v =? py p) && (px p <? px v) then 1 else 0.

Lemma cross_sign_diff : forall p a b, on_edge p (a, b) = false ->
  cross_sign p (a, b) - cross_sign_lo p (a, b) = onray p b - onray p a.
Proof. intros [x y] [ax ay] [bx by_] H. unfold cross_sign_lo, onray. unf. dif; nia. Qed.

Lemma zsum_map_sub : forall (A : Type) (f g : A -> Z) l,
  zsum (map f l) - zsum (map g l) = zsum (map (fun e => f e - g e) l).
Proof. induction l as [|a l IH]; cbn [map zsum]; [reflexivity | rewrite <- IH; lia]. Qed.

Theorem wn_convention_lemma : forall poly p, on_boundary poly p = false -> wn poly p = wn_lo poly p.
Proof.
  intros poly p H. unfold wn, wn_lo. apply Z.sub_move_0_r. rewrite zsum_map_sub.
  rewrite (zsum_map_ext _ _ (fun e => onray p (snd e) - onray p (fst e))).
  - destruct poly as [|h t]; [reflexivity|]. unfold closed_edges.
    assert (E : forall l l', length l = length l' ->
              zsum (map (fun e : pt * pt => onray p (snd e) - onray p (fst e)) (combine l l')) =
              zsum (map (onray p) l') - zsum (map (onray p) l)).
    { induction l as [|a l IH]; intros [|b l'] Hl; try discriminate; cbn [combine map zsum fst snd]; [reflexivity|].
      rewrite IH by (injection Hl; auto). lia. }
    rewrite E by (rewrite app_length; cbn; lia).
    rewrite map_app, zsum_app. cbn [map zsum]. lia.
  - intros [a b] Hin. cbn [fst snd]. apply cross_sign_diff.
    destruct (on_edge p (a, b)) eqn:E; [|reflexivity].
    unfold on_boundary in H. rewrite <- H. symmetry. apply existsb_exists. exists (a, b). split; assumption.
Qed.

(* the main theorem with the other half-open rule *)
Theorem contain_correct_lo_lemma : forall poly p,
  contain poly p = on_boundary poly p || negb (wn_lo poly p =? 0).
Proof. intros. rewrite contain_correct_lemma. destruct (on_boundary poly p) eqn:E; [reflexivity|].
  rewrite (wn_convention_lemma _ _ E). reflexivity. Qed.

(* ================================================================== signed area, area *)
Definition ecross (e : pt * pt) : Z := cross (fst e) (snd e).

(* the fan loop started at the vertex [a] (v1 = a - v0) *)
Lemma fan_loop_spec : forall rest v0 a acc,
  fan_loop v0 (vsub a v0) rest acc =
  acc + zsum (map ecross (edges_from a rest)) - cross v0 (vsub (last rest a) a).
Proof.
  induction rest as [|q tl IH]; intros v0 a acc.
  - cbn [fan_loop edges_from map zsum last]. destruct v0 as [vx vy], a as [ax ay]. unf. lia.
  - cbn [fan_loop edges_from map zsum]. rewrite IH. rewrite last_cons.
    destruct (last tl q) as [lx ly]. destruct v0 as [vx vy], a as [ax ay], q as [qx qy].
    unfold ecross. unf. lia.
Qed.

Theorem signed_area_shoelace_lemma : forall poly, signed_area2 poly = shoelace2 poly.
Proof.
  intros poly. unfold signed_area2, shoelace2. fold ecross.
  destruct poly as [|v0 [|p1 [|p2 rest]]].
  - reflexivity.
  - cbn. destruct v0 as [x y]. unfold ecross. unf. lia.
  - cbn. destruct v0 as [x y], p1 as [x1 y1]. unfold ecross. unf. lia.
  - change (length (v0 :: p1 :: p2 :: rest) <? 3)%nat with false. cbv iota.
    rewrite fan_loop_spec, closed_edges_cons, map_app, zsum_app.
    cbn [edges_from map zsum]. rewrite (last_cons (p2 :: rest) p1 v0).
    destruct (last (p2 :: rest) p1) as [lx ly]. destruct v0 as [vx vy], p1 as [ax ay].
    unfold ecross. unf. lia.
Qed.

Definition copies_factor (copies : option Z) : Z := match copies with None => 1 | Some c => c end.

(* area = |signed area| * copies (copies = get_count() >= 0, or 1 without repetition) *)
Theorem area_lemma : forall poly copies, 0 <= copies_factor copies ->
  area2 poly copies = Z.abs (shoelace2 poly) * copies_factor copies.
Proof.
  intros poly copies Hc. rewrite <- signed_area_shoelace_lemma. unfold area2, signed_area2.
  destruct (length poly <? 3)%nat; [reflexivity|].
  destruct poly as [|v0 [|p1 rest]]; try reflexivity.
  destruct copies as [c|]; cbn [copies_factor] in *.
  - rewrite Z.abs_mul. rewrite (Z.abs_eq c) by exact Hc. reflexivity.
  - lia.
Qed.

Lemma measures_short_lemma : forall poly copies, (length poly < 3)%nat ->
  signed_area2 poly = 0 /\ area2 poly copies = 0 /\ perimeter_edges poly = [].
Proof. intros poly copies H. unfold signed_area2, area2, perimeter_edges.
  apply Nat.ltb_lt in H. rewrite H. repeat split. Qed.

(* ================================================================== perimeter *)
Definition evec (e : pt * pt) : pt := vsub (snd e) (fst e).

Lemma vadd_vsub : forall v q, vadd v (vsub q v) = q.
Proof. intros [vx vy] [qx qy]. unfold vadd, vsub, px, py; cbn [fst snd]. f_equal; lia. Qed.

Lemma perim_loop_spec : forall rest v0, perim_loop v0 rest = map evec (edges_from v0 rest).
Proof. induction rest as [|q tl IH]; intros v0; cbn [perim_loop edges_from map]; [reflexivity|].
  rewrite vadd_vsub, IH. reflexivity. Qed.

(* the vectors whose lengths Polygon::perimeter sums are exactly the closed edges, in order *)
Theorem perimeter_edges_lemma : forall poly, (3 <= length poly)%nat ->
  perimeter_edges poly = edge_vectors poly.
Proof.
  intros poly H. unfold perimeter_edges, edge_vectors. fold evec.
  assert (E : (length poly <? 3)%nat = false) by (apply Nat.ltb_ge; exact H). rewrite E.
  destruct poly as [|v0 rest]; [reflexivity|].
  rewrite closed_edges_cons, map_app, perim_loop_spec, last_cons. reflexivity.
Qed.

Theorem perimeter_short_lemma : forall poly, (length poly < 3)%nat -> perimeter_edges poly = [].
Proof. intros poly H. apply (measures_short_lemma poly None H). Qed.

(* ================================================================== satisfiability / sanity *)
Example contain_correct_instance :
  contain bowtie (3, 2) = true /\ on_boundary bowtie (3, 2) = false /\ wn bowtie (3, 2) = -1.
Proof. repeat split; reflexivity. Qed.
Example group_instance :
  let G := [mkpolygon square []; mkpolygon [] []; mkpolygon bowtie [(0, 0); (10, 0)]] in
  inside [(2, 2); (9, 9); (4, 1)] G = [true; false; true] /\
  all_inside [(2, 2); (4, 1)] G = true /\ any_inside [(9, 9)] G = false /\
  all_inside [] [] = true /\ any_inside [(0, 0)] [] = false.
Proof. repeat split; reflexivity. Qed.
Example measures_instance :
  (3 <= length square)%nat /\ perimeter_edges square = edge_vectors square /\
  area2 square (Some 6) = 32 * 6.
Proof. repeat split; cbn; lia. Qed.

Print Assumptions contain_correct_lemma.
Print Assumptions wn_convention_lemma.
Print Assumptions contain_correct_lo_lemma.
Print Assumptions contain_in_box_lemma.
Print Assumptions inside_in_bbox_lemma.
Print Assumptions contain_all_spec_lemma.
Print Assumptions contain_any_spec_lemma.
Print Assumptions inside_spec_lemma.
Print Assumptions all_inside_spec_lemma.
Print Assumptions any_inside_spec_lemma.
Print Assumptions signed_area_shoelace_lemma.
Print Assumptions area_lemma.
Print Assumptions perimeter_edges_lemma.
Print Assumptions perimeter_short_lemma.
