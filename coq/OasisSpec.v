(* Specification-level model of the OASIS element records (C02 / C04), written from the record
   definitions of the format as gdstk's reader and writer implement them:
     - an abstract layout on the integer grid (no info bytes, no modal variables, no xy-mode),
     - spec_oas_decode : list N -> option layout   (strict: an undefined modal variable, an unknown
       record, a missing table entry or trailing garbage in a record make the file invalid),
     - spec_oas_encode : a choice-driven encoder (explicit field vs modal reuse for every info-byte bit,
       absolute vs relative placement, repetition reuse, record-code and point-list alternatives).
   Definitions only; proofs are in OasisSpecProofs.v.  Integer codecs come from OasisInt.v (C19). *)
Require Import Base OasisInt.
Local Open Scope N_scope.

(* ------------------------------------------------------------------ option monad *)
Definition obnd {A B} (x : option A) (f : A -> option B) : option B :=
  match x with Some a => f a | None => None end.
Notation "'let?' x := c1 'in' c2" := (obnd c1 (fun x => c2))
  (at level 200, x name, c1 at level 100, c2 at level 200, right associativity).
Notation "'let?' ' p := c1 'in' c2" := (obnd c1 (fun x => match x with p => c2 end))
  (at level 200, p pattern, c1 at level 100, c2 at level 200, right associativity).

Definition o2o {A} (x : outcome A) : option A := match x with Ok a => Some a | _ => None end.

Definition pt : Type := (Z * Z)%type.
Definition padd (a b : pt) : pt := ((fst a + fst b)%Z, (snd a + snd b)%Z).

(* ------------------------------------------------------------------ primitive readers / writers *)
Definition rd_byte (bs : list N) : option (N * list N) :=
  match bs with b :: t => Some (b, t) | [] => None end.
Definition rd_uint (bs : list N) : option (N * list N) := o2o (dec_uint bs).
Definition rd_int (bs : list N) : option (Z * list N) := o2o (dec_int bs).
Definition rd_g (bs : list N) : option (pt * list N) :=
  match dec_gdelta bs with Ok (x, y, r) => Some ((x, y), r) | _ => None end.
Definition rd_2d (bs : list N) : option (pt * list N) :=
  match dec_2delta bs with Ok (x, y, r) => Some ((x, y), r) | _ => None end.
Definition rd_3d (bs : list N) : option (pt * list N) :=
  match dec_3delta bs with Ok (x, y, r) => Some ((x, y), r) | _ => None end.
Definition wr_g (p : pt) : list N := enc_gdelta (fst p) (snd p).

(* n items, n bounded by the bytes that are left (every item takes at least one byte) *)
Fixpoint rd_n {A} (rd : list N -> option (A * list N)) (n : nat) (bs : list N) : option (list A * list N) :=
  match n with
  | O => Some ([], bs)
  | S k => let? '(a, bs1) := rd bs in let? '(l, bs2) := rd_n rd k bs1 in Some (a :: l, bs2)
  end.
Definition rd_count {A} (rd : list N -> option (A * list N)) (n : N) (bs : list N) : option (list A * list N) :=
  if N.of_nat (length bs) <? n then None else rd_n rd (N.to_nat n) bs.

Fixpoint take_n (n : nat) (bs : list N) : option (list N * list N) :=
  match n with
  | O => Some ([], bs)
  | S k => match bs with [] => None | b :: t => let? '(l, r) := take_n k t in Some (b :: l, r) end
  end.
Definition rd_bytes (n : N) (bs : list N) : option (list N * list N) :=
  if N.of_nat (length bs) <? n then None else take_n (N.to_nat n) bs.
Definition rd_string (bs : list N) : option (list N * list N) :=
  let? '(n, bs1) := rd_uint bs in rd_bytes n bs1.
Definition wr_string (s : list N) : list N := enc_uint (N.of_nat (length s)) ++ s.

(* ------------------------------------------------------------------ reals, kept as written *)
Inductive real :=
| RInt (neg : bool) (n : N)          (* types 0 1 *)
| RRecip (neg : bool) (n : N)        (* types 2 3 *)
| RRatio (neg : bool) (a b : N)      (* types 4 5 *)
| RF32 (b : list N)                  (* type 6: 4 bytes little endian *)
| RF64 (b : list N).                 (* type 7: 8 bytes *)

Definition rd_real_by (ty : N) (bs : list N) : option (real * list N) :=
  match ty with
  | 0 => let? '(n, r) := rd_uint bs in Some (RInt false n, r)
  | 1 => let? '(n, r) := rd_uint bs in Some (RInt true n, r)
  | 2 => let? '(n, r) := rd_uint bs in Some (RRecip false n, r)
  | 3 => let? '(n, r) := rd_uint bs in Some (RRecip true n, r)
  | 4 => let? '(a, r) := rd_uint bs in let? '(b, r2) := rd_uint r in Some (RRatio false a b, r2)
  | 5 => let? '(a, r) := rd_uint bs in let? '(b, r2) := rd_uint r in Some (RRatio true a b, r2)
  | 6 => let? '(b, r) := take_n 4 bs in Some (RF32 b, r)
  | 7 => let? '(b, r) := take_n 8 bs in Some (RF64 b, r)
  | _ => None
  end.
Definition rd_real (bs : list N) : option (real * list N) :=
  let? '(ty, r) := rd_uint bs in rd_real_by ty r.
Definition wr_real (x : real) : list N :=
  match x with
  | RInt s n => (if s then 1 else 0) :: enc_uint n
  | RRecip s n => (if s then 3 else 2) :: enc_uint n
  | RRatio s a b => (if s then 5 else 4) :: enc_uint a ++ enc_uint b
  | RF32 b => 6 :: b
  | RF64 b => 7 :: b
  end.

(* ------------------------------------------------------------------ names: inline or by reference number *)
Inductive nref := NName (s : list N) | NNum (n : N).

(* ------------------------------------------------------------------ repetitions, as the record types *)
Inductive srep :=
| R_rect (nx ny sx sy : N)            (* 1: (nx+2) x (ny+2) *)
| R_rectx (nx sx : N)                 (* 2 *)
| R_recty (ny sy : N)                 (* 3 *)
| R_xs (g : option N) (xs : list N)   (* 4 / 5 (with grid) : successive x spacings *)
| R_ys (g : option N) (ys : list N)   (* 6 / 7 *)
| R_reg (n m : N) (v1 v2 : pt)        (* 8 *)
| R_lin (n : N) (v : pt)              (* 9 *)
| R_exp (g : option N) (ds : list pt). (* 10 / 11 : successive displacements *)

Definition rd_list_after_count {A} (rd : list N -> option (A * list N)) (with_grid : bool) (bs : list N)
  : option (option N * list A * list N) :=
  let? '(c, bs1) := rd_uint bs in
  let? '(g, bs2) := (if with_grid then let? '(g, r) := rd_uint bs1 in Some (Some g, r) else Some (None, bs1)) in
  let? '(l, bs3) := rd_count rd (c + 1) bs2 in
  Some (g, l, bs3).

(* repetition field: type 0 re-uses the modal repetition *)
Definition rd_rep (mr : option srep) (bs : list N) : option (srep * list N) :=
  let? '(ty, bs) := rd_uint bs in
  match ty with
  | 0 => match mr with Some r => Some (r, bs) | None => None end
  | 1 => let? '(nx, bs) := rd_uint bs in let? '(ny, bs) := rd_uint bs in
         let? '(sx, bs) := rd_uint bs in let? '(sy, bs) := rd_uint bs in Some (R_rect nx ny sx sy, bs)
  | 2 => let? '(nx, bs) := rd_uint bs in let? '(sx, bs) := rd_uint bs in Some (R_rectx nx sx, bs)
  | 3 => let? '(ny, bs) := rd_uint bs in let? '(sy, bs) := rd_uint bs in Some (R_recty ny sy, bs)
  | 4 => let? '(g, l, bs) := rd_list_after_count rd_uint false bs in Some (R_xs g l, bs)
  | 5 => let? '(g, l, bs) := rd_list_after_count rd_uint true bs in Some (R_xs g l, bs)
  | 6 => let? '(g, l, bs) := rd_list_after_count rd_uint false bs in Some (R_ys g l, bs)
  | 7 => let? '(g, l, bs) := rd_list_after_count rd_uint true bs in Some (R_ys g l, bs)
  | 8 => let? '(n, bs) := rd_uint bs in let? '(m, bs) := rd_uint bs in
         let? '(v1, bs) := rd_g bs in let? '(v2, bs) := rd_g bs in Some (R_reg n m v1 v2, bs)
  | 9 => let? '(n, bs) := rd_uint bs in let? '(v, bs) := rd_g bs in Some (R_lin n v, bs)
  | 10 => let? '(g, l, bs) := rd_list_after_count rd_g false bs in Some (R_exp g l, bs)
  | 11 => let? '(g, l, bs) := rd_list_after_count rd_g true bs in Some (R_exp g l, bs)
  | _ => None
  end.

Definition wr_list_after_count {A} (wr : A -> list N) (g : option N) (l : list A) : list N :=
  enc_uint (N.of_nat (length l) - 1) ++ (match g with Some v => enc_uint v | None => [] end) ++ flat_map wr l.
Definition wr_rep (r : srep) : list N :=
  match r with
  | R_rect nx ny sx sy => 1 :: enc_uint nx ++ enc_uint ny ++ enc_uint sx ++ enc_uint sy
  | R_rectx nx sx => 2 :: enc_uint nx ++ enc_uint sx
  | R_recty ny sy => 3 :: enc_uint ny ++ enc_uint sy
  | R_xs g l => (match g with Some _ => 5 | None => 4 end) :: wr_list_after_count enc_uint g l
  | R_ys g l => (match g with Some _ => 7 | None => 6 end) :: wr_list_after_count enc_uint g l
  | R_reg n m v1 v2 => 8 :: enc_uint n ++ enc_uint m ++ wr_g v1 ++ wr_g v2
  | R_lin n v => 9 :: enc_uint n ++ wr_g v
  | R_exp g l => (match g with Some _ => 11 | None => 10 end) :: wr_list_after_count wr_g g l
  end.

(* what a repetition denotes: the offsets of the copies, the original (0,0) included *)
Fixpoint prefix_sums_N (acc : N) (l : list N) : list N :=
  match l with [] => [] | d :: t => (acc + d) :: prefix_sums_N (acc + d) t end.
Fixpoint prefix_sums_pt (acc : pt) (l : list pt) : list pt :=
  match l with [] => [] | d :: t => padd acc d :: prefix_sums_pt (padd acc d) t end.
Definition grid_of (g : option N) : N := match g with Some v => v | None => 1 end.
Fixpoint iota (n : nat) : list Z := match n with O => [] | S k => iota k ++ [Z.of_nat k] end.
Definition lattice (n m : N) (v1 v2 : pt) : list pt :=
  flat_map (fun i => map (fun j => ((i * fst v1 + j * fst v2)%Z, (i * snd v1 + j * snd v2)%Z)) (iota (N.to_nat m)))
           (iota (N.to_nat n)).
Definition rep_offsets (r : srep) : list pt :=
  match r with
  | R_rect nx ny sx sy => lattice (nx + 2) (ny + 2) (Z.of_N sx, 0%Z) (0%Z, Z.of_N sy)
  | R_rectx nx sx => lattice (nx + 2) 1 (Z.of_N sx, 0%Z) (0%Z, 0%Z)
  | R_recty ny sy => lattice 1 (ny + 2) (0%Z, 0%Z) (0%Z, Z.of_N sy)
  | R_xs g l => (0, 0)%Z :: map (fun x => (Z.of_N (grid_of g * x), 0%Z)) (prefix_sums_N 0 l)
  | R_ys g l => (0, 0)%Z :: map (fun y => (0%Z, Z.of_N (grid_of g * y))) (prefix_sums_N 0 l)
  | R_reg n m v1 v2 => lattice (n + 2) (m + 2) v1 v2
  | R_lin n v => lattice (n + 2) 1 v (0, 0)%Z
  | R_exp g l => (0, 0)%Z :: map (fun p => ((Z.of_N (grid_of g) * fst p)%Z, (Z.of_N (grid_of g) * snd p)%Z))
                                 (prefix_sums_pt (0, 0)%Z l)
  end.

(* ------------------------------------------------------------------ point lists: result = vertex offsets after (0,0) *)
Fixpoint manh_accum (horiz : bool) (p : pt) (ds : list Z) : list pt * pt * bool :=
  match ds with
  | [] => ([], p, horiz)
  | d :: t =>
      let q := if horiz then ((fst p + d)%Z, snd p) else (fst p, (snd p + d)%Z) in
      let '(l, last, h) := manh_accum (negb horiz) q t in (q :: l, last, h)
  end.
Fixpoint ddelta_accum (p d : pt) (gs : list pt) : list pt :=
  match gs with
  | [] => []
  | g :: t => let d' := padd d g in let q := padd p d' in q :: ddelta_accum q d' t
  end.
Definition rd_plist (closed : bool) (bs : list N) : option (list pt * list N) :=
  let? '(ty, bs) := rd_uint bs in
  let? '(n, bs) := rd_uint bs in
  match ty with
  | 0 | 1 =>
      let? '(ds, bs) := rd_count rd_int n bs in
      let '(l, last, h) := manh_accum (ty =? 0) (0, 0)%Z ds in
      (* implicit closing vertex of a polygon: back to the start along the remaining axis *)
      Some (if closed then l ++ [if h then (0%Z, snd last) else (fst last, 0%Z)] else l, bs)
  | 2 => let? '(ds, bs) := rd_count rd_2d n bs in Some (prefix_sums_pt (0, 0)%Z ds, bs)
  | 3 => let? '(ds, bs) := rd_count rd_3d n bs in Some (prefix_sums_pt (0, 0)%Z ds, bs)
  | 4 => let? '(ds, bs) := rd_count rd_g n bs in Some (prefix_sums_pt (0, 0)%Z ds, bs)
  | 5 => let? '(ds, bs) := rd_count rd_g n bs in Some (ddelta_accum (0, 0)%Z (0, 0)%Z ds, bs)
  | _ => None
  end.

(* successive differences of a vertex list *)
Fixpoint deltas (p : pt) (l : list pt) : list pt :=
  match l with [] => [] | q :: t => ((fst q - fst p)%Z, (snd q - snd p)%Z) :: deltas q t end.
Definition is_manh (d : pt) : bool := (fst d =? 0)%Z || (snd d =? 0)%Z.
Definition is_oct (d : pt) : bool :=
  (fst d =? 0)%Z || (snd d =? 0)%Z || (fst d =? snd d)%Z || (fst d =? - snd d)%Z.
(* preference: 2 = Manhattan 2-deltas, 3 = octangular, 5 = double deltas, anything else = general;
   a preference the geometry does not allow falls back to the general form (type 4) *)
Definition wr_plist (pref : N) (pts : list pt) : list N :=
  let ds := deltas (0, 0)%Z pts in
  let n := enc_uint (N.of_nat (length pts)) in
  if (pref =? 2) && forallb is_manh ds then 2 :: n ++ flat_map (fun d => enc_2delta (fst d) (snd d)) ds
  else if (pref =? 3) && forallb is_oct ds then 3 :: n ++ flat_map (fun d => enc_3delta (fst d) (snd d)) ds
  else if pref =? 5 then 5 :: n ++ flat_map wr_g (deltas (0, 0)%Z ds)
  else 4 :: n ++ flat_map wr_g ds.

(* ------------------------------------------------------------------ properties *)
Inductive pval :=
| PV_real (r : real) | PV_uint (n : N) | PV_int (z : Z)
| PV_str (kind : N) (s : list N)     (* 10 a-string 11 b-string 12 n-string *)
| PV_ref (kind : N) (n : N).         (* 13 14 15: reference into the PROPSTRING table *)
Record prop := mkProp { p_name : nref; p_std : bool; p_vals : list pval }.

Definition rd_pval (bs : list N) : option (pval * list N) :=
  let? '(ty, bs) := rd_uint bs in
  if ty <? 8 then let? '(r, bs) := rd_real_by ty bs in Some (PV_real r, bs)
  else match ty with
       | 8 => let? '(n, bs) := rd_uint bs in Some (PV_uint n, bs)
       | 9 => let? '(z, bs) := rd_int bs in Some (PV_int z, bs)
       | 10 | 11 | 12 => let? '(s, bs) := rd_string bs in Some (PV_str ty s, bs)
       | 13 | 14 | 15 => let? '(n, bs) := rd_uint bs in Some (PV_ref ty n, bs)
       | _ => None
       end.

(* ------------------------------------------------------------------ elements of the abstract layout *)
Inductive ptrans :=
| PT_quarter (aa : N)                             (* PLACEMENT (17): rotation aa * 90 degrees, magnification 1 *)
| PT_general (mag : option real) (ang : option real). (* PLACEMENT (18): absent = 1 / 0 degrees *)

Inductive element :=
| E_rect (l d w h : N) (x y : Z) (r : option srep)
| E_poly (l d : N) (pts : list pt) (x y : Z) (r : option srep)
| E_path (l d hw : N) (es ee : Z) (pts : list pt) (x y : Z) (r : option srep)
| E_trap (vert : bool) (l d w h : N) (da db : Z) (x y : Z) (r : option srep)
| E_ctrap (l d ty w h : N) (x y : Z) (r : option srep)
| E_circle (l d rad : N) (x y : Z) (r : option srep)
| E_text (s : nref) (l t : N) (x y : Z) (r : option srep)
| E_place (c : nref) (tr : ptrans) (flip : bool) (x y : Z) (r : option srep).

Record cell := mkCell { c_name : nref; c_props : list prop; c_elems : list (element * list prop) }.
Record layout := mkLayout { l_unit : real; l_props : list prop; l_cells : list cell }.

(* ------------------------------------------------------------------ the 26 compact trapezoids (specification table)
   Written by hand from the figure of the CTRAPEZOID record: every vertex is a pair of linear forms
   (cw, ch) |-> cw*w + ch*h for x and for y, relative to the record's (x, y).
   Types 0-7: horizontal trapezoids, each corner of the w x h box either kept or moved inwards by h;
   types 8-15: vertical trapezoids, corners moved inwards by w; 16-19 right triangles with legs w;
   20/21 triangles of base 2h and height h; 22/23 triangles of base 2w (vertical) and width w;
   24 rectangle, 25 square. *)
Definition lf : Type := (Z * Z)%type.               (* cw, ch *)
Definition lfpt : Type := (lf * lf)%type.
Local Open Scope Z_scope.
Definition b2z (b : bool) : Z := if b then 1 else 0.
(* horizontal trapezoid: bottom-left, bottom-right, top-right, top-left pulled in by h *)
Definition htrap (bl br tr tl : bool) : list lfpt :=
  [ ((0, b2z bl), (0, 0)); ((1, - b2z br), (0, 0)); ((1, - b2z tr), (0, 1)); ((0, b2z tl), (0, 1)) ].
(* vertical trapezoid: bottom-left, bottom-right moved up by w, top-right, top-left moved down by w *)
Definition vtrap (bl br tr tl : bool) : list lfpt :=
  [ ((0, 0), (b2z bl, 0)); ((1, 0), (b2z br, 0)); ((1, 0), (- b2z tr, 1)); ((0, 0), (- b2z tl, 1)) ].
Definition spec_ctrap_vertices (ty : N) : list lfpt :=
  match ty with
  | 0%N => htrap false false true false
  | 1%N => htrap false true false false
  | 2%N => htrap false false false true
  | 3%N => htrap true false false false
  | 4%N => htrap false false true true
  | 5%N => htrap true true false false
  | 6%N => htrap false true false true
  | 7%N => htrap true false true false
  | 8%N => vtrap false false true false
  | 9%N => vtrap false false false true
  | 10%N => vtrap false true false false
  | 11%N => vtrap true false false false
  | 12%N => vtrap false true true false
  | 13%N => vtrap true false false true
  | 14%N => vtrap false true false true
  | 15%N => vtrap true false true false
  | 16%N => [ ((0, 0), (0, 0)); ((1, 0), (0, 0)); ((0, 0), (1, 0)) ]
  | 17%N => [ ((0, 0), (0, 0)); ((1, 0), (1, 0)); ((0, 0), (1, 0)) ]
  | 18%N => [ ((0, 0), (0, 0)); ((1, 0), (0, 0)); ((1, 0), (1, 0)) ]
  | 19%N => [ ((1, 0), (0, 0)); ((1, 0), (1, 0)); ((0, 0), (1, 0)) ]
  | 20%N => [ ((0, 0), (0, 0)); ((0, 2), (0, 0)); ((0, 1), (0, 1)) ]
  | 21%N => [ ((0, 1), (0, 0)); ((0, 2), (0, 1)); ((0, 0), (0, 1)) ]
  | 22%N => [ ((0, 0), (0, 0)); ((1, 0), (1, 0)); ((0, 0), (2, 0)) ]
  | 23%N => [ ((1, 0), (0, 0)); ((1, 0), (2, 0)); ((0, 0), (1, 0)) ]
  | 24%N => [ ((0, 0), (0, 0)); ((1, 0), (0, 0)); ((1, 0), (0, 1)); ((0, 0), (0, 1)) ]
  | 25%N => [ ((0, 0), (0, 0)); ((1, 0), (0, 0)); ((1, 0), (1, 0)); ((0, 0), (1, 0)) ]
  | _ => []
  end.
Local Close Scope Z_scope.
Fixpoint n_upto (n : nat) : list N := match n with O => [] | S k => n_upto k ++ [N.of_nat k] end.
Definition spec_ctrap_table : list (N * list lfpt) := map (fun ty => (ty, spec_ctrap_vertices ty)) (n_upto 26).

Definition lf_eval (f : lf) (w h : Z) : Z := (fst f * w + snd f * h)%Z.
Definition lfpt_eval (w h : Z) (p : lfpt) : pt := (lf_eval (fst p) w h, lf_eval (snd p) w h).

(* the dimension a compact trapezoid does not use is defined by the other one (also in the modal variables) *)
Definition ctrap_w (ty w h : N) : N := if (ty =? 20) || (ty =? 21) then 2 * h else w.
Definition ctrap_h (ty w h : N) : N :=
  if (16 <=? ty) && (ty <=? 19) || (ty =? 25) then w
  else if (ty =? 22) || (ty =? 23) then 2 * w else h.

(* which dimensions a compact trapezoid takes from the record / the modal variables *)
Definition ctrap_uses_w (ty : N) : bool := negb ((ty =? 20) || (ty =? 21)).
Definition ctrap_uses_h (ty : N) : bool := (ty <? 16) || (ty =? 20) || (ty =? 21) || (ty =? 24).

(* vertices an element denotes (absolute grid coordinates); paths, texts, placements have none here *)
Definition trap_points (vert : bool) (w h : Z) (da db : Z) : list pt :=
  let lo a := if (a <? 0)%Z then (- a)%Z else 0%Z in   (* inset of the near end *)
  let hi a := if (a <? 0)%Z then 0%Z else a in
  if vert then
    (* r s q p of the reader: right-bottom, right-top, left-top, left-bottom *)
    [ (w, lo da); (w, (h - hi db)%Z); (0%Z, (h - lo db)%Z); (0%Z, hi da) ]
  else
    [ (lo da, 0%Z); ((w - hi db)%Z, 0%Z); ((w - lo db)%Z, h); (hi da, h) ].
Definition elem_points (e : element) : list pt :=
  match e with
  | E_rect _ _ w h x y _ =>
      map (padd (x, y)) [ (0, 0)%Z; (Z.of_N w, 0%Z); (Z.of_N w, Z.of_N h); (0%Z, Z.of_N h) ]
  | E_poly _ _ pts x y _ => map (padd (x, y)) ((0, 0)%Z :: pts)
  | E_trap vert _ _ w h da db x y _ => map (padd (x, y)) (trap_points vert (Z.of_N w) (Z.of_N h) da db)
  | E_ctrap _ _ ty w h x y _ =>
      map (fun p => padd (x, y) (lfpt_eval (Z.of_N w) (Z.of_N h) p)) (spec_ctrap_vertices ty)
  | E_path _ _ _ _ _ pts x y _ => map (padd (x, y)) ((0, 0)%Z :: pts)
  | _ => []
  end.

(* ------------------------------------------------------------------ modal variables *)
Record mgeom := mkG {
  g_layer : option N; g_dtype : option N; g_x : Z; g_y : Z; g_w : option N; g_h : option N;
  g_poly : option (list pt); g_path : option (list pt); g_hw : option N;
  g_exs : option Z; g_exe : option Z; g_ctype : option N; g_rad : option N }.
Record mtext := mkT { t_str : option nref; t_layer : option N; t_type : option N; t_x : Z; t_y : Z }.
Record mplace := mkP { p_cell : option nref; p_x : Z; p_y : Z }.
Record modal := mkM {
  m_abs : bool; m_rep : option srep; m_g : mgeom; m_t : mtext; m_p : mplace;
  m_pname : option (nref * bool); m_pvals : option (list pval) }.

Definition g0 : mgeom := mkG None None 0 0 None None None None None None None None None.
Definition modal0 : modal := mkM true None g0 (mkT None None None 0 0) (mkP None 0 0) None None.
(* CELL: every modal variable becomes undefined, positions return to 0, xy-mode to absolute *)
Definition modal_at_cell (m : modal) : modal := modal0.

Definition bit (info i : N) : bool := N.testbit info i.
Definition mkinfo (b7 b6 b5 b4 b3 b2 b1 b0 : bool) : N :=
  (if b7 then 128 else 0) + (if b6 then 64 else 0) + (if b5 then 32 else 0) + (if b4 then 16 else 0) +
  (if b3 then 8 else 0) + (if b2 then 4 else 0) + (if b1 then 2 else 0) + (if b0 then 1 else 0).

(* a field: read when its bit is set, else the modal variable, which must be defined *)
Definition fld {A} (b : bool) (rd : list N -> option (A * list N)) (mv : option A) (bs : list N)
  : option (A * list N) :=
  if b then rd bs else match mv with Some v => Some (v, bs) | None => None end.
Definition pos_fld (b absolute : bool) (mv : Z) (bs : list N) : option (Z * list N) :=
  if b then let? '(d, r) := rd_int bs in Some (if absolute then d else (mv + d)%Z, r) else Some (mv, bs).
(* repetition field: returns the element's repetition and the new modal repetition *)
Definition rep_fld (b : bool) (mr : option srep) (bs : list N) : option (option srep * option srep * list N) :=
  if b then let? '(r, bs1) := rd_rep mr bs in Some (Some r, Some r, bs1) else Some (None, mr, bs).

Definition set_g (m : modal) (g : mgeom) (r : option srep) : modal :=
  mkM (m_abs m) r g (m_t m) (m_p m) (m_pname m) (m_pvals m).

(* a dimension of a compact trapezoid: read when its bit is set; otherwise the modal variable, which has to be
   defined only when the type uses that dimension *)
Definition dim_fld (b uses : bool) (mv : option N) (bs : list N) : option (N * list N) :=
  if b then rd_uint bs else if uses then match mv with Some v => Some (v, bs) | None => None end else Some (0, bs).

(* ------------------------------------------------------------------ record decoders (after the record byte) *)
Definition dec_rectangle (m : modal) (bs : list N) : option (element * modal * list N) :=
  let g := m_g m in
  let? '(info, bs) := rd_byte bs in
  let? '(l, bs) := fld (bit info 0) rd_uint (g_layer g) bs in
  let? '(d, bs) := fld (bit info 1) rd_uint (g_dtype g) bs in
  let? '(w, bs) := fld (bit info 6) rd_uint (g_w g) bs in
  if bit info 7 && bit info 5 then None else
  let? '(h, bs) := (if bit info 7 then Some (w, bs) else fld (bit info 5) rd_uint (g_h g) bs) in
  let? '(x, bs) := pos_fld (bit info 4) (m_abs m) (g_x g) bs in
  let? '(y, bs) := pos_fld (bit info 3) (m_abs m) (g_y g) bs in
  let? '(r, mr, bs) := rep_fld (bit info 2) (m_rep m) bs in
  Some (E_rect l d w h x y r,
        set_g m (mkG (Some l) (Some d) x y (Some w) (Some h) (g_poly g) (g_path g) (g_hw g) (g_exs g) (g_exe g)
                     (g_ctype g) (g_rad g)) mr, bs).

Definition dec_polygon (m : modal) (bs : list N) : option (element * modal * list N) :=
  let g := m_g m in
  let? '(info, bs) := rd_byte bs in
  if bit info 7 || bit info 6 then None else
  let? '(l, bs) := fld (bit info 0) rd_uint (g_layer g) bs in
  let? '(d, bs) := fld (bit info 1) rd_uint (g_dtype g) bs in
  let? '(pts, bs) := fld (bit info 5) (rd_plist true) (g_poly g) bs in
  let? '(x, bs) := pos_fld (bit info 4) (m_abs m) (g_x g) bs in
  let? '(y, bs) := pos_fld (bit info 3) (m_abs m) (g_y g) bs in
  let? '(r, mr, bs) := rep_fld (bit info 2) (m_rep m) bs in
  Some (E_poly l d pts x y r,
        set_g m (mkG (Some l) (Some d) x y (g_w g) (g_h g) (Some pts) (g_path g) (g_hw g) (g_exs g) (g_exe g)
                     (g_ctype g) (g_rad g)) mr, bs).

(* one half of the extension scheme: 0 modal, 1 flush, 2 half width, 3 explicit *)
Definition ext_fld (code : N) (hw : N) (mv : option Z) (bs : list N) : option (Z * list N) :=
  match code with
  | 0 => match mv with Some v => Some (v, bs) | None => None end
  | 1 => Some (0%Z, bs)
  | 2 => Some (Z.of_N hw, bs)
  | _ => rd_int bs
  end.
Definition dec_path (m : modal) (bs : list N) : option (element * modal * list N) :=
  let g := m_g m in
  let? '(info, bs) := rd_byte bs in
  let? '(l, bs) := fld (bit info 0) rd_uint (g_layer g) bs in
  let? '(d, bs) := fld (bit info 1) rd_uint (g_dtype g) bs in
  let? '(hw, bs) := fld (bit info 6) rd_uint (g_hw g) bs in
  let? '(es, ee, bs) :=
    (if bit info 7 then
       let? '(sch, bs) := rd_uint bs in
       if 16 <=? sch then None else
       let? '(es, bs) := ext_fld (N.land (N.shiftr sch 2) 3) hw (g_exs g) bs in
       let? '(ee, bs) := ext_fld (N.land sch 3) hw (g_exe g) bs in
       Some (es, ee, bs)
     else match g_exs g, g_exe g with Some a, Some b => Some (a, b, bs) | _, _ => None end) in
  let? '(pts, bs) := fld (bit info 5) (rd_plist false) (g_path g) bs in
  let? '(x, bs) := pos_fld (bit info 4) (m_abs m) (g_x g) bs in
  let? '(y, bs) := pos_fld (bit info 3) (m_abs m) (g_y g) bs in
  let? '(r, mr, bs) := rep_fld (bit info 2) (m_rep m) bs in
  Some (E_path l d hw es ee pts x y r,
        set_g m (mkG (Some l) (Some d) x y (g_w g) (g_h g) (g_poly g) (Some pts) (Some hw) (Some es) (Some ee)
                     (g_ctype g) (g_rad g)) mr, bs).

(* code: 23 both deltas, 24 delta-a only, 25 delta-b only *)
Definition dec_trapezoid (code : N) (m : modal) (bs : list N) : option (element * modal * list N) :=
  let g := m_g m in
  let? '(info, bs) := rd_byte bs in
  let? '(l, bs) := fld (bit info 0) rd_uint (g_layer g) bs in
  let? '(d, bs) := fld (bit info 1) rd_uint (g_dtype g) bs in
  let? '(w, bs) := fld (bit info 6) rd_uint (g_w g) bs in
  let? '(h, bs) := fld (bit info 5) rd_uint (g_h g) bs in
  let? '(da, bs) := (if code =? 25 then Some (0%Z, bs) else rd_int bs) in
  let? '(db, bs) := (if code =? 24 then Some (0%Z, bs) else rd_int bs) in
  let? '(x, bs) := pos_fld (bit info 4) (m_abs m) (g_x g) bs in
  let? '(y, bs) := pos_fld (bit info 3) (m_abs m) (g_y g) bs in
  let? '(r, mr, bs) := rep_fld (bit info 2) (m_rep m) bs in
  Some (E_trap (bit info 7) l d w h da db x y r,
        set_g m (mkG (Some l) (Some d) x y (Some w) (Some h) (g_poly g) (g_path g) (g_hw g) (g_exs g) (g_exe g)
                     (g_ctype g) (g_rad g)) mr, bs).

Definition dec_ctrapezoid (m : modal) (bs : list N) : option (element * modal * list N) :=
  let g := m_g m in
  let? '(info, bs) := rd_byte bs in
  let? '(l, bs) := fld (bit info 0) rd_uint (g_layer g) bs in
  let? '(d, bs) := fld (bit info 1) rd_uint (g_dtype g) bs in
  let? '(ty, bs) := fld (bit info 7) rd_uint (g_ctype g) bs in
  if 26 <=? ty then None else
  let? '(w0, bs) := dim_fld (bit info 6) (ctrap_uses_w ty) (g_w g) bs in
  let? '(h0, bs) := dim_fld (bit info 5) (ctrap_uses_h ty) (g_h g) bs in
  let w := ctrap_w ty w0 h0 in let h := ctrap_h ty w0 h0 in
  let? '(x, bs) := pos_fld (bit info 4) (m_abs m) (g_x g) bs in
  let? '(y, bs) := pos_fld (bit info 3) (m_abs m) (g_y g) bs in
  let? '(r, mr, bs) := rep_fld (bit info 2) (m_rep m) bs in
  Some (E_ctrap l d ty w h x y r,
        set_g m (mkG (Some l) (Some d) x y (Some w) (Some h) (g_poly g) (g_path g)
                     (g_hw g) (g_exs g) (g_exe g) (Some ty) (g_rad g)) mr, bs).

Definition dec_circle (m : modal) (bs : list N) : option (element * modal * list N) :=
  let g := m_g m in
  let? '(info, bs) := rd_byte bs in
  if bit info 7 || bit info 6 then None else
  let? '(l, bs) := fld (bit info 0) rd_uint (g_layer g) bs in
  let? '(d, bs) := fld (bit info 1) rd_uint (g_dtype g) bs in
  let? '(rad, bs) := fld (bit info 5) rd_uint (g_rad g) bs in
  let? '(x, bs) := pos_fld (bit info 4) (m_abs m) (g_x g) bs in
  let? '(y, bs) := pos_fld (bit info 3) (m_abs m) (g_y g) bs in
  let? '(r, mr, bs) := rep_fld (bit info 2) (m_rep m) bs in
  Some (E_circle l d rad x y r,
        set_g m (mkG (Some l) (Some d) x y (g_w g) (g_h g) (g_poly g) (g_path g) (g_hw g) (g_exs g) (g_exe g)
                     (g_ctype g) (Some rad)) mr, bs).

Definition rd_nref (by_number : bool) (bs : list N) : option (nref * list N) :=
  if by_number then let? '(n, r) := rd_uint bs in Some (NNum n, r)
  else let? '(s, r) := rd_string bs in Some (NName s, r).

Definition dec_text (m : modal) (bs : list N) : option (element * modal * list N) :=
  let t := m_t m in
  let? '(info, bs) := rd_byte bs in
  if bit info 7 then None else
  let? '(s, bs) := fld (bit info 6) (rd_nref (bit info 5)) (t_str t) bs in
  let? '(l, bs) := fld (bit info 0) rd_uint (t_layer t) bs in
  let? '(ty, bs) := fld (bit info 1) rd_uint (t_type t) bs in
  let? '(x, bs) := pos_fld (bit info 4) (m_abs m) (t_x t) bs in
  let? '(y, bs) := pos_fld (bit info 3) (m_abs m) (t_y t) bs in
  let? '(r, mr, bs) := rep_fld (bit info 2) (m_rep m) bs in
  Some (E_text s l ty x y r,
        mkM (m_abs m) mr (m_g m) (mkT (Some s) (Some l) (Some ty) x y) (m_p m) (m_pname m) (m_pvals m), bs).

Definition dec_placement (code : N) (m : modal) (bs : list N) : option (element * modal * list N) :=
  let p := m_p m in
  let? '(info, bs) := rd_byte bs in
  let? '(c, bs) := fld (bit info 7) (rd_nref (bit info 6)) (p_cell p) bs in
  let? '(tr, bs) :=
    (if code =? 17 then Some (PT_quarter (N.land (N.shiftr info 1) 3), bs)
     else
       let? '(mag, bs) := (if bit info 2 then let? '(v, r) := rd_real bs in Some (Some v, r) else Some (None, bs)) in
       let? '(ang, bs) := (if bit info 1 then let? '(v, r) := rd_real bs in Some (Some v, r) else Some (None, bs)) in
       Some (PT_general mag ang, bs)) in
  let? '(x, bs) := pos_fld (bit info 5) (m_abs m) (p_x p) bs in
  let? '(y, bs) := pos_fld (bit info 4) (m_abs m) (p_y p) bs in
  let? '(r, mr, bs) := rep_fld (bit info 3) (m_rep m) bs in
  Some (E_place c tr (bit info 0) x y r,
        mkM (m_abs m) mr (m_g m) (m_t m) (mkP (Some c) x y) (m_pname m) (m_pvals m), bs).

(* PROPERTY (28) / LAST_PROPERTY (29) *)
Definition dec_property (code : N) (m : modal) (bs : list N) : option (prop * modal * list N) :=
  if code =? 29 then
    match m_pname m, m_pvals m with
    | Some (n, s), Some vs => Some (mkProp n s vs, m, bs)
    | _, _ => None
    end
  else
    let? '(info, bs) := rd_byte bs in
    let? '(nm, bs) :=
      (if bit info 2 then let? '(n, r) := rd_nref (bit info 1) bs in Some ((n, bit info 0), r)
       else match m_pname m with Some v => Some (v, bs) | None => None end) in
    let? '(vs, bs) :=
      (if bit info 3 then
         if 0 <? N.shiftr info 4 then None
         else match m_pvals m with Some v => Some (v, bs) | None => None end
       else
         let u := N.shiftr info 4 in
         let? '(cnt, bs) := (if u =? 15 then rd_uint bs else Some (u, bs)) in
         rd_count rd_pval cnt bs) in
    Some (mkProp (fst nm) (snd nm) vs,
          mkM (m_abs m) (m_rep m) (m_g m) (m_t m) (m_p m) (Some nm) (Some vs), bs).

(* ------------------------------------------------------------------ file level: tables, cells, the record loop *)
Definition table := list (N * list N).
Fixpoint lookup (t : table) (k : N) : option (list N) :=
  match t with [] => None | (k', v) :: r => if k' =? k then Some v else lookup r k end.

(* what the properties that follow attach to *)
Inductive ptarget := T_lib | T_cell | T_elem | T_cellname (n : N) | T_other.

Record dstate := mkD {
  d_modal : modal;
  d_unit : real;
  d_lprops : list prop;                     (* reversed *)
  d_cells : list cell;                      (* reversed; element and property lists reversed too *)
  d_target : ptarget;
  d_cellnames : table; d_cn_next : N; d_cn_props : list (N * prop);   (* props reversed *)
  d_textstrings : table; d_ts_next : N;
  d_propnames : table; d_pn_next : N;
  d_propstrings : table; d_ps_next : N;
  d_table_mode : N * N * N * N              (* per table: 0 unused 1 implicit 2 explicit numbering *)
}.

Definition upd_modal (d : dstate) (m : modal) (tg : ptarget) : dstate :=
  mkD m (d_unit d) (d_lprops d) (d_cells d) tg (d_cellnames d) (d_cn_next d) (d_cn_props d)
      (d_textstrings d) (d_ts_next d) (d_propnames d) (d_pn_next d) (d_propstrings d) (d_ps_next d) (d_table_mode d).
Definition upd_cells (d : dstate) (m : modal) (cs : list cell) (tg : ptarget) : dstate :=
  mkD m (d_unit d) (d_lprops d) cs tg (d_cellnames d) (d_cn_next d) (d_cn_props d)
      (d_textstrings d) (d_ts_next d) (d_propnames d) (d_pn_next d) (d_propstrings d) (d_ps_next d) (d_table_mode d).

Definition add_elem (d : dstate) (e : element) (m : modal) : option dstate :=
  match d_cells d with
  | [] => None                             (* an element before the first CELL *)
  | c :: cs => Some (upd_cells d m (mkCell (c_name c) (c_props c) ((e, []) :: c_elems c) :: cs) T_elem)
  end.

Definition add_prop (d : dstate) (p : prop) (m : modal) : option dstate :=
  match d_target d with
  | T_lib => Some (mkD m (d_unit d) (p :: d_lprops d) (d_cells d) T_lib (d_cellnames d) (d_cn_next d) (d_cn_props d)
                       (d_textstrings d) (d_ts_next d) (d_propnames d) (d_pn_next d) (d_propstrings d) (d_ps_next d)
                       (d_table_mode d))
  | T_cell =>
      match d_cells d with
      | c :: cs => Some (upd_cells d m (mkCell (c_name c) (p :: c_props c) (c_elems c) :: cs) T_cell)
      | [] => None
      end
  | T_elem =>
      match d_cells d with
      | c :: cs =>
          match c_elems c with
          | (e, ps) :: es => Some (upd_cells d m (mkCell (c_name c) (c_props c) ((e, p :: ps) :: es) :: cs) T_elem)
          | [] => None
          end
      | [] => None
      end
  | T_cellname n =>
      Some (mkD m (d_unit d) (d_lprops d) (d_cells d) (T_cellname n) (d_cellnames d) (d_cn_next d)
                ((n, p) :: d_cn_props d) (d_textstrings d) (d_ts_next d) (d_propnames d) (d_pn_next d)
                (d_propstrings d) (d_ps_next d) (d_table_mode d))
  | T_other => Some (upd_modal d m T_other)   (* properties of text strings, property names ...: not part of the layout *)
  end.

(* name records: which = 0 cell names, 1 text strings, 2 property names, 3 property strings *)
Definition mode_get (md : N * N * N * N) (which : N) : N :=
  let '(a, b, c, e) := md in match which with 0 => a | 1 => b | 2 => c | _ => e end.
Definition mode_set (md : N * N * N * N) (which v : N) : N * N * N * N :=
  let '(a, b, c, e) := md in
  match which with 0 => (v, b, c, e) | 1 => (a, v, c, e) | 2 => (a, b, v, e) | _ => (a, b, c, v) end.
Definition add_name (d : dstate) (which : N) (explicit : bool) (bs : list N) : option (dstate * list N) :=
  let? '(s, bs) := rd_string bs in
  let want := if explicit then 2 else 1 in
  let cur := mode_get (d_table_mode d) which in
  if negb ((cur =? 0) || (cur =? want)) then None else     (* implicit and explicit numbering must not be mixed *)
  let md := mode_set (d_table_mode d) which want in
  let next := match which with 0 => d_cn_next d | 1 => d_ts_next d | 2 => d_pn_next d | _ => d_ps_next d end in
  let? '(k, bs) := (if explicit then rd_uint bs else Some (next, bs)) in
  let tab := match which with 0 => d_cellnames d | 1 => d_textstrings d | 2 => d_propnames d | _ => d_propstrings d end in
  match lookup tab k with
  | Some _ => None                                          (* a reference number is defined once *)
  | None =>
      let m := d_modal d in
      Some (match which with
            | 0 => mkD m (d_unit d) (d_lprops d) (d_cells d) (T_cellname k) ((k, s) :: d_cellnames d) (next + 1)
                       (d_cn_props d) (d_textstrings d) (d_ts_next d) (d_propnames d) (d_pn_next d)
                       (d_propstrings d) (d_ps_next d) md
            | 1 => mkD m (d_unit d) (d_lprops d) (d_cells d) T_other (d_cellnames d) (d_cn_next d) (d_cn_props d)
                       ((k, s) :: d_textstrings d) (next + 1) (d_propnames d) (d_pn_next d)
                       (d_propstrings d) (d_ps_next d) md
            | 2 => mkD m (d_unit d) (d_lprops d) (d_cells d) T_other (d_cellnames d) (d_cn_next d) (d_cn_props d)
                       (d_textstrings d) (d_ts_next d) ((k, s) :: d_propnames d) (next + 1)
                       (d_propstrings d) (d_ps_next d) md
            | _ => mkD m (d_unit d) (d_lprops d) (d_cells d) T_other (d_cellnames d) (d_cn_next d) (d_cn_props d)
                       (d_textstrings d) (d_ts_next d) (d_propnames d) (d_pn_next d)
                       ((k, s) :: d_propstrings d) (next + 1) md
            end, bs)
  end.

(* LAYERNAME (11, 12): name string and two intervals, parsed and dropped *)
Definition skip_interval (bs : list N) : option (list N) :=
  let? '(ty, bs) := rd_uint bs in
  match ty with
  | 0 => Some bs
  | 1 | 2 | 3 => let? '(_, bs) := rd_uint bs in Some bs
  | 4 => let? '(_, bs) := rd_uint bs in let? '(_, bs) := rd_uint bs in Some bs
  | _ => None
  end.

(* ---- resolution of reference numbers at END *)
Definition resolve_nref (t : table) (r : nref) : option nref :=
  match r with
  | NName s => Some (NName s)
  | NNum n => match lookup t n with Some s => Some (NName s) | None => None end
  end.
Fixpoint omap {A B} (f : A -> option B) (l : list A) : option (list B) :=
  match l with
  | [] => Some []
  | a :: t => let? b := f a in let? r := omap f t in Some (b :: r)
  end.
Definition resolve_pval (ps : table) (v : pval) : option pval :=
  match v with
  | PV_ref k n => match lookup ps n with Some s => Some (PV_str (k - 3) s) | None => None end
  | _ => Some v
  end.
Definition resolve_prop (pn ps : table) (p : prop) : option prop :=
  let? n := resolve_nref pn (p_name p) in
  let? vs := omap (resolve_pval ps) (p_vals p) in
  Some (mkProp n (p_std p) vs).
Definition resolve_elem (cn ts : table) (e : element) : option element :=
  match e with
  | E_text s l t x y r => let? s' := resolve_nref ts s in Some (E_text s' l t x y r)
  | E_place c tr f x y r => let? c' := resolve_nref cn c in Some (E_place c' tr f x y r)
  | _ => Some e
  end.
Definition cn_props_of (l : list (N * prop)) (k : N) : list prop :=
  map snd (filter (fun kp => fst kp =? k) l).
Definition resolve_cell (d : dstate) (c : cell) : option cell :=
  let? nm := resolve_nref (d_cellnames d) (c_name c) in
  let? own := omap (resolve_prop (d_propnames d) (d_propstrings d)) (rev (c_props c)) in
  (* properties given with the CELLNAME record come first *)
  let? tabp := (match c_name c with
                | NNum k => omap (resolve_prop (d_propnames d) (d_propstrings d)) (rev (cn_props_of (d_cn_props d) k))
                | NName _ => Some []
                end) in
  let? es := omap (fun ep =>
                     let? e := resolve_elem (d_cellnames d) (d_textstrings d) (fst ep) in
                     let? ps := omap (resolve_prop (d_propnames d) (d_propstrings d)) (rev (snd ep)) in
                     Some (e, ps)) (rev (c_elems c)) in
  Some (mkCell nm (tabp ++ own) es).
Definition finalize (d : dstate) : option layout :=
  let? lp := omap (resolve_prop (d_propnames d) (d_propstrings d)) (rev (d_lprops d)) in
  let? cs := omap (resolve_cell d) (rev (d_cells d)) in
  Some (mkLayout (d_unit d) lp cs).

(* END: 255 bytes follow the record byte (table offsets when START did not carry them, padding string,
   validation scheme and signature) and the file ends there *)
Definition end_ok (offsets_in_start : bool) (bs : list N) : bool :=
  (length bs =? 255)%nat &&
  match (if offsets_in_start then Some ([], bs) else rd_count rd_uint 12 bs) with
  | None => false
  | Some (_, bs1) =>
      match rd_string bs1 with
      | None => false
      | Some (_, bs2) =>
          match rd_uint bs2 with
          | Some (0, []) => true
          | Some (1, [_; _; _; _]) => true
          | Some (2, [_; _; _; _]) => true
          | _ => false
          end
      end
  end.

Inductive step_result := Done (l : layout) | Cont (d : dstate) (bs : list N).

Definition elem_step (d : dstate) (r : option (element * modal * list N)) : option step_result :=
  let? '(e, m, bs) := r in let? d' := add_elem d e m in Some (Cont d' bs).

Definition dec_record (offsets_in_start : bool) (d : dstate) (bs : list N) : option step_result :=
  let m := d_modal d in
  let? '(id, bs) := rd_uint bs in
  match id with
  | 0 => Some (Cont d bs)                                             (* PAD *)
  | 2 => if end_ok offsets_in_start bs then let? l := finalize d in Some (Done l) else None
  | 3 => let? '(d', bs) := add_name d 0 false bs in Some (Cont d' bs)
  | 4 => let? '(d', bs) := add_name d 0 true bs in Some (Cont d' bs)
  | 5 => let? '(d', bs) := add_name d 1 false bs in Some (Cont d' bs)
  | 6 => let? '(d', bs) := add_name d 1 true bs in Some (Cont d' bs)
  | 7 => let? '(d', bs) := add_name d 2 false bs in Some (Cont d' bs)
  | 8 => let? '(d', bs) := add_name d 2 true bs in Some (Cont d' bs)
  | 9 => let? '(d', bs) := add_name d 3 false bs in Some (Cont d' bs)
  | 10 => let? '(d', bs) := add_name d 3 true bs in Some (Cont d' bs)
  | 11 | 12 =>
      let? '(_, bs) := rd_string bs in let? bs := skip_interval bs in let? bs := skip_interval bs in
      Some (Cont (upd_modal d m T_other) bs)
  | 13 => let? '(n, bs) := rd_uint bs in
          Some (Cont (upd_cells d (modal_at_cell m) (mkCell (NNum n) [] [] :: d_cells d) T_cell) bs)
  | 14 => let? '(s, bs) := rd_string bs in
          Some (Cont (upd_cells d (modal_at_cell m) (mkCell (NName s) [] [] :: d_cells d) T_cell) bs)
  | 15 => Some (Cont (upd_modal d (mkM true (m_rep m) (m_g m) (m_t m) (m_p m) (m_pname m) (m_pvals m)) (d_target d)) bs)
  | 16 => Some (Cont (upd_modal d (mkM false (m_rep m) (m_g m) (m_t m) (m_p m) (m_pname m) (m_pvals m)) (d_target d)) bs)
  | 17 | 18 => elem_step d (dec_placement id m bs)
  | 19 => elem_step d (dec_text m bs)
  | 20 => elem_step d (dec_rectangle m bs)
  | 21 => elem_step d (dec_polygon m bs)
  | 22 => elem_step d (dec_path m bs)
  | 23 | 24 | 25 => elem_step d (dec_trapezoid id m bs)
  | 26 => elem_step d (dec_ctrapezoid m bs)
  | 27 => elem_step d (dec_circle m bs)
  | 28 | 29 => let? '(p, m', bs) := dec_property id m bs in let? d' := add_prop d p m' in Some (Cont d' bs)
  | _ => None                                                         (* XNAME, XELEMENT, XGEOMETRY, CBLOCK, unknown *)
  end.

Fixpoint dec_loop (fuel : nat) (ois : bool) (d : dstate) (bs : list N) : option layout :=
  match fuel with
  | O => None
  | S f =>
      match dec_record ois d bs with
      | None => None
      | Some (Done l) => Some l
      | Some (Cont d' bs') => dec_loop f ois d' bs'
      end
  end.

Definition magic : list N := [37; 83; 69; 77; 73; 45; 79; 65; 83; 73; 83; 13; 10].   (* %SEMI-OASIS\r\n *)
Definition version_1_0 : list N := [49; 46; 48].

Fixpoint strip_prefix (p bs : list N) : option (list N) :=
  match p with
  | [] => Some bs
  | a :: p' => match bs with b :: t => if a =? b then strip_prefix p' t else None | [] => None end
  end.

Definition d_init (u : real) : dstate :=
  mkD modal0 u [] [] T_lib [] 0 [] [] 0 [] 0 [] 0 (0, 0, 0, 0).

Definition spec_oas_decode (bs : list N) : option layout :=
  let? bs := strip_prefix magic bs in
  let? '(id, bs) := rd_uint bs in
  if negb (id =? 1) then None else
  let? '(v, bs) := rd_string bs in
  let? _ := strip_prefix version_1_0 v in
  if negb (length v =? 3)%nat then None else
  let? '(u, bs) := rd_real bs in
  let? '(flag, bs) := rd_uint bs in
  if 1 <? flag then None else
  let? '(_, bs) := (if flag =? 0 then rd_count rd_uint 12 bs else Some ([], bs)) in
  dec_loop (S (length bs)) (flag =? 0) (d_init u) bs.

(* ================================================================== encoder *)
(* choices for one element *)
Record choice := mkChoice {
  c_rel : bool;        (* ask for relative xy-mode *)
  c_reuse : N;         (* bit i set: re-use the modal variable of info-byte bit i when it holds the value *)
  c_alt : bool;        (* use the shorter alternative form when the geometry allows it: square bit,
                          one-delta trapezoid codes, flush / half-width extension codes *)
  c_plist : N;         (* point-list preference (see wr_plist) *)
  c_rep0 : bool }.     (* repetition type 0 when the modal repetition is the same *)

Definition N_eq_dec_b (a b : N) : bool := a =? b.
Definition Z_eqb (a b : Z) : bool := (a =? b)%Z.
Definition pt_eqb (a b : pt) : bool := (fst a =? fst b)%Z && (snd a =? snd b)%Z.
Fixpoint list_eqb {A} (eqb : A -> A -> bool) (a b : list A) : bool :=
  match a, b with
  | [], [] => true
  | x :: a', y :: b' => eqb x y && list_eqb eqb a' b'
  | _, _ => false
  end.
Definition optN_eqb (a b : option N) : bool :=
  match a, b with Some x, Some y => x =? y | None, None => true | _, _ => false end.
Definition srep_eqb (a b : srep) : bool :=
  match a, b with
  | R_rect a1 a2 a3 a4, R_rect b1 b2 b3 b4 => (a1 =? b1) && (a2 =? b2) && (a3 =? b3) && (a4 =? b4)
  | R_rectx a1 a2, R_rectx b1 b2 => (a1 =? b1) && (a2 =? b2)
  | R_recty a1 a2, R_recty b1 b2 => (a1 =? b1) && (a2 =? b2)
  | R_xs g l, R_xs g' l' => optN_eqb g g' && list_eqb N.eqb l l'
  | R_ys g l, R_ys g' l' => optN_eqb g g' && list_eqb N.eqb l l'
  | R_reg a1 a2 v1 v2, R_reg b1 b2 w1 w2 => (a1 =? b1) && (a2 =? b2) && pt_eqb v1 w1 && pt_eqb v2 w2
  | R_lin a1 v, R_lin b1 w => (a1 =? b1) && pt_eqb v w
  | R_exp g l, R_exp g' l' => optN_eqb g g' && list_eqb pt_eqb l l'
  | _, _ => false
  end.
Definition nref_eqb (a b : nref) : bool :=
  match a, b with
  | NName s, NName t => list_eqb N.eqb s t
  | NNum n, NNum k => n =? k
  | _, _ => false
  end.

(* a field on the writer side: (info bit, bytes) *)
Definition efld {A} (eqb : A -> A -> bool) (want : bool) (mv : option A) (v : A) (wr : A -> list N) : bool * list N :=
  let reuse := want && match mv with Some u => eqb u v | None => false end in
  (negb reuse, if reuse then [] else wr v).
Definition fits63b (z : Z) : bool := (- 9223372036854775808 <? z)%Z && (z <? 9223372036854775808)%Z.
Definition epos (want absolute : bool) (mv v : Z) : bool * list N :=
  let reuse := want && (mv =? v)%Z in
  (negb reuse, if reuse then [] else enc_int (if absolute then v else (v - mv)%Z)).
Definition erep (c : choice) (mr : option srep) (r : option srep) : bool * list N :=
  match r with
  | None => (false, [])
  | Some rp =>
      (true, if c_rep0 c && match mr with Some q => srep_eqb q rp | None => false end then [0] else wr_rep rp)
  end.
Definition new_rep (mr r : option srep) : option srep := match r with Some _ => r | None => mr end.

Definition wr_nref (r : nref) : list N := match r with NName s => wr_string s | NNum n => enc_uint n end.
Definition nref_is_num (r : nref) : bool := match r with NNum _ => true | NName _ => false end.

(* the xy-mode an element is written in: relative only when asked for and every difference is representable *)
Definition use_rel (c : choice) (mx my x y : Z) : bool :=
  c_rel c && fits63b (x - mx) && fits63b (y - my).
Definition mode_records (m : modal) (rel : bool) : list (list N) :=
  if Bool.eqb (m_abs m) (negb rel) then [] else [[if rel then 16 else 15]].
Definition with_mode (m : modal) (rel : bool) : modal :=
  mkM (negb rel) (m_rep m) (m_g m) (m_t m) (m_p m) (m_pname m) (m_pvals m).

Definition want (c : choice) (i : N) : bool := N.testbit (c_reuse c) i.

(* extension half: returns (code, bytes) *)
Definition eext (c : choice) (wantm : bool) (hw : N) (mv : option Z) (v : Z) : N * list N :=
  if wantm && match mv with Some u => (u =? v)%Z | None => false end then (0, [])
  else if c_alt c && (v =? 0)%Z then (1, [])
  else if c_alt c && (v =? Z.of_N hw)%Z then (2, [])
  else (3, enc_int v).

(* record bodies (everything after the record byte) and the modal state after the record; [m] already carries
   the xy-mode the record is written in *)
Definition body_rect (c : choice) (m : modal) (l d w h : N) (x y : Z) (r : option srep) : list N * modal :=
  let g := m_g m in
  let sq := c_alt c && (w =? h) in
  let fl := efld N.eqb (want c 0) (g_layer g) l enc_uint in
  let fd := efld N.eqb (want c 1) (g_dtype g) d enc_uint in
  let fw := efld N.eqb (want c 6) (g_w g) w enc_uint in
  let fh := if sq then (false, []) else efld N.eqb (want c 5) (g_h g) h enc_uint in
  let fx := epos (want c 4) (m_abs m) (g_x g) x in
  let fy := epos (want c 3) (m_abs m) (g_y g) y in
  let fr := erep c (m_rep m) r in
  (mkinfo sq (fst fw) (fst fh) (fst fx) (fst fy) (fst fr) (fst fd) (fst fl) ::
     snd fl ++ snd fd ++ snd fw ++ snd fh ++ snd fx ++ snd fy ++ snd fr,
   set_g m (mkG (Some l) (Some d) x y (Some w) (Some h) (g_poly g) (g_path g) (g_hw g) (g_exs g) (g_exe g)
                (g_ctype g) (g_rad g)) (new_rep (m_rep m) r)).

Definition body_poly (c : choice) (m : modal) (l d : N) (pts : list pt) (x y : Z) (r : option srep) : list N * modal :=
  let g := m_g m in
  let fl := efld N.eqb (want c 0) (g_layer g) l enc_uint in
  let fd := efld N.eqb (want c 1) (g_dtype g) d enc_uint in
  let fp := efld (list_eqb pt_eqb) (want c 5) (g_poly g) pts (wr_plist (c_plist c)) in
  let fx := epos (want c 4) (m_abs m) (g_x g) x in
  let fy := epos (want c 3) (m_abs m) (g_y g) y in
  let fr := erep c (m_rep m) r in
  (mkinfo false false (fst fp) (fst fx) (fst fy) (fst fr) (fst fd) (fst fl) ::
     snd fl ++ snd fd ++ snd fp ++ snd fx ++ snd fy ++ snd fr,
   set_g m (mkG (Some l) (Some d) x y (g_w g) (g_h g) (Some pts) (g_path g) (g_hw g) (g_exs g) (g_exe g)
                (g_ctype g) (g_rad g)) (new_rep (m_rep m) r)).

Definition body_path (c : choice) (m : modal) (l d hw : N) (es ee : Z) (pts : list pt) (x y : Z) (r : option srep)
  : list N * modal :=
  let g := m_g m in
  let fl := efld N.eqb (want c 0) (g_layer g) l enc_uint in
  let fd := efld N.eqb (want c 1) (g_dtype g) d enc_uint in
  let fw := efld N.eqb (want c 6) (g_hw g) hw enc_uint in
  let xs := eext c (want c 7) hw (g_exs g) es in
  let xe := eext c (want c 7) hw (g_exe g) ee in
  let whole := (fst xs =? 0) && (fst xe =? 0) in          (* both modal: drop the scheme byte altogether *)
  let fe := if whole then (false, []) else (true, (fst xs * 4 + fst xe) :: snd xs ++ snd xe) in
  let fp := efld (list_eqb pt_eqb) (want c 5) (g_path g) pts (wr_plist (c_plist c)) in
  let fx := epos (want c 4) (m_abs m) (g_x g) x in
  let fy := epos (want c 3) (m_abs m) (g_y g) y in
  let fr := erep c (m_rep m) r in
  (mkinfo (fst fe) (fst fw) (fst fp) (fst fx) (fst fy) (fst fr) (fst fd) (fst fl) ::
     snd fl ++ snd fd ++ snd fw ++ snd fe ++ snd fp ++ snd fx ++ snd fy ++ snd fr,
   set_g m (mkG (Some l) (Some d) x y (g_w g) (g_h g) (g_poly g) (Some pts) (Some hw) (Some es) (Some ee)
                (g_ctype g) (g_rad g)) (new_rep (m_rep m) r)).

Definition trap_code (c : choice) (da db : Z) : N :=
  if c_alt c && (db =? 0)%Z then 24 else if c_alt c && (da =? 0)%Z then 25 else 23.
Definition body_trap (c : choice) (m : modal) (vert : bool) (l d w h : N) (da db : Z) (x y : Z) (r : option srep)
  : list N * modal :=
  let g := m_g m in
  let code := trap_code c da db in
  let fl := efld N.eqb (want c 0) (g_layer g) l enc_uint in
  let fd := efld N.eqb (want c 1) (g_dtype g) d enc_uint in
  let fw := efld N.eqb (want c 6) (g_w g) w enc_uint in
  let fh := efld N.eqb (want c 5) (g_h g) h enc_uint in
  let fx := epos (want c 4) (m_abs m) (g_x g) x in
  let fy := epos (want c 3) (m_abs m) (g_y g) y in
  let fr := erep c (m_rep m) r in
  (mkinfo vert (fst fw) (fst fh) (fst fx) (fst fy) (fst fr) (fst fd) (fst fl) ::
     snd fl ++ snd fd ++ snd fw ++ snd fh ++
     (if code =? 25 then [] else enc_int da) ++ (if code =? 24 then [] else enc_int db) ++
     snd fx ++ snd fy ++ snd fr,
   set_g m (mkG (Some l) (Some d) x y (Some w) (Some h) (g_poly g) (g_path g) (g_hw g) (g_exs g) (g_exe g)
                (g_ctype g) (g_rad g)) (new_rep (m_rep m) r)).

Definition body_ctrap (c : choice) (m : modal) (l d ty w h : N) (x y : Z) (r : option srep) : list N * modal :=
  let g := m_g m in
  let fl := efld N.eqb (want c 0) (g_layer g) l enc_uint in
  let fd := efld N.eqb (want c 1) (g_dtype g) d enc_uint in
  let ft := efld N.eqb (want c 7) (g_ctype g) ty enc_uint in
  let fw := if ctrap_uses_w ty then efld N.eqb (want c 6) (g_w g) w enc_uint else (false, []) in
  let fh := if ctrap_uses_h ty then efld N.eqb (want c 5) (g_h g) h enc_uint else (false, []) in
  let fx := epos (want c 4) (m_abs m) (g_x g) x in
  let fy := epos (want c 3) (m_abs m) (g_y g) y in
  let fr := erep c (m_rep m) r in
  (mkinfo (fst ft) (fst fw) (fst fh) (fst fx) (fst fy) (fst fr) (fst fd) (fst fl) ::
     snd fl ++ snd fd ++ snd ft ++ snd fw ++ snd fh ++ snd fx ++ snd fy ++ snd fr,
   set_g m (mkG (Some l) (Some d) x y (Some w) (Some h) (g_poly g) (g_path g)
                (g_hw g) (g_exs g) (g_exe g) (Some ty) (g_rad g)) (new_rep (m_rep m) r)).

Definition body_circle (c : choice) (m : modal) (l d rad : N) (x y : Z) (r : option srep) : list N * modal :=
  let g := m_g m in
  let fl := efld N.eqb (want c 0) (g_layer g) l enc_uint in
  let fd := efld N.eqb (want c 1) (g_dtype g) d enc_uint in
  let fc := efld N.eqb (want c 5) (g_rad g) rad enc_uint in
  let fx := epos (want c 4) (m_abs m) (g_x g) x in
  let fy := epos (want c 3) (m_abs m) (g_y g) y in
  let fr := erep c (m_rep m) r in
  (mkinfo false false (fst fc) (fst fx) (fst fy) (fst fr) (fst fd) (fst fl) ::
     snd fl ++ snd fd ++ snd fc ++ snd fx ++ snd fy ++ snd fr,
   set_g m (mkG (Some l) (Some d) x y (g_w g) (g_h g) (g_poly g) (g_path g) (g_hw g) (g_exs g) (g_exe g)
                (g_ctype g) (Some rad)) (new_rep (m_rep m) r)).

Definition body_text (c : choice) (m : modal) (s : nref) (l t : N) (x y : Z) (r : option srep) : list N * modal :=
  let tm := m_t m in
  let fs := efld nref_eqb (want c 6) (t_str tm) s wr_nref in
  let fl := efld N.eqb (want c 0) (t_layer tm) l enc_uint in
  let ft := efld N.eqb (want c 1) (t_type tm) t enc_uint in
  let fx := epos (want c 4) (m_abs m) (t_x tm) x in
  let fy := epos (want c 3) (m_abs m) (t_y tm) y in
  let fr := erep c (m_rep m) r in
  (mkinfo false (fst fs) (nref_is_num s) (fst fx) (fst fy) (fst fr) (fst ft) (fst fl) ::
     snd fs ++ snd fl ++ snd ft ++ snd fx ++ snd fy ++ snd fr,
   mkM (m_abs m) (new_rep (m_rep m) r) (m_g m) (mkT (Some s) (Some l) (Some t) x y) (m_p m) (m_pname m) (m_pvals m)).

Definition place_code (tr : ptrans) : N := match tr with PT_quarter _ => 17 | PT_general _ _ => 18 end.
Definition body_place (c : choice) (m : modal) (cl : nref) (tr : ptrans) (flip : bool) (x y : Z) (r : option srep)
  : list N * modal :=
  let pm := m_p m in
  let fc := efld nref_eqb (want c 7) (p_cell pm) cl wr_nref in
  let fx := epos (want c 5) (m_abs m) (p_x pm) x in
  let fy := epos (want c 4) (m_abs m) (p_y pm) y in
  let fr := erep c (m_rep m) r in
  (match tr with
   | PT_quarter aa =>
       mkinfo (fst fc) (nref_is_num cl) (fst fx) (fst fy) (fst fr) (N.testbit aa 1) (N.testbit aa 0) flip ::
         snd fc ++ snd fx ++ snd fy ++ snd fr
   | PT_general mag ang =>
       mkinfo (fst fc) (nref_is_num cl) (fst fx) (fst fy) (fst fr)
              (match mag with Some _ => true | None => false end)
              (match ang with Some _ => true | None => false end) flip ::
         snd fc ++ (match mag with Some v => wr_real v | None => [] end) ++
         (match ang with Some v => wr_real v | None => [] end) ++ snd fx ++ snd fy ++ snd fr
   end,
   mkM (m_abs m) (new_rep (m_rep m) r) (m_g m) (m_t m) (mkP (Some cl) x y) (m_pname m) (m_pvals m)).

(* the modal position an element kind is placed against *)
Definition elem_mpos (m : modal) (e : element) : Z * Z :=
  match e with
  | E_text _ _ _ _ _ _ => (t_x (m_t m), t_y (m_t m))
  | E_place _ _ _ _ _ _ => (p_x (m_p m), p_y (m_p m))
  | _ => (g_x (m_g m), g_y (m_g m))
  end.
Definition elem_xy (e : element) : Z * Z :=
  match e with
  | E_rect _ _ _ _ x y _ | E_poly _ _ _ x y _ | E_path _ _ _ _ _ _ x y _ | E_trap _ _ _ _ _ _ _ x y _
  | E_ctrap _ _ _ _ _ x y _ | E_circle _ _ _ x y _ | E_text _ _ _ x y _ | E_place _ _ _ x y _ => (x, y)
  end.
(* record byte and body of an element *)
Definition elem_record (c : choice) (m : modal) (e : element) : N * (list N * modal) :=
  match e with
  | E_rect l d w h x y r => (20, body_rect c m l d w h x y r)
  | E_poly l d pts x y r => (21, body_poly c m l d pts x y r)
  | E_path l d hw es ee pts x y r => (22, body_path c m l d hw es ee pts x y r)
  | E_trap v l d w h da db x y r => (trap_code c da db, body_trap c m v l d w h da db x y r)
  | E_ctrap l d ty w h x y r => (26, body_ctrap c m l d ty w h x y r)
  | E_circle l d rad x y r => (27, body_circle c m l d rad x y r)
  | E_text s l t x y r => (19, body_text c m s l t x y r)
  | E_place cl tr f x y r => (place_code tr, body_place c m cl tr f x y r)
  end.

(* one element -> its records (each a byte list starting with the record byte) and the modal state after *)
Definition enc_element (c : choice) (m0 : modal) (e : element) : list (list N) * modal :=
  let rel := use_rel c (fst (elem_mpos m0 e)) (snd (elem_mpos m0 e)) (fst (elem_xy e)) (snd (elem_xy e)) in
  let m := with_mode m0 rel in
  let '(code, (body, m')) := elem_record c m e in
  (mode_records m0 rel ++ [code :: body], m').

Fixpoint enc_elements (cs : nat -> choice) (k : nat) (m : modal) (es : list (element * list prop))
  : list (list N) * modal :=
  match es with
  | [] => ([], m)
  | (e, _) :: t =>
      let '(r1, m1) := enc_element (cs k) m e in
      let '(r2, m2) := enc_elements cs (S k) m1 t in
      (r1 ++ r2, m2)
  end.

Definition enc_cell (cs : nat -> nat -> choice) (i : nat) (c : cell) : list (list N) :=
  (match c_name c with NName s => 14 :: wr_string s | NNum n => 13 :: enc_uint n end) ::
  fst (enc_elements (cs i) 0 modal0 (c_elems c)).

Fixpoint enc_cells (cs : nat -> nat -> choice) (i : nat) (l : list cell) : list (list N) :=
  match l with [] => [] | c :: t => enc_cell cs i c ++ enc_cells cs (S i) t end.

(* END: table offsets all (0, 0), padding, no validation *)
Definition end_tail : list N :=
  flat_map (fun _ => [0; 0]) (seq 0 6) ++ enc_uint 240 ++ repeat 0 240 ++ [0].
Definition end_record : list N := 2 :: end_tail.

Definition spec_oas_encode (cs : nat -> nat -> choice) (L : layout) : list N :=
  magic ++ 1 :: wr_string version_1_0 ++ wr_real (l_unit L) ++ [1] ++
  concat (enc_cells cs 0 (l_cells L)) ++ end_record.
