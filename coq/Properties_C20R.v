(* C20R (second property file of C20) - the public resize(new_capacity) of the hash tables for ANY
   new capacity.  Theorem-only file: every proof is `exact <lemma>`; Print Assumptions under each.
   WInv / RW: the weak invariant of TableResizeProofs.v (at least two slots, one of them empty, the load
   bound of set() with one entry of slack from INITIAL on); R / Inv: the invariant of TableProofs.v. *)
Require Import Base Generated Table TableProofs TableResize TableResizeProofs.
From Coq Require Import Permutation.

(* any table of the weak invariant, any new capacity but 1 (smaller than the count, equal to it, 0
   included): the resized table is in the weak invariant and denotes the same association list *)
Theorem tresize_any_thm : forall (K V : Type) (keqb : K -> K -> bool), (forall a b : K, keqb a b = true <-> a = b) -> forall (hash : K -> N) (initial growth thr : nat) (t : table K V) (m : amap K V) (c : nat), params_ok initial growth thr -> RW K V hash initial thr t m -> c <> 1 -> exists t' : table K V, tresize K V keqb hash initial growth thr t c = Ok t' /\ RW K V hash initial thr t' m.
Proof. exact (@tresize_any_lemma). Qed.
Print Assumptions tresize_any_thm.

(* every table of the invariant of TableProofs.v is in the weak invariant *)
Theorem R_RW_thm : forall (K V : Type) (hash : K -> N) (initial growth thr : nat) (t : table K V) (m : amap K V), params_ok initial growth thr -> R K V hash initial thr t m -> RW K V hash initial thr t m.
Proof. exact (@R_RW). Qed.
Print Assumptions R_RW_thm.

(* new capacity 0 or >= INITIAL, whatever the count and the old capacity: the invariant of TableProofs.v
   itself is preserved (tresize_grow without `cap t <= c`) *)
Theorem tresize_any_strong_thm : forall (K V : Type) (keqb : K -> K -> bool), (forall a b : K, keqb a b = true <-> a = b) -> forall (hash : K -> N) (initial growth thr : nat) (t : table K V) (m : amap K V) (c : nat), params_ok initial growth thr -> R K V hash initial thr t m -> c = 0 \/ initial <= c -> exists t' : table K V, tresize K V keqb hash initial growth thr t c = Ok t' /\ R K V hash initial thr t' m.
Proof. exact (@tresize_any_strong_lemma). Qed.
Print Assumptions tresize_any_strong_thm.

(* the requested capacity is the one obtained when the entries fit below its load bound *)
Theorem tresize_fits_thm : forall (K V : Type) (keqb : K -> K -> bool), (forall a b : K, keqb a b = true <-> a = b) -> forall (hash : K -> N) (initial growth thr : nat) (t : table K V) (m : amap K V) (c : nat), params_ok initial growth thr -> RW K V hash initial thr t m -> c <> 1 -> count t < c -> count t * 10 < c * thr + 10 -> exists t' : table K V, tresize K V keqb hash initial growth thr t c = Ok t' /\ cap t' = c /\ count t' = count t /\ RW K V hash initial thr t' m.
Proof. exact (@tresize_fits_lemma). Qed.
Print Assumptions tresize_fits_thm.

(* the refinement theorem of C20 with the public resize(c), c <> 1, anywhere in the history *)
Theorem table_refines_map_resize_thm : forall (K V : Type) (keqb : K -> K -> bool), (forall a b : K, keqb a b = true <-> a = b) -> forall (hash : K -> N) (initial growth thr : nat), params_ok initial growth thr -> forall ops : list (Table.op K V), Forall (fun o => op_ok o = true) ops -> Forall2 (obs_equiv K V) (run_table K V keqb hash initial growth thr ops) (Table.run_spec K V keqb ops).
Proof. exact (@table_refines_map_resize_lemma). Qed.
Print Assumptions table_refines_map_resize_thm.

Theorem table_no_failure_resize_thm : forall (K V : Type) (keqb : K -> K -> bool), (forall a b : K, keqb a b = true <-> a = b) -> forall (hash : K -> N) (initial growth thr : nat), params_ok initial growth thr -> forall ops : list (Table.op K V), Forall (fun o => op_ok o = true) ops -> Forall (fun r : obs K V => r <> ObsCrash /\ r <> ObsHang) (run_table K V keqb hash initial growth thr ops).
Proof. exact (@table_no_failure_resize_lemma). Qed.
Print Assumptions table_no_failure_resize_thm.

Theorem reachable_winv_thm : forall (K V : Type) (keqb : K -> K -> bool), (forall a b : K, keqb a b = true <-> a = b) -> forall (hash : K -> N) (initial growth thr : nat), params_ok initial growth thr -> forall ops : list (Table.op K V), Forall (fun o => op_ok o = true) ops -> exists m : amap K V, RW K V hash initial thr (snd (run_from K V keqb hash initial growth thr (table0 K V) ops)) m.
Proof. exact (@reachable_winv_lemma). Qed.
Print Assumptions reachable_winv_thm.

(* the four tables of gdstk with today's constants *)
Theorem smap_refines_map_resize_thm : forall ops : list smap_op, Forall (fun o => op_ok o = true) ops -> Forall2 (obs_equiv (list N) N) (fst (smap_run ops)) (Table.run_spec (list N) N Table.bytes_eqb ops).
Proof. exact (@smap_refines_map_resize_lemma). Qed.
Print Assumptions smap_refines_map_resize_thm.

Theorem uset_refines_set_resize_thm : forall ops : list uset_op, Forall (fun o => op_ok o = true) ops -> Forall2 (obs_equiv N unit) (fst (uset_run ops)) (Table.run_spec N unit N.eqb ops).
Proof. exact (@uset_refines_set_resize_lemma). Qed.
Print Assumptions uset_refines_set_resize_thm.

Theorem stylemap_refines_map_resize_thm : forall ops : list stylemap_op, Forall (fun o => op_ok o = true) ops -> Forall2 (obs_equiv N (list N)) (fst (stylemap_run ops)) (Table.run_spec N (list N) N.eqb ops).
Proof. exact (@stylemap_refines_map_resize_lemma). Qed.
Print Assumptions stylemap_refines_map_resize_thm.

Theorem tagmap_refines_resize_thm : forall ops : list tagmap_op, Forall (fun o => op_ok o = true) ops -> Forall2 (obs_equiv N N) (fst (tagmap_run ops)) (tagmap_run_spec ops).
Proof. exact (@tagmap_refines_resize_lemma). Qed.
Print Assumptions tagmap_refines_resize_thm.

(* capacity 1 is the threshold: the table is full, the next look-up of an absent key never returns
   (Map, Map through an empty table, Set, TagMap, StyleMap) *)
Theorem resize_one_hangs_refuted_thm : last (fst (smap_run smap_hang_history)) ObsUnit = ObsHang /\ last (fst (smap_run smap_hang_history2)) ObsUnit = ObsHang /\ last (fst (uset_run uset_hang_history)) ObsUnit = ObsHang /\ last (fst (tagmap_run tagmap_hang_history)) ObsUnit = ObsHang /\ last (fst (stylemap_run stylemap_hang_history)) ObsUnit = ObsHang.
Proof. exact resize_one_hangs_refuted. Qed.
Print Assumptions resize_one_hangs_refuted_thm.

Theorem tresize_one_full_refuted_thm : exists (t : smap) (m : amap (list N) N), R (list N) N hash_str P_INITIAL P_THRESHOLD t m /\ count t = 1 /\ exists t', tresize (list N) N bytes_eqb hash_str P_INITIAL P_GROWTH P_THRESHOLD t 1 = Ok t' /\ tfull t' = true /\ tget (list N) N bytes_eqb hash_str t' [122; 122]%N = Hang /\ ~ WInv (list N) N hash_str P_INITIAL P_THRESHOLD t'.
Proof. exact tresize_one_full_refuted. Qed.
Print Assumptions tresize_one_full_refuted_thm.

(* capacities 2 .. INITIAL-1 leave the invariant of TableProofs.v (but not the weak one) *)
Theorem tresize_small_strong_refuted_thm : (exists t', tresize (list N) N bytes_eqb hash_str P_INITIAL P_GROWTH P_THRESHOLD (table0 (list N) N) 2 = Ok t' /\ ~ Inv (list N) N hash_str P_INITIAL P_THRESHOLD t') /\ (let t := snd (smap_run smap_small_history) in cap t = 8 /\ count t = 5 /\ ~ Inv (list N) N hash_str P_INITIAL P_THRESHOLD t /\ exists m, RW (list N) N hash_str P_INITIAL P_THRESHOLD t m).
Proof. exact tresize_small_strong_refuted. Qed.
Print Assumptions tresize_small_strong_refuted_thm.

(* the hypotheses of tresize_any hold on a non-trivial input (six entries; new capacities 3, 6, 0) *)
Theorem tresize_any_instance_thm : let t := snd (smap_run six_sets) in count t = 6 /\ cap t = 16 /\ exists m, RW (list N) N hash_str P_INITIAL P_THRESHOLD t m /\ (exists t3, tresize (list N) N bytes_eqb hash_str P_INITIAL P_GROWTH P_THRESHOLD t 3 = Ok t3 /\ RW (list N) N hash_str P_INITIAL P_THRESHOLD t3 m /\ cap t3 = 16) /\ (exists t6, tresize (list N) N bytes_eqb hash_str P_INITIAL P_GROWTH P_THRESHOLD t 6 = Ok t6 /\ RW (list N) N hash_str P_INITIAL P_THRESHOLD t6 m /\ cap t6 = 16) /\ (exists t0, tresize (list N) N bytes_eqb hash_str P_INITIAL P_GROWTH P_THRESHOLD t 0 = Ok t0 /\ RW (list N) N hash_str P_INITIAL P_THRESHOLD t0 m /\ cap t0 = 16).
Proof. exact tresize_any_example. Qed.
Print Assumptions tresize_any_instance_thm.
