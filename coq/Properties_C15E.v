(* C15E (second proof file of C15) - elliptical arcs: the sagitta bound of ArcBound.v carried over by
   the affine contraction from the circle of the larger radius (Curve::arc, ellipse()).
   Theorem-only file: every proof is `exact <lemma>`; Print Assumptions under each. *)
From Coq Require Import Reals ZArith.
Require Import ArcBound EllipseBound.
Local Open Scope R_scope.

(* with the chord count of Curve::arc / ellipse() (span in the parameter, larger radius) or more, every
   point of an elliptical arc (any radii, span, axis rotation, tolerance) is within 4 tol of the chord
   of its own parameter step *)
Theorem ellipse_sagitta_bound : forall (rx ry tol cx cy cr sr ai af u : R) (n : Z),
  0 < rx -> 0 < ry -> 0 < tol -> cr * cr + sr * sr = 1 -> 0 <= u <= 1 ->
  (ell_segments rx ry ai af tol <= n)%Z ->
  exists k : Z, (0 <= k < n)%Z /\ exists l : R, 0 <= l <= 1 /\
    dist2 (ell_pt cx cy rx ry cr sr ai af u)
          (seg_pt (ell_pt cx cy rx ry cr sr ai af (IZR k / IZR n))
                  (ell_pt cx cy rx ry cr sr ai af (IZR (k + 1) / IZR n)) l)
    <= (4 * tol) * (4 * tol).
Proof. exact ellipse_sagitta_bound_lemma. Qed.
Print Assumptions ellipse_sagitta_bound.

(* exactly the count and the rotation of Curve::arc *)
Theorem ellipse_sagitta_bound_arc : forall (rx ry tol cx cy rot ai af u : R),
  0 < rx -> 0 < ry -> 0 < tol -> 0 <= u <= 1 ->
  let n := ell_segments rx ry ai af tol in
  exists k : Z, (0 <= k < n)%Z /\ exists l : R, 0 <= l <= 1 /\
    dist2 (ell_pt cx cy rx ry (cos rot) (sin rot) ai af u)
          (seg_pt (ell_pt cx cy rx ry (cos rot) (sin rot) ai af (IZR k / IZR n))
                  (ell_pt cx cy rx ry (cos rot) (sin rot) ai af (IZR (k + 1) / IZR n)) l)
    <= (4 * tol) * (4 * tol).
Proof. exact ellipse_sagitta_bound_curve_arc. Qed.
Print Assumptions ellipse_sagitta_bound_arc.

(* the full outline of ellipse(): num_points chords of the whole turn *)
Theorem ellipse_full_outline_bound : forall (rx ry tol cx cy u : R),
  0 < rx -> 0 < ry -> 0 < tol -> 0 <= u <= 1 ->
  let n := (1 + ell_segments rx ry 0 (2 * PI) tol)%Z in
  exists k : Z, (0 <= k < n)%Z /\ exists l : R, 0 <= l <= 1 /\
    dist2 (ell_pt cx cy rx ry 1 0 0 (2 * PI) u)
          (seg_pt (ell_pt cx cy rx ry 1 0 0 (2 * PI) (IZR k / IZR n))
                  (ell_pt cx cy rx ry 1 0 0 (2 * PI) (IZR (k + 1) / IZR n)) l)
    <= (4 * tol) * (4 * tol).
Proof. exact ellipse_full_bound. Qed.
Print Assumptions ellipse_full_outline_bound.

(* the two facts the transfer rests on: the map is affine (chords to chords, same parameter) and a contraction *)
Theorem affine_map_keeps_chords : forall a b c d e f p q l,
  aff a b c d e f (seg_pt p q l) = seg_pt (aff a b c d e f p) (aff a b c d e f q) l.
Proof. exact aff_seg_pt. Qed.
Print Assumptions affine_map_keeps_chords.

Theorem affine_map_contracts : forall sx sy cr sr e f p q,
  0 <= sx <= 1 -> 0 <= sy <= 1 -> cr * cr + sr * sr = 1 ->
  dist2 (aff (sx * cr) (- (sy * sr)) (sx * sr) (sy * cr) e f p)
        (aff (sx * cr) (- (sy * sr)) (sx * sr) (sy * cr) e f q) <= dist2 p q.
Proof. exact aff_contracts. Qed.
Print Assumptions affine_map_contracts.

Theorem ellipse_is_image_of_circle : forall cx cy rx ry cr sr ai af u Rm, Rm <> 0 ->
  ell_pt cx cy rx ry cr sr ai af u
  = aff (rx / Rm * cr) (- (ry / Rm * sr)) (rx / Rm * sr) (ry / Rm * cr) cx cy
        (arc_pt 0 0 Rm ai (af - ai) u).
Proof. exact ell_pt_is_image. Qed.
Print Assumptions ellipse_is_image_of_circle.
