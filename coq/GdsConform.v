(* writer_conforms (C03, converse direction): whatever the writer model emits for a well-formed library
   is accepted by the strict grammar decoder and decodes to the library that was saved. *)
Require Import Base GdsFrame GdsFrameProofs GdsModel GdsWrite GdsRoundtrip GdsSpec GdsSpecProofs.
From Coq Require Import ZArith Lia ZifyBool ZifyN ZifyNat.
Local Open Scope N_scope.

Definition not_xy_head (l : recs) : Prop :=
  match l with r :: _ => rtype r <> 16 | [] => True end.
Definition not_propattr_head (l : recs) : Prop :=
  match l with r :: _ => rtype r <> 43 | [] => True end.

Lemma is_rec_mk t d p : is_rec t d (mkrec t d p) = true.
Proof. unfold is_rec, mkrec. cbn [rtype dtype]. rewrite !N.eqb_refl. reflexivity. Qed.

Lemma plen_mk t d p : plen (mkrec t d p) = N.of_nat (length p).
Proof. reflexivity. Qed.

Lemma take1_mk t d p len tl : N.of_nat (length p) = len -> take1 t d len (mkrec t d p :: tl) = Some (mkrec t d p, tl).
Proof. intros H. unfold take1. rewrite is_rec_mk, plen_mk, H, N.eqb_refl. reflexivity. Qed.

Lemma take1_miss t d len r tl : rtype r <> t -> take1 t d len (r :: tl) = None.
Proof. intros H. unfold take1, is_rec. replace (rtype r =? t) with false by (symmetry; apply N.eqb_neq; exact H). reflexivity. Qed.

Lemma opt1_mk t d p len tl : N.of_nat (length p) = len -> opt1 t d len (mkrec t d p :: tl) = (Some (mkrec t d p), tl).
Proof. intros H. unfold opt1. rewrite take1_mk by exact H. reflexivity. Qed.
Lemma opt1_miss t d len r tl : rtype r <> t -> opt1 t d len (r :: tl) = (None, r :: tl).
Proof. intros H. unfold opt1. rewrite take1_miss by exact H. reflexivity. Qed.

Lemma skip_flags_id r tl : rtype r <> 38 -> rtype r <> 47 -> skip_flags (r :: tl) = r :: tl.
Proof.
  intros H1 H2. cbn [skip_flags].
  replace (rtype r =? 38) with false by (symmetry; apply N.eqb_neq; exact H1).
  replace (rtype r =? 47) with false by (symmetry; apply N.eqb_neq; exact H2). reflexivity.
Qed.

(* XY+ on what xy_records emits *)
Lemma xy_rec_accept pts : is_rec 16 3 (mkrec 16 3 (enc_points pts)) && (plen (mkrec 16 3 (enc_points pts)) mod 8 =? 0) = true.
Proof.
  rewrite is_rec_mk, plen_mk, enc_points_length. cbn [andb]. apply N.eqb_eq.
  replace (N.of_nat (8 * length pts)) with (N.of_nat (length pts) * 8) by lia. apply N.mod_mul. lia.
Qed.

Lemma take_xy_more_records fuel : forall pts rest,
  Forall fits_pt pts -> (length pts <= fuel)%nat -> not_xy_head rest ->
  take_xy_more (xy_records fuel pts ++ rest) = (pts, rest).
Proof.
  induction fuel as [|fu IH]; intros pts rest Hf Hl Hn.
  - destruct pts; [|cbn [length] in Hl; lia]. cbn [xy_records app].
    destruct rest as [|r rest]; [reflexivity|]. cbn [take_xy_more]. cbn [not_xy_head] in Hn.
    unfold is_rec. replace (rtype r =? 16) with false by (symmetry; apply N.eqb_neq; exact Hn). reflexivity.
  - destruct pts as [|p0 pts].
    + cbn [xy_records app]. destruct rest as [|r rest]; [reflexivity|]. cbn [take_xy_more]. cbn [not_xy_head] in Hn.
      unfold is_rec. replace (rtype r =? 16) with false by (symmetry; apply N.eqb_neq; exact Hn). reflexivity.
    + cbn [xy_records app take_xy_more]. rewrite xy_rec_accept.
      rewrite IH.
      * cbn [mkrec payload]. rewrite data_length_points. rewrite points_of_enc by (apply Forall_firstn_; assumption).
        rewrite firstn_skipn. reflexivity.
      * apply Forall_skipn_. assumption.
      * rewrite skipn_length. cbn [length] in *. unfold xy_chunk. lia.
      * exact Hn.
Qed.

Lemma take_xy_records pts rest :
  Forall fits_pt pts -> pts <> [] -> not_xy_head rest ->
  take_xy (xy_records (length pts) pts ++ rest) = Some (pts, rest).
Proof.
  intros Hf Hne Hn. destruct pts as [|p0 pts]; [congruence|]. cbn [length xy_records app take_xy].
  rewrite xy_rec_accept. rewrite take_xy_more_records.
  - cbn [mkrec payload]. rewrite data_length_points. rewrite points_of_enc by (apply Forall_firstn_; assumption).
    rewrite firstn_skipn. reflexivity.
  - apply Forall_skipn_. assumption.
  - rewrite skipn_length. cbn [length]. unfold xy_chunk. lia.
  - exact Hn.
Qed.

Lemma take_xy1_records pts rest :
  Forall fits_pt pts -> pts <> [] -> not_xy_head rest ->
  take_xy1 (xy_records (length pts) pts ++ rest) = Some (pts, rest).
Proof.
  intros Hf Hne Hn. pose proof (take_xy_records pts rest Hf Hne Hn) as H.
  destruct pts as [|p0 pts]; [congruence|]. cbn [length xy_records app] in *. unfold take_xy1.
  rewrite plen_mk, enc_points_length. cbn [firstn xy_chunk]. 
  replace (8 <=? N.of_nat (8 * length (firstn xy_chunk (p0 :: pts)))) with true; [exact H|].
  symmetry. apply N.leb_le. change (firstn xy_chunk (p0 :: pts)) with (p0 :: firstn (Nat.pred xy_chunk) pts).
  cbn [length]. lia.
Qed.

(* properties *)
Lemma take_props_records : forall ps acc rest,
  Forall prop_ok ps -> not_propattr_head rest ->
  take_props acc (prop_records ps ++ rest) = (fold_left (fun a '(k, v) => set_gds_prop a k v) ps acc, rest).
Proof.
  induction ps as [|[a v] ps IH]; intros acc rest Hok Hn.
  - cbn [prop_records flat_map app fold_left]. destruct rest as [|r [|r2 rest]]; try reflexivity.
    cbn [take_props]. cbn [not_propattr_head] in Hn. unfold is_rec at 1.
    replace (rtype r =? 43) with false by (symmetry; apply N.eqb_neq; exact Hn). reflexivity.
  - inversion Hok as [|? ? [Ha Hv] Hok']; subst. cbn [fst snd] in Ha, Hv.
    unfold prop_records. cbn [flat_map app]. fold (prop_records ps). cbn [take_props].
    rewrite !is_rec_mk, plen_mk. cbn [enc16 length N.of_nat Pos.of_succ_nat Pos.succ N.eqb Pos.eqb andb mkrec payload].
    change (d16 (swap2 [Z.to_N (Z.of_N a mod 65536) / 256; Z.to_N (Z.of_N a mod 65536) mod 256]) 0) with (d16 (swap2 (enc16 (Z.of_N a))) 0).
    rewrite key_roundtrip by assumption. rewrite cstring_pad by assumption.
    rewrite IH by assumption. reflexivity.
Qed.

Lemma not_xy_props ps tl : not_xy_head (prop_records ps ++ endel :: tl).
Proof. destruct ps as [|[a v] ps]; cbn; discriminate. Qed.
Lemma not_propattr_endel tl : not_propattr_head (endel :: tl).
Proof. cbn. discriminate. Qed.

Lemma closed_poly_closed pts p0 : hd_error pts = Some p0 -> closed_poly (pts ++ [p0]) = Some pts.
Proof.
  intros H. destruct pts as [|q pts]; [discriminate|]. injection H as ->.
  unfold closed_poly. cbn [app]. change (p0 :: pts ++ [p0]) with ((p0 :: pts) ++ [p0]).
  rewrite last_last. rewrite !Z.eqb_refl. cbn [andb]. rewrite removelast_last. reflexivity.
Qed.

Lemma f16_mk t d z : fits16 z -> f16 (mkrec t d (enc16 z)) = z.
Proof. intros H. unfold f16. cbn [mkrec payload]. apply d16_enc16'. exact H. Qed.
Lemma f32_mk t d z : fits32 z -> f32 (mkrec t d (enc32 z)) = z.
Proof. intros H. unfold f32. cbn [mkrec payload]. apply d32_enc32'. exact H. Qed.
Lemma f64_mk t d v : real_ok v -> f64 (mkrec t d (enc64 v)) = v.
Proof. intros H. unfold f64. cbn [mkrec payload]. apply d64_enc64'. exact H. Qed.

Lemma spec_poly_written p rest : poly_ok p -> spec_element (poly_records p ++ rest) = Some (EPoly (canon_poly p), rest).
Proof.
  intros (Hl & Ht & Hp & Hpr & Hn & Hopen). destruct p as [la ty pts pr]. cbn [p_layer p_type p_pts p_props] in *.
  unfold poly_records. cbn [p_layer p_type p_pts p_props].
  replace (length pts <? 3)%nat with false by (symmetry; apply Nat.ltb_ge; lia).
  destruct pts as [|p0 pts']; [cbn [length] in Hn; lia|]. cbn [hd].
  assert (Hhd : hd_error (p0 :: pts') = Some p0) by reflexivity.
  remember (p0 :: pts') as pts eqn:Hpts.
  rewrite <- !app_assoc. cbn [app]. unfold spec_element. rewrite plen_mk. cbn [length N.of_nat N.eqb mkrec rtype].
  unfold spec_boundary. rewrite skip_flags_id by discriminate.
  rewrite take1_mk by reflexivity. rewrite take1_mk by reflexivity.
  replace (length (pts ++ [p0])) with (length (pts ++ [p0])) by reflexivity.
  rewrite take_xy_records.
  - rewrite take_props_records by (assumption || apply not_propattr_endel).
    unfold take_endel, endel. cbn [mkrec rtype N.eqb Pos.eqb].
    pose proof (closed_poly_closed pts p0 Hhd) as Hc. unfold pt in *. rewrite Hc.
    rewrite !f16_mk by assumption. reflexivity.
  - apply Forall_app. split; [assumption|]. constructor; [|constructor]. subst pts. inversion Hp; assumption.
  - subst pts. discriminate.
  - apply not_xy_props.
Qed.

Lemma spec_path_written h rest : path_ok h -> spec_element (path_records h ++ rest) = Some (EPath (canon_path h), rest).
Proof.
  intros (Hl & Ht & Hp & Hpr & Hn & Hw & Hw0 & Hext). destruct h as [la ty en hw sw ex pts pr].
  cbn [h_layer h_type h_end h_width h_scale_width h_ext h_pts h_props] in *.
  unfold path_records. cbn [h_layer h_type h_end h_width h_scale_width h_ext h_pts h_props].
  replace (length pts <? 2)%nat with false by (symmetry; apply Nat.ltb_ge; lia).
  rewrite <- !app_assoc. cbn [app]. unfold spec_element. rewrite plen_mk. cbn [length N.of_nat N.eqb mkrec rtype].
  unfold spec_path. rewrite skip_flags_id by discriminate.
  rewrite take1_mk by reflexivity. rewrite take1_mk by reflexivity.
  rewrite opt1_mk by reflexivity. rewrite opt1_mk by reflexivity.
  set (w := if sw then hw else (- hw)%Z).
  assert (Hfw : fits32 w) by (unfold fits32; subst w; destruct sw; lia).
  assert (Habs : Z.abs w = hw) by (subst w; destruct sw; lia).
  assert (Hsw : (0 <=? w)%Z = sw).
  { subst w. destruct sw; [apply Z.leb_le; lia|]. apply Z.leb_gt.
    destruct (Z.eq_dec hw 0) as [E|E]; [specialize (Hw0 E); discriminate|lia]. }
  assert (Hne : pts <> []) by (destruct pts; [cbn [length] in Hn; lia|discriminate]).
  assert (Hend : match f16 (mkrec 33 2 (enc16 (end_code en))) with 0%Z => EFlush | 1%Z => ERound | 2%Z => EHalf | _ => EExt end = en)
    by (unfold f16; cbn [mkrec payload]; apply end_code_roundtrip).
  assert (Hwok : width_ok (Some (mkrec 15 3 (enc32 w))) = true).
  { unfold width_ok. rewrite f32_mk by exact Hfw. apply Z.ltb_lt. subst w. destruct sw; lia. }
  destruct en.
  - cbn [app]. destruct pts as [|q pts]; [congruence|].
    assert (Hx : forall tl, xy_records (length (q :: pts)) (q :: pts) ++ tl = mkrec 16 3 (enc_points (firstn xy_chunk (q :: pts))) :: (xy_records (length pts) (skipn xy_chunk (q :: pts)) ++ tl)) by reflexivity.
    rewrite Hx. rewrite opt1_miss by discriminate. rewrite opt1_miss by discriminate. rewrite <- Hx.
    rewrite Hwok. rewrite take_xy1_records by (assumption || apply not_xy_props).
    rewrite take_props_records by (assumption || apply not_propattr_endel).
    unfold take_endel, endel. cbn [mkrec rtype N.eqb Pos.eqb].
    rewrite Hend. rewrite !f16_mk by assumption. rewrite f32_mk by assumption. rewrite Habs, Hsw. subst ex. reflexivity.
  - cbn [app]. destruct pts as [|q pts]; [congruence|].
    assert (Hx : forall tl, xy_records (length (q :: pts)) (q :: pts) ++ tl = mkrec 16 3 (enc_points (firstn xy_chunk (q :: pts))) :: (xy_records (length pts) (skipn xy_chunk (q :: pts)) ++ tl)) by reflexivity.
    rewrite Hx. rewrite opt1_miss by discriminate. rewrite opt1_miss by discriminate. rewrite <- Hx.
    rewrite Hwok. rewrite take_xy1_records by (assumption || apply not_xy_props).
    rewrite take_props_records by (assumption || apply not_propattr_endel).
    unfold take_endel, endel. cbn [mkrec rtype N.eqb Pos.eqb].
    rewrite Hend. rewrite !f16_mk by assumption. rewrite f32_mk by assumption. rewrite Habs, Hsw. subst ex. reflexivity.
  - cbn [app]. destruct pts as [|q pts]; [congruence|].
    assert (Hx : forall tl, xy_records (length (q :: pts)) (q :: pts) ++ tl = mkrec 16 3 (enc_points (firstn xy_chunk (q :: pts))) :: (xy_records (length pts) (skipn xy_chunk (q :: pts)) ++ tl)) by reflexivity.
    rewrite Hx. rewrite opt1_miss by discriminate. rewrite opt1_miss by discriminate. rewrite <- Hx.
    rewrite Hwok. rewrite take_xy1_records by (assumption || apply not_xy_props).
    rewrite take_props_records by (assumption || apply not_propattr_endel).
    unfold take_endel, endel. cbn [mkrec rtype N.eqb Pos.eqb].
    rewrite Hend. rewrite !f16_mk by assumption. rewrite f32_mk by assumption. rewrite Habs, Hsw. subst ex. reflexivity.
  - destruct Hext as [He0 He1]. destruct ex as [e0 e1]. cbn [fst snd] in *. cbn [app].
    rewrite opt1_mk by reflexivity. rewrite opt1_mk by reflexivity.
    rewrite Hwok. rewrite take_xy1_records by (assumption || apply not_xy_props).
    rewrite take_props_records by (assumption || apply not_propattr_endel).
    unfold take_endel, endel. cbn [mkrec rtype N.eqb Pos.eqb].
    rewrite Hend. rewrite !f16_mk by assumption. rewrite !f32_mk by assumption. rewrite Habs, Hsw. reflexivity.
Qed.

Definition plain_head (l : recs) : Prop :=
  match l with r :: _ => rtype r <> 26 /\ rtype r <> 27 /\ rtype r <> 28 | [] => True end.

Lemma take1_nil t d len : take1 t d len [] = None.  Proof. reflexivity. Qed.
Lemma opt1_nil t d len : opt1 t d len [] = (None, []).  Proof. reflexivity. Qed.

Lemma take_strans_written refl mag rot rest :
  real_ok mag -> real_ok rot -> plain_head rest ->
  take_strans (strans_records refl mag rot ++ rest) = ((refl, mag, rot), rest).
Proof.
  intros Hm Hr Hp. unfold strans_records.
  destruct (negb refl && (mag =? real_one) && (rot =? 0)) eqn:E.
  - apply andb_prop in E. destruct E as [E Er]. apply andb_prop in E. destruct E as [Ef Em].
    apply N.eqb_eq in Er, Em. subst. destruct refl; [discriminate|]. cbn [app]. unfold take_strans.
    destruct rest as [|r rest]; [reflexivity|]. cbn [plain_head] in Hp. rewrite take1_miss by tauto. reflexivity.
  - clear E. rewrite <- !app_assoc. cbn [app]. unfold take_strans.
    rewrite take1_mk by (destruct refl; reflexivity).
    assert (Hrefl : Z.ltb (f16 (mkrec 26 1 (if refl then [128; 0] else [0; 0]))) 0 = refl)
      by (unfold f16; cbn [mkrec payload]; apply d16_refl_bit).
    rewrite Hrefl.
    destruct (mag =? real_one) eqn:Em; destruct (rot =? 0) eqn:Er; cbn [app];
      try (apply N.eqb_eq in Em; subst mag); try (apply N.eqb_eq in Er; subst rot).
    + destruct rest as [|r rest]; [reflexivity|]. cbn [plain_head] in Hp.
      rewrite opt1_miss by tauto. rewrite opt1_miss by tauto. reflexivity.
    + rewrite opt1_miss by discriminate. rewrite opt1_mk by reflexivity. rewrite f64_mk by assumption. reflexivity.
    + rewrite opt1_mk by reflexivity. rewrite f64_mk by assumption.
      destruct rest as [|r rest]; [reflexivity|]. cbn [plain_head] in Hp. rewrite opt1_miss by tauto. reflexivity.
    + rewrite opt1_mk by reflexivity. rewrite opt1_mk by reflexivity. rewrite !f64_mk by assumption. reflexivity.
Qed.

Lemma take_str_mk t s tl : no_nul s -> take_str t (mkrec t 6 (pad_even s) :: tl) = Some (s, tl).
Proof.
  intros H. unfold take_str. rewrite is_rec_mk. cbn [mkrec payload]. rewrite strip_nul_pad by exact H.
  replace (no_nulb s) with true; [reflexivity|]. symmetry.
  induction H as [|b s Hb _ IH]; [reflexivity|]. cbn [no_nulb]. rewrite IH.
  replace (b =? 0) with false by (symmetry; apply N.eqb_neq; exact Hb). reflexivity.
Qed.

Lemma spec_ref_written r rest : ref_ok r -> spec_element (ref_records r ++ rest) = Some (ERef (canon_ref r), rest).
Proof.
  intros (Hn & Ho & Hm & Hr & Hpr & Hrep). destruct r as [rn [ox oy] refl mag rot rp pr].
  cbn [r_name r_origin r_refl r_mag r_rot r_rep r_props] in *. destruct Ho as [Hox Hoy]. cbn [fst snd] in Hox, Hoy.
  unfold ref_records. cbn [r_name r_origin r_refl r_mag r_rot r_rep r_props].
  destruct rp as [g|].
  - destruct Hrep as (Hc & Hrw & [H2x H2y] & [H3x H3y] & Hreg & Hrect).
    destruct g as [gc gr greg [x2 y2] [x3 y3]]. cbn [g_cols g_rows g_regular g_p2 g_p3 fst snd] in *.
    assert (Hcr : colrow_ok (mkrec 19 2 (enc16 gc ++ enc16 gr)) = true).
    { unfold colrow_ok. cbn [mkrec payload]. rewrite d16_pair0 by (apply count16_fits; exact Hc).
      rewrite d16_pair1 by (apply count16_fits; exact Hrw). unfold count16 in Hc, Hrw.
      apply andb_true_intro. split; apply Z.leb_le; lia. }
    apply count16_fits in Hc. apply count16_fits in Hrw.
    rewrite <- !app_assoc. cbn [app]. unfold spec_element. rewrite plen_mk. cbn [length N.of_nat N.eqb mkrec rtype].
    unfold spec_ref. rewrite skip_flags_id by discriminate. rewrite take_str_mk by assumption.
    rewrite take_strans_written by (assumption || (cbn; repeat split; discriminate)).
    rewrite take1_mk by reflexivity. rewrite Hcr.
    rewrite take1_mk by (rewrite enc_points_length; reflexivity).
    rewrite take_props_records by (assumption || apply not_propattr_endel).
    unfold take_endel, endel. cbn [mkrec rtype payload N.eqb Pos.eqb].
    rewrite d16_pair0 by assumption. rewrite d16_pair1 by assumption.
    unfold enc_points. cbn [flat_map]. rewrite <- !app_assoc. rewrite app_nil_r.
    rewrite d32_enc32 by assumption. rewrite d32_enc32_1 by assumption.
    rewrite !d32_skip. repeat (rewrite d32_enc32 by assumption). rewrite d32_enc32' by assumption.
    cbn [fst snd]. unfold canon_ref, canon_props. cbn [r_name r_origin r_refl r_mag r_rot r_rep r_props].
    destruct ((real_mantissa rot =? 0) && negb refl) eqn:E; cbn [negb] in Hreg |- *; subst greg.
    + destruct (Hrect eq_refl) as [-> ->]. reflexivity.
    + reflexivity.
  - rewrite <- !app_assoc. cbn [app]. unfold spec_element. rewrite plen_mk. cbn [length N.of_nat N.eqb mkrec rtype].
    unfold spec_ref. rewrite skip_flags_id by discriminate. rewrite take_str_mk by assumption.
    rewrite take_strans_written by (assumption || (cbn; repeat split; discriminate)).
    rewrite take1_mk by (rewrite enc_points_length; reflexivity).
    rewrite take_props_records by (assumption || apply not_propattr_endel).
    unfold take_endel, endel. cbn [mkrec rtype payload N.eqb Pos.eqb].
    unfold enc_points. cbn [flat_map]. rewrite <- !app_assoc. rewrite app_nil_r.
    rewrite d32_enc32 by assumption. rewrite d32_skip. rewrite d32_enc32' by assumption. reflexivity.
Qed.

Lemma spec_label_written l rest : label_ok l -> spec_element (label_records l ++ rest) = Some (ELabel (canon_label l), rest).
Proof.
  intros (Hl & Ht & Htx & Ho & Ha & Hm & Hr & Hpr). destruct l as [la ty tx [ox oy] an refl mag rot pr].
  cbn [l_layer l_type l_text l_origin l_anchor l_refl l_mag l_rot l_props] in *.
  destruct Ho as [Hox Hoy]. cbn [fst snd] in Hox, Hoy.
  unfold label_records. cbn [l_layer l_type l_text l_origin l_anchor l_refl l_mag l_rot l_props].
  rewrite <- !app_assoc. cbn [app]. unfold spec_element. rewrite plen_mk. cbn [length N.of_nat N.eqb mkrec rtype].
  unfold spec_text. rewrite skip_flags_id by discriminate.
  rewrite take1_mk by reflexivity. rewrite take1_mk by reflexivity. rewrite opt1_mk by reflexivity.
  unfold strans_records in *.
  destruct (negb refl && (mag =? real_one) && (rot =? 0)) eqn:E.
  - cbn [app]. rewrite opt1_miss by discriminate. rewrite opt1_miss by discriminate.
    match goal with |- context [take_strans ?L] =>
      assert (Hpl : plain_head L) by (cbn; repeat split; discriminate);
      pose proof (take_strans_written refl mag rot L Hm Hr Hpl) as Hs end.
    unfold strans_records in Hs. rewrite E in Hs. cbn [app] in Hs. rewrite Hs.
    rewrite take1_mk by (rewrite enc_points_length; reflexivity). rewrite take_str_mk by assumption.
    rewrite take_props_records by (assumption || apply not_propattr_endel).
    unfold take_endel, endel. cbn [mkrec rtype payload N.eqb Pos.eqb].
    rewrite !f16_mk by (assumption || (unfold fits16; lia)).
    unfold enc_points. cbn [flat_map]. rewrite <- !app_assoc. rewrite app_nil_r.
    rewrite d32_enc32 by assumption. rewrite d32_skip. rewrite d32_enc32' by assumption.
    replace (Z.to_N (Z.of_N an mod 16)) with an by lia. reflexivity.
  - rewrite <- !app_assoc. cbn [app]. rewrite opt1_miss by discriminate. rewrite opt1_miss by discriminate.
    match goal with |- context [take_strans (?r1 :: ?tl)] => idtac end.
    assert (Hgen : forall L, plain_head L ->
      take_strans (([mkrec 26 1 (if refl then [128; 0] else [0; 0])] ++
                    (if mag =? real_one then [] else [mkrec 27 5 (enc64 mag)]) ++
                    (if rot =? 0 then [] else [mkrec 28 5 (enc64 rot)])) ++ L) = ((refl, mag, rot), L)).
    { intros L HL. pose proof (take_strans_written refl mag rot L Hm Hr HL) as Hs.
      unfold strans_records in Hs. rewrite E in Hs. exact Hs. }
    match goal with |- context [take_strans ?X] =>
      match X with context [mkrec 16 3 ?P :: ?T] =>
        specialize (Hgen (mkrec 16 3 P :: T) ltac:(cbn; repeat split; discriminate)) end end.
    rewrite <- !app_assoc in Hgen. cbn [app] in Hgen. rewrite Hgen.
    rewrite take1_mk by (rewrite enc_points_length; reflexivity). rewrite take_str_mk by assumption.
    rewrite take_props_records by (assumption || apply not_propattr_endel).
    unfold take_endel, endel. cbn [mkrec rtype payload N.eqb Pos.eqb].
    rewrite !f16_mk by (assumption || (unfold fits16; lia)).
    unfold enc_points. cbn [flat_map]. rewrite <- !app_assoc. rewrite app_nil_r.
    rewrite d32_enc32 by assumption. rewrite d32_skip. rewrite d32_enc32' by assumption.
    replace (Z.to_N (Z.of_N an mod 16)) with an by lia. reflexivity.
Qed.

Lemma spec_elem_written e rest : elem_ok e -> spec_element (elem_records e ++ rest) = Some (canon_elem e, rest).
Proof.
  destruct e; cbn [elem_ok elem_records canon_elem];
    [apply spec_poly_written|apply spec_path_written|apply spec_ref_written|apply spec_label_written].
Qed.

(* ------------------------------------------------------------------ structures *)
Lemma elem_records_head e : elem_ok e -> exists r tl, elem_records e = r :: tl /\ rtype r <> 7 /\ rtype r <> 52 /\ rtype r <> 4.
Proof.
  destruct e as [p|h|r|l]; cbn [elem_ok elem_records].
  - intros (_ & _ & _ & _ & Hn & _). unfold poly_records.
    replace (length (p_pts p) <? 3)%nat with false by (symmetry; apply Nat.ltb_ge; lia).
    cbn [app]. do 2 eexists. split; [reflexivity|]. cbn. repeat split; discriminate.
  - intros (_ & _ & _ & _ & Hn & _). unfold path_records.
    replace (length (h_pts h) <? 2)%nat with false by (symmetry; apply Nat.ltb_ge; lia).
    cbn [app]. do 2 eexists. split; [reflexivity|]. cbn. repeat split; discriminate.
  - intros _. unfold ref_records. cbn [app]. do 2 eexists. split; [reflexivity|]. cbn. destruct (r_rep r); repeat split; discriminate.
  - intros _. unfold label_records. cbn [app]. do 2 eexists. split; [reflexivity|]. cbn. repeat split; discriminate.
Qed.

Lemma spec_elements_written : forall es fuel rest,
  Forall elem_ok es -> (length es < fuel)%nat ->
  spec_elements fuel (flat_map elem_records es ++ mkrec 7 0 [] :: rest) = Some (map canon_elem es, rest).
Proof.
  induction es as [|e es IH]; intros fuel rest Hok Hf; destruct fuel as [|fu]; try (cbn [length] in Hf; lia).
  - cbn [flat_map app spec_elements mkrec rtype N.eqb Pos.eqb map]. reflexivity.
  - inversion Hok as [|? ? He Hes]; subst. cbn [flat_map map]. rewrite <- app_assoc.
    destruct (elem_records_head e He) as (r & tl & Hr & H7 & _ & _).
    cbn [spec_elements]. rewrite Hr. cbn [app].
    replace (rtype r =? 7) with false by (symmetry; apply N.eqb_neq; exact H7).
    change (r :: tl ++ flat_map elem_records es ++ mkrec 7 0 [] :: rest) with ((r :: tl) ++ flat_map elem_records es ++ mkrec 7 0 [] :: rest).
    rewrite <- Hr. rewrite spec_elem_written by assumption.
    rewrite IH by (assumption || (cbn [length] in Hf; lia)). reflexivity.
Qed.

Lemma elems_records_length es : Forall elem_ok es -> (length es <= length (flat_map elem_records es))%nat.
Proof.
  induction 1 as [|e es He Hes IH]; [reflexivity|]. cbn [flat_map length]. rewrite app_length.
  destruct (elem_records_head e He) as (r & tl & Hr & _). rewrite Hr. cbn [length]. lia.
Qed.

Lemma cell_of_canon c : cell_of (c_name c) (map canon_elem (cell_elems c)) = canon_cell c.
Proof. unfold cell_of. apply commit_cell. Qed.

Lemma ts_bytes_length ts : (length ts = 6)%nat -> (length (ts_bytes ts) = 24)%nat.
Proof. intros H. unfold ts_bytes. do 7 (destruct ts as [|? ts]; try discriminate). reflexivity. Qed.

Lemma spec_structures_written ts : (length ts = 6)%nat -> forall cells fuel,
  Forall cell_ok cells -> (length cells < fuel)%nat ->
  spec_structures fuel (flat_map (cell_records ts) cells ++ [mkrec 4 0 []]) = Some (map canon_cell cells, []).
Proof.
  intros Hts. induction cells as [|c cells IH]; intros fuel Hok Hf; destruct fuel as [|fu]; try (cbn [length] in Hf; lia).
  - cbn [flat_map app spec_structures mkrec rtype N.eqb Pos.eqb map]. reflexivity.
  - inversion Hok as [|? ? [Hn He] Hcs]; subst. cbn [flat_map map]. rewrite <- app_assoc.
    rewrite cell_records_elems. rewrite <- !app_assoc. cbn [app spec_structures mkrec rtype N.eqb Pos.eqb].
    rewrite is_rec_mk, plen_mk, (ts_bytes_length ts Hts). cbn [N.of_nat Pos.of_succ_nat Pos.succ N.eqb Pos.eqb andb].
    rewrite take_str_mk by assumption.
    assert (Hsk : forall tl, skip_strclass (flat_map elem_records (cell_elems c) ++ mkrec 7 0 [] :: tl) =
                             flat_map elem_records (cell_elems c) ++ mkrec 7 0 [] :: tl).
    { intros tl. destruct (cell_elems c) as [|e es] eqn:Ee; [reflexivity|]. cbn [flat_map].
      inversion He as [|? ? He1 _]; subst. destruct (elem_records_head e He1) as (r & tl' & Hr & _ & H52 & _).
      rewrite Hr. cbn [app skip_strclass]. replace (rtype r =? 52) with false by (symmetry; apply N.eqb_neq; exact H52). reflexivity. }
    rewrite Hsk. rewrite spec_elements_written.
    + rewrite IH by (assumption || (cbn [length] in Hf; lia)). rewrite cell_of_canon. reflexivity.
    + exact He.
    + rewrite app_length. cbn [length]. pose proof (elems_records_length _ He). lia.
Qed.

(* the UNITS record of a library with positive units passes the grammar's check *)
Lemma units_written u0 u1 : unit_ok u0 -> unit_ok u1 ->
  d64 (swap8 (enc64 u0 ++ enc64 u1)) 0 = u0 /\ d64 (swap8 (enc64 u0 ++ enc64 u1)) 1 = u1 /\
  units_ok (mkrec 3 5 (enc64 u0 ++ enc64 u1)) = true.
Proof.
  intros Hu0 Hu1.
  assert (Hd0 : d64 (swap8 (enc64 u0 ++ enc64 u1)) 0 = u0) by (apply d64_enc64; apply unit_ok_real; exact Hu0).
  assert (Hd1 : d64 (swap8 (enc64 u0 ++ enc64 u1)) 1 = u1)
    by (rewrite <- (app_nil_r (enc64 u1)); apply d64_enc64_1; apply unit_ok_real; exact Hu1).
  split; [exact Hd0|]. split; [exact Hd1|].
  unfold units_ok, real_pos. cbn [mkrec payload]. rewrite Hd0, Hd1. destruct Hu0 as [Ha0 Hb0]. destruct Hu1 as [Ha1 Hb1].
  repeat (apply andb_true_intro; split); apply N.ltb_lt; assumption.
Qed.

Theorem spec_records_written ts l :
  (length ts = 6)%nat -> lib_ok l -> spec_records (lib_records ts l) = Some (canon_lib l).
Proof.
  intros Hts (Hn & Hu0 & Hu1 & Hc). destruct l as [nm [u0 u1] cells]. cbn [g_name g_units g_cells fst snd] in *.
  unfold lib_records, spec_records. cbn [g_name g_units g_cells fst snd app].
  rewrite take1_mk by reflexivity. rewrite take1_mk by (rewrite (ts_bytes_length ts Hts); reflexivity).
  rewrite take_str_mk by assumption.
  cbn [skip_libopt libopt mkrec rtype].
  rewrite take1_mk by reflexivity.
  destruct (units_written u0 u1 Hu0 Hu1) as (Hd0 & Hd1 & Huok). rewrite Huok.
  rewrite spec_structures_written; try assumption.
  - cbn [mkrec payload]. rewrite Hd0, Hd1. reflexivity.
  - rewrite app_length. cbn [length]. clear -Hc Hts.
    induction Hc as [|c cells Hc0 Hcs IH]; [cbn; lia|]. cbn [flat_map length]. rewrite app_length.
    rewrite cell_records_elems. cbn [app length]. lia.
Qed.

(* ------------------------------------------------------------------ strict framing of the written bytes *)
Definition rec_strict (r : grecord) : Prop := Nat.even (length (payload r)) = true /\ rtype r <> 4.

Lemma pad_even_even s : Nat.even (length (pad_even s)) = true.
Proof.
  unfold pad_even. destruct (Nat.even (length s)) eqn:E; [exact E|].
  rewrite app_length. cbn [length]. rewrite Nat.add_1_r, Nat.even_succ. rewrite <- Nat.negb_even, E. reflexivity.
Qed.
Lemma enc_points_even pts : Nat.even (length (enc_points pts)) = true.
Proof. rewrite enc_points_length. rewrite Nat.even_mul. reflexivity. Qed.

Ltac strict1 := split; [cbn [mkrec payload rtype]; first [apply pad_even_even | apply enc_points_even | reflexivity] | cbn [mkrec rtype]; discriminate].
Ltac sfl := repeat (apply Forall_cons; [strict1|]); try apply Forall_nil.

Lemma props_strict ps : Forall rec_strict (prop_records ps).
Proof.
  induction ps as [|[a v] ps IH]; [constructor|]. unfold prop_records. cbn [flat_map app]. fold (prop_records ps).
  apply Forall_cons; [strict1|]. apply Forall_cons; [strict1|]. exact IH.
Qed.
Lemma xy_strict fuel : forall pts, Forall rec_strict (xy_records fuel pts).
Proof.
  induction fuel as [|fu IH]; intros pts; [constructor|]. cbn [xy_records]. destruct pts as [|p pts]; [constructor|].
  apply Forall_cons; [strict1|apply IH].
Qed.
Lemma strans_strict refl mag rot : Forall rec_strict (strans_records refl mag rot).
Proof.
  unfold strans_records. destruct (negb refl && (mag =? real_one) && (rot =? 0)); [constructor|].
  apply Forall_app. split; [|apply Forall_app; split].
  - apply Forall_cons; [|apply Forall_nil]. split; [destruct refl; reflexivity|discriminate].
  - destruct (mag =? real_one); sfl.
  - destruct (rot =? 0); sfl.
Qed.

Lemma elem_strict e : Forall rec_strict (elem_records e).
Proof.
  destruct e as [p|h|r|l]; cbn [elem_records].
  - unfold poly_records. destruct (length (p_pts p) <? 3)%nat; [constructor|].
    repeat (apply Forall_app; split); try apply xy_strict; try apply props_strict; sfl.
  - unfold path_records. destruct (length (h_pts h) <? 2)%nat; [constructor|].
    repeat (apply Forall_app; split); try apply xy_strict; try apply props_strict; try sfl.
    destruct (h_end h); sfl.
  - unfold ref_records.
    repeat (apply Forall_app; split); try apply strans_strict; try apply props_strict; try sfl.
    + apply Forall_cons; [split; [reflexivity|destruct (r_rep r); discriminate]|]. sfl.
    + destruct (r_rep r); sfl.
  - unfold label_records.
    repeat (apply Forall_app; split); try apply strans_strict; try apply props_strict; sfl.
Qed.

Lemma lib_strict_prefix ts l : (length ts = 6)%nat ->
  exists pre, lib_records ts l = pre ++ [mkrec 4 0 []] /\ Forall rec_strict pre.
Proof.
  intros Hts. unfold lib_records.
  exists ([mkrec 0 2 (enc16 600); mkrec 1 2 (ts_bytes ts); mkrec 2 6 (pad_even (g_name l));
           mkrec 3 5 (enc64 (fst (g_units l)) ++ enc64 (snd (g_units l)))] ++ flat_map (cell_records ts) (g_cells l)).
  split; [rewrite <- app_assoc; reflexivity|].
  apply Forall_app. split.
  - apply Forall_cons; [strict1|]. apply Forall_cons; [split; [cbn [mkrec payload]; rewrite (ts_bytes_length ts Hts); reflexivity|discriminate]|]. sfl.
  - apply Forall_flat_map_. apply Forall_forall. intros c _. rewrite cell_records_elems.
    repeat (apply Forall_app; split).
    + apply Forall_cons; [split; [cbn [mkrec payload]; rewrite (ts_bytes_length ts Hts); reflexivity|discriminate]|]. sfl.
    + apply Forall_flat_map_. apply Forall_forall. intros e _. apply elem_strict.
    + sfl.
Qed.

Lemma frame_all_written : forall pre fuel,
  Forall rec_ok pre -> Forall rec_strict pre -> (length pre < fuel)%nat ->
  frame_all fuel (flat_map rec_bytes (pre ++ [mkrec 4 0 []])) = Some (pre ++ [mkrec 4 0 []]).
Proof.
  induction pre as [|r pre IH]; intros fuel Hok Hst Hf; destruct fuel as [|fu]; try (cbn [length] in Hf; lia).
  - reflexivity.
  - inversion Hok as [|? ? (Hl & Ht & Hd) Hoks]; subst. inversion Hst as [|? ? [Hev H4] Hsts]; subst.
    cbn [app flat_map frame_all].
    assert (Hne : exists b0 bs0, rec_bytes r ++ flat_map rec_bytes (pre ++ [mkrec 4 0 []]) = b0 :: bs0)
      by (unfold rec_bytes; cbn [app]; do 2 eexists; reflexivity).
    destruct Hne as (b0 & bs0 & Hbs). rewrite Hbs. rewrite <- Hbs.
    rewrite next_record_rec_bytes by assumption. rewrite Hev.
    replace (rtype r =? 4) with false by (symmetry; apply N.eqb_neq; exact H4).
    rewrite IH by (assumption || (cbn [length] in Hf; lia)). reflexivity.
Qed.

(* every library the writer model emits is accepted by the strict decoder and decodes to what was saved *)
Theorem writer_conforms_lemma ts l :
  (length ts = 6)%nat -> lib_ok l -> lib_fits l ->
  spec_decode (write_gds_model ts l) = Some (canon_lib l).
Proof.
  intros Hts Hok Hfit. unfold spec_decode, write_gds_model.
  destruct (lib_strict_prefix ts l Hts) as (pre & Hpre & Hst).
  pose proof (lib_rec_ok ts l Hts Hfit) as Hrok. rewrite Hpre in Hrok. apply Forall_app in Hrok. destruct Hrok as [Hrok _].
  rewrite Hpre.
  rewrite frame_all_written; try assumption.
  - rewrite <- Hpre. apply spec_records_written; assumption.
  - assert (Hlen : (length pre <= length (flat_map rec_bytes (pre ++ [mkrec 4 0 []])))%nat).
    { clear. induction pre as [|r pre IH]; cbn [app flat_map length]; [lia|]. rewrite app_length. unfold rec_bytes at 1. cbn [length]. lia. }
    lia.
Qed.
