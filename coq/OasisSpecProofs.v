(* Proofs about OasisSpec.v: the compact-trapezoid table, primitive and field round trips, one lemma per
   record kind, and the round trip of whole files  spec_oas_decode (spec_oas_encode ch L) = Some L. *)
Require Import Base OasisInt OasisIntProofs OasisSpec Generated.
From Coq Require Import ZifyBool ZifyN ZifyNat.
Local Open Scope N_scope.

(* ================================================================== compact trapezoids *)
(* tie to the source: the table extracted from read_oas today is the specification table *)
Theorem ctrapezoid_table_matches_spec_lemma : ctrap_table = spec_ctrap_table.
Proof. vm_compute. reflexivity. Qed.

Local Open Scope Z_scope.
Definition lf_sub (a b : lf) : lf := (fst a - fst b, snd a - snd b).
Definition lf_neg (a : lf) : lf := (- fst a, - snd a).
Definition lf_eqb (a b : lf) : bool := (fst a =? fst b) && (snd a =? snd b).
Definition lf_zero (a : lf) : bool := lf_eqb a (0, 0).
(* an edge between two vertices given by linear forms: horizontal, vertical or at 45 degrees for EVERY w, h *)
Definition edge_h (p q : lfpt) : bool := lf_zero (lf_sub (snd q) (snd p)).
Definition edge_v (p q : lfpt) : bool := lf_zero (lf_sub (fst q) (fst p)).
Definition edge_d (p q : lfpt) : bool :=
  let dx := lf_sub (fst q) (fst p) in let dy := lf_sub (snd q) (snd p) in
  lf_eqb dx dy || lf_eqb dx (lf_neg dy).
Definition edge_ok (p q : lfpt) : bool := edge_h p q || edge_v p q || edge_d p q.
Definition entry_wf (f : list lfpt) : bool :=
  match f with
  | [a; b; c; d] =>
      edge_ok a b && edge_ok b c && edge_ok c d && edge_ok d a &&
      ((edge_h a b && edge_h c d) || (edge_v b c && edge_v d a))
  | [a; b; c] =>
      edge_ok a b && edge_ok b c && edge_ok c a &&
      (edge_h a b || edge_v a b || edge_h b c || edge_v b c || edge_h c a || edge_v c a)
  | _ => false
  end.

(* the same notions on grid points *)
Definition pt_h (p q : pt) : Prop := snd q = snd p.
Definition pt_v (p q : pt) : Prop := fst q = fst p.
Definition pt_d (p q : pt) : Prop := fst q - fst p = snd q - snd p \/ fst q - fst p = - (snd q - snd p).
Definition pt_ok (p q : pt) : Prop := pt_h p q \/ pt_v p q \/ pt_d p q.
Definition shape_wf (l : list pt) : Prop :=
  match l with
  | [a; b; c; d] =>
      pt_ok a b /\ pt_ok b c /\ pt_ok c d /\ pt_ok d a /\ ((pt_h a b /\ pt_h c d) \/ (pt_v b c /\ pt_v d a))
  | [a; b; c] =>
      pt_ok a b /\ pt_ok b c /\ pt_ok c a /\
      (pt_h a b \/ pt_v a b \/ pt_h b c \/ pt_v b c \/ pt_h c a \/ pt_v c a)
  | _ => False
  end.

Lemma lf_zero_eval f g w h : lf_zero (lf_sub f g) = true -> lf_eval f w h = lf_eval g w h.
Proof.
  unfold lf_zero, lf_eqb, lf_sub, lf_eval. destruct f as [a b], g as [c d]. cbn [fst snd]. intros H.
  apply andb_true_iff in H. destruct H as [H1 H2]. apply Z.eqb_eq in H1, H2. nia.
Qed.
Lemma edge_h_sound p q w h : edge_h p q = true -> pt_h (lfpt_eval w h p) (lfpt_eval w h q).
Proof. unfold edge_h, pt_h, lfpt_eval. cbn [snd]. apply lf_zero_eval. Qed.
Lemma edge_v_sound p q w h : edge_v p q = true -> pt_v (lfpt_eval w h p) (lfpt_eval w h q).
Proof. unfold edge_v, pt_v, lfpt_eval. cbn [fst]. apply lf_zero_eval. Qed.
Lemma edge_d_sound p q w h : edge_d p q = true -> pt_d (lfpt_eval w h p) (lfpt_eval w h q).
Proof.
  unfold edge_d, pt_d, lfpt_eval, lf_eqb, lf_sub, lf_neg, lf_eval.
  destruct p as [[a b] [c d]], q as [[a' b'] [c' d']]. cbn [fst snd]. intros H.
  apply orb_true_iff in H. destruct H as [H|H]; apply andb_true_iff in H; destruct H as [H1 H2];
    apply Z.eqb_eq in H1, H2; [left|right]; nia.
Qed.
Lemma edge_ok_sound p q w h : edge_ok p q = true -> pt_ok (lfpt_eval w h p) (lfpt_eval w h q).
Proof.
  unfold edge_ok, pt_ok. intros H. apply orb_true_iff in H. destruct H as [H|H].
  - apply orb_true_iff in H. destruct H as [H|H].
    + left. apply edge_h_sound; assumption.
    + right; left. apply edge_v_sound; assumption.
  - right; right. apply edge_d_sound; assumption.
Qed.

Lemma entry_wf_sound f w h : entry_wf f = true -> shape_wf (map (lfpt_eval w h) f).
Proof.
  destruct f as [|a [|b [|c [|d [|e f]]]]]; try discriminate; cbn [entry_wf map shape_wf]; intros H.
  - repeat (apply andb_true_iff in H; destruct H as [H ?]).
    repeat split; try (apply edge_ok_sound; assumption).
    repeat (match goal with Hx : (_ || _) = true |- _ => apply orb_true_iff in Hx; destruct Hx as [Hx|Hx] end);
      eauto 8 using edge_h_sound, edge_v_sound.
  - repeat (apply andb_true_iff in H; destruct H as [H ?]).
    repeat split; try (apply edge_ok_sound; assumption).
    match goal with Hx : (_ || _) = true |- _ => apply orb_true_iff in Hx; destruct Hx as [Hx|Hx] end.
    + left. apply andb_true_iff in H0. destruct H0. split; apply edge_h_sound; assumption.
    + right. apply andb_true_iff in H0. destruct H0. split; apply edge_v_sound; assumption.
Qed.

Lemma spec_table_entries_wf : forallb (fun e => entry_wf (snd e)) spec_ctrap_table = true.
Proof. vm_compute. reflexivity. Qed.

(* every entry of the table is, for every width and height, a closed figure with 3 or 4 vertices whose sides are
   horizontal, vertical or at 45 degrees, with two parallel axis-aligned sides (4 vertices) or one axis-aligned
   side (triangles) *)
Theorem ctrapezoid_table_wellformed : forall ty forms, In (ty, forms) spec_ctrap_table ->
  forall w h, shape_wf (map (lfpt_eval w h) forms).
Proof.
  intros ty forms Hin w h. apply entry_wf_sound.
  pose proof spec_table_entries_wf as H. rewrite forallb_forall in H. apply (H (ty, forms)). assumption.
Qed.

Theorem ctrapezoid_table_complete : forall ty, (ty < 26)%N -> In (ty, spec_ctrap_vertices ty) spec_ctrap_table.
Proof.
  intros ty H. unfold spec_ctrap_table. apply in_map_iff. exists ty. split; [reflexivity|].
  assert (Hn : exists k, (k < 26)%nat /\ ty = N.of_nat k) by (exists (N.to_nat ty); split; lia).
  destruct Hn as [k [Hk ->]].
  do 26 (destruct k as [|k]; [vm_compute; tauto|]). lia.
Qed.
Local Close Scope Z_scope.

(* ================================================================== primitive round trips *)
Definition wf_u (v : N) : Prop := v < two64.
Definition wf_pt (p : pt) : Prop := fits63 (fst p) /\ fits63 (snd p).

Lemma rd_uint_enc v rest : wf_u v -> rd_uint (enc_uint v ++ rest) = Some (v, rest).
Proof. intros H. unfold rd_uint. rewrite uint_roundtrip_lemma by exact H. reflexivity. Qed.
Lemma rd_int_enc z rest : fits63 z -> rd_int (enc_int z ++ rest) = Some (z, rest).
Proof. intros H. unfold rd_int. rewrite int_roundtrip_lemma by exact H. reflexivity. Qed.
Lemma rd_g_enc p rest : wf_pt p -> rd_g (wr_g p ++ rest) = Some (p, rest).
Proof.
  intros [H1 H2]. unfold rd_g, wr_g. rewrite gdelta_roundtrip_lemma by assumption. destruct p; reflexivity.
Qed.
Lemma rd_2d_enc p rest : wf_pt p -> is_manh p = true ->
  rd_2d (enc_2delta (fst p) (snd p) ++ rest) = Some (p, rest).
Proof.
  intros [H1 H2] Hm. unfold rd_2d. rewrite delta2_roundtrip_lemma; try assumption.
  - destruct p; reflexivity.
  - unfold is_manh in Hm. apply orb_true_iff in Hm. destruct Hm as [Hm|Hm]; apply Z.eqb_eq in Hm; tauto.
Qed.
Lemma rd_3d_enc p rest : wf_pt p -> is_oct p = true ->
  rd_3d (enc_3delta (fst p) (snd p) ++ rest) = Some (p, rest).
Proof.
  intros [H1 H2] Hm. unfold rd_3d. rewrite delta3_roundtrip_lemma; try assumption.
  - destruct p; reflexivity.
  - unfold is_oct in Hm. unfold octangular.
    repeat (apply orb_true_iff in Hm; destruct Hm as [Hm|Hm]); apply Z.eqb_eq in Hm; tauto.
Qed.

(* encodings are never empty (needed for the count guards) *)
Lemma enc_uint_f_nonempty f v : enc_uint_f f v <> [].
Proof. destruct f; cbn [enc_uint_f]; [discriminate|]. destruct (0 <? N.shiftr v 7); discriminate. Qed.
Lemma enc_uint_nonempty v : enc_uint v <> [].
Proof. apply enc_uint_f_nonempty. Qed.
Lemma enc_int_internal_nonempty v nb b : enc_int_internal v nb b <> [].
Proof. unfold enc_int_internal. destruct (0 <? _); discriminate. Qed.
Lemma enc_int_nonempty z : enc_int z <> [].
Proof. unfold enc_int. destruct (z <? 0)%Z; apply enc_int_internal_nonempty. Qed.
Lemma app_nonempty_l {A} (a b : list A) : a <> [] -> a ++ b <> [].
Proof. destruct a; [congruence|discriminate]. Qed.
Lemma wr_g_nonempty p : wr_g p <> [].
Proof.
  unfold wr_g, enc_gdelta.
  repeat match goal with |- context [if ?c then _ else _] => destruct c end;
    try apply enc_int_internal_nonempty; apply app_nonempty_l; apply enc_int_internal_nonempty.
Qed.
Lemma enc_2delta_nonempty p : is_manh p = true -> enc_2delta (fst p) (snd p) <> [].
Proof.
  unfold is_manh, enc_2delta. intros H.
  destruct (fst p =? 0)%Z eqn:E1.
  - destruct (snd p <? 0)%Z; apply enc_int_internal_nonempty.
  - cbn [orb] in H. rewrite H. destruct (fst p <? 0)%Z; apply enc_int_internal_nonempty.
Qed.
Lemma enc_3delta_nonempty p : is_oct p = true -> enc_3delta (fst p) (snd p) <> [].
Proof.
  unfold is_oct, enc_3delta. intros H.
  destruct (fst p =? 0)%Z eqn:E1; [destruct (snd p <? 0)%Z; apply enc_int_internal_nonempty|].
  destruct (snd p =? 0)%Z eqn:E2; [destruct (fst p <? 0)%Z; apply enc_int_internal_nonempty|].
  destruct (fst p =? snd p)%Z eqn:E3; [destruct (fst p <? 0)%Z; apply enc_int_internal_nonempty|].
  cbn [orb] in H. rewrite H. destruct (fst p <? 0)%Z; apply enc_int_internal_nonempty.
Qed.

Lemma nonempty_length {A} (l : list A) : l <> [] -> (1 <= length l)%nat.
Proof. destruct l; [congruence|cbn; lia]. Qed.

(* n items written one after the other are read back *)
Lemma rd_n_flat_map {A} (rd : list N -> option (A * list N)) (wr : A -> list N) (l : list A) rest :
  (forall a r, In a l -> rd (wr a ++ r) = Some (a, r)) ->
  rd_n rd (length l) (flat_map wr l ++ rest) = Some (l, rest).
Proof.
  induction l as [|a t IH]; intros H; [reflexivity|].
  cbn [length rd_n flat_map]. rewrite <- app_assoc. rewrite H by (left; reflexivity). cbn [obnd].
  rewrite IH by (intros; apply H; right; assumption). reflexivity.
Qed.
Lemma flat_map_length_ge {A} (wr : A -> list N) (l : list A) :
  (forall a, In a l -> wr a <> []) -> (length l <= length (flat_map wr l))%nat.
Proof.
  induction l as [|a t IH]; intros H; [cbn; lia|].
  cbn [flat_map length]. rewrite app_length.
  pose proof (nonempty_length (wr a) (H a (or_introl eq_refl))).
  specialize (IH (fun b Hb => H b (or_intror Hb))). lia.
Qed.
Lemma rd_count_flat_map {A} (rd : list N -> option (A * list N)) (wr : A -> list N) (l : list A) n rest :
  n = N.of_nat (length l) ->
  (forall a r, In a l -> rd (wr a ++ r) = Some (a, r)) ->
  (forall a, In a l -> wr a <> []) ->
  rd_count rd n (flat_map wr l ++ rest) = Some (l, rest).
Proof.
  intros -> H Hne. unfold rd_count.
  pose proof (flat_map_length_ge wr l Hne) as Hl.
  replace (N.of_nat (length (flat_map wr l ++ rest)) <? N.of_nat (length l)) with false
    by (symmetry; apply N.ltb_ge; rewrite app_length; lia).
  rewrite Nat2N.id. apply rd_n_flat_map. assumption.
Qed.

(* strings *)
Lemma take_n_app s rest : take_n (length s) (s ++ rest) = Some (s, rest).
Proof. induction s as [|b t IH]; [reflexivity|]. cbn [length take_n app]. rewrite IH. reflexivity. Qed.
Definition wf_str (s : list N) : Prop := N.of_nat (length s) < two64.
Lemma rd_string_enc s rest : wf_str s -> rd_string (wr_string s ++ rest) = Some (s, rest).
Proof.
  intros H. unfold rd_string, wr_string. rewrite <- app_assoc. rewrite rd_uint_enc by exact H. cbn [obnd].
  unfold rd_bytes.
  replace (N.of_nat (length (s ++ rest)) <? N.of_nat (length s)) with false
    by (symmetry; apply N.ltb_ge; rewrite app_length; lia).
  rewrite Nat2N.id. apply take_n_app.
Qed.

(* reals *)
Definition wf_real (x : real) : Prop :=
  match x with
  | RInt _ n | RRecip _ n => wf_u n
  | RRatio _ a b => wf_u a /\ wf_u b
  | RF32 b => length b = 4%nat
  | RF64 b => length b = 8%nat
  end.
Lemma rd_uint_small k rest : k < 128 -> rd_uint (k :: rest) = Some (k, rest).
Proof.
  intros H. unfold rd_uint, dec_uint.
  replace (0 <? N.land k 128) with false
    by (symmetry; apply N.ltb_ge; rewrite land128_of_small by assumption; lia).
  rewrite land127. rewrite N.mod_small by lia. reflexivity.
Qed.
Lemma rd_real_enc x rest : wf_real x -> rd_real (wr_real x ++ rest) = Some (x, rest).
Proof.
  intros H. unfold rd_real.
  destruct x as [s n|s n|s a b|b|b]; cbn [wr_real app]; cbn [wf_real] in H.
  - destruct s; rewrite rd_uint_small by lia; cbn [obnd rd_real_by]; rewrite rd_uint_enc by exact H; reflexivity.
  - destruct s; rewrite rd_uint_small by lia; cbn [obnd rd_real_by]; rewrite rd_uint_enc by exact H; reflexivity.
  - destruct H as [Ha Hb].
    destruct s; rewrite rd_uint_small by lia; cbn [obnd rd_real_by]; rewrite <- app_assoc;
      rewrite rd_uint_enc by exact Ha; cbn [obnd]; rewrite rd_uint_enc by exact Hb; reflexivity.
  - rewrite rd_uint_small by lia. cbn [obnd rd_real_by]. rewrite <- H. rewrite take_n_app. reflexivity.
  - rewrite rd_uint_small by lia. cbn [obnd rd_real_by]. rewrite <- H. rewrite take_n_app. reflexivity.
Qed.

(* ================================================================== repetitions *)
Definition wf_grid (g : option N) : Prop := match g with Some v => wf_u v | None => True end.
Definition wf_rep (r : srep) : Prop :=
  match r with
  | R_rect a b c d => wf_u a /\ wf_u b /\ wf_u c /\ wf_u d
  | R_rectx a b | R_recty a b => wf_u a /\ wf_u b
  | R_xs g l | R_ys g l => wf_grid g /\ l <> [] /\ wf_u (N.of_nat (length l)) /\ Forall wf_u l
  | R_reg n m v1 v2 => wf_u n /\ wf_u m /\ wf_pt v1 /\ wf_pt v2
  | R_lin n v => wf_u n /\ wf_pt v
  | R_exp g l => wf_grid g /\ l <> [] /\ wf_u (N.of_nat (length l)) /\ Forall wf_pt l
  end.

Lemma rd_list_after_count_enc {A} (rd : list N -> option (A * list N)) (wr : A -> list N) g l rest :
  wf_grid g -> l <> [] -> wf_u (N.of_nat (length l)) ->
  (forall a r, In a l -> rd (wr a ++ r) = Some (a, r)) ->
  (forall a, In a l -> wr a <> []) ->
  rd_list_after_count rd (match g with Some _ => true | None => false end)
    (wr_list_after_count wr g l ++ rest) = Some (g, l, rest).
Proof.
  intros Hg Hne Hlen Hrd Hw. unfold rd_list_after_count, wr_list_after_count.
  assert (Hl : (1 <= length l)%nat) by (apply nonempty_length; assumption).
  rewrite <- app_assoc. rewrite rd_uint_enc by (unfold wf_u in *; lia). cbn [obnd].
  destruct g as [gv|]; cbn [wf_grid] in Hg.
  - rewrite <- app_assoc. rewrite rd_uint_enc by exact Hg. cbn [obnd].
    rewrite (rd_count_flat_map rd wr l) by (try assumption; lia). reflexivity.
  - cbn [app obnd]. rewrite (rd_count_flat_map rd wr l) by (try assumption; lia). reflexivity.
Qed.

Lemma rlac_some {A} (rd : list N -> option (A * list N)) (wr : A -> list N) gv l rest :
  wf_u gv -> l <> [] -> wf_u (N.of_nat (length l)) ->
  (forall a r, In a l -> rd (wr a ++ r) = Some (a, r)) -> (forall a, In a l -> wr a <> []) ->
  rd_list_after_count rd true (wr_list_after_count wr (Some gv) l ++ rest) = Some (Some gv, l, rest).
Proof. intros. apply (rd_list_after_count_enc rd wr (Some gv) l rest); assumption. Qed.
Lemma rlac_none {A} (rd : list N -> option (A * list N)) (wr : A -> list N) l rest :
  l <> [] -> wf_u (N.of_nat (length l)) ->
  (forall a r, In a l -> rd (wr a ++ r) = Some (a, r)) -> (forall a, In a l -> wr a <> []) ->
  rd_list_after_count rd false (wr_list_after_count wr None l ++ rest) = Some (None, l, rest).
Proof. intros. apply (rd_list_after_count_enc rd wr None l rest); try assumption. exact I. Qed.

Lemma Forall_In {A} (P : A -> Prop) l a : Forall P l -> In a l -> P a.
Proof. intros H. rewrite Forall_forall in H. apply H. Qed.

Lemma rd_rep_enc mr r rest : wf_rep r -> rd_rep mr (wr_rep r ++ rest) = Some (r, rest).
Proof.
  intros H. unfold rd_rep.
  destruct r as [a b c d|a b|a b|g l|g l|n m v1 v2|n v|g l]; cbn [wr_rep wf_rep app] in *.
  - destruct H as (Ha & Hb & Hc & Hd). rewrite rd_uint_small by lia. cbn [obnd].
    repeat rewrite <- app_assoc.
    rewrite rd_uint_enc by exact Ha. cbn [obnd]. rewrite rd_uint_enc by exact Hb. cbn [obnd].
    rewrite rd_uint_enc by exact Hc. cbn [obnd]. rewrite rd_uint_enc by exact Hd. reflexivity.
  - destruct H as (Ha & Hb). rewrite rd_uint_small by lia. cbn [obnd]. rewrite <- app_assoc.
    rewrite rd_uint_enc by exact Ha. cbn [obnd]. rewrite rd_uint_enc by exact Hb. reflexivity.
  - destruct H as (Ha & Hb). rewrite rd_uint_small by lia. cbn [obnd]. rewrite <- app_assoc.
    rewrite rd_uint_enc by exact Ha. cbn [obnd]. rewrite rd_uint_enc by exact Hb. reflexivity.
  - destruct H as (Hg & Hne & Hlen & Hall).
    destruct g as [gv|]; rewrite rd_uint_small by lia; cbn [obnd].
    + rewrite (rlac_some rd_uint enc_uint gv l);
       [reflexivity|assumption|assumption|assumption|
        intros a r Ha; apply rd_uint_enc; apply (Forall_In _ _ _ Hall Ha)|intros; apply enc_uint_nonempty].
    + rewrite (rlac_none rd_uint enc_uint l);
       [reflexivity|assumption|assumption|
        intros a r Ha; apply rd_uint_enc; apply (Forall_In _ _ _ Hall Ha)|intros; apply enc_uint_nonempty].
  - destruct H as (Hg & Hne & Hlen & Hall).
    destruct g as [gv|]; rewrite rd_uint_small by lia; cbn [obnd].
    + rewrite (rlac_some rd_uint enc_uint gv l);
       [reflexivity|assumption|assumption|assumption|
        intros a r Ha; apply rd_uint_enc; apply (Forall_In _ _ _ Hall Ha)|intros; apply enc_uint_nonempty].
    + rewrite (rlac_none rd_uint enc_uint l);
       [reflexivity|assumption|assumption|
        intros a r Ha; apply rd_uint_enc; apply (Forall_In _ _ _ Hall Ha)|intros; apply enc_uint_nonempty].
  - destruct H as (Ha & Hb & Hc & Hd). rewrite rd_uint_small by lia. cbn [obnd].
    repeat rewrite <- app_assoc.
    rewrite rd_uint_enc by exact Ha. cbn [obnd]. rewrite rd_uint_enc by exact Hb. cbn [obnd].
    rewrite rd_g_enc by exact Hc. cbn [obnd]. rewrite rd_g_enc by exact Hd. reflexivity.
  - destruct H as (Ha & Hb). rewrite rd_uint_small by lia. cbn [obnd]. rewrite <- app_assoc.
    rewrite rd_uint_enc by exact Ha. cbn [obnd]. rewrite rd_g_enc by exact Hb. reflexivity.
  - destruct H as (Hg & Hne & Hlen & Hall).
    destruct g as [gv|]; rewrite rd_uint_small by lia; cbn [obnd].
    + rewrite (rlac_some rd_g wr_g gv l);
       [reflexivity|assumption|assumption|assumption|
        intros a r Ha; apply rd_g_enc; apply (Forall_In _ _ _ Hall Ha)|intros; apply wr_g_nonempty].
    + rewrite (rlac_none rd_g wr_g l);
       [reflexivity|assumption|assumption|
        intros a r Ha; apply rd_g_enc; apply (Forall_In _ _ _ Hall Ha)|intros; apply wr_g_nonempty].
Qed.

(* ================================================================== point lists *)
Local Open Scope Z_scope.
Definition bnd (k : Z) (p : pt) : Prop := - 2 ^ k < fst p < 2 ^ k /\ - 2 ^ k < snd p < 2 ^ k.
Lemma bnd_wf_pt k p : k <= 63 -> bnd k p -> wf_pt p.
Proof.
  intros Hk [H1 H2]. unfold wf_pt, fits63, two63.
  assert (2 ^ k <= 2 ^ 63) by (apply Z.pow_le_mono_r; lia).
  change (Z.of_N 9223372036854775808) with (2 ^ 63). lia.
Qed.
Lemma prefix_sums_deltas p l : prefix_sums_pt p (deltas p l) = l.
Proof.
  revert p. induction l as [|q t IH]; intros p; [reflexivity|].
  cbn [deltas prefix_sums_pt]. unfold padd at 1 2. cbn [fst snd].
  replace (fst p + (fst q - fst p), snd p + (snd q - snd p)) with q by (destruct q; cbn; f_equal; lia).
  rewrite IH. reflexivity.
Qed.
Lemma ddelta_deltas p d l : ddelta_accum p d (deltas d (deltas p l)) = l.
Proof.
  revert p d. induction l as [|q t IH]; intros p d; [reflexivity|].
  cbn [deltas]. cbn [ddelta_accum]. cbv zeta. cbn [fst snd].
  assert (E1 : padd d (fst q - fst p - fst d, snd q - snd p - snd d) = (fst q - fst p, snd q - snd p))
    by (unfold padd; cbn [fst snd]; f_equal; lia).
  rewrite E1.
  assert (E2 : padd p (fst q - fst p, snd q - snd p) = q)
    by (unfold padd; destruct q; cbn [fst snd]; f_equal; lia).
  rewrite E2. rewrite IH. reflexivity.
Qed.
Lemma deltas_bnd k p l : 0 <= k -> bnd k p -> Forall (bnd k) l -> Forall (bnd (k + 1)) (deltas p l).
Proof.
  intros Hk. revert p. induction l as [|q t IH]; intros p Hp Hl; [constructor|].
  inversion Hl as [|? ? Hq Ht]; subst. cbn [deltas]. constructor; [|apply IH; assumption].
  destruct Hp as [P1 P2], Hq as [Q1 Q2]. unfold bnd. cbn [fst snd].
  rewrite Z.pow_add_r by lia. change (2 ^ 1) with 2. lia.
Qed.
Lemma deltas_length p l : length (deltas p l) = length l.
Proof. revert p. induction l; intros; cbn; [reflexivity|f_equal; auto]. Qed.
Lemma bnd_origin k : 0 <= k -> bnd k (0, 0).
Proof. intros. unfold bnd. cbn [fst snd]. assert (0 < 2 ^ k) by (apply Z.pow_pos_nonneg; lia). lia. Qed.
Local Close Scope Z_scope.

Definition wf_pts (l : list pt) : Prop := wf_u (N.of_nat (length l)) /\ Forall (bnd 60) l.

Lemma rd_plist_enc closed pref pts rest : wf_pts pts ->
  rd_plist closed (wr_plist pref pts ++ rest) = Some (pts, rest).
Proof.
  intros [Hlen Hb]. unfold wr_plist.
  pose proof (deltas_bnd 60 (0, 0)%Z pts ltac:(lia) (bnd_origin 60 ltac:(lia)) Hb) as Hd. cbn in Hd.
  pose proof (deltas_bnd 61 (0, 0)%Z _ ltac:(lia) (bnd_origin 61 ltac:(lia)) Hd) as Hdd. cbn in Hdd.
  destruct ((pref =? 2) && forallb is_manh (deltas (0, 0)%Z pts)) eqn:E2.
  - apply andb_true_iff in E2. destruct E2 as [_ Hm]. rewrite forallb_forall in Hm.
    unfold rd_plist. cbn [app]. rewrite rd_uint_small by lia. cbn [obnd]. rewrite <- app_assoc.
    rewrite rd_uint_enc by exact Hlen. cbn [obnd].
    rewrite (rd_count_flat_map rd_2d (fun d => enc_2delta (fst d) (snd d)) (deltas (0, 0)%Z pts)).
    + cbn [obnd]. rewrite prefix_sums_deltas. reflexivity.
    + rewrite deltas_length. reflexivity.
    + intros a r Ha. apply rd_2d_enc; [|apply Hm; assumption].
      apply (bnd_wf_pt 61); [lia|]. apply (Forall_In _ _ _ Hd Ha).
    + intros a Ha. apply enc_2delta_nonempty. apply Hm. assumption.
  - destruct ((pref =? 3) && forallb is_oct (deltas (0, 0)%Z pts)) eqn:E3.
    + apply andb_true_iff in E3. destruct E3 as [_ Hm]. rewrite forallb_forall in Hm.
      unfold rd_plist. cbn [app]. rewrite rd_uint_small by lia. cbn [obnd]. rewrite <- app_assoc.
      rewrite rd_uint_enc by exact Hlen. cbn [obnd].
      rewrite (rd_count_flat_map rd_3d (fun d => enc_3delta (fst d) (snd d)) (deltas (0, 0)%Z pts)).
      * cbn [obnd]. rewrite prefix_sums_deltas. reflexivity.
      * rewrite deltas_length. reflexivity.
      * intros a r Ha. apply rd_3d_enc; [|apply Hm; assumption].
        apply (bnd_wf_pt 61); [lia|]. apply (Forall_In _ _ _ Hd Ha).
      * intros a Ha. apply enc_3delta_nonempty. apply Hm. assumption.
    + destruct (pref =? 5).
      * unfold rd_plist. cbn [app]. rewrite rd_uint_small by lia. cbn [obnd]. rewrite <- app_assoc.
        rewrite rd_uint_enc by exact Hlen. cbn [obnd].
        rewrite (rd_count_flat_map rd_g wr_g (deltas (0, 0)%Z (deltas (0, 0)%Z pts))).
        -- cbn [obnd]. rewrite ddelta_deltas. reflexivity.
        -- rewrite !deltas_length. reflexivity.
        -- intros a r Ha. apply rd_g_enc. apply (bnd_wf_pt 62); [lia|]. apply (Forall_In _ _ _ Hdd Ha).
        -- intros; apply wr_g_nonempty.
      * unfold rd_plist. cbn [app]. rewrite rd_uint_small by lia. cbn [obnd]. rewrite <- app_assoc.
        rewrite rd_uint_enc by exact Hlen. cbn [obnd].
        rewrite (rd_count_flat_map rd_g wr_g (deltas (0, 0)%Z pts)).
        -- cbn [obnd]. rewrite prefix_sums_deltas. reflexivity.
        -- rewrite deltas_length. reflexivity.
        -- intros a r Ha. apply rd_g_enc. apply (bnd_wf_pt 61); [lia|]. apply (Forall_In _ _ _ Hd Ha).
        -- intros; apply wr_g_nonempty.
Qed.

(* ================================================================== info bytes and fields *)
Lemma bit_mkinfo b7 b6 b5 b4 b3 b2 b1 b0 :
  let i := mkinfo b7 b6 b5 b4 b3 b2 b1 b0 in
  bit i 0 = b0 /\ bit i 1 = b1 /\ bit i 2 = b2 /\ bit i 3 = b3 /\ bit i 4 = b4 /\ bit i 5 = b5 /\ bit i 6 = b6 /\
  bit i 7 = b7.
Proof. destruct b7, b6, b5, b4, b3, b2, b1, b0; vm_compute; repeat split; reflexivity. Qed.
Lemma mkinfo_aa b7 b6 b5 b4 b3 b2 b1 b0 :
  N.land (N.shiftr (mkinfo b7 b6 b5 b4 b3 b2 b1 b0) 1) 3 = (if b2 then 2 else 0) + (if b1 then 1 else 0).
Proof. destruct b7, b6, b5, b4, b3, b2, b1, b0; vm_compute; reflexivity. Qed.

Lemma list_eqb_sound {A} (eqb : A -> A -> bool) :
  (forall a b, eqb a b = true -> a = b) -> forall l l', list_eqb eqb l l' = true -> l = l'.
Proof.
  intros H. induction l as [|a t IH]; destruct l' as [|b t']; cbn [list_eqb]; try discriminate; [reflexivity|].
  intros E. apply andb_true_iff in E. destruct E as [E1 E2]. f_equal; auto.
Qed.
Lemma Neqb_sound a b : N.eqb a b = true -> a = b.
Proof. apply N.eqb_eq. Qed.
Lemma pt_eqb_sound a b : pt_eqb a b = true -> a = b.
Proof.
  unfold pt_eqb. intros E. apply andb_true_iff in E. destruct E as [E1 E2].
  apply Z.eqb_eq in E1, E2. destruct a, b; cbn in *; congruence.
Qed.
Lemma optN_eqb_sound a b : optN_eqb a b = true -> a = b.
Proof. destruct a, b; cbn; try discriminate; [intros E; apply N.eqb_eq in E; congruence|reflexivity]. Qed.
Lemma nref_eqb_sound a b : nref_eqb a b = true -> a = b.
Proof.
  destruct a, b; cbn [nref_eqb]; try discriminate; intros E.
  - f_equal. apply (list_eqb_sound N.eqb Neqb_sound). assumption.
  - apply N.eqb_eq in E. congruence.
Qed.
Lemma srep_eqb_sound a b : srep_eqb a b = true -> a = b.
Proof.
  destruct a, b; cbn [srep_eqb]; try discriminate; intros E;
    repeat (apply andb_true_iff in E; destruct E as [E ?]);
    repeat match goal with
           | H : N.eqb _ _ = true |- _ => apply N.eqb_eq in H
           | H : pt_eqb _ _ = true |- _ => apply pt_eqb_sound in H
           | H : optN_eqb _ _ = true |- _ => apply optN_eqb_sound in H
           | H : list_eqb N.eqb _ _ = true |- _ => apply (list_eqb_sound N.eqb Neqb_sound) in H
           | H : list_eqb pt_eqb _ _ = true |- _ => apply (list_eqb_sound pt_eqb pt_eqb_sound) in H
           end; subst; reflexivity.
Qed.

Lemma fld_efld {A} (eqb : A -> A -> bool) (wnt : bool) (mv : option A) (v : A) (wr : A -> list N)
      (rd : list N -> option (A * list N)) rest :
  (forall a b, eqb a b = true -> a = b) ->
  (forall r, rd (wr v ++ r) = Some (v, r)) ->
  fld (fst (efld eqb wnt mv v wr)) rd mv (snd (efld eqb wnt mv v wr) ++ rest) = Some (v, rest).
Proof.
  intros Heq Hrd. unfold efld, fld.
  destruct wnt; cbn [andb]; [|cbn [fst snd negb]; apply Hrd].
  destruct mv as [u|]; [|cbn [fst snd negb]; apply Hrd].
  destruct (eqb u v) eqn:E; cbn [fst snd negb app]; [|apply Hrd].
  apply Heq in E. subst. reflexivity.
Qed.

Definition pos_ok (absolute : bool) (mv v : Z) : Prop := fits63 (if absolute then v else (v - mv)%Z).
Lemma pos_epos wnt absolute mv v rest : pos_ok absolute mv v ->
  pos_fld (fst (epos wnt absolute mv v)) absolute mv (snd (epos wnt absolute mv v) ++ rest) = Some (v, rest).
Proof.
  intros H. unfold epos, pos_fld.
  destruct (wnt && (mv =? v)%Z) eqn:E; cbn [fst snd negb app].
  - apply andb_true_iff in E. destruct E as [_ E]. apply Z.eqb_eq in E. subst. reflexivity.
  - rewrite rd_int_enc by exact H. cbn [obnd]. destruct absolute; [reflexivity|]. f_equal. f_equal. lia.
Qed.

Definition wf_orep (r : option srep) : Prop := match r with Some rp => wf_rep rp | None => True end.
Lemma rep_erep c mr r rest : wf_orep r ->
  rep_fld (fst (erep c mr r)) mr (snd (erep c mr r) ++ rest) = Some (r, new_rep mr r, rest).
Proof.
  intros H. unfold erep, rep_fld, new_rep. destruct r as [rp|]; cbn [fst snd app]; [|reflexivity].
  cbn [wf_orep] in H.
  destruct (c_rep0 c && match mr with Some q => srep_eqb q rp | None => false end) eqn:E.
  - apply andb_true_iff in E. destruct E as [_ E]. destruct mr as [q|]; [|discriminate].
    apply srep_eqb_sound in E. subst. cbn [app]. unfold rd_rep. rewrite rd_uint_small by lia. reflexivity.
  - rewrite rd_rep_enc by exact H. reflexivity.
Qed.

(* ================================================================== one lemma per record kind *)
Ltac fld_u H := rewrite (fld_efld N.eqb) by (first [exact Neqb_sound | intros; apply rd_uint_enc; exact H]); cbn [obnd].
Ltac fld_pos H := rewrite pos_epos by exact H; cbn [obnd].
Ltac fld_rep H := rewrite rep_erep by exact H; cbn [obnd].

Lemma dec_rectangle_enc c m l d w h x y r rest :
  wf_u l -> wf_u d -> wf_u w -> wf_u h ->
  pos_ok (m_abs m) (g_x (m_g m)) x -> pos_ok (m_abs m) (g_y (m_g m)) y -> wf_orep r ->
  dec_rectangle m (fst (body_rect c m l d w h x y r) ++ rest) =
  Some (E_rect l d w h x y r, snd (body_rect c m l d w h x y r), rest).
Proof.
  intros Hl Hd Hw Hh Hx Hy Hr. unfold body_rect, dec_rectangle. cbn [fst snd].
  set (g := m_g m).
  set (sq := c_alt c && (w =? h)).
  set (fl := efld N.eqb (want c 0) (g_layer g) l enc_uint).
  set (fd := efld N.eqb (want c 1) (g_dtype g) d enc_uint).
  set (fw := efld N.eqb (want c 6) (g_w g) w enc_uint).
  set (fh := if sq then (false, []) else efld N.eqb (want c 5) (g_h g) h enc_uint).
  set (fx := epos (want c 4) (m_abs m) (g_x g) x).
  set (fy := epos (want c 3) (m_abs m) (g_y g) y).
  set (fr := erep c (m_rep m) r).
  cbn [app rd_byte obnd].
  destruct (bit_mkinfo sq (fst fw) (fst fh) (fst fx) (fst fy) (fst fr) (fst fd) (fst fl))
    as (B0 & B1 & B2 & B3 & B4 & B5 & B6 & B7).
  rewrite B0, B1, B2, B3, B4, B5, B6, B7. clear B0 B1 B2 B3 B4 B5 B6 B7.
  repeat rewrite <- app_assoc.
  subst fl; fld_u Hl. subst fd; fld_u Hd. subst fw; fld_u Hw.
  destruct sq eqn:Esq; subst fh; cbn [fst snd andb app].
  - assert (w = h) by (apply andb_true_iff in Esq; destruct Esq as [_ E]; apply N.eqb_eq in E; exact E). subst h.
    cbn [obnd]. subst fx; fld_pos Hx. subst fy; fld_pos Hy. subst fr; fld_rep Hr. reflexivity.
  - fld_u Hh. subst fx; fld_pos Hx. subst fy; fld_pos Hy. subst fr; fld_rep Hr. reflexivity.
Qed.

Lemma dec_polygon_enc c m l d pts x y r rest :
  wf_u l -> wf_u d -> wf_pts pts ->
  pos_ok (m_abs m) (g_x (m_g m)) x -> pos_ok (m_abs m) (g_y (m_g m)) y -> wf_orep r ->
  dec_polygon m (fst (body_poly c m l d pts x y r) ++ rest) =
  Some (E_poly l d pts x y r, snd (body_poly c m l d pts x y r), rest).
Proof.
  intros Hl Hd Hp Hx Hy Hr. unfold body_poly, dec_polygon. cbn [fst snd].
  set (g := m_g m).
  set (fl := efld N.eqb (want c 0) (g_layer g) l enc_uint).
  set (fd := efld N.eqb (want c 1) (g_dtype g) d enc_uint).
  set (fp := efld (list_eqb pt_eqb) (want c 5) (g_poly g) pts (wr_plist (c_plist c))).
  set (fx := epos (want c 4) (m_abs m) (g_x g) x).
  set (fy := epos (want c 3) (m_abs m) (g_y g) y).
  set (fr := erep c (m_rep m) r).
  cbn [app rd_byte obnd].
  destruct (bit_mkinfo false false (fst fp) (fst fx) (fst fy) (fst fr) (fst fd) (fst fl))
    as (B0 & B1 & B2 & B3 & B4 & B5 & B6 & B7).
  rewrite B0, B1, B2, B3, B4, B5, B6, B7. clear B0 B1 B2 B3 B4 B5 B6 B7. cbn [orb].
  repeat rewrite <- app_assoc.
  subst fl; fld_u Hl. subst fd; fld_u Hd.
  subst fp. rewrite (fld_efld (list_eqb pt_eqb))
    by (first [exact (list_eqb_sound pt_eqb pt_eqb_sound) | intros; apply rd_plist_enc; exact Hp]). cbn [obnd].
  subst fx; fld_pos Hx. subst fy; fld_pos Hy. subst fr; fld_rep Hr. reflexivity.
Qed.

Lemma dec_circle_enc c m l d rad x y r rest :
  wf_u l -> wf_u d -> wf_u rad ->
  pos_ok (m_abs m) (g_x (m_g m)) x -> pos_ok (m_abs m) (g_y (m_g m)) y -> wf_orep r ->
  dec_circle m (fst (body_circle c m l d rad x y r) ++ rest) =
  Some (E_circle l d rad x y r, snd (body_circle c m l d rad x y r), rest).
Proof.
  intros Hl Hd Hc Hx Hy Hr. unfold body_circle, dec_circle. cbn [fst snd].
  set (g := m_g m).
  set (fl := efld N.eqb (want c 0) (g_layer g) l enc_uint).
  set (fd := efld N.eqb (want c 1) (g_dtype g) d enc_uint).
  set (fc := efld N.eqb (want c 5) (g_rad g) rad enc_uint).
  set (fx := epos (want c 4) (m_abs m) (g_x g) x).
  set (fy := epos (want c 3) (m_abs m) (g_y g) y).
  set (fr := erep c (m_rep m) r).
  cbn [app rd_byte obnd].
  destruct (bit_mkinfo false false (fst fc) (fst fx) (fst fy) (fst fr) (fst fd) (fst fl))
    as (B0 & B1 & B2 & B3 & B4 & B5 & B6 & B7).
  rewrite B0, B1, B2, B3, B4, B5, B6, B7. clear B0 B1 B2 B3 B4 B5 B6 B7. cbn [orb].
  repeat rewrite <- app_assoc.
  subst fl; fld_u Hl. subst fd; fld_u Hd. subst fc; fld_u Hc.
  subst fx; fld_pos Hx. subst fy; fld_pos Hy. subst fr; fld_rep Hr. reflexivity.
Qed.

Lemma trap_code_cases c da db :
  let k := trap_code c da db in
  (k = 23) \/ (k = 24 /\ db = 0%Z) \/ (k = 25 /\ da = 0%Z).
Proof.
  unfold trap_code. destruct (c_alt c); cbn [andb]; [|left; reflexivity].
  destruct (db =? 0)%Z eqn:E1; [right; left; split; [reflexivity|apply Z.eqb_eq; exact E1]|].
  destruct (da =? 0)%Z eqn:E2; [right; right; split; [reflexivity|apply Z.eqb_eq; exact E2]|].
  left; reflexivity.
Qed.

Lemma dec_trapezoid_enc c m v l d w h da db x y r rest :
  wf_u l -> wf_u d -> wf_u w -> wf_u h -> fits63 da -> fits63 db ->
  pos_ok (m_abs m) (g_x (m_g m)) x -> pos_ok (m_abs m) (g_y (m_g m)) y -> wf_orep r ->
  dec_trapezoid (trap_code c da db) m (fst (body_trap c m v l d w h da db x y r) ++ rest) =
  Some (E_trap v l d w h da db x y r, snd (body_trap c m v l d w h da db x y r), rest).
Proof.
  intros Hl Hd Hw Hh Hda Hdb Hx Hy Hr. unfold body_trap, dec_trapezoid. cbv zeta. cbn [fst snd].
  set (g := m_g m).
  set (fl := efld N.eqb (want c 0) (g_layer g) l enc_uint).
  set (fd := efld N.eqb (want c 1) (g_dtype g) d enc_uint).
  set (fw := efld N.eqb (want c 6) (g_w g) w enc_uint).
  set (fh := efld N.eqb (want c 5) (g_h g) h enc_uint).
  set (fx := epos (want c 4) (m_abs m) (g_x g) x).
  set (fy := epos (want c 3) (m_abs m) (g_y g) y).
  set (fr := erep c (m_rep m) r).
  cbn [app rd_byte obnd].
  destruct (bit_mkinfo v (fst fw) (fst fh) (fst fx) (fst fy) (fst fr) (fst fd) (fst fl))
    as (B0 & B1 & B2 & B3 & B4 & B5 & B6 & B7).
  rewrite B0, B1, B2, B3, B4, B5, B6, B7. clear B0 B1 B2 B3 B4 B5 B6 B7.
  repeat rewrite <- app_assoc.
  subst fl; fld_u Hl. subst fd; fld_u Hd. subst fw; fld_u Hw. subst fh; fld_u Hh.
  destruct (trap_code_cases c da db) as [K|[[K Z0]|[K Z0]]]; cbv zeta in K; rewrite K; cbn [N.eqb Pos.eqb app].
  - rewrite rd_int_enc by exact Hda. cbn [obnd]. rewrite rd_int_enc by exact Hdb. cbn [obnd].
    subst fx; fld_pos Hx. subst fy; fld_pos Hy. subst fr; fld_rep Hr. reflexivity.
  - subst db. rewrite rd_int_enc by exact Hda. cbn [obnd].
    subst fx; fld_pos Hx. subst fy; fld_pos Hy. subst fr; fld_rep Hr. reflexivity.
  - subst da. cbn [obnd]. rewrite rd_int_enc by exact Hdb. cbn [obnd].
    subst fx; fld_pos Hx. subst fy; fld_pos Hy. subst fr; fld_rep Hr. reflexivity.
Qed.

Lemma dim_efld (uses wnt : bool) mv v rest : wf_u v ->
  dim_fld (fst (if uses then efld N.eqb wnt mv v enc_uint else (false, []))) uses mv
          (snd (if uses then efld N.eqb wnt mv v enc_uint else (false, [])) ++ rest) =
  Some (if uses then v else 0, rest).
Proof.
  intros H. destruct uses; [|reflexivity].
  pose proof (fld_efld N.eqb wnt mv v enc_uint rd_uint rest Neqb_sound (fun r => rd_uint_enc v r H)) as E.
  unfold fld in E. unfold dim_fld. exact E.
Qed.

Definition wf_ctrap (ty w h : N) : Prop :=
  ty < 26 /\
  ctrap_w ty (if ctrap_uses_w ty then w else 0) (if ctrap_uses_h ty then h else 0) = w /\
  ctrap_h ty (if ctrap_uses_w ty then w else 0) (if ctrap_uses_h ty then h else 0) = h.

Lemma dec_ctrapezoid_enc c m l d ty w h x y r rest :
  wf_u l -> wf_u d -> wf_ctrap ty w h -> wf_u w -> wf_u h ->
  pos_ok (m_abs m) (g_x (m_g m)) x -> pos_ok (m_abs m) (g_y (m_g m)) y -> wf_orep r ->
  dec_ctrapezoid m (fst (body_ctrap c m l d ty w h x y r) ++ rest) =
  Some (E_ctrap l d ty w h x y r, snd (body_ctrap c m l d ty w h x y r), rest).
Proof.
  intros Hl Hd (Hty & Ew & Eh) Hw Hh Hx Hy Hr. unfold body_ctrap, dec_ctrapezoid. cbn [fst snd].
  set (g := m_g m).
  set (fl := efld N.eqb (want c 0) (g_layer g) l enc_uint).
  set (fd := efld N.eqb (want c 1) (g_dtype g) d enc_uint).
  set (ft := efld N.eqb (want c 7) (g_ctype g) ty enc_uint).
  set (fw := if ctrap_uses_w ty then efld N.eqb (want c 6) (g_w g) w enc_uint else (false, [])).
  set (fh := if ctrap_uses_h ty then efld N.eqb (want c 5) (g_h g) h enc_uint else (false, [])).
  set (fx := epos (want c 4) (m_abs m) (g_x g) x).
  set (fy := epos (want c 3) (m_abs m) (g_y g) y).
  set (fr := erep c (m_rep m) r).
  cbn [app rd_byte obnd].
  destruct (bit_mkinfo (fst ft) (fst fw) (fst fh) (fst fx) (fst fy) (fst fr) (fst fd) (fst fl))
    as (B0 & B1 & B2 & B3 & B4 & B5 & B6 & B7).
  rewrite B0, B1, B2, B3, B4, B5, B6, B7. clear B0 B1 B2 B3 B4 B5 B6 B7.
  repeat rewrite <- app_assoc.
  assert (Hty' : wf_u ty) by (unfold wf_u, two64; lia).
  subst fl; fld_u Hl. subst fd; fld_u Hd. subst ft; fld_u Hty'.
  replace (26 <=? ty) with false by (symmetry; apply N.leb_gt; exact Hty).
  subst fw. rewrite dim_efld by exact Hw. cbn [obnd].
  subst fh. rewrite dim_efld by exact Hh. cbn [obnd].
  rewrite Ew, Eh.
  subst fx; fld_pos Hx. subst fy; fld_pos Hy. subst fr; fld_rep Hr. reflexivity.
Qed.

(* extension scheme *)
Lemma eext_code c wnt hw mv v :
  let k := fst (eext c wnt hw mv v) in k = 0 \/ k = 1 \/ k = 2 \/ k = 3.
Proof.
  unfold eext.
  destruct (wnt && match mv with Some u => (u =? v)%Z | None => false end); [left; reflexivity|].
  destruct (c_alt c && (v =? 0)%Z); [right; left; reflexivity|].
  destruct (c_alt c && (v =? Z.of_N hw)%Z); [right; right; left; reflexivity|right; right; right; reflexivity].
Qed.
Lemma eext_zero c wnt hw mv v : fst (eext c wnt hw mv v) = 0 -> mv = Some v /\ snd (eext c wnt hw mv v) = [].
Proof.
  unfold eext.
  destruct (wnt && match mv with Some u => (u =? v)%Z | None => false end) eqn:E.
  - intros _. apply andb_true_iff in E. destruct E as [_ E]. destruct mv as [u|]; [|discriminate].
    apply Z.eqb_eq in E. subst. split; reflexivity.
  - destruct (c_alt c && (v =? 0)%Z); [discriminate|].
    destruct (c_alt c && (v =? Z.of_N hw)%Z); discriminate.
Qed.
Lemma ext_eext c wnt hw mv v rest : fits63 v ->
  ext_fld (fst (eext c wnt hw mv v)) hw mv (snd (eext c wnt hw mv v) ++ rest) = Some (v, rest).
Proof.
  intros H. unfold eext.
  destruct (wnt && match mv with Some u => (u =? v)%Z | None => false end) eqn:E.
  - apply andb_true_iff in E. destruct E as [_ E]. destruct mv as [u|]; [|discriminate].
    apply Z.eqb_eq in E. subst. reflexivity.
  - destruct (c_alt c && (v =? 0)%Z) eqn:E1.
    + apply andb_true_iff in E1. destruct E1 as [_ E1]. apply Z.eqb_eq in E1. subst. reflexivity.
    + destruct (c_alt c && (v =? Z.of_N hw)%Z) eqn:E2.
      * apply andb_true_iff in E2. destruct E2 as [_ E2]. apply Z.eqb_eq in E2. subst. reflexivity.
      * cbn [fst snd ext_fld]. apply rd_int_enc. exact H.
Qed.
Lemma scheme_split a b : (a = 0 \/ a = 1 \/ a = 2 \/ a = 3) -> (b = 0 \/ b = 1 \/ b = 2 \/ b = 3) ->
  a * 4 + b < 16 /\ N.land (N.shiftr (a * 4 + b) 2) 3 = a /\ N.land (a * 4 + b) 3 = b.
Proof.
  intros [A|[A|[A|A]]] [B|[B|[B|B]]]; subst a b; vm_compute; repeat split; reflexivity.
Qed.

Lemma dec_path_enc c m l d hw es ee pts x y r rest :
  wf_u l -> wf_u d -> wf_u hw -> fits63 es -> fits63 ee -> wf_pts pts ->
  pos_ok (m_abs m) (g_x (m_g m)) x -> pos_ok (m_abs m) (g_y (m_g m)) y -> wf_orep r ->
  dec_path m (fst (body_path c m l d hw es ee pts x y r) ++ rest) =
  Some (E_path l d hw es ee pts x y r, snd (body_path c m l d hw es ee pts x y r), rest).
Proof.
  intros Hl Hd Hw Hes Hee Hp Hx Hy Hr. unfold body_path, dec_path. cbv zeta. cbn [fst snd].
  set (g := m_g m).
  set (fl := efld N.eqb (want c 0) (g_layer g) l enc_uint).
  set (fd := efld N.eqb (want c 1) (g_dtype g) d enc_uint).
  set (fw := efld N.eqb (want c 6) (g_hw g) hw enc_uint).
  set (xs := eext c (want c 7) hw (g_exs g) es).
  set (xe := eext c (want c 7) hw (g_exe g) ee).
  set (fe := if (fst xs =? 0) && (fst xe =? 0) then (false, []) else (true, (fst xs * 4 + fst xe) :: snd xs ++ snd xe)).
  set (fp := efld (list_eqb pt_eqb) (want c 5) (g_path g) pts (wr_plist (c_plist c))).
  set (fx := epos (want c 4) (m_abs m) (g_x g) x).
  set (fy := epos (want c 3) (m_abs m) (g_y g) y).
  set (fr := erep c (m_rep m) r).
  cbn [app rd_byte obnd].
  destruct (bit_mkinfo (fst fe) (fst fw) (fst fp) (fst fx) (fst fy) (fst fr) (fst fd) (fst fl))
    as (B0 & B1 & B2 & B3 & B4 & B5 & B6 & B7).
  rewrite B0, B1, B2, B3, B4, B5, B6, B7. clear B0 B1 B2 B3 B4 B5 B6 B7.
  repeat rewrite <- app_assoc.
  subst fl; fld_u Hl. subst fd; fld_u Hd. subst fw; fld_u Hw.
  assert (Hext : (if fst fe
                  then let? '(sch, bs) := rd_uint (snd fe ++ snd fp ++ snd fx ++ snd fy ++ snd fr ++ rest) in
                       if 16 <=? sch then None else
                       let? '(es0, bs) := ext_fld (N.land (N.shiftr sch 2) 3) hw (g_exs g) bs in
                       let? '(ee0, bs) := ext_fld (N.land sch 3) hw (g_exe g) bs in Some (es0, ee0, bs)
                  else match g_exs g, g_exe g with
                       | Some a, Some b => Some (a, b, snd fe ++ snd fp ++ snd fx ++ snd fy ++ snd fr ++ rest)
                       | _, _ => None
                       end) = Some (es, ee, snd fp ++ snd fx ++ snd fy ++ snd fr ++ rest)).
  { subst fe. destruct ((fst xs =? 0) && (fst xe =? 0)) eqn:E; cbn [fst snd app].
    - apply andb_true_iff in E. destruct E as [E1 E2]. apply N.eqb_eq in E1, E2.
      subst xs xe. destruct (eext_zero _ _ _ _ _ E1) as [-> _]. destruct (eext_zero _ _ _ _ _ E2) as [-> _].
      reflexivity.
    - destruct (scheme_split (fst xs) (fst xe)) as (S1 & S2 & S3);
        [subst xs; apply eext_code|subst xe; apply eext_code|].
      rewrite rd_uint_small by lia. cbn [obnd].
      replace (16 <=? fst xs * 4 + fst xe) with false by (symmetry; apply N.leb_gt; exact S1).
      rewrite S2, S3. rewrite <- app_assoc.
      subst xs. rewrite ext_eext by exact Hes. cbn [obnd].
      subst xe. rewrite ext_eext by exact Hee. cbn [obnd]. reflexivity. }
  rewrite Hext. cbn [obnd].
  subst fp. rewrite (fld_efld (list_eqb pt_eqb))
    by (first [exact (list_eqb_sound pt_eqb pt_eqb_sound) | intros; apply rd_plist_enc; exact Hp]). cbn [obnd].
  subst fx; fld_pos Hx. subst fy; fld_pos Hy. subst fr; fld_rep Hr. reflexivity.
Qed.

Definition wf_nref (r : nref) : Prop := match r with NName s => wf_str s | NNum n => wf_u n end.
Lemma rd_nref_enc s rest : wf_nref s -> rd_nref (nref_is_num s) (wr_nref s ++ rest) = Some (s, rest).
Proof.
  intros H. destruct s as [s|n]; cbn [nref_is_num wr_nref rd_nref wf_nref] in *.
  - rewrite rd_string_enc by exact H. reflexivity.
  - rewrite rd_uint_enc by exact H. reflexivity.
Qed.

Lemma dec_text_enc c m s l t x y r rest :
  wf_nref s -> wf_u l -> wf_u t ->
  pos_ok (m_abs m) (t_x (m_t m)) x -> pos_ok (m_abs m) (t_y (m_t m)) y -> wf_orep r ->
  dec_text m (fst (body_text c m s l t x y r) ++ rest) =
  Some (E_text s l t x y r, snd (body_text c m s l t x y r), rest).
Proof.
  intros Hs Hl Ht Hx Hy Hr. unfold body_text, dec_text. cbn [fst snd].
  set (tm := m_t m).
  set (fs := efld nref_eqb (want c 6) (t_str tm) s wr_nref).
  set (fl := efld N.eqb (want c 0) (t_layer tm) l enc_uint).
  set (ft := efld N.eqb (want c 1) (t_type tm) t enc_uint).
  set (fx := epos (want c 4) (m_abs m) (t_x tm) x).
  set (fy := epos (want c 3) (m_abs m) (t_y tm) y).
  set (fr := erep c (m_rep m) r).
  cbn [app rd_byte obnd].
  destruct (bit_mkinfo false (fst fs) (nref_is_num s) (fst fx) (fst fy) (fst fr) (fst ft) (fst fl))
    as (B0 & B1 & B2 & B3 & B4 & B5 & B6 & B7).
  rewrite B0, B1, B2, B3, B4, B5, B6, B7. clear B0 B1 B2 B3 B4 B5 B6 B7.
  repeat rewrite <- app_assoc.
  subst fs. rewrite (fld_efld nref_eqb) by (first [exact nref_eqb_sound | intros; apply rd_nref_enc; exact Hs]).
  cbn [obnd].
  subst fl; fld_u Hl. subst ft; fld_u Ht.
  subst fx; fld_pos Hx. subst fy; fld_pos Hy. subst fr; fld_rep Hr. reflexivity.
Qed.

Definition wf_oreal (x : option real) : Prop := match x with Some v => wf_real v | None => True end.
Definition wf_trans (tr : ptrans) : Prop :=
  match tr with PT_quarter aa => aa < 4 | PT_general mag ang => wf_oreal mag /\ wf_oreal ang end.
Lemma aa_bits aa : aa < 4 -> (if N.testbit aa 1 then 2 else 0) + (if N.testbit aa 0 then 1 else 0) = aa.
Proof.
  intros H. assert (E : aa = 0 \/ aa = 1 \/ aa = 2 \/ aa = 3) by lia.
  destruct E as [E|[E|[E|E]]]; subst; reflexivity.
Qed.

Lemma dec_placement_enc c m cl tr flip x y r rest :
  wf_nref cl -> wf_trans tr ->
  pos_ok (m_abs m) (p_x (m_p m)) x -> pos_ok (m_abs m) (p_y (m_p m)) y -> wf_orep r ->
  dec_placement (place_code tr) m (fst (body_place c m cl tr flip x y r) ++ rest) =
  Some (E_place cl tr flip x y r, snd (body_place c m cl tr flip x y r), rest).
Proof.
  intros Hc Htr Hx Hy Hr. unfold body_place, dec_placement. cbn [fst snd].
  set (pm := m_p m).
  set (fc := efld nref_eqb (want c 7) (p_cell pm) cl wr_nref).
  set (fx := epos (want c 5) (m_abs m) (p_x pm) x).
  set (fy := epos (want c 4) (m_abs m) (p_y pm) y).
  set (fr := erep c (m_rep m) r).
  destruct tr as [aa|mag ang]; cbn [place_code wf_trans] in *; cbn [app rd_byte obnd].
  - pose proof (mkinfo_aa (fst fc) (nref_is_num cl) (fst fx) (fst fy) (fst fr) (N.testbit aa 1) (N.testbit aa 0) flip) as AA.
    destruct (bit_mkinfo (fst fc) (nref_is_num cl) (fst fx) (fst fy) (fst fr) (N.testbit aa 1) (N.testbit aa 0) flip)
      as (B0 & B1 & B2 & B3 & B4 & B5 & B6 & B7).
    rewrite B0, B3, B4, B5, B6, B7, AA. clear B0 B1 B2 B3 B4 B5 B6 B7 AA.
    rewrite aa_bits by exact Htr.
    repeat rewrite <- app_assoc.
    subst fc. rewrite (fld_efld nref_eqb) by (first [exact nref_eqb_sound | intros; apply rd_nref_enc; exact Hc]).
    cbn [obnd N.eqb Pos.eqb].
    subst fx; fld_pos Hx. subst fy; fld_pos Hy. subst fr; fld_rep Hr. reflexivity.
  - destruct Htr as [Hm Ha].
    destruct (bit_mkinfo (fst fc) (nref_is_num cl) (fst fx) (fst fy) (fst fr)
                         (match mag with Some _ => true | None => false end)
                         (match ang with Some _ => true | None => false end) flip)
      as (B0 & B1 & B2 & B3 & B4 & B5 & B6 & B7).
    rewrite B0, B1, B2, B3, B4, B5, B6, B7. clear B0 B1 B2 B3 B4 B5 B6 B7.
    repeat rewrite <- app_assoc.
    subst fc. rewrite (fld_efld nref_eqb) by (first [exact nref_eqb_sound | intros; apply rd_nref_enc; exact Hc]).
    cbn [obnd N.eqb Pos.eqb].
    destruct mag as [mv|]; destruct ang as [av|]; cbn [wf_oreal] in *; cbn [app obnd];
      repeat rewrite <- app_assoc;
      try (rewrite (rd_real_enc mv) by exact Hm; cbn [obnd]);
      try (rewrite (rd_real_enc av) by exact Ha; cbn [obnd]);
      subst fx; fld_pos Hx; subst fy; fld_pos Hy; subst fr; fld_rep Hr; reflexivity.
Qed.

(* ================================================================== elements inside the record loop *)
Definition wf_elem (e : element) : Prop :=
  match e with
  | E_rect l d w h x y r => wf_u l /\ wf_u d /\ wf_u w /\ wf_u h /\ fits63 x /\ fits63 y /\ wf_orep r
  | E_poly l d pts x y r => wf_u l /\ wf_u d /\ wf_pts pts /\ fits63 x /\ fits63 y /\ wf_orep r
  | E_path l d hw es ee pts x y r =>
      wf_u l /\ wf_u d /\ wf_u hw /\ fits63 es /\ fits63 ee /\ wf_pts pts /\ fits63 x /\ fits63 y /\ wf_orep r
  | E_trap _ l d w h da db x y r =>
      wf_u l /\ wf_u d /\ wf_u w /\ wf_u h /\ fits63 da /\ fits63 db /\ fits63 x /\ fits63 y /\ wf_orep r
  | E_ctrap l d ty w h x y r =>
      wf_u l /\ wf_u d /\ wf_ctrap ty w h /\ wf_u w /\ wf_u h /\ fits63 x /\ fits63 y /\ wf_orep r
  | E_circle l d rad x y r => wf_u l /\ wf_u d /\ wf_u rad /\ fits63 x /\ fits63 y /\ wf_orep r
  | E_text s l t x y r => wf_nref s /\ wf_u l /\ wf_u t /\ fits63 x /\ fits63 y /\ wf_orep r
  | E_place cl tr _ x y r => wf_nref cl /\ wf_trans tr /\ fits63 x /\ fits63 y /\ wf_orep r
  end.

Lemma fits63b_sound z : fits63b z = true -> fits63 z.
Proof.
  unfold fits63b, fits63, two63. intros H. apply andb_true_iff in H. destruct H as [H1 H2].
  apply Z.ltb_lt in H1, H2. change (Z.of_N 9223372036854775808) with 9223372036854775808%Z. lia.
Qed.
Lemma use_rel_pos_ok c mx my x y : fits63 x -> fits63 y ->
  pos_ok (negb (use_rel c mx my x y)) mx x /\ pos_ok (negb (use_rel c mx my x y)) my y.
Proof.
  intros Hx Hy. unfold use_rel, pos_ok.
  destruct (c_rel c && fits63b (x - mx) && fits63b (y - my)) eqn:E; cbn [negb]; [|split; assumption].
  apply andb_true_iff in E. destruct E as [E E2]. apply andb_true_iff in E. destruct E as [_ E1].
  split; apply fits63b_sound; assumption.
Qed.

Definition st (u : real) (m : modal) (cells : list cell) (tg : ptarget) : dstate :=
  mkD m u [] cells tg [] 0 [] [] 0 [] 0 [] 0 (0, 0, 0, 0).
Definition push_elem (c0 : cell) (e : element) : cell := mkCell (c_name c0) (c_props c0) ((e, []) :: c_elems c0).

(* the record of an element (record byte and body) is decoded by dec_record into that element *)
Lemma dec_record_elem ois u c m e c0 cs tg rest :
  wf_elem e ->
  pos_ok (m_abs m) (fst (elem_mpos m e)) (fst (elem_xy e)) ->
  pos_ok (m_abs m) (snd (elem_mpos m e)) (snd (elem_xy e)) ->
  dec_record ois (st u m (c0 :: cs) tg)
             ((fst (elem_record c m e) :: fst (snd (elem_record c m e))) ++ rest) =
  Some (Cont (st u (snd (snd (elem_record c m e))) (push_elem c0 e :: cs) T_elem) rest).
Proof.
  intros Hwf Hx Hy. unfold dec_record. cbn [app].
  destruct e as [l d w h x y r|l d pts x y r|l d hw es ee pts x y r|v l d w h da db x y r|l d ty w h x y r
                 |l d rad x y r|s l t x y r|cl tr flip x y r];
    cbn [elem_record fst snd elem_mpos elem_xy wf_elem] in *.
  - destruct Hwf as (? & ? & ? & ? & ? & ? & ?).
    rewrite rd_uint_small by lia. cbn [obnd st d_modal]. unfold elem_step.
    rewrite dec_rectangle_enc by assumption. reflexivity.
  - destruct Hwf as (? & ? & ? & ? & ? & ?).
    rewrite rd_uint_small by lia. cbn [obnd st d_modal]. unfold elem_step.
    rewrite dec_polygon_enc by assumption. reflexivity.
  - destruct Hwf as (? & ? & ? & ? & ? & ? & ? & ? & ?).
    rewrite rd_uint_small by lia. cbn [obnd st d_modal]. unfold elem_step.
    rewrite dec_path_enc by assumption. reflexivity.
  - destruct Hwf as (? & ? & ? & ? & ? & ? & ? & ? & ?).
    pose proof (dec_trapezoid_enc c m v l d w h da db x y r rest) as E.
    destruct (trap_code_cases c da db) as [K|[[K _]|[K _]]]; cbv zeta in K; rewrite K in *;
      rewrite rd_uint_small by lia; cbn [obnd st d_modal]; unfold elem_step;
      rewrite E by assumption; reflexivity.
  - destruct Hwf as (? & ? & ? & ? & ? & ? & ? & ?).
    rewrite rd_uint_small by lia. cbn [obnd st d_modal]. unfold elem_step.
    rewrite dec_ctrapezoid_enc by assumption. reflexivity.
  - destruct Hwf as (? & ? & ? & ? & ? & ?).
    rewrite rd_uint_small by lia. cbn [obnd st d_modal]. unfold elem_step.
    rewrite dec_circle_enc by assumption. reflexivity.
  - destruct Hwf as (? & ? & ? & ? & ? & ?).
    rewrite rd_uint_small by lia. cbn [obnd st d_modal]. unfold elem_step.
    rewrite dec_text_enc by assumption. reflexivity.
  - destruct Hwf as (? & ? & ? & ? & ?).
    pose proof (dec_placement_enc c m cl tr flip x y r rest) as E.
    destruct tr as [aa|mag ang]; cbn [place_code] in *;
      rewrite rd_uint_small by lia; cbn [obnd st d_modal]; unfold elem_step;
      rewrite E by assumption; reflexivity.
Qed.

Lemma dec_loop_step f ois d bs d' bs' :
  dec_record ois d bs = Some (Cont d' bs') -> dec_loop (S f) ois d bs = dec_loop f ois d' bs'.
Proof. intros H. cbn [dec_loop]. rewrite H. reflexivity. Qed.

Lemma wf_elem_xy e : wf_elem e -> fits63 (fst (elem_xy e)) /\ fits63 (snd (elem_xy e)).
Proof. destruct e; cbn [wf_elem elem_xy fst snd]; intros H; repeat (destruct H as [? H]); tauto. Qed.
Lemma elem_mpos_with_mode m0 rel e : elem_mpos (with_mode m0 rel) e = elem_mpos m0 e.
Proof. destruct e; reflexivity. Qed.
Lemma with_mode_same m0 rel : m_abs m0 = negb rel -> with_mode m0 rel = m0.
Proof. intros H. destruct m0. cbn in *. subst. reflexivity. Qed.

Lemma loop_element ois u c m0 e c0 cs tg f rest :
  wf_elem e ->
  dec_loop (length (fst (enc_element c m0 e)) + f) ois (st u m0 (c0 :: cs) tg)
           (concat (fst (enc_element c m0 e)) ++ rest) =
  dec_loop f ois (st u (snd (enc_element c m0 e)) (push_elem c0 e :: cs) T_elem) rest.
Proof.
  intros Hwf. unfold enc_element.
  set (rel := use_rel c (fst (elem_mpos m0 e)) (snd (elem_mpos m0 e)) (fst (elem_xy e)) (snd (elem_xy e))).
  set (m := with_mode m0 rel).
  destruct (wf_elem_xy e Hwf) as [Fx Fy].
  destruct (use_rel_pos_ok c (fst (elem_mpos m0 e)) (snd (elem_mpos m0 e)) _ _ Fx Fy) as [Px Py].
  fold rel in Px, Py.
  assert (Hrec : forall tg', dec_record ois (st u m (c0 :: cs) tg')
             ((fst (elem_record c m e) :: fst (snd (elem_record c m e))) ++ rest) =
           Some (Cont (st u (snd (snd (elem_record c m e))) (push_elem c0 e :: cs) T_elem) rest)).
  { intros tg'. apply dec_record_elem; [exact Hwf| |]; subst m; rewrite elem_mpos_with_mode; assumption. }
  destruct (elem_record c m e) as [code [body m']] eqn:ER. cbn [fst snd] in *.
  unfold mode_records. destruct (Bool.eqb (m_abs m0) (negb rel)) eqn:EM.
  - apply Bool.eqb_prop in EM. cbn [app length concat]. rewrite app_nil_r.
    assert (Em : m = m0) by (subst m; apply with_mode_same; exact EM).
    rewrite <- Em. cbn [Nat.add]. apply dec_loop_step. apply Hrec.
  - cbn [app length concat Nat.add]. rewrite app_nil_r.
    rewrite (dec_loop_step _ ois _ _ (st u m (c0 :: cs) tg) ((code :: body) ++ rest)).
    + apply dec_loop_step. apply Hrec.
    + unfold dec_record. subst m. unfold with_mode. destruct rel; cbn [app negb];
        rewrite rd_uint_small by lia; reflexivity.
Qed.

Definition plain_elems (es : list (element * list prop)) : Prop :=
  Forall (fun ep => wf_elem (fst ep) /\ snd ep = []) es.
Definition tg_after (tg : ptarget) (es : list (element * list prop)) : ptarget :=
  match es with [] => tg | _ => T_elem end.

Lemma loop_elements ois u chs : forall es k m c0 cs tg f rest,
  plain_elems es ->
  dec_loop (length (fst (enc_elements chs k m es)) + f) ois (st u m (c0 :: cs) tg)
           (concat (fst (enc_elements chs k m es)) ++ rest) =
  dec_loop f ois (st u (snd (enc_elements chs k m es))
                     (mkCell (c_name c0) (c_props c0) (rev es ++ c_elems c0) :: cs) (tg_after tg es)) rest.
Proof.
  induction es as [|[e ps] t IH]; intros k m c0 cs tg f rest Hp.
  - cbn [enc_elements fst snd length concat app rev tg_after Nat.add]. destruct c0; reflexivity.
  - inversion Hp as [|? ? [Hwf Hps] Ht]; subst. cbn [fst snd] in Hwf, Hps. subst ps.
    cbn [enc_elements].
    destruct (enc_element (chs k) m e) as [r1 m1] eqn:E1.
    destruct (enc_elements chs (S k) m1 t) as [r2 m2] eqn:E2.
    cbn [fst snd]. rewrite app_length, concat_app, <- app_assoc, <- Nat.add_assoc.
    pose proof (loop_element ois u (chs k) m e c0 cs tg (length r2 + f) (concat r2 ++ rest) Hwf) as L1.
    rewrite E1 in L1. cbn [fst snd] in L1. rewrite L1.
    pose proof (IH (S k) m1 (push_elem c0 e) cs T_elem f rest Ht) as L2.
    rewrite E2 in L2. cbn [fst snd] in L2. rewrite L2.
    unfold push_elem. cbn [c_name c_props c_elems rev tg_after]. rewrite <- app_assoc. cbn [app].
    destruct t; reflexivity.
Qed.

Definition inline_elem (e : element) : Prop :=
  match e with
  | E_text (NNum _) _ _ _ _ _ => False
  | E_place (NNum _) _ _ _ _ _ => False
  | _ => True
  end.
Definition wf_cell (c : cell) : Prop :=
  (exists s, c_name c = NName s /\ wf_str s) /\ c_props c = [] /\ plain_elems (c_elems c) /\
  Forall (fun ep => inline_elem (fst ep)) (c_elems c).
Definition rcell (c : cell) : cell := mkCell (c_name c) [] (rev (c_elems c)).

Lemma loop_cell ois u chs i c m cells tg f rest :
  wf_cell c ->
  exists m' tg',
  dec_loop (length (enc_cell chs i c) + f) ois (st u m cells tg) (concat (enc_cell chs i c) ++ rest) =
  dec_loop f ois (st u m' (rcell c :: cells) tg') rest.
Proof.
  intros ((s & Hn & Hs) & Hp & Hes & _). unfold enc_cell. rewrite Hn.
  eexists. eexists.
  cbn [length concat Nat.add]. rewrite <- app_assoc.
  rewrite (dec_loop_step _ ois _ _ (st u modal0 (mkCell (NName s) [] [] :: cells) T_cell)
             (concat (fst (enc_elements (chs i) 0 modal0 (c_elems c))) ++ rest)).
  - rewrite (loop_elements ois u (chs i) (c_elems c) 0%nat modal0 (mkCell (NName s) [] []) cells T_cell f rest Hes).
    cbn [c_name c_props c_elems]. rewrite app_nil_r. unfold rcell. rewrite Hn. reflexivity.
  - unfold dec_record. cbn [app]. rewrite rd_uint_small by lia. cbn [obnd].
    rewrite rd_string_enc by exact Hs. reflexivity.
Qed.

Lemma loop_cells ois u chs : forall l i m cells tg f rest,
  Forall wf_cell l ->
  exists m' tg',
  dec_loop (length (enc_cells chs i l) + f) ois (st u m cells tg) (concat (enc_cells chs i l) ++ rest) =
  dec_loop f ois (st u m' (rev (map rcell l) ++ cells) tg') rest.
Proof.
  induction l as [|c t IH]; intros i m cells tg f rest Hl.
  - exists m, tg. reflexivity.
  - inversion Hl as [|? ? Hc Ht]; subst. cbn [enc_cells].
    rewrite app_length, concat_app, <- app_assoc, <- Nat.add_assoc.
    destruct (loop_cell ois u chs i c m cells tg (length (enc_cells chs (S i) t) + f)
                        (concat (enc_cells chs (S i) t) ++ rest) Hc) as (m1 & tg1 & E1).
    rewrite E1.
    destruct (IH (S i) m1 (rcell c :: cells) tg1 f rest Ht) as (m2 & tg2 & E2).
    exists m2, tg2. rewrite E2. cbn [map rev]. rewrite <- app_assoc. reflexivity.
Qed.

(* ================================================================== END, resolution, fuel *)
Lemma omap_map_id {A B} (f : B -> option A) (g : A -> B) (l : list A) :
  (forall a, In a l -> f (g a) = Some a) -> omap f (map g l) = Some l.
Proof.
  induction l as [|a t IH]; intros H; [reflexivity|].
  cbn [map omap]. rewrite H by (left; reflexivity). cbn [obnd].
  rewrite IH by (intros; apply H; right; assumption). reflexivity.
Qed.
Lemma omap_id {A} (f : A -> option A) (l : list A) :
  (forall a, In a l -> f a = Some a) -> omap f l = Some l.
Proof. intros H. rewrite <- (map_id l) at 1. apply omap_map_id. exact H. Qed.

Lemma resolve_rcell u m cells tg c : wf_cell c -> resolve_cell (st u m cells tg) (rcell c) = Some c.
Proof.
  intros ((s & Hn & _) & Hp & Hes & Hin). unfold resolve_cell, rcell. cbn [c_name c_props c_elems st d_cellnames
    d_propnames d_propstrings d_cn_props d_textstrings rev omap obnd].
  rewrite Hn. cbn [resolve_nref obnd]. rewrite rev_involutive.
  rewrite omap_id.
  - cbn [obnd app]. destruct c as [n p e]. cbn in *. subst. reflexivity.
  - intros [e ps] Ha. unfold plain_elems in Hes. rewrite Forall_forall in Hes, Hin.
    destruct (Hes _ Ha) as [_ Hps]. specialize (Hin _ Ha). cbn [fst snd] in *. subst ps.
    cbn [rev omap obnd].
    destruct e as [| | | | | |[s0|n0] ? ? ? ? ?|[s0|n0] ? ? ? ? ?]; cbn [resolve_elem resolve_nref obnd inline_elem] in *;
      try reflexivity; contradiction.
Qed.

Lemma finalize_st u m tg l : Forall wf_cell l ->
  finalize (st u m (rev (map rcell l)) tg) = Some (mkLayout u [] l).
Proof.
  intros H. unfold finalize. cbn [st d_lprops d_cells d_unit rev omap obnd].
  rewrite rev_involutive. rewrite omap_map_id; [reflexivity|].
  intros c Hc. apply resolve_rcell. rewrite Forall_forall in H. apply H. exact Hc.
Qed.

Lemma end_tail_ok : end_ok false end_tail = true.
Proof. vm_compute. reflexivity. Qed.

Lemma dec_loop_mono n : forall ois d bs L n', dec_loop n ois d bs = Some L -> (n <= n')%nat -> dec_loop n' ois d bs = Some L.
Proof.
  induction n as [|n IH]; intros ois d bs L n' H Hle; [discriminate|].
  destruct n' as [|n']; [lia|]. cbn [dec_loop] in *.
  destruct (dec_record ois d bs) as [[l|d' bs']|]; try assumption.
  apply (IH _ _ _ _ n' H). lia.
Qed.

(* every record is at least its record byte, so the number of records never exceeds the number of bytes *)
Lemma concat_length_ge (recs : list (list N)) :
  Forall (fun r => r <> []) recs -> (length recs <= length (concat recs))%nat.
Proof.
  induction 1 as [|r t Hr Ht IH]; [cbn; lia|].
  cbn [concat length]. rewrite app_length. pose proof (nonempty_length r Hr). lia.
Qed.
Lemma enc_element_nonempty c m e : Forall (fun r => r <> []) (fst (enc_element c m e)).
Proof.
  unfold enc_element. destruct (elem_record c _ e) as [code [body m']]. cbn [fst].
  apply Forall_app. split.
  - unfold mode_records. destruct (Bool.eqb _ _); constructor; [discriminate|constructor].
  - constructor; [discriminate|constructor].
Qed.
Lemma enc_elements_nonempty chs : forall es k m, Forall (fun r => r <> []) (fst (enc_elements chs k m es)).
Proof.
  induction es as [|[e ps] t IH]; intros k m; [constructor|].
  cbn [enc_elements]. pose proof (enc_element_nonempty (chs k) m e) as H1.
  destruct (enc_element (chs k) m e) as [r1 m1]. specialize (IH (S k) m1).
  destruct (enc_elements chs (S k) m1 t) as [r2 m2]. cbn [fst] in *. apply Forall_app. split; assumption.
Qed.
Lemma enc_cells_nonempty chs : forall l i, Forall (fun r => r <> []) (enc_cells chs i l).
Proof.
  induction l as [|c t IH]; intros i; [constructor|].
  cbn [enc_cells]. apply Forall_app. split; [|apply IH].
  unfold enc_cell. constructor; [destruct (c_name c); discriminate|apply enc_elements_nonempty].
Qed.

Lemma strip_prefix_app p x : strip_prefix p (p ++ x) = Some x.
Proof. induction p as [|a t IH]; [reflexivity|]. cbn [app strip_prefix]. rewrite N.eqb_refl. exact IH. Qed.

(* ================================================================== the round trip of whole files *)
Definition wf_layout (L : layout) : Prop :=
  wf_real (l_unit L) /\ l_props L = [] /\ Forall wf_cell (l_cells L).

Theorem spec_oas_roundtrip_lemma : forall chs L, wf_layout L -> spec_oas_decode (spec_oas_encode chs L) = Some L.
Proof.
  intros chs [u lp cells] (Hu & Hlp & Hc). cbn [l_unit l_props l_cells] in *. subst lp.
  unfold spec_oas_decode, spec_oas_encode. cbn [l_unit l_cells].
  rewrite strip_prefix_app. cbn [obnd].
  rewrite rd_uint_small by lia. cbn [obnd N.eqb Pos.eqb negb].
  rewrite rd_string_enc by (unfold wf_str, two64; cbn; lia). cbn [obnd].
  change (strip_prefix version_1_0 version_1_0) with (Some (@nil N)). cbn [obnd].
  change (length version_1_0 =? 3)%nat with true. cbn [negb].
  rewrite rd_real_enc by exact Hu. cbn [obnd app].
  rewrite rd_uint_small by lia. cbn [obnd N.ltb N.compare Pos.compare Pos.compare_cont N.eqb].
  set (body := concat (enc_cells chs 0 cells) ++ end_record).
  change (d_init u) with (st u modal0 [] T_lib).
  destruct (loop_cells false u chs cells 0%nat modal0 [] T_lib 1%nat end_record Hc) as (m' & tg' & E).
  rewrite app_nil_r in E.
  apply (dec_loop_mono (length (enc_cells chs 0 cells) + 1)).
  - fold body in E. rewrite E. cbn [dec_loop]. unfold dec_record, end_record. cbn [app].
    rewrite rd_uint_small by lia. cbn [obnd]. rewrite end_tail_ok. rewrite finalize_st by exact Hc. reflexivity.
  - subst body. rewrite app_length.
    pose proof (concat_length_ge _ (enc_cells_nonempty chs cells 0%nat)).
    assert (1 <= length end_record)%nat by (unfold end_record; cbn [length]; lia). lia.
Qed.

(* ================================================================== non-vacuity *)
Definition sample_layout : layout :=
  mkLayout (RInt false 1000) [] [
    mkCell (NName [65; 66]) [] [
      (E_rect 1 2 10 10 5%Z (-7)%Z None, []);
      (E_rect 1 2 10 20 5%Z (-7)%Z (Some (R_rect 1 2 30 40)), []);
      (E_poly 1 3 [(10, 0); (10, 10); (0, 10)]%Z 100%Z 200%Z (Some (R_rect 1 2 30 40)), []);
      (E_poly 1 3 [(10, 0); (13, 10); (-4, 17)]%Z 100%Z 201%Z (Some (R_exp (Some 5) [(1, 2); (-3, 4)]%Z)), []);
      (E_path 1 3 4 0%Z 4%Z [(10, 0); (10, 10)]%Z 100%Z 201%Z None, []);
      (E_path 1 3 5 (-3)%Z 4%Z [(10, 0); (20, 10)]%Z 100%Z 201%Z (Some (R_xs None [3; 4])), []);
      (E_trap true 1 3 40 50 (-3)%Z 0%Z 1%Z 2%Z None, []);
      (E_trap false 1 3 40 50 0%Z 7%Z 1%Z 2%Z (Some (R_ys (Some 2) [9])), []);
      (E_ctrap 1 3 16 40 40 1%Z 2%Z None, []);
      (E_ctrap 1 3 20 80 40 1%Z 2%Z None, []);
      (E_ctrap 1 3 3 80 40 1%Z 2%Z (Some (R_rectx 0 7)), []);
      (E_circle 1 3 33 1%Z 2%Z (Some (R_lin 3 (5, -6)%Z)), []);
      (E_text (NName [104; 105]) 7 8 1%Z 2%Z None, []);
      (E_text (NName [104; 105]) 7 8 1%Z 3%Z (Some (R_recty 1 5)), []);
      (E_place (NName [67]) (PT_quarter 3) true 11%Z 12%Z None, []);
      (E_place (NName [67]) (PT_general (Some (RRatio false 3 2)) (Some (RF32 [0; 0; 180; 66]))) false 11%Z 12%Z
               (Some (R_reg 1 1 (3, 4)%Z (-5, 6)%Z)), [])
    ];
    mkCell (NName [67]) [] [ (E_rect 1 2 10 10 5%Z (-7)%Z None, []) ] ].

Ltac wf_solve :=
  repeat match goal with
         | |- _ /\ _ => split
         | |- Forall _ [] => constructor
         | |- Forall _ (_ :: _) => constructor
         | |- True => exact I
         | |- exists s, NName ?t = NName s /\ _ => exists t; split; [reflexivity|]
         | |- _ <> [] => discriminate
         | |- _ = _ => reflexivity
         | |- wf_u _ => unfold wf_u, two64; cbn; lia
         | |- wf_str _ => unfold wf_str, two64; cbn; lia
         | |- fits63 _ => unfold fits63, two63; cbn; lia
         | |- wf_pt _ => unfold wf_pt, fits63, two63; cbn; lia
         | |- bnd _ _ => unfold bnd; cbn; lia
         | |- (_ < _)%N => cbn; lia
         | |- _ => progress unfold wf_cell, plain_elems, wf_pts, wf_ctrap, sample_layout
         | |- _ => progress cbn [wf_layout wf_cell plain_elems wf_elem wf_orep wf_rep wf_grid wf_pts wf_ctrap wf_nref
                              wf_trans wf_oreal wf_real inline_elem fst snd l_unit l_props l_cells c_name c_props
                              c_elems length sample_layout]
         end.

Example sample_layout_wf : wf_layout sample_layout.
Proof. unfold wf_layout. wf_solve. Qed.

Example sample_layout_roundtrip :
  spec_oas_decode (spec_oas_encode (fun i k => mkChoice (Nat.odd k) 255 (Nat.even k) (N.of_nat k) true) sample_layout)
  = Some sample_layout.
Proof. apply spec_oas_roundtrip_lemma. exact sample_layout_wf. Qed.
