Require Import Base BBox Repetition BBoxRepLink.
From Coq Require Import ZArith NArith.
Require Import Extraction ExtrOcamlBasic.
Extraction Blacklist List String Int.
Extraction "../ocaml/extracted/c09l.ml" q_of_bits linked_b orep_of rep_live_b orep_same count Z.of_N N.of_nat.
