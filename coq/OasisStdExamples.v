(* Unit oas_std (C04 / C02): a sample library on which every hypothesis of OasisStdProofs.v holds, the theorems evaluated on it,
   and the refutation witnesses (intended statements about the standard properties that do NOT hold for write_oas). *)
From Coq Require Import QArith Qround Lia.
Require Import Base Generated OasisInt OasisIntProofs GdsReal OasisReal OasisPlist Table PropList PropListProofs
               OasisSpec OasisSpecProofs OasisWrite OasisWriteProofs OasisStd OasisStdProofs.
Require BBox BBoxProofs.
Local Open Scope N_scope.

(* ================================================================== F. a sample library: the hypotheses are satisfiable; refutation witnesses *)
Definition one_bits : N := 4607182418800017408.                 (* 1.0 *)
Definition long_name : list N := repeat 77 40.                   (* "MMMM..." (40 bytes): a cell that does not exist *)
Definition sample_out : wcell :=
  mkWCell [79; 85; 84] [mkWPoly 9 0 [(1000, 1000); (1010, 1000); (1000, 1010)]%Z WNone []] [] [] [] [].
Definition sample_cells : list wcell :=
  [ mkWCell [84; 79; 80]
      [mkWPoly 1 0 [(0, 0); (10, 0); (10, 5); (0, 5)]%Z (WRect 3 2 20 (-30)) []]
      [mkWPath [mkWPel 4 0 5 (WE_ext 5 (-2)); mkWPel 5 1 0 WE_half] [(0, 0); (40, 0)]%Z WNone []]      (* two elements *)
      [ mkWRef [65] 100%Z (-200)%Z one_bits 0 (Some 0%Z) false WNone [];                                  (* Cell pointer to A *)
        mkWRef [66] 1%Z 2%Z one_bits 4609753056924675352 (Some 1%Z) true (WReg 2 3 (7, 1) (-1, 8))%Z [];   (* the NAME of B *)
        mkWRef [79; 85; 84] 5%Z 5%Z one_bits 0 (Some 0%Z) false WNone [];                                  (* Cell pointer to OUT, outside *)
        mkWRef long_name 0%Z 0%Z one_bits 0 (Some 0%Z) false WNone [] ]                                    (* a name nobody has *)
      [mkWLabel [104; 105] 6 7 (-3)%Z 4%Z WNone []]
      [([80; 51], [])];
    mkWCell [65] [mkWPoly 2 0 [(0, 0); (3, 0); (0, 3)]%Z WNone []] [] [] [] [];
    mkWCell [66] [mkWPoly 2 0 [(0, 0); (5000, 0); (0, 5000)]%Z WNone []] [] [] [] [] ].
Definition sample_lib : wlib := mkWLib 4652007308841189376 [([80; 49], [VStr [97; 98]])] sample_cells.
Definition sample_src : std_src := mkSrc 1 [[RT_in 1; RT_name; RT_out 0; RT_name]; []; []] [sample_out].
Definition all_flags : std_flags := mkStd true true true.

Lemma sample_cells_okp : Forall wcell_okp sample_cells.
Proof.
  assert (Hz : forall a b : Z, (- 2 ^ 62 < a < 2 ^ 62)%Z -> (- 2 ^ 62 < b < 2 ^ 62)%Z -> ptc (a, b)) by (intros; split; assumption).
  unfold sample_cells, long_name.
  repeat (first [apply Forall_nil | apply Forall_cons | split]);
    try exact I; try (apply Hz; lia); try discriminate;
    unfold wf_str, wf_u, fits63, wf_pt, wpath_ok, wpel_ok, wend_ok; cbn [fst snd length repeat];
    rewrite ?two64_val, ?two63_val; try lia.
  all: try (repeat (first [apply Forall_nil | apply Forall_cons | split]); try exact I; try (apply Hz; lia);
            unfold wf_str, wf_u, fits63, wend_ok; cbn [fst snd length pe_layer pe_type pe_hw pe_end];
            rewrite ?two64_val, ?two63_val; lia).
Qed.

Example sample_std_ok : forall f, std_ok f sample_src sample_lib.
Proof.
  intro f. unfold std_ok. split; [|split; [|split; [|split; [|split]]]].
  - repeat constructor; unfold wf_str, wf_u; cbn; rewrite ?two64_val; lia.
  - cbn. repeat constructor; cbn; intuition discriminate.
  - cbn [ss_den sample_src li_cells sample_lib]. rewrite (map_id_ext _ _ lower_cell_one_lemma). apply sample_cells_okp.
  - repeat constructor; unfold wf_str; cbn; rewrite two64_val; lia.
  - intros _. let b := eval vm_compute in (std_boxes sample_src (li_cells sample_lib)) in change (Forall box_fits b).
    repeat constructor; vm_compute; split; reflexivity.
  - intros [[|]]; destruct f as [[|] [|] [|]]; vm_compute; reflexivity.
Qed.
Example sample_src_ok : src_ok sample_src sample_lib.
Proof.
  split; [reflexivity|]. split; [cbn; repeat constructor; cbn; intuition discriminate|].
  intros ks k Hks Hk. cbn in Hks. destruct Hks as [<-|[<-|[<-|[]]]]; cbn in Hk; try tauto.
  destruct Hk as [<-|[<-|[<-|[<-|[]]]]]; cbn; try exact I; lia.
Qed.
Example sample_box_wf : box_wf sample_src (li_cells sample_lib) /\ box_covered sample_src (li_cells sample_lib) = true.
Proof.
  split; [|vm_compute; reflexivity]. split; repeat constructor; cbn; rewrite ?two64_val; lia.
Qed.

(* the headline theorems evaluated on the sample (all three flags and S_CELL_OFFSET on) *)

Example sample_std_values :
  std_counts all_flags sample_src sample_lib = mkCounts 28 4 4 /\
  top_cells sample_src (li_cells sample_lib) = [[84; 79; 80]; [66]] /\
  map box_values (std_boxes sample_src (li_cells sample_lib)) =
    [ [VUInt 0; VInt (-5)%Z; VInt (-200)%Z; VUInt 1020; VUInt 1215];   (* TOP: its own shapes, A and OUT - not B *)
      [VUInt 0; VInt 0%Z; VInt 0%Z; VUInt 3; VUInt 3];
      [VUInt 0; VInt 0%Z; VInt 0%Z; VUInt 5000; VUInt 5000] ] /\
  spec_oas_decode (write_oas_model_std (mkWCfg true) all_flags sample_src sample_lib) =
    Some (view_w (mkWCfg true) (attach_std all_flags sample_src sample_lib)) /\
  length (write_oas_model_std (mkWCfg true) all_flags sample_src sample_lib) = 778%nat.
Proof. split; [|split; [|split; [|split]]]; vm_compute; reflexivity. Qed.

(* ------------------------------------------------------------------ refutation witnesses (the intended statements that do NOT hold) *)
Definition sample_L (cfg : wcfg) : layout := view_w cfg (attach_std all_flags sample_src sample_lib).
Lemma sample_decodes cfg : spec_oas_decode (write_oas_model_std cfg all_flags sample_src sample_lib) = Some (sample_L cfg).
Proof. apply std_writer_conforms_lemma, sample_std_ok. Qed.

(* "S_PATH_MAX_VERTICES is the largest vertex count of a PATH record": a path with two elements is counted twice *)
Theorem path_max_exact_refuted : exists cfg f src l L, std_ok f src l /\ sf_max_counts f = true /\
  spec_oas_decode (write_oas_model_std cfg f src l) = Some L /\
  mc_path (std_counts f src l) = 4 /\ lmax (layout_path_counts L) 0 = 2.
Proof.
  exists (mkWCfg false), all_flags, sample_src, sample_lib, (sample_L (mkWCfg false)).
  split; [apply sample_std_ok|]. split; [reflexivity|]. split; [apply sample_decodes|]. split; vm_compute; reflexivity.
Qed.

(* "S_MAX_STRING_LENGTH bounds every string of the file": the name inside a PLACEMENT of a cell that is not in the
   library is not looked at (known finding write_oas:max-string-length-ignores-placement-names) *)
Theorem string_max_placement_refuted : exists cfg f src l L s, std_ok f src l /\ sf_max_counts f = true /\
  spec_oas_decode (write_oas_model_std cfg f src l) = Some L /\
  In s (layout_placement_names L) /\ mc_string (std_counts f src l) < nlen s.
Proof.
  exists (mkWCfg false), all_flags, sample_src, sample_lib, (sample_L (mkWCfg false)), long_name.
  split; [apply sample_std_ok|]. split; [reflexivity|]. split; [apply sample_decodes|]. split; [vm_compute; tauto|vm_compute; reflexivity].
Qed.

(* "S_TOP_CELL lists exactly the cells that no PLACEMENT of the file designates": a placement written for a Name-typed
   reference does not count (known finding write_oas:top-cell-ignores-name-references) *)
Theorem top_cell_name_reference_refuted : exists cfg f src l L nm, std_ok f src l /\ src_ok src l /\ sf_top_level f = true /\
  spec_oas_decode (write_oas_model_std cfg f src l) = Some L /\
  In nm (layout_top_cells L) /\ In nm (layout_placement_names L) /\ In nm (map cl_name (li_cells l)).
Proof.
  exists (mkWCfg false), all_flags, sample_src, sample_lib, (sample_L (mkWCfg false)), [66].
  split; [apply sample_std_ok|]. split; [apply sample_src_ok|]. split; [reflexivity|]. split; [apply sample_decodes|].
  split; [|split]; vm_compute; tauto.
Qed.

(* "S_BOUNDING_BOX contains everything the cell places": the box only follows Cell-typed references.  The same PLACEMENT
   records, written once for a reference that holds the NAME of B and once for one that holds a pointer to B, come with
   different boxes for TOP *)
Definition sample_src_ptr : std_src := mkSrc 1 [[RT_in 1; RT_in 2; RT_out 0; RT_name]; []; []] [sample_out].
Theorem bbox_name_reference_refuted : exists cfg src src' l,
  write_oas_model cfg (attach_std (mkStd false false false) src l) = write_oas_model cfg (attach_std (mkStd false false false) src' l) /\
  box_covered src (li_cells l) = true /\ box_covered src' (li_cells l) = true /\
  nth_error (map box_values (std_boxes src (li_cells l))) 0 = Some [VUInt 0; VInt (-5)%Z; VInt (-200)%Z; VUInt 1020; VUInt 1215] /\
  nth_error (map box_values (std_boxes src' (li_cells l))) 0 = Some [VUInt 0; VInt (-5)%Z; VInt (-200)%Z; VUInt 5013; VUInt 5219].
Proof. exists (mkWCfg false), sample_src, sample_src_ptr, sample_lib. split; [|split; [|split; [|split]]]; vm_compute; reflexivity. Qed.

(* "S_BOUNDING_BOX is the box of the coordinates in the file": off the grid the writer rounds the box of the UNROUNDED
   copies, while the file holds rounded vertices and a rounded spacing.  A triangle (1/4, 1/4), (1/4, 0), (0, 1/4) repeated in
   3 columns with spacing 1/4: the exact copies reach x = 3/4, which rounds to 1; in the file every vertex and the spacing
   are 0 *)
Definition offgrid_lib : wlib :=
  mkWLib 4607182418800017408 [] [mkWCell [65] [mkWPoly 1 0 [(1, 1); (1, 0); (0, 1)]%Z (WRect 3 1 1 0) []] [] [] [] []].
Definition offgrid_src : std_src := mkSrc 4 [[]] [].
Definition ongrid_src : std_src := mkSrc 1 [[]] [].
Theorem bbox_of_file_geometry_refuted :
  std_ok all_flags offgrid_src offgrid_lib /\ box_wf offgrid_src (li_cells offgrid_lib) /\
  (* what is written *)
  map box_values (std_boxes offgrid_src (li_cells offgrid_lib)) = [[VUInt 0; VInt 0%Z; VInt 0%Z; VUInt 1; VUInt 0]] /\
  (* the box of what is written: the library the file holds, taken as a library on the grid *)
  li_cells (attach_std (mkStd false false false) offgrid_src offgrid_lib) =
    [mkWCell [65] [mkWPoly 1 0 [(0, 0); (0, 0); (0, 0)]%Z (WRect 3 1 0 0) []] [] [] [] []] /\
  map box_values (std_boxes ongrid_src (li_cells (attach_std (mkStd false false false) offgrid_src offgrid_lib))) =
    [[VUInt 0; VInt 0%Z; VInt 0%Z; VUInt 0; VUInt 0]].
Proof.
  split; [|split; [|split; [vm_compute; reflexivity|split; vm_compute; reflexivity]]].
  - unfold std_ok. split; [constructor|]. split; [cbn; repeat constructor; cbn; intuition discriminate|]. split; [|split; [|split]].
    + assert (Hz : forall a b : Z, (- 2 ^ 62 < a < 2 ^ 62)%Z -> (- 2 ^ 62 < b < 2 ^ 62)%Z -> ptc (a, b)) by (intros; split; assumption).
      vm_compute map. repeat (first [apply Forall_nil | apply Forall_cons | split]); try exact I; try (apply Hz; lia); try discriminate;
        unfold wf_str, wf_u, fits63; cbn [fst snd length]; rewrite ?two64_val, ?two63_val; try lia.
    + repeat constructor.
    + intros _. let b := eval vm_compute in (std_boxes offgrid_src (li_cells offgrid_lib)) in change (Forall box_fits b).
      repeat constructor; vm_compute; split; reflexivity.
    + intros [[|]]; vm_compute; reflexivity.
  - split; repeat constructor; cbn; rewrite ?two64_val; lia.
Qed.

(* "a second write_oas writes the same file": a user entry with one of the five MAX_COUNTS names and a long string value is
   counted for S_MAX_STRING_LENGTH by the first call, which then removes it; the second call no longer sees it *)
Definition resave_lib : wlib :=
  mkWLib 4652007308841189376 [(s_max_string_size_name, [VStr (repeat 120 35)])] [mkWCell [65] [] [] [] [] []].
Definition resave_src : std_src := mkSrc 1 [[]] [].
Theorem second_write_same_refuted : exists cfg f src l, std_ok f src l /\
  mc_string (std_counts f src l) = 35 /\ mc_string (std_counts f src (lib_after_write cfg f src l)) = 28 /\
  write_oas_model_std cfg f src (lib_after_write cfg f src l) <> write_oas_model_std cfg f src l.
Proof.
  exists (mkWCfg false), (mkStd true false false), resave_src, resave_lib. split; [|split; [vm_compute; reflexivity|split; [vm_compute; reflexivity|]]].
  - unfold std_ok. split; [repeat constructor; unfold wf_str, wf_u; cbn; rewrite ?two64_val; lia|].
    split; [cbn; repeat constructor; cbn; intuition discriminate|]. split; [|split; [|split]].
    + vm_compute map. repeat (first [apply Forall_nil | apply Forall_cons | split]); try exact I;
        unfold wf_str; cbn [length]; rewrite ?two64_val; lia.
    + repeat constructor.
    + discriminate.
    + intros [[|]]; vm_compute; reflexivity.
  - vm_compute. discriminate.
Qed.
