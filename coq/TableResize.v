(* The PUBLIC resize(new_capacity) of gdstk's hash tables (map.hpp, set.hpp, tagmap.hpp, style.cpp)
   for ANY new capacity.  Definitions only; the proofs are in TableResizeProofs.v.

   The operation itself is already modelled statement by statement in Table.v:

     void resize(uint64_t new_capacity) {
         Map<T> new_map;  new_map.count = 0;  new_map.capacity = new_capacity;
         new_map.items = allocate_clear(new_capacity * sizeof(MapItem<T>));
         for (it = items; it != items + capacity; it++) if (it->key) new_map.set(it->key, it->value);
         clear();  capacity = new_map.capacity;  count = new_map.count;  items = new_map.items;
     }
     = Table.tresize t c = fold_left (reinsert tset) (slots t) (Ok (empty_table c))

   What happens when new_capacity is smaller than the number of entries: nothing is written out of
   bounds and nothing recurses without end, because the refill goes through the ordinary set(), whose
   first statement is the load test `count * 10 >= capacity * THRESHOLD`: the temporary table grows by
   itself (to INITIAL when it is smaller than INITIAL, else by the growth factor) as often as needed.
   new_capacity == 0: the first set() of the refill resizes the temporary to INITIAL (the test holds
   with equality); with no entry at all the table ends with capacity 0, count 0 and a zero-byte
   allocation, which every query treats like the zeroed table (they return on count == 0).
   new_capacity == 1 is the one bad value: 0 * 10 >= 1 * 5 is false, so one entry goes into the single
   slot and the table is FULL (count == capacity == 1).  set() still works (its load test now fires
   before it probes) but get / has_key / del of any other key walk `while (item->key != NULL && ...)`
   around the one-slot table for ever.  It is reached by resize(1) on a table with exactly one entry
   (resize(count): "shrink to fit"), or by resize(1) on an empty table followed by one set().
   Capacities 2 .. INITIAL-1 are harmless but leave tables outside the invariant of TableProofs.v
   (capacity below INITIAL; after the next growth step a load of 5 in 8): the theorems about them
   need the weaker invariant WInv of TableResizeProofs.v.  Allocation failure (new_capacity *
   sizeof(item) beyond what calloc grants: NULL is then dereferenced) stays outside the model. *)
Require Import Base Generated Table.
From Coq Require Import Arith PeanoNat.

Section ResizeDefs.
Variables K V : Type.

(* the capacities the public resize() may be called with *)
Definition resize_cap_ok (c : nat) : bool := negb (Nat.eqb c 1).

(* histories inside the refinement theorem with resize: any operation, any capacity but 1 *)
Definition op_ok (o : op K V) : bool :=
  match o with
  | OpResize c => resize_cap_ok c
  | _ => true
  end.

(* no empty slot left: the next look-up of an absent key does not return *)
Definition tfull (t : table K V) : bool := Nat.ltb 0 (cap t) && Nat.eqb (count t) (cap t).

(* load bound of the weak invariant: a table below INITIAL only ever holds what set() lets in without
   growing; from INITIAL on, one entry more than the usual bound can be present right after the growth
   step that took a small table to INITIAL (7 slots, 4 entries, set -> 8 slots, 5 entries) *)
Definition load_ok (initial thr : nat) (t : table K V) : Prop :=
  count t * 10 < cap t * thr + (if Nat.leb initial (cap t) then 20 else 10).

End ResizeDefs.

Arguments op_ok {K V}.
Arguments tfull {K V}.
Arguments load_ok {K V}.

(* ---- the four instances: histories that end in the full one-slot table and hang ---- *)
Local Open Scope N_scope.

(* Map<uint64_t>: set("k0", 1); resize(1) [= resize(count)]; get("zz") *)
Definition smap_hang_history : list smap_op := [OpSet [107; 48] 1; OpResize 1; OpGet [122; 122]].
(* the same through an empty table: resize(1); set("k0", 1); has_key("zz") *)
Definition smap_hang_history2 : list smap_op := [OpResize 1; OpSet [107; 48] 1; OpHas [122; 122]].
Definition uset_hang_history : list uset_op := [OpResize 1; OpSet 5 tt; OpHas 999].
Definition tagmap_hang_history : list tagmap_op := [OpSet 1 50; OpResize 1; OpGet 7].
Definition stylemap_hang_history : list stylemap_op := [OpSet 1 [97]; OpResize 1; OpDel 7].

(* capacities 2 .. INITIAL-1: harmless, but outside the invariant of TableProofs.v *)
Definition smap_small_history : list smap_op :=
  [OpResize 7; OpSet [97] 1; OpSet [98] 2; OpSet [99] 3; OpSet [100] 4; OpSet [101] 5].
