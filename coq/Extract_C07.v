(* C07: exact oracle (winding number, point-segment distance, classification) and the FlexPath
   bookkeeping model, extracted for ocaml/c07_flexpath_driver.ml *)
Require Import Base PathOracle PathBook.
Require Import Extraction ExtrOcamlBasic.
Extraction Blacklist List String Int.
Extraction "../ocaml/extracted/c07_flexpath.ml"
  wn seg_closer_than seg_band_closer seg_near poly_closer must_cover must_not_cover classify verdict check_point
  finit construct f_spine f_elems counts_okb N.leb.
