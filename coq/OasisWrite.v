(* Statement-level model of gdstk's OASIS writer on the integer grid (C02 / C04, writer side):
     Library::write_oas            src/library.cpp   (compression level 0: no CBLOCK)
     Polygon::to_oas               src/polygon.cpp   (detection flags off, circle tolerance 0: POLYGON records)
     FlexPath::to_oas              src/flexpath.cpp  (simple paths whose elements have offset 0: PATH records)
     Reference / Label             written inline by write_oas (PLACEMENT, PLACEMENT_TRANSFORM, TEXT)
     oasis_write_repetition        src/oasis.cpp     (every RepetitionType)
     oasis_write_point_list        src/oasis.cpp     (= OasisPlist.enc_point_list, C19)
     oasis_write_real              src/oasis.cpp     (= OasisReal.enc_real, C19)
     properties_to_oas             src/property.cpp  (PROPERTY records, property_name_map, property_value_array)
   The input of the model is the library AFTER `llround(x * scaling)`: every coordinate, spacing, half width and
   extension is the integer the C++ obtains from the double; doubles that are written as reals (unit,
   magnification, rotation, Real property values) are their 64-bit patterns.
   Config flags covered: OASIS_CONFIG_PROPERTY_CELL_OFFSET (cfg_cell_offset).  The model describes the writer with
   every other flag off: OASIS_CONFIG_PROPERTY_MAX_COUNTS / TOP_LEVEL / BOUNDING_BOX, OASIS_CONFIG_DETECT_RECTANGLES /
   DETECT_TRAPEZOIDS, OASIS_CONFIG_INCLUDE_CRC32 / CHECKSUM32 (validation scheme 0), circle_tolerance = 0.
   Out of the model: RobustPath, non-simple paths (written through to_polygons), path elements with an offset,
   round / smooth / custom path ends (known finding: written as flush), RawCell references.

   Shape of the functions.  Each C++ routine that writes is a function returning
       (the records it writes : list (list N), what those records denote, the writer state after it).
   A record is the byte list from its record byte up to the byte before the next record byte; the file is the
   concatenation.  "What the records denote" (a specification-level [prop] / [element] whose names are still
   reference numbers) is not used to produce bytes: it is what OasisWriteProofs.v relates the strict decoder to.
   The writer state is the C++ state: OasisState.property_name_map (Map<uint64_t>, model Table.v = C20),
   OasisState.property_value_array, text_string_map, and the file position (ftell).

   The hash maps: [intern] is `if (map.has_key(k)) index = map.get(k); else { index = map.count; map.set(k, index); }`
   on Table.v's model of Map<uint64_t>; the iteration `for (item = map.next(NULL); ...)` is [Table.titems] (slot
   order).  Table.v's operations return an [outcome]; a failed operation (impossible on a map that was only ever
   set(), TableProofs.v) raises [nm_fail], and a run with the flag raised writes no file at all ([]), which the
   conformance theorem excludes.  cell_name_map is only ever looked up (never iterated): it is modelled by what a
   map denotes, the index of the LAST cell with that name ([cell_index]).
   Definitions only. *)
Require Import Base Generated OasisInt GdsReal OasisReal OasisPlist Table PropList OasisSpec.
From Flocq Require Import Core BinarySingleNaN Binary Bits.
Local Open Scope N_scope.

(* ------------------------------------------------------------------ the library on the grid *)
Inductive wrep :=
| WNone
| WRect (cols rows : N) (sx sy : Z)          (* Rectangular: columns, rows, llround(spacing * scaling) *)
| WReg (cols rows : N) (v1 v2 : pt)          (* Regular *)
| WExpl (offs : list pt)                     (* Explicit: offsets, the origin not listed *)
| WExplX (cs : list Z)                       (* ExplicitX: coords *)
| WExplY (cs : list Z).                      (* ExplicitY *)

Definition wprops : Type := PropList.plist.  (* Property chain: (name, values), head first *)

Record wpoly := mkWPoly { py_layer : N; py_type : N; py_pts : list pt; py_rep : wrep; py_props : wprops }.

Inductive wend :=
| WE_flush                                   (* EndType::Flush (and every end type of the `default:` branch) *)
| WE_half                                    (* EndType::HalfWidth *)
| WE_ext (es ee : Z).                        (* EndType::Extended: llround(end_extensions * scaling) *)
Record wpel := mkWPel { pe_layer : N; pe_type : N; pe_hw : N; pe_end : wend }.
(* a simple FlexPath: elements (offset 0, constant width), spine after remove_overlapping_points *)
Record wpath := mkWPath { ph_els : list wpel; ph_pts : list pt; ph_rep : wrep; ph_props : wprops }.

Record wlabel := mkWLabel { lb_text : list N; lb_layer : N; lb_type : N; lb_x : Z; lb_y : Z;
                            lb_rep : wrep; lb_props : wprops }.

(* Reference (type Cell or Name: both are written through the name):
   rf_mag = bits of magnification, rf_rot = bits of rotation (radians),
   rf_quarter = Some m when is_multiple_of_pi_over_2(rotation, m) holds (src/utils.cpp, floating point: an input) *)
Record wref := mkWRef { rf_name : list N; rf_x : Z; rf_y : Z; rf_mag : N; rf_rot : N; rf_quarter : option Z;
                        rf_flip : bool; rf_rep : wrep; rf_props : wprops }.

Record wcell := mkWCell { cl_name : list N; cl_polys : list wpoly; cl_paths : list wpath; cl_refs : list wref;
                          cl_labels : list wlabel; cl_props : wprops }.

(* li_unit = bits of the double 1e-6 / precision *)
Record wlib := mkWLib { li_unit : N; li_props : wprops; li_cells : list wcell }.

Record wcfg := mkWCfg { cfg_cell_offset : bool }.    (* OASIS_CONFIG_PROPERTY_CELL_OFFSET *)

(* ------------------------------------------------------------------ uint64 arithmetic *)
Definition u64z (z : Z) : N := Z.to_N (z mod 18446744073709551616).   (* (uint64_t) of an int64 *)
Definition usub (a b : N) : N := (a + two64 - b) mod two64.             (* a - b on uint64_t, a, b < 2^64 *)

(* ------------------------------------------------------------------ Repetition::get_count, oasis_write_repetition *)
Definition rep_count (r : wrep) : N :=
  match r with
  | WNone => 0
  | WRect c rw _ _ | WReg c rw _ _ => (c * rw) mod two64
  | WExpl l => (N.of_nat (length l) + 1) mod two64
  | WExplX l | WExplY l => (N.of_nat (length l) + 1) mod two64
  end.
(* bool has_repetition = repetition.get_count() > 1; *)
Definition has_rep (r : wrep) : bool := 1 <? rep_count r.

(* sort(items, count) on doubles that are integers: the ascending arrangement (C20: gdstk's sort returns the sorted
   permutation, which is unique for a total order) *)
Fixpoint insert_z (x : Z) (l : list Z) : list Z :=
  match l with
  | [] => [x]
  | y :: t => if (x <=? y)%Z then x :: l else y :: insert_z x t
  end.
Fixpoint sort_z (l : list Z) : list Z := match l with [] => [] | x :: t => insert_z x (sort_z t) end.

(* `*c1++ - *c0++` along the array *)
Fixpoint zdiffs (prev : Z) (l : list Z) : list Z :=
  match l with [] => [] | c :: t => (c - prev)%Z :: zdiffs c t end.
Fixpoint ptdiffs (prev : pt) (l : list pt) : list pt :=
  match l with [] => [] | c :: t => ((fst c - fst prev)%Z, (snd c - snd prev)%Z) :: ptdiffs c t end.

(* ExplicitX / ExplicitY body: count - 1, first coordinate, successive differences, all cast to uint64_t *)
Definition write_coords (cs : list Z) : list N :=
  match sort_z cs with
  | [] => []
  | c0 :: t => enc_uint (N.of_nat (length cs) - 1) ++ enc_uint (u64z c0) ++ flat_map (fun d => enc_uint (u64z d)) (zdiffs c0 t)
  end.

Definition write_repetition (r : wrep) : list N :=
  match r with
  | WRect cols rows sx sy =>
      if (1 <? cols) && (1 <? rows) then
        if (0 <=? sx)%Z && (0 <=? sy)%Z then
          1 :: enc_uint (usub cols 2) ++ enc_uint (usub rows 2) ++ enc_uint (u64z sx) ++ enc_uint (u64z sy)
        else
          8 :: enc_uint (usub cols 2) ++ enc_uint (usub rows 2) ++ enc_gdelta sx 0 ++ enc_gdelta 0 sy
      else if 1 <? cols then
        if (0 <=? sx)%Z then 2 :: enc_uint (usub cols 2) ++ enc_uint (u64z sx)
        else 9 :: enc_uint (usub cols 2) ++ enc_gdelta sx 0
      else
        if (0 <=? sy)%Z then 3 :: enc_uint (usub rows 2) ++ enc_uint (u64z sy)
        else 9 :: enc_uint (usub rows 2) ++ enc_gdelta 0 sy
  | WReg cols rows v1 v2 =>
      if (1 <? cols) && (1 <? rows) then
        8 :: enc_uint (usub cols 2) ++ enc_uint (usub rows 2) ++ enc_gdelta (fst v1) (snd v1) ++ enc_gdelta (fst v2) (snd v2)
      else if 1 <? cols then 9 :: enc_uint (usub cols 2) ++ enc_gdelta (fst v1) (snd v1)
      else 9 :: enc_uint (usub rows 2) ++ enc_gdelta (fst v2) (snd v2)
  | WExplX cs => match cs with [] => [] | _ => 4 :: write_coords cs end
  | WExplY cs => match cs with [] => [] | _ => 6 :: write_coords cs end
  | WExpl offs =>
      match offs with
      | [] => []
      | v0 :: t =>
          10 :: enc_uint (N.of_nat (length offs) - 1) ++ enc_gdelta (fst v0) (snd v0) ++
          flat_map (fun d => enc_gdelta (fst d) (snd d)) (ptdiffs v0 t)
      end
  | WNone => []
  end.

(* `if (has_repetition) oasis_write_repetition(out, repetition, scaling);` *)
Definition rep_field (r : wrep) : list N := if has_rep r then write_repetition r else [].
(* `if (has_repetition) info |= bit;` *)
Definition rep_bit (r : wrep) (b : N) : N := if has_rep r then b else 0.

(* what the repetition field denotes *)
Definition view_rep_body (r : wrep) : srep :=
  match r with
  | WRect cols rows sx sy =>
      if (1 <? cols) && (1 <? rows) then
        if (0 <=? sx)%Z && (0 <=? sy)%Z then R_rect (cols - 2) (rows - 2) (Z.to_N sx) (Z.to_N sy)
        else R_reg (cols - 2) (rows - 2) (sx, 0%Z) (0%Z, sy)
      else if 1 <? cols then
        if (0 <=? sx)%Z then R_rectx (cols - 2) (Z.to_N sx) else R_lin (cols - 2) (sx, 0%Z)
      else
        if (0 <=? sy)%Z then R_recty (rows - 2) (Z.to_N sy) else R_lin (rows - 2) (0%Z, sy)
  | WReg cols rows v1 v2 =>
      if (1 <? cols) && (1 <? rows) then R_reg (cols - 2) (rows - 2) v1 v2
      else if 1 <? cols then R_lin (cols - 2) v1 else R_lin (rows - 2) v2
  | WExplX cs => R_xs None (map Z.to_N (zdiffs 0 (sort_z cs)))
  | WExplY cs => R_ys None (map Z.to_N (zdiffs 0 (sort_z cs)))
  | WExpl offs => R_exp None (ptdiffs (0, 0)%Z offs)
  | WNone => R_exp None []
  end.
Definition view_rep (r : wrep) : option srep := if has_rep r then Some (view_rep_body r) else None.

(* the offsets of the copies a Repetition stands for, the original included (Repetition::get_offsets on the grid, C11:
   column index in the outer loop); OasisWriteProofs.view_rep_offsets_lemma: [view_rep_body] denotes the same offsets *)
Definition wrep_offsets (r : wrep) : list pt :=
  match r with
  | WNone => []
  | WRect c rw sx sy => lattice c rw (sx, 0%Z) (0%Z, sy)
  | WReg c rw v1 v2 => lattice c rw v1 v2
  | WExpl offs => (0, 0)%Z :: offs
  | WExplX cs => (0, 0)%Z :: map (fun c => (c, 0%Z)) cs
  | WExplY cs => (0, 0)%Z :: map (fun c => (0%Z, c)) cs
  end.

(* ------------------------------------------------------------------ reals *)
(* the real oasis_write_real writes, as a value of the specification's type (OasisWriteProofs: enc_real = wr_real of it) *)
Definition real_of_bits (bits : N) : real :=
  let value := b64_of_bits (Z.of_N bits) in
  match int_magnitude_lt64 value with
  | Some v => RInt (negb (b64_ge0 value)) (Z.to_N v)
  | None =>
      let inverse := b64_div mode_NE b64_one value in
      match int_magnitude_lt64 inverse with
      | Some v =>
          if b64_eqb (b64_div mode_NE b64_one inverse) value
          then RRecip (negb (b64_ge0 inverse)) (Z.to_N v)
          else RF64 (bytes_le 8 bits)
      | None => RF64 (bytes_le 8 bits)
      end
  end.

(* ------------------------------------------------------------------ Map<uint64_t> with a failure flag *)
Record names := mkNames { nm_tab : smap; nm_fail : bool }.
Definition names0 : names := mkNames (table0 (list N) N) false.
Definition s_has (t : smap) (k : list N) : outcome bool := thas (list N) N Table.bytes_eqb hash_str t k.
Definition s_get (t : smap) (k : list N) : outcome (option N) := tget (list N) N Table.bytes_eqb hash_str t k.
Definition s_set (t : smap) (k : list N) (v : N) : outcome smap :=
  tset (list N) N Table.bytes_eqb hash_str P_INITIAL P_GROWTH P_THRESHOLD t k v.
Definition nm_failed (m : names) : names := mkNames (nm_tab m) true.

(* if (map.has_key(key)) { index = map.get(key); } else { index = map.count; map.set(key, index); } *)
Definition intern (m : names) (k : list N) : N * names :=
  match s_has (nm_tab m) k with
  | Ok true =>
      match s_get (nm_tab m) k with
      | Ok o => (smap_get_default o, m)
      | _ => (0, nm_failed m)
      end
  | Ok false =>
      let index := N.of_nat (Table.count (nm_tab m)) in
      match s_set (nm_tab m) k index with
      | Ok t' => (index, mkNames t' (nm_fail m))
      | _ => (index, nm_failed m)
      end
  | _ => (0, nm_failed m)
  end.
(* for (item = map.next(NULL); item; item = map.next(item)) : (key, value) in slot order *)
Definition nm_items (m : names) : list (list N * N) := titems (list N) N (nm_tab m).
Definition nm_count (m : names) : N := N.of_nat (Table.count (nm_tab m)).

(* ------------------------------------------------------------------ properties_to_oas *)
(* OasisState: property_name_map, property_value_array *)
Record pstate := mkPS { ps_names : names; ps_vals : list (list N) }.
Definition pstate0 : pstate := mkPS names0 [].

(* for (index = 0; index < array.count; index++) if (same count and bytes) break; *)
Fixpoint find_index (v : list N) (l : list (list N)) (i : N) : N :=
  match l with
  | [] => i
  | x :: t => if Table.bytes_eqb x v then i else find_index v t (i + 1)
  end.

(* the scan of a String value: binary as soon as a byte is outside 0x20..0x7E, else space when a 0x20 was seen *)
Definition is_binary (s : list N) : bool := existsb (fun b => (b <? 32) || (126 <? b)) s.
Definition has_space (s : list N) : bool := existsb (fun b => b =? 32) s.
Definition str_code (s : list N) : N := if is_binary s then 14 else if has_space s then 13 else 15.

(* one iteration of `for (value = properties->value; value; value = value->next) switch (value->type)` *)
Definition value_to_oas (pv : list (list N)) (v : value) : list N * pval * list (list N) :=
  match v with
  | VReal bits => (enc_real bits, PV_real (real_of_bits bits), pv)
  | VUInt n => (8 :: enc_uint n, PV_uint n, pv)
  | VInt z => (9 :: enc_int z, PV_int z, pv)
  | VStr s =>
      let index := find_index s pv 0 in
      let pv' := if index =? N.of_nat (length pv) then pv ++ [s] else pv in
      (str_code s :: enc_uint index, PV_ref (str_code s) index, pv')
  end.
Fixpoint values_to_oas (pv : list (list N)) (vs : list value) : list N * list pval * list (list N) :=
  match vs with
  | [] => ([], [], pv)
  | v :: t =>
      let '(b1, d1, pv1) := value_to_oas pv v in
      let '(b2, d2, pv2) := values_to_oas pv1 t in
      (b1 ++ b2, d1 :: d2, pv2)
  end.

(* one iteration of `while (properties)`: the PROPERTY record *)
Definition property_to_oas (st : pstate) (p : entry) : list N * prop * pstate :=
  let value_count := N.of_nat (length (snd p)) in
  let info := 6 + (if is_gds_property p then 1 else 0) + (if 14 <? value_count then 240 else 16 * value_count) in
  let '(index, nm) := intern (ps_names st) (fst p) in
  let '(vb, vd, pv) := values_to_oas (ps_vals st) (snd p) in
  (OasisRecord_PROPERTY :: info :: enc_uint index ++ (if 14 <? value_count then enc_uint value_count else []) ++ vb,
   mkProp (NNum index) (is_gds_property p) vd,
   mkPS nm pv).
Fixpoint properties_to_oas (st : pstate) (ps : wprops) : list (list N) * list prop * pstate :=
  match ps with
  | [] => ([], [], st)
  | p :: t =>
      let '(r1, d1, st1) := property_to_oas st p in
      let '(r2, d2, st2) := properties_to_oas st1 t in
      (r1 :: r2, d1 :: d2, st2)
  end.

(* ------------------------------------------------------------------ Polygon::to_oas (the final `else` branch) *)
Definition first_pt (pts : list pt) : pt := hd (0, 0)%Z pts.       (* points[0] *)

(* the offsets of a vertex list from its first vertex *)
Definition rel_pts (pts : list pt) : list pt :=
  map (fun q => ((fst q - fst (first_pt pts))%Z, (snd q - snd (first_pt pts))%Z)) (tl pts).

Definition polygon_to_oas (st : pstate) (p : wpoly) : list (list N) * (element * list prop) * pstate :=
  let info := 59 + rep_bit (py_rep p) 4 in                          (* 0x3B *)
  let '(pr, pd, st') := properties_to_oas st (py_props p) in
  ((OasisRecord_POLYGON :: info :: enc_uint (py_layer p) ++ enc_uint (py_type p) ++
      enc_point_list true (py_pts p) ++
      enc_int (fst (first_pt (py_pts p))) ++ enc_int (snd (first_pt (py_pts p))) ++ rep_field (py_rep p)) :: pr,
   (E_poly (py_layer p) (py_type p) (rel_pts (py_pts p))
           (fst (first_pt (py_pts p))) (snd (first_pt (py_pts p))) (view_rep (py_rep p)), pd),
   st').

(* ------------------------------------------------------------------ FlexPath::to_oas *)
(* the `switch (el->end_type)`: extension scheme byte and the explicit extensions that follow it *)
Definition ext_half (hw : N) (e : Z) : N * Z :=                     (* (2-bit code, extension still to be written) *)
  if (e =? 0)%Z then (1, 0%Z)
  else if (0 <? e)%Z && (u64z e =? hw) then (2, 0%Z)
  else (3, e).
Definition extension_scheme (hw : N) (e : wend) : list N :=
  match e with
  | WE_ext es ee =>
      let '(cs, vs) := ext_half hw es in
      let '(ce, ve) := ext_half hw ee in
      (4 * cs + ce) :: (if (vs =? 0)%Z then [] else enc_int vs) ++ (if (ve =? 0)%Z then [] else enc_int ve)
  | WE_half => [10]                                                 (* 0x0A *)
  | WE_flush => [5]                                                 (* 0x05 *)
  end.
(* the extensions the scheme denotes *)
Definition view_ext (hw : N) (e : wend) : Z * Z :=
  match e with
  | WE_ext es ee => (es, ee)
  | WE_half => (Z.of_N hw, Z.of_N hw)
  | WE_flush => (0%Z, 0%Z)
  end.

(* one iteration of `for (ne = 0; ne < num_elements; ne++, el++)`: PATH record, then the path's properties *)
Definition path_element_to_oas (st : pstate) (h : wpath) (el : wpel)
  : list (list N) * (element * list prop) * pstate :=
  let info := 251 + rep_bit (ph_rep h) 4 in                         (* 0xFB *)
  let '(pr, pd, st') := properties_to_oas st (ph_props h) in
  ((OasisRecord_PATH :: info :: enc_uint (pe_layer el) ++ enc_uint (pe_type el) ++ enc_uint (pe_hw el) ++
      extension_scheme (pe_hw el) (pe_end el) ++
      enc_point_list false (ph_pts h) ++
      enc_int (fst (first_pt (ph_pts h))) ++ enc_int (snd (first_pt (ph_pts h))) ++ rep_field (ph_rep h)) :: pr,
   (E_path (pe_layer el) (pe_type el) (pe_hw el) (fst (view_ext (pe_hw el) (pe_end el)))
           (snd (view_ext (pe_hw el) (pe_end el))) (rel_pts (ph_pts h))
           (fst (first_pt (ph_pts h))) (snd (first_pt (ph_pts h))) (view_rep (ph_rep h)), pd),
   st').
Fixpoint path_elements_to_oas (st : pstate) (h : wpath) (els : list wpel)
  : list (list N) * list (element * list prop) * pstate :=
  match els with
  | [] => ([], [], st)
  | el :: t =>
      let '(r1, d1, st1) := path_element_to_oas st h el in
      let '(r2, d2, st2) := path_elements_to_oas st1 h t in
      (r1 ++ r2, d1 :: d2, st2)
  end.
(* `if (spine.point_array.count < 2) return ErrorCode::EmptyPath;` *)
Definition flexpath_to_oas (st : pstate) (h : wpath) : list (list N) * list (element * list prop) * pstate :=
  if (length (ph_pts h) <? 2)%nat then ([], [], st) else path_elements_to_oas st h (ph_els h).

(* ------------------------------------------------------------------ references (inside write_oas) *)
(* cell_name_map: name -> index of the last cell of that name; has_key / get *)
Fixpoint cell_index_from (cells : list (list N)) (name : list N) (i : N) (found : option N) : option N :=
  match cells with
  | [] => found
  | c :: t => cell_index_from t name (i + 1) (if Table.bytes_eqb c name then Some i else found)
  end.
Definition cell_index (cells : list (list N)) (name : list N) : option N := cell_index_from cells name 0 None.

Definition b64_is_one (bits : N) : bool := b64_eqb (b64_of_bits (Z.of_N bits)) b64_one.          (* x == 1.0 *)
Definition b64_is_zero (bits : N) : bool :=                                                    (* x == 0 *)
  b64_eqb (b64_of_bits (Z.of_N bits)) (B754_zero 53 1024 false).
Definition rad2deg : binary64 := b64_of_bits 4633260481411531256.                             (* 180.0 / M_PI = 0x404CA5DC1A63C1F8 *)
Definition deg_bits (rot : N) : N := bits64 (b64_mult mode_NE (b64_of_bits (Z.of_N rot)) rad2deg).

(* m < 0 ? 0x03 & ((m % 4) + 4) : 0x03 & (m % 4)     (C's % truncates towards zero) *)
Definition quarter_bits (m : Z) : N :=
  if (m <? 0)%Z then Z.to_N (Z.land (Z.rem m 4 + 4) 3) else Z.to_N (Z.land (Z.rem m 4) 3).

Definition wr_cstring (s : list N) : list N := enc_uint (N.of_nat (length s)) ++ s.   (* strlen, then the bytes *)

Definition reference_to_oas (cells : list (list N)) (st : pstate) (r : wref)
  : list (list N) * (element * list prop) * pstate :=
  let idx := cell_index cells (rf_name r) in
  let info0 := (match idx with Some _ => 240 | None => 176 end)       (* 0xF0 : 0xB0 *)
               + rep_bit (rf_rep r) 8 + (if rf_flip r then 1 else 0) in
  let target := match idx with Some i => enc_uint i | None => wr_cstring (rf_name r) end in
  let cref := match idx with Some i => NNum i | None => NName (rf_name r) end in
  let tail := enc_int (rf_x r) ++ enc_int (rf_y r) ++ rep_field (rf_rep r) in
  let '(pr, pd, st') := properties_to_oas st (rf_props r) in
  match (if b64_is_one (rf_mag r) then rf_quarter r else None) with
  | Some m =>
      ((OasisRecord_PLACEMENT :: (info0 + 2 * quarter_bits m) :: target ++ tail) :: pr,
       (E_place cref (PT_quarter (quarter_bits m)) (rf_flip r) (rf_x r) (rf_y r) (view_rep (rf_rep r)), pd), st')
  | None =>
      let has_mag := negb (b64_is_one (rf_mag r)) in
      let has_rot := negb (b64_is_zero (rf_rot r)) in
      ((OasisRecord_PLACEMENT_TRANSFORM :: (info0 + (if has_mag then 4 else 0) + (if has_rot then 2 else 0)) :: target ++
          (if has_mag then enc_real (rf_mag r) else []) ++
          (if has_rot then enc_real (deg_bits (rf_rot r)) else []) ++ tail) :: pr,
       (E_place cref (PT_general (if has_mag then Some (real_of_bits (rf_mag r)) else None)
                                 (if has_rot then Some (real_of_bits (deg_bits (rf_rot r))) else None))
                (rf_flip r) (rf_x r) (rf_y r) (view_rep (rf_rep r)), pd), st')
  end.

(* ------------------------------------------------------------------ labels (inside write_oas) *)
Definition label_to_oas (ts : names) (st : pstate) (t : wlabel)
  : list (list N) * (element * list prop) * names * pstate :=
  let info := 123 + rep_bit (lb_rep t) 4 in                          (* 0x7B *)
  let '(index, ts') := intern ts (lb_text t) in
  let '(pr, pd, st') := properties_to_oas st (lb_props t) in
  ((OasisRecord_TEXT :: info :: enc_uint index ++ enc_uint (lb_layer t) ++ enc_uint (lb_type t) ++
      enc_int (lb_x t) ++ enc_int (lb_y t) ++ rep_field (lb_rep t)) :: pr,
   (E_text (NNum index) (lb_layer t) (lb_type t) (lb_x t) (lb_y t) (view_rep (lb_rep t)), pd),
   ts', st').

(* ------------------------------------------------------------------ the loops over the contents of a cell *)
Fixpoint polygons_to_oas (st : pstate) (l : list wpoly) : list (list N) * list (element * list prop) * pstate :=
  match l with
  | [] => ([], [], st)
  | p :: t =>
      let '(r1, d1, st1) := polygon_to_oas st p in
      let '(r2, d2, st2) := polygons_to_oas st1 t in
      (r1 ++ r2, d1 :: d2, st2)
  end.
Fixpoint flexpaths_to_oas (st : pstate) (l : list wpath) : list (list N) * list (element * list prop) * pstate :=
  match l with
  | [] => ([], [], st)
  | p :: t =>
      let '(r1, d1, st1) := flexpath_to_oas st p in
      let '(r2, d2, st2) := flexpaths_to_oas st1 t in
      (r1 ++ r2, d1 ++ d2, st2)
  end.
Fixpoint references_to_oas (cells : list (list N)) (st : pstate) (l : list wref)
  : list (list N) * list (element * list prop) * pstate :=
  match l with
  | [] => ([], [], st)
  | p :: t =>
      let '(r1, d1, st1) := reference_to_oas cells st p in
      let '(r2, d2, st2) := references_to_oas cells st1 t in
      (r1 ++ r2, d1 :: d2, st2)
  end.
Fixpoint labels_to_oas (ts : names) (st : pstate) (l : list wlabel)
  : list (list N) * list (element * list prop) * names * pstate :=
  match l with
  | [] => ([], [], ts, st)
  | p :: t =>
      let '(r1, d1, ts1, st1) := label_to_oas ts st p in
      let '(r2, d2, ts2, st2) := labels_to_oas ts1 st1 t in
      (r1 ++ r2, d1 :: d2, ts2, st2)
  end.

(* one iteration of the first `for (i = 0; i < c_size; i++)`: CELL record by reference number, polygons, flexpaths,
   references, labels *)
Definition cell_to_oas (cells : list (list N)) (ts : names) (st : pstate) (c : wcell)
  : list (list N) * cell * names * pstate :=
  let index := match cell_index cells (cl_name c) with Some i => i | None => 0 end in    (* cell_name_map.get *)
  let '(r1, d1, st1) := polygons_to_oas st (cl_polys c) in
  let '(r2, d2, st2) := flexpaths_to_oas st1 (cl_paths c) in
  let '(r3, d3, st3) := references_to_oas cells st2 (cl_refs c) in
  let '(r4, d4, ts4, st4) := labels_to_oas ts st3 (cl_labels c) in
  ((OasisRecord_CELL_REF_NUM :: enc_uint index) :: r1 ++ r2 ++ r3 ++ r4,
   mkCell (NNum index) [] (d1 ++ d2 ++ d3 ++ d4), ts4, st4).

Definition reclen (recs : list (list N)) : N := N.of_nat (length (concat recs)).

(* [pos] = ftell(out.file) before the cell; the result lists the position of every CELL record (cell_offset_map) *)
Fixpoint cells_to_oas (cells : list (list N)) (pos : N) (ts : names) (st : pstate) (l : list wcell)
  : list (list N) * list cell * list N * names * pstate :=
  match l with
  | [] => ([], [], [], ts, st)
  | c :: t =>
      let '(r1, d1, ts1, st1) := cell_to_oas cells ts st c in
      let '(r2, d2, o2, ts2, st2) := cells_to_oas cells (pos + reclen r1) ts1 st1 t in
      (r1 ++ r2, d1 :: d2, pos :: o2, ts2, st2)
  end.

(* ------------------------------------------------------------------ the name tables *)
(* "S_CELL_OFFSET" *)
Definition s_cell_offset_name : list N := [83; 95; 67; 69; 76; 76; 95; 79; 70; 70; 83; 69; 84].

(* remove_property(properties, name, true) then set_property(properties, name, (uint64_t) value, true):
   every entry of that name goes, a new entry with the single value becomes the head.  (remove_property as PropList.v
   specifies it; its crash on a chain made only of entries of that name is known finding F1 and excluded by wlib_ok.) *)
Definition replace_property (ps : wprops) (name : list N) (v : value) : wprops :=
  (name, [v]) :: filter (fun e => negb (name_eqb (fst e) name)) ps.

(* the properties written after the CELLNAME record of a cell whose CELL record is at [offset] *)
Definition cellname_props (cfg : wcfg) (c : wcell) (offset : N) : wprops :=
  if cfg_cell_offset cfg then replace_property (cl_props c) s_cell_offset_name (VUInt offset) else cl_props c.

(* cell_offset_map.get(cell->name): the position recorded for the last cell of that name *)
Definition cell_offset_of (cells : list (list N)) (offs : list N) (name : list N) : N :=
  match cell_index cells name with Some i => nth (N.to_nat i) offs 0 | None => 0 end.

(* second `for (i = 0; i < c_size; i++)`: CELLNAME_IMPLICIT record, then the cell's properties *)
Fixpoint cellnames_to_oas (cfg : wcfg) (cells : list (list N)) (offs : list N) (st : pstate) (l : list wcell)
  : list (list N) * list (list prop) * pstate :=
  match l with
  | [] => ([], [], st)
  | c :: t =>
      let '(pr, pd, st1) := properties_to_oas st (cellname_props cfg c (cell_offset_of cells offs (cl_name c))) in
      let '(r2, d2, st2) := cellnames_to_oas cfg cells offs st1 t in
      ((OasisRecord_CELLNAME_IMPLICIT :: wr_cstring (cl_name c)) :: pr ++ r2, pd :: d2, st2)
  end.

(* TEXTSTRING / PROPNAME records: string, then the reference number *)
Definition numbered_name_records (code : N) (items : list (list N * N)) : list (list N) :=
  map (fun kv => code :: wr_cstring (fst kv) ++ enc_uint (snd kv)) items.
(* PROPSTRING_IMPLICIT records *)
Definition propstring_records (vals : list (list N)) : list (list N) :=
  map (fun s => OasisRecord_PROPSTRING_IMPLICIT :: wr_cstring s) vals.

(* ------------------------------------------------------------------ END *)
(* table offsets: (1, cell names) (1, text strings) (1, property names) (1, property strings) (1, 0) (1, 0);
   pad_len = 256 - 1 - 2 - 1 + ftell_at_END - ftell_after_the_offsets; b-string of pad_len zeros; validation scheme 0 *)
Definition end_record_w (cn ts pn ps : N) : list N :=
  let offsets := 1 :: enc_uint cn ++ 1 :: enc_uint ts ++ 1 :: enc_uint pn ++ 1 :: enc_uint ps ++ [1; 0; 1; 0] in
  let pad_len := usub 252 (N.of_nat (length offsets)) in
  OasisRecord_END :: offsets ++ enc_uint pad_len ++ repeat 0 (N.to_nat pad_len) ++ [0].

(* ------------------------------------------------------------------ Library::write_oas *)
(* magic, START, "1.0" *)
Definition start_header : list N := magic ++ [OasisRecord_START; 3; 49; 46; 48].

Record wrun := mkRun {
  run_start : list N;                  (* magic + START record *)
  run_records : list (list N);         (* every record between START and END *)
  run_end : list N;                    (* the END record *)
  run_failed : bool;                   (* a hash-map operation failed *)
  (* what the records denote, for OasisWriteProofs.v *)
  run_lprops : list prop; run_cells : list cell; run_cnprops : list (list prop);
  run_ts : names; run_ps : pstate; run_offsets : list N }.

Definition write_oas_run (cfg : wcfg) (l : wlib) : wrun :=
  let start := start_header ++ enc_real (li_unit l) ++ [1] in      (* table offsets are in the END record *)
  let names := map cl_name (li_cells l) in
  let '(r_lp, d_lp, st1) := properties_to_oas pstate0 (li_props l) in
  let pos1 := N.of_nat (length start) + reclen r_lp in
  let '(r_c, d_c, offs, ts, st2) := cells_to_oas names pos1 names0 st1 (li_cells l) in
  let cell_name_offset := match li_cells l with [] => 0 | _ => pos1 + reclen r_c end in
  let '(r_cn, d_cn, st3) := cellnames_to_oas cfg names offs st2 (li_cells l) in
  let pos3 := pos1 + reclen r_c + reclen r_cn in
  let text_string_offset := if 0 <? nm_count ts then pos3 else 0 in
  let r_ts := numbered_name_records OasisRecord_TEXTSTRING (nm_items ts) in
  let pos4 := pos3 + reclen r_ts in
  let prop_name_offset := if 0 <? nm_count (ps_names st3) then pos4 else 0 in
  let r_pn := numbered_name_records OasisRecord_PROPNAME (nm_items (ps_names st3)) in
  let pos5 := pos4 + reclen r_pn in
  let prop_string_offset := match ps_vals st3 with [] => 0 | _ => pos5 end in
  let r_ps := propstring_records (ps_vals st3) in
  mkRun start (r_lp ++ r_c ++ r_cn ++ r_ts ++ r_pn ++ r_ps)
        (end_record_w cell_name_offset text_string_offset prop_name_offset prop_string_offset)
        (nm_fail ts || nm_fail (ps_names st3))
        d_lp d_c d_cn ts st3 offs.

Definition write_oas_model (cfg : wcfg) (l : wlib) : list N :=
  let r := write_oas_run cfg l in
  if run_failed r then [] else run_start r ++ concat (run_records r) ++ run_end r.

(* ------------------------------------------------------------------ the layout a library denotes *)
Definition str_kind (s : list N) : N := if is_binary s then 11 else if has_space s then 10 else 12.
Definition view_value (v : value) : pval :=
  match v with
  | VReal bits => PV_real (real_of_bits bits)
  | VUInt n => PV_uint n
  | VInt z => PV_int z
  | VStr s => PV_str (str_kind s) s
  end.
Definition view_prop (p : entry) : prop := mkProp (NName (fst p)) (is_gds_property p) (map view_value (snd p)).
Definition view_props (ps : wprops) : list prop := map view_prop ps.

Definition view_poly (p : wpoly) : element * list prop :=
  (E_poly (py_layer p) (py_type p) (rel_pts (py_pts p)) (fst (first_pt (py_pts p))) (snd (first_pt (py_pts p)))
          (view_rep (py_rep p)), view_props (py_props p)).
Definition view_path_element (h : wpath) (el : wpel) : element * list prop :=
  (E_path (pe_layer el) (pe_type el) (pe_hw el) (fst (view_ext (pe_hw el) (pe_end el)))
          (snd (view_ext (pe_hw el) (pe_end el))) (rel_pts (ph_pts h))
          (fst (first_pt (ph_pts h))) (snd (first_pt (ph_pts h))) (view_rep (ph_rep h)), view_props (ph_props h)).
Definition view_path (h : wpath) : list (element * list prop) :=
  if (length (ph_pts h) <? 2)%nat then [] else map (view_path_element h) (ph_els h).
Definition view_trans (r : wref) : ptrans :=
  match (if b64_is_one (rf_mag r) then rf_quarter r else None) with
  | Some m => PT_quarter (quarter_bits m)
  | None => PT_general (if b64_is_one (rf_mag r) then None else Some (real_of_bits (rf_mag r)))
                       (if b64_is_zero (rf_rot r) then None else Some (real_of_bits (deg_bits (rf_rot r))))
  end.
Definition view_ref (r : wref) : element * list prop :=
  (E_place (NName (rf_name r)) (view_trans r) (rf_flip r) (rf_x r) (rf_y r) (view_rep (rf_rep r)),
   view_props (rf_props r)).
Definition view_label (t : wlabel) : element * list prop :=
  (E_text (NName (lb_text t)) (lb_layer t) (lb_type t) (lb_x t) (lb_y t) (view_rep (lb_rep t)), view_props (lb_props t)).

Definition view_cell (cfg : wcfg) (cells : list (list N)) (offs : list N) (c : wcell) : cell :=
  mkCell (NName (cl_name c)) (view_props (cellname_props cfg c (cell_offset_of cells offs (cl_name c))))
         (map view_poly (cl_polys c) ++ flat_map view_path (cl_paths c) ++ map view_ref (cl_refs c) ++
          map view_label (cl_labels c)).

(* the positions of the CELL records in the file the model writes (only looked at when cfg_cell_offset is set) *)
Definition cell_offsets (cfg : wcfg) (l : wlib) : list N := run_offsets (write_oas_run cfg l).

Definition view_w (cfg : wcfg) (l : wlib) : layout :=
  mkLayout (real_of_bits (li_unit l)) (view_props (li_props l)) (map (view_cell cfg (map cl_name (li_cells l)) (cell_offsets cfg l)) (li_cells l)).
