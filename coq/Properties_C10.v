(* C10 - Element transforms are the documented affine maps and compose correctly.
   Theorem-only file: every proof is `exact <lemma>`; Print Assumptions under each.
   Model: Affine.v (exact, over Q; angles as rational (cos, sin) pairs). *)
From Coq Require Import QArith Qabs List.
Require Import Affine AffineProofs.
Import ListNotations.
Open Scope Q_scope.

(* --- polygons: each routine moves every vertex by its affine map *)
Theorem c10_polygon_translate : forall v pts,
  poly_eq (polygon_translate v pts) (map (aff_apply (translate_map v)) pts).
Proof. exact polygon_translate_affine_lemma. Qed.
Print Assumptions c10_polygon_translate.

Theorem c10_polygon_scale : forall sf c pts,
  poly_eq (polygon_scale sf c pts) (map (aff_apply (scale_map sf c)) pts).
Proof. exact polygon_scale_affine_lemma. Qed.
Print Assumptions c10_polygon_scale.

Theorem c10_polygon_mirror : forall p0 p1 pts,
  poly_eq (polygon_mirror p0 p1 pts) (map (aff_apply (mirror_map p0 p1)) pts).
Proof. exact polygon_mirror_affine_lemma. Qed.
Print Assumptions c10_polygon_mirror.

(* mirror is THE reflection across the line p0p1 *)
Theorem c10_mirror_is_reflection : forall p0 p1 p,
  mirror_degenerate p0 p1 = false -> is_reflection_of p0 p1 p (pt_mirror p0 p1 p).
Proof. exact polygon_mirror_is_reflection_lemma. Qed.
Print Assumptions c10_mirror_is_reflection.

Theorem c10_reflection_unique : forall p0 p1 p q,
  mirror_degenerate p0 p1 = false -> is_reflection_of p0 p1 p q -> veq q (pt_mirror p0 p1 p).
Proof. exact reflection_unique_lemma. Qed.
Print Assumptions c10_reflection_unique.

Theorem c10_polygon_rotate : forall a c pts,
  poly_eq (polygon_rotate a c pts) (map (aff_apply (rotate_map a c)) pts).
Proof. exact polygon_rotate_affine_lemma. Qed.
Print Assumptions c10_polygon_rotate.

Theorem c10_polygon_transform : forall T pts,
  poly_eq (polygon_transform T pts) (map (aff_apply (placement_map T)) pts).
Proof. exact polygon_transform_affine_lemma. Qed.
Print Assumptions c10_polygon_transform.

(* --- references and labels: composition of placements *)
Theorem c10_reference_transform_compose : forall T P,
  aff_eq (placement_map (placement_transform T P)) (aff_compose (placement_map T) (placement_map P)).
Proof. exact reference_transform_compose_lemma. Qed.
Print Assumptions c10_reference_transform_compose.

Theorem c10_reference_transform_fields : forall T P,
  p_mag (placement_transform T P) == p_mag T * p_mag P /\
  p_xrefl (placement_transform T P) = xorb (p_xrefl P) (p_xrefl T) /\
  aeq (p_rot (placement_transform T P)) (aadd (if p_xrefl T then aneg (p_rot P) else p_rot P) (p_rot T)) /\
  veq (p_orig (placement_transform T P)) (aff_apply (placement_map T) (p_orig P)).
Proof. exact reference_transform_fields_lemma. Qed.
Print Assumptions c10_reference_transform_fields.

(* --- any sequence of transforms *)
Theorem c10_transform_sequence : forall ops pts,
  poly_eq (polygon_apply_ops ops pts) (map (aff_apply (ops_map ops)) pts).
Proof. exact transform_sequence_lemma. Qed.
Print Assumptions c10_transform_sequence.

Theorem c10_reference_transform_sequence : forall Ts P,
  aff_eq (placement_map (placement_apply_ops Ts P)) (aff_compose (placements_map Ts) (placement_map P)).
Proof. exact reference_transform_sequence_lemma. Qed.
Print Assumptions c10_reference_transform_sequence.

Theorem c10_robustpath_sequence : forall ops r,
  Forall op_ok ops -> aff_eq (rp_trafo (rp_apply_ops ops r)) (aff_compose (ops_map ops) (rp_trafo r)).
Proof. exact robustpath_sequence_trafo_lemma. Qed.
Print Assumptions c10_robustpath_sequence.

(* --- centre lines of paths *)
Theorem c10_centre_similarity : forall A reverses u w k pos dir off c,
  similarity A reverses u w -> 0 <= k -> k * k == u * u + w * w ->
  centre_rel pos dir off c ->
  centre_rel (aff_apply A pos) (aff_linear A dir) (rsign reverses * k * off) (aff_apply A c).
Proof. exact centre_rel_similarity_lemma. Qed.
Print Assumptions c10_centre_similarity.

Theorem c10_centre_offset_unique : forall pos dir off off' c,
  ~ length_sq dir == 0 -> centre_rel pos dir off c -> centre_rel pos dir off' c -> off == off'.
Proof. exact centre_rel_offset_unique. Qed.
Print Assumptions c10_centre_offset_unique.

Theorem c10_flexpath_translate_centre : forall v f e k c0 c1,
  fp_centres f e k c0 c1 ->
  fp_centres (flexpath_translate v f) e k (aff_apply (translate_map v) c0) (aff_apply (translate_map v) c1).
Proof. exact flexpath_translate_centre_lemma. Qed.
Print Assumptions c10_flexpath_translate_centre.

Theorem c10_flexpath_scale_centre : forall s center f e k c0 c1,
  fp_centres f e k c0 c1 ->
  fp_centres (flexpath_scale s center f) e k
             (aff_apply (scale_map (V2 s s) center) c0) (aff_apply (scale_map (V2 s s) center) c1).
Proof. exact flexpath_scale_centre_lemma. Qed.
Print Assumptions c10_flexpath_scale_centre.

Theorem c10_flexpath_mirror_centre : forall p0 p1 f e k c0 c1,
  mirror_degenerate p0 p1 = false ->
  fp_centres f e k c0 c1 ->
  fp_centres (flexpath_mirror p0 p1 f) e k (aff_apply (mirror_map p0 p1) c0) (aff_apply (mirror_map p0 p1) c1).
Proof. exact flexpath_mirror_centre_lemma. Qed.
Print Assumptions c10_flexpath_mirror_centre.

Theorem c10_flexpath_rotate_centre : forall a center f e k c0 c1,
  angle_ok a ->
  fp_centres f e k c0 c1 ->
  fp_centres (flexpath_rotate a center f) e k (aff_apply (rotate_map a center) c0) (aff_apply (rotate_map a center) c1).
Proof. exact flexpath_rotate_centre_lemma. Qed.
Print Assumptions c10_flexpath_rotate_centre.

(* FlexPath::transform (as repaired by df9071a): every magnification, both reflection states, every angle *)
Theorem c10_flexpath_transform_centre : forall T f e k c0 c1,
  angle_ok (p_rot T) ->
  fp_centres f e k c0 c1 ->
  fp_centres (flexpath_transform T f) e k (aff_apply (placement_map T) c0) (aff_apply (placement_map T) c1).
Proof. exact flexpath_transform_centre_lemma. Qed.
Print Assumptions c10_flexpath_transform_centre.

(* half widths times |mag| iff scale_width, offsets times r*|mag|, extensions times |mag| *)
Theorem c10_flexpath_transform_params : forall T f,
  fp_elems (flexpath_transform T f) =
  map (fe_map (fun wo => V2 (vx wo * (if fp_scale_width f then Qabs (p_mag T) else 1))
                            (vy wo * (if p_xrefl T then - Qabs (p_mag T) else Qabs (p_mag T))))
              (fun x => vscale x (Qabs (p_mag T)))) (fp_elems f).
Proof. exact flexpath_transform_params_lemma. Qed.
Print Assumptions c10_flexpath_transform_params.

(* the code before the repair did not have the property (finding F7, fixed) *)
Theorem c10_flexpath_transform_unrepaired_refuted :
  exists T f e k c0 c1,
    angle_ok (p_rot T) /\ fp_centres f e k c0 c1 /\
    ~ fp_centres (flexpath_transform_unrepaired T f) e k (aff_apply (placement_map T) c0) (aff_apply (placement_map T) c1).
Proof. exact flexpath_transform_unrepaired_refuted. Qed.
Print Assumptions c10_flexpath_transform_unrepaired_refuted.

(* end extensions scale by the magnitude of the factor (a1ca73a) *)
Theorem c10_flexpath_extensions : forall o f,
  Forall2 veq (map fe_ext (fp_elems (flexpath_apply_op o f)))
              (map (fun el => vscale (fe_ext el) (op_factor o)) (fp_elems f)).
Proof. exact flexpath_op_extensions_lemma. Qed.
Print Assumptions c10_flexpath_extensions.

Theorem c10_robustpath_extensions : forall o r,
  Forall2 veq (rp_exts (rp_apply_op o r)) (map (fun e => vscale e (op_factor o)) (rp_exts r)).
Proof. exact robustpath_op_extensions_lemma. Qed.
Print Assumptions c10_robustpath_extensions.

Theorem c10_robustpath_op_centre : forall o r x g ov c,
  op_ok o -> rp_centre r x g ov c -> rp_centre (rp_apply_op o r) x g ov (aff_apply (op_map o) c).
Proof. exact robustpath_op_centre_lemma. Qed.
Print Assumptions c10_robustpath_op_centre.

Theorem c10_robustpath_transform_centre : forall T r x g ov c,
  angle_ok (p_rot T) -> rp_centre r x g ov c ->
  rp_centre (rp_transform T r) x g ov (aff_apply (placement_map T) c).
Proof. exact robustpath_transform_centre_lemma. Qed.
Print Assumptions c10_robustpath_transform_centre.

(* widths scale only with scale_width, offsets always (by r * |k|) *)
Theorem c10_robustpath_scales : forall o r,
  op_ok o ->
  rp_offset_scale (rp_apply_op o r) == rp_offset_scale r * (rsign (op_reverses o) * op_factor o) /\
  rp_width_scale (rp_apply_op o r) == rp_width_scale r * (if rp_scale_width r then op_factor o else 1) /\
  rp_scale_width (rp_apply_op o r) = rp_scale_width r.
Proof. exact robustpath_op_scales_lemma. Qed.
Print Assumptions c10_robustpath_scales.

(* --- repetitions *)
Theorem c10_repetition_transform_linear : forall mag x_refl rot r,
  poly_eq (rep_offsets (rep_transform mag x_refl rot r)) (map (rep_linear mag x_refl rot) (rep_offsets r)).
Proof. exact repetition_transform_linear_lemma. Qed.
Print Assumptions c10_repetition_transform_linear.

(* element transforms leave the attached repetition alone: REFUTED as a geometry statement (finding F8) *)
Theorem c10_element_transform_repetition_refuted :
  exists T e, angle_ok (p_rot T) /\
    ~ polys_eq (rpolygon_denote (rpolygon_transform T e)) (map (polygon_transform T) (rpolygon_denote e)).
Proof. exact element_transform_repetition_refuted. Qed.
Print Assumptions c10_element_transform_repetition_refuted.

Theorem c10_element_transform_repetition_required : forall T e,
  polys_eq (rpolygon_denote (rpolygon_transform_required T e)) (map (polygon_transform T) (rpolygon_denote e)).
Proof. exact rpolygon_transform_required_denote_lemma. Qed.
Print Assumptions c10_element_transform_repetition_required.
