(* GeomOracle.v -- the per-sample verdict functions of the C05 / C12 / C13 oracles, written in
   Gallina over the verified primitives of Winding.v so that the OCaml drivers only parse,
   iterate and print.  Verdict 0 = ok; other codes are explained next to each function.
   All coordinates are exact integers of a common grid; `g` is the guard distance in those units. *)
From Coq Require Import List ZArith Bool Lia.
Import ListNotations.
Require Import Winding.
Open Scope Z_scope.

(* a sample is used only if it is not within distance g of any edge of any polygon involved *)
Definition sample_ok (polys : list polygon) (g : Z) (p : point) : bool := negb (group_near p polys g).

Definition first_bad {X} (f : X -> Z) (l : list X) : option (X * Z) :=
  let fix go (l : list X) : option (X * Z) :=
    match l with
    | [] => None
    | x :: t => let v := f x in if v =? 0 then go t else Some (x, v)
    end in go l.

Definition count_ok {X} (f : X -> bool) (l : list X) : Z :=
  fold_left (fun acc x => if f x then acc + 1 else acc) l 0.

(* ------------------------------------------------------------------ C05 *)
Inductive bool_op := OpOr | OpAnd | OpNot | OpXor.

Definition bop (o : bool_op) (a b : bool) : bool :=
  match o with
  | OpOr => a || b
  | OpAnd => a && b
  | OpNot => a && negb b
  | OpXor => xorb a b
  end.

(* 1 : membership of the result differs from the Boolean combination of the operands
   2 : the sum of winding numbers of the result polygons is not 0 or 1 (overlapping outputs) *)
Definition bool_verdict (o : bool_op) (A B R : list polygon) (p : point) : Z :=
  if negb (Bool.eqb (covers R p) (bop o (covers A p) (covers B p))) then 1
  else let s := wn_sum R p in if (s =? 0) || (s =? 1) then 0 else 2.

Definition area2 (R : list polygon) : Z := zsum (map shoelace2 R).
Definition perim_sum (R : list polygon) : Z := zsum (map perim1 R).
Definition area_close (lhs rhs allowance : Z) : bool := Z.abs (lhs - rhs) <=? allowance.

(* ------------------------------------------------------------------ C12 *)
(* pieces must cover the original exactly once:
   1 : a point of the original is in no piece      2 : it is in more than one piece
   3 : a point outside the original is in a piece *)
Definition partition_verdict (orig : polygon) (pieces : list polygon) (p : point) : Z :=
  let c := cover_count pieces p in
  if inside orig p then (if c =? 1 then 0 else if c =? 0 then 1 else 2)
  else (if c =? 0 then 0 else 3).

(* slice: interval (lo,hi) on the chosen axis; inside the open interval the pieces of that
   interval are the original, outside they are empty.  Codes as partition_verdict, 4 : a piece of
   this interval covers a point outside the interval *)
Definition axis_coord (x_axis : bool) (p : point) : Z := if x_axis then fst p else snd p.

Definition slice_verdict (x_axis : bool) (lo hi : Z) (orig : polygon) (pieces : list polygon) (p : point) : Z :=
  let a := axis_coord x_axis p in
  if (lo <? a) && (a <? hi) then partition_verdict orig pieces p
  else if cover_count pieces p =? 0 then 0 else 4.

(* every vertex of the pieces of an interval lies within [lo,hi] on the axis *)
Definition within_strip (x_axis : bool) (lo hi : Z) (pieces : list polygon) : bool :=
  forallb (fun pc => forallb (fun v => let a := axis_coord x_axis v in (lo <=? a) && (a <=? hi)) pc) pieces.

Definition max_vertices (pieces : list polygon) : Z :=
  fold_left (fun acc pc => Z.max acc (Z.of_nat (length pc))) pieces 0.

(* ------------------------------------------------------------------ C13 *)
(* d > 0.  rin <= d - guard : every point of the group or closer than rin to it must be covered;
   rout >= reach + guard : no point outside the group and farther than rout may be covered.
   1 : required point not covered   2 : forbidden point covered   3 : overlapping outputs *)
Definition grow_verdict (G R : list polygon) (rin rout : Z) (p : point) : Z :=
  let inG := covers G p in
  let inR := covers R p in
  if (inG || group_near p G rin) && negb inR then 1
  else if negb inG && negb (group_near p G rout) && inR then 2
  else let s := wn_sum R p in if (s =? 0) || (s =? 1) then 0 else 3.

(* d < 0 without the union option: each polygon is eroded on its own (documented effect of
   interior edges).  A point deeper than rout inside some polygon must be kept; a point that in
   every polygon is outside or shallower than rin must be removed. *)
Definition shrink_each_verdict (G R : list polygon) (rin rout : Z) (p : point) : Z :=
  let inR := covers R p in
  if existsb (fun g => inside g p && negb (poly_near p g rout)) G && negb inR then 1
  else if forallb (fun g => negb (inside g p) || poly_near p g rin) G && inR then 2
  else let s := wn_sum R p in if (s =? 0) || (s =? 1) then 0 else 3.

(* d < 0 with the union option: depth is measured in the covered region.  `outside` are probe
   points known not to be covered by the group: a point closer than rin to one of them is
   shallower than rin (the segment between them crosses the boundary of the region).  A covered
   point farther than rout from every operand edge is deeper than rout. *)
Definition near_any (p : point) (qs : list point) (r : Z) : bool :=
  existsb (fun q => seg_near p q q r) qs.

(* `B` lists polygons whose edges contain the boundary of the covered region (the operands themselves, or,
   when an operand carries zero-width slits that are not boundary of the region, the contours it was made of) *)
Definition shrink_union_verdict (G B R : list polygon) (outside : list point) (rin rout : Z) (p : point) : Z :=
  let inG := covers G p in
  let inR := covers R p in
  if inG && negb (group_near p B rout) && negb inR then 1
  else if (negb inG || near_any p outside rin) && inR then 2
  else let s := wn_sum R p in if (s =? 0) || (s =? 1) then 0 else 3.

(* two regions agree at a sample *)
Definition same_region_verdict (R1 R2 : list polygon) (p : point) : Z :=
  if Bool.eqb (covers R1 p) (covers R2 p) then 0 else 1.
