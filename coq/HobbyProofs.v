(* Proofs about the models of gauss_jordan_elimination and hobby_interpolation (Hobby.v).
   Part 1  list lemmas (set_nth, map_idx)
   Part 2  gauss_jordan over ANY carrier: the pivot vector is a permutation of 0..rows-1 after every step, every index in range
   Part 3  gauss_jordan over a field (exact arithmetic): invariant "solution set preserved, processed columns are unit vectors",
           gauss_jordan_solves / _unique / _singular
   Part 4  (HobbyProofs2.v) the assembled systems of hobby_interpolation *)
Require Import Base Hobby.
From Coq Require Import List Arith Lia Permutation Field Ring.
Import ListNotations.

(* ------------------------------------------------------------------ Part 1 *)
Lemma set_nth_length : forall (A : Type) n (v : A) l, length (set_nth n v l) = length l.
Proof. intros A n v l. revert n. induction l as [|h t IH]; intros [|n]; simpl; auto. Qed.

Lemma nth_set_nth_eq : forall (A : Type) n (v d : A) l, n < length l -> nth n (set_nth n v l) d = v.
Proof. intros A n v d l. revert n. induction l as [|h t IH]; intros [|n] H; simpl in *; try lia; auto. apply IH. lia. Qed.

Lemma nth_set_nth_neq : forall (A : Type) n k (v d : A) l, k <> n -> nth k (set_nth n v l) d = nth k l d.
Proof. intros A n k v d l. revert n k. induction l as [|h t IH]; intros [|n] [|k] H; simpl; auto; try lia. Qed.

Lemma set_nth_same : forall (A : Type) n (d : A) l, set_nth n (nth n l d) l = l.
Proof. intros A n d l. revert n. induction l as [|h t IH]; intros [|n]; simpl; auto. now rewrite IH. Qed.

Lemma set_nth_app_l : forall (A : Type) (l1 l2 : list A) a v, set_nth (length l1) v (l1 ++ a :: l2) = l1 ++ v :: l2.
Proof. intros A l1 l2 a v. induction l1 as [|h t IH]; simpl; auto. now rewrite IH. Qed.

Lemma set_nth_app_r : forall (A : Type) (l1 l2 : list A) k v, set_nth (length l1 + k) v (l1 ++ l2) = l1 ++ set_nth k v l2.
Proof. intros A l1 l2 k v. induction l1 as [|h t IH]; simpl; auto. now rewrite IH. Qed.

Lemma map_idx_from_length : forall (A B : Type) (f : nat -> A -> B) k l, length (map_idx_from f k l) = length l.
Proof. intros A B f k l. revert k. induction l as [|h t IH]; intros k; simpl; auto. Qed.

Lemma nth_map_idx_from : forall (A B : Type) (f : nat -> A -> B) k n l d d',
  n < length l -> nth n (map_idx_from f k l) d' = f (k + n) (nth n l d).
Proof.
  intros A B f k n l d d'. revert k n. induction l as [|h t IH]; intros k [|n] H; simpl in *; try lia.
  - now rewrite Nat.add_0_r.
  - rewrite IH by lia. f_equal. lia.
Qed.

Lemma map_idx_length : forall (A B : Type) (f : nat -> A -> B) l, length (map_idx f l) = length l.
Proof. intros. apply map_idx_from_length. Qed.

Lemma nth_map_idx : forall (A B : Type) (f : nat -> A -> B) n l d d',
  n < length l -> nth n (map_idx f l) d' = f n (nth n l d).
Proof. intros. unfold map_idx. now rewrite (nth_map_idx_from _ _ f 0 n l d d'). Qed.

(* swapping two positions is a permutation *)
Lemma swap_perm : forall (A : Type) (l : list A) i p d, i <= p -> p < length l ->
  Permutation (set_nth i (nth p l d) (set_nth p (nth i l d) l)) l.
Proof.
  intros A l i p d Hip Hp.
  destruct (Nat.eq_dec i p) as [->|Hne].
  - rewrite !set_nth_same. apply Permutation_refl.
  - assert (Hi : i < length l) by lia.
    destruct (nth_split l d Hi) as (l1 & l2 & El & Hl1).
    set (a := nth i l d) in *.
    assert (Hp2 : p - S i < length l2).
    { rewrite El, app_length in Hp. simpl in Hp. lia. }
    destruct (nth_split l2 d Hp2) as (l3 & l4 & El2 & Hl3).
    assert (Eb : nth p l d = nth (p - S i) l2 d).
    { rewrite El at 1. rewrite app_nth2 by lia. rewrite Hl1.
      replace (p - i) with (S (p - S i)) by lia. reflexivity. }
    set (b := nth (p - S i) l2 d) in *. rewrite Eb.
    rewrite El. rewrite El2.
    replace p with (length l1 + S (length l3)) by lia.
    rewrite set_nth_app_r. simpl. rewrite set_nth_app_l.
    rewrite <- Hl1 at 1. rewrite set_nth_app_l.
    apply Permutation_app_head.
    transitivity (b :: a :: l3 ++ l4).
    { constructor. apply Permutation_sym, Permutation_middle. }
    transitivity (a :: b :: l3 ++ l4).
    { apply perm_swap. }
    constructor. apply Permutation_middle.
Qed.

Lemma perm_seq_bound : forall l n k d, Permutation l (seq 0 n) -> k < n -> nth k l d < n.
Proof.
  intros l n k d HP Hk.
  assert (Hlen : length l = n) by (rewrite (Permutation_length HP); apply seq_length).
  assert (Hin : In (nth k l d) (seq 0 n)) by (eapply Permutation_in; [exact HP | apply nth_In; lia]).
  apply in_seq in Hin. lia.
Qed.

Lemma perm_seq_inj : forall l n a b d, Permutation l (seq 0 n) -> a < n -> b < n -> nth a l d = nth b l d -> a = b.
Proof.
  intros l n a b d HP Ha Hb E.
  assert (Hlen : length l = n) by (rewrite (Permutation_length HP); apply seq_length).
  assert (ND : NoDup l) by (eapply Permutation_NoDup; [apply Permutation_sym; exact HP | apply seq_NoDup]).
  apply (proj1 (NoDup_nth l d) ND a b); lia.
Qed.

Lemma perm_seq_surj : forall l n r d, Permutation l (seq 0 n) -> r < n -> exists k, k < n /\ nth k l d = r.
Proof.
  intros l n r d HP Hr.
  assert (Hlen : length l = n) by (rewrite (Permutation_length HP); apply seq_length).
  assert (Hin : In r l) by (eapply Permutation_in; [apply Permutation_sym; exact HP | apply in_seq; lia]).
  destruct (In_nth l r d Hin) as (k & Hk & E). exists k. split; [lia | exact E].
Qed.

(* ------------------------------------------------------------------ Part 2: any carrier *)
Section GJAny.
  Variable T : Type.
  Variables f0 f1 : T.
  Variables fsub fmul fdiv : T -> T -> T.
  Variable fabs : T -> T.
  Variable fgt : T -> T -> bool.
  Variable feq0 : T -> bool.

  Notation find_pivot := (find_pivot T f0 fabs fgt).
  Notation gj_step := (gj_step T f0 f1 fsub fmul fdiv fabs fgt feq0).
  Notation gj_run := (gj_run T f0 f1 fsub fmul fdiv fabs fgt feq0).
  Notation mget := (mget T f0).

  (* the pivot search returns a position among i .. rows-1 and the absolute value found there *)
  Lemma find_pivot_fold_range : forall m piv i l acc,
    (snd acc = i \/ In (snd acc) l \/ True) ->
    forall acc', acc' = fold_left (fun (acc : T * nat) j =>
                 let candidate := fabs (mget m (nth j piv 0) i) in
                 if fgt candidate (fst acc) then (candidate, j) else acc) l acc ->
    (snd acc' = snd acc \/ In (snd acc') l) /\
    (fst acc = fabs (mget m (nth (snd acc) piv 0) i) -> fst acc' = fabs (mget m (nth (snd acc') piv 0) i)).
  Proof.
    intros m piv i l. induction l as [|j t IH]; intros acc _ acc' E; simpl in E.
    - subst. auto.
    - destruct (fgt (fabs (mget m (nth j piv 0) i)) (fst acc)) eqn:G.
      + destruct (IH (fabs (mget m (nth j piv 0) i), j) (or_intror (or_intror I)) acc' E) as [H1 H2]. simpl in *.
        split.
        * right. destruct H1 as [H1|H1]; [left; congruence | right; exact H1].
        * intros _. apply H2. reflexivity.
      + destruct (IH acc (or_intror (or_intror I)) acc' E) as [H1 H2].
        split; [destruct H1 as [H1|H1]; [left; exact H1 | right; right; exact H1] | exact H2].
  Qed.

  Lemma find_pivot_spec : forall m piv rows i pv pr, i < rows ->
    find_pivot m piv rows i = (pv, pr) ->
    i <= pr < rows /\ pv = fabs (mget m (nth pr piv 0) i).
  Proof.
    intros m piv rows i pv pr Hi E. unfold Hobby.find_pivot in E.
    destruct (find_pivot_fold_range m piv i (seq (S i) (rows - S i)) (fabs (mget m (nth i piv 0) i), i)
                (or_introl eq_refl) (pv, pr) (eq_sym E)) as [H1 H2].
    simpl in *. split.
    - destruct H1 as [H1|H1]; [lia | apply in_seq in H1; lia].
    - apply H2. reflexivity.
  Qed.

  Definition st_piv (st : gj_state T) : list nat := snd (fst st).
  Definition st_res (st : gj_state T) : nat := snd st.
  Definition st_m (st : gj_state T) : list (list T) := fst (fst st).

  Lemma gj_step_perm : forall rows st i, i < rows ->
    Permutation (st_piv st) (seq 0 rows) -> Permutation (st_piv (gj_step rows st i)) (seq 0 rows).
  Proof.
    intros rows [[m piv] res] i Hi HP. unfold Hobby.gj_step, st_piv in *. simpl in HP.
    destruct (find_pivot m piv rows i) as [pv pr] eqn:EP.
    destruct (find_pivot_spec _ _ _ _ _ _ Hi EP) as [Hpr _].
    destruct (feq0 pv); simpl; [exact HP|].
    assert (Hlen : length piv = rows) by (rewrite (Permutation_length HP); apply seq_length).
    eapply Permutation_trans; [|exact HP].
    apply swap_perm; lia.
  Qed.

  Lemma gj_prefix_perm : forall rows m k, k <= rows ->
    Permutation (st_piv (fold_left (gj_step rows) (seq 0 k) (m, seq 0 rows, 0))) (seq 0 rows).
  Proof.
    intros rows m k. induction k as [|k IH]; intros Hk.
    - simpl. apply Permutation_refl.
    - rewrite seq_S, fold_left_app. simpl. apply gj_step_perm; [lia | apply IH; lia].
  Qed.

  (* the pivot vector returned is a permutation of 0 .. rows-1, whatever the arithmetic does (NaN, overflow included) *)
  Lemma gj_pivots_permutation_lemma : forall rows m, Permutation (st_piv (gj_run rows m)) (seq 0 rows).
  Proof. intros rows m. unfold Hobby.gj_run. apply gj_prefix_perm. lia. Qed.

  (* every row index the function uses (pivots[j] for j < rows, and r < rows) is below rows; every column index is
     i < rows <= cols or j < cols: with cols >= rows no access leaves the rows x cols buffer *)
  Lemma gj_indices_in_bounds_lemma : forall rows m k j, k <= rows -> j < rows ->
    nth j (st_piv (fold_left (gj_step rows) (seq 0 k) (m, seq 0 rows, 0))) 0 < rows.
  Proof. intros rows m k j Hk Hj. apply perm_seq_bound; [apply gj_prefix_perm; exact Hk | exact Hj]. Qed.

  Lemma gj_step_res : forall rows st i, st_res st <= st_res (gj_step rows st i) <= S (st_res st).
  Proof.
    intros rows [[m piv] res] i. unfold Hobby.gj_step, st_res. simpl.
    destruct (find_pivot m piv rows i) as [pv pr]. destruct (feq0 pv); simpl; lia.
  Qed.

  Lemma gj_result_bound_lemma : forall rows m, st_res (gj_run rows m) <= rows.
  Proof.
    intros rows m. unfold Hobby.gj_run.
    assert (H : forall k, st_res (fold_left (gj_step rows) (seq 0 k) (m, seq 0 rows, 0)) <= k).
    { induction k as [|k IH]; [simpl; unfold st_res; simpl; lia|].
      rewrite seq_S, fold_left_app. simpl.
      pose proof (gj_step_res rows (fold_left (gj_step rows) (seq 0 k) (m, seq 0 rows, 0)) k). lia. }
    apply H.
  Qed.
End GJAny.

(* ------------------------------------------------------------------ Part 3: a field *)
Section GJField.
  Variable T : Type.
  Variables f0 f1 : T.
  Variables fadd fmul fsub : T -> T -> T.
  Variable fopp : T -> T.
  Variable fdiv : T -> T -> T.
  Variable finv : T -> T.
  Hypothesis Tfield : field_theory f0 f1 fadd fmul fsub fopp fdiv finv (@eq T).
  Add Field Tf : Tfield.
  Variable fabs : T -> T.
  Variable fgt : T -> T -> bool.
  Variable feq0 : T -> bool.
  Hypothesis feq0_abs : forall x, feq0 (fabs x) = true <-> x = f0.

  Local Infix "[+]" := fadd (at level 50, left associativity).
  Local Infix "[-]" := fsub (at level 50, left associativity).
  Local Infix "[*]" := fmul (at level 40, left associativity).

  Notation find_pivot := (find_pivot T f0 fabs fgt).
  Notation gj_step := (gj_step T f0 f1 fsub fmul fdiv fabs fgt feq0).
  Notation gj_run := (gj_run T f0 f1 fsub fmul fdiv fabs fgt feq0).
  Notation mget := (mget T f0).
  Notation elim_row := (elim_row T f0 fsub fmul).
  Notation scale_from := (scale_from T fmul).

  Lemma f1_neq_f0 : f1 <> f0.
  Proof. exact (F_1_neq_0 Tfield). Qed.

  (* row . x *)
  Fixpoint dot (r x : list T) : T :=
    match r, x with
    | a :: r', b :: x' => a [*] b [+] dot r' x'
    | _, _ => f0
    end.

  (* x solves the homogeneous system of the rows of m *)
  Definition sol (m : list (list T)) (x : list T) : Prop := Forall (fun r => dot r x = f0) m.

  Lemma sol_nth : forall m x, sol m x <-> (forall r, r < length m -> dot (nth r m []) x = f0).
  Proof.
    intros m x. unfold sol. rewrite Forall_forall. split.
    - intros H r Hr. apply H. apply nth_In. exact Hr.
    - intros H r Hin. destruct (In_nth m r [] Hin) as (k & Hk & E). rewrite <- E. apply H. exact Hk.
  Qed.

  Lemma dot_nil_r : forall r, dot r [] = f0.
  Proof. destruct r; reflexivity. Qed.

  Lemma dot_scale : forall c r x, dot (map (fun a => a [*] c) r) x = c [*] dot r x.
  Proof.
    intros c r. induction r as [|a r IH]; intros [|b x]; simpl; try ring.
    rewrite IH. ring.
  Qed.

  Lemma dot_elim : forall f o p x, length o = length p ->
    dot (map (fun oe : T * T => fst oe [-] f [*] snd oe) (combine o p)) x = dot o x [-] f [*] dot p x.
  Proof.
    intros f o. induction o as [|a o IH]; intros [|b p] [|c x] H; simpl in *; try discriminate; try ring.
    rewrite IH by lia. ring.
  Qed.

  Lemma dot_app : forall a b c d, length a = length c -> dot (a ++ b) (c ++ d) = dot a c [+] dot b d.
  Proof.
    intros a. induction a as [|h a IH]; intros b [|k c] d H; simpl in *; try discriminate.
    - ring.
    - rewrite IH by lia. ring.
  Qed.

  Lemma dot_zero_l : forall r x, (forall c, c < length r -> nth c r f0 = f0) -> dot r x = f0.
  Proof.
    intros r. induction r as [|a r IH]; intros [|b x] H; simpl; auto.
    rewrite IH.
    - assert (H0 := H 0). simpl in H0. rewrite H0 by lia. ring.
    - intros c Hc. apply (H (S c)). simpl. lia.
  Qed.

  Lemma dot_zero_r : forall r x, (forall c, c < length x -> nth c x f0 = f0) -> dot r x = f0.
  Proof.
    intros r. induction r as [|a r IH]; intros [|b x] H; simpl; auto.
    rewrite IH.
    - assert (H0 := H 0). simpl in H0. rewrite H0 by lia. ring.
    - intros c Hc. apply (H (S c)). simpl. lia.
  Qed.

  Lemma dot_unit : forall r x k, length r = length x -> k < length r ->
    (forall c, c < length r -> nth c r f0 = if c =? k then f1 else f0) -> dot r x = nth k x f0.
  Proof.
    intros r. induction r as [|a r IH]; intros [|b x] k HL Hk H; simpl in *; try lia.
    assert (H0 := H 0). simpl in H0.
    destruct k as [|k].
    - rewrite (dot_zero_l r x).
      + rewrite H0 by lia. ring.
      + intros c Hc. assert (Hc' := H (S c)). simpl in Hc'. apply Hc'. lia.
    - rewrite (IH x k) by (try lia; intros c Hc; assert (Hc' := H (S c)); simpl in Hc'; apply Hc'; lia).
      rewrite H0 by lia. ring.
  Qed.

  Definition wf (rows cols : nat) (m : list (list T)) : Prop :=
    length m = rows /\ Forall (fun r => length r = cols) m.

  Lemma wf_row : forall rows cols m r, wf rows cols m -> r < rows -> length (nth r m []) = cols.
  Proof.
    intros rows cols m r [HL HF] Hr. rewrite Forall_forall in HF. apply HF. apply nth_In. lia.
  Qed.

  (* columns k < i are unit vectors: 1 in row pivots[k], 0 elsewhere *)
  Definition unit_cols (m : list (list T)) (piv : list nat) (rows i : nat) : Prop :=
    forall k r, k < i -> r < rows -> mget m r k = if r =? nth k piv 0 then f1 else f0.

  Lemma scale_from_all : forall i c r, i <= length r -> (forall k, k < i -> nth k r f0 = f0) ->
    scale_from i c r = map (fun x => x [*] c) r.
  Proof.
    intros i c r. unfold Hobby.scale_from. revert i. induction r as [|a r IH]; intros [|i] Hi H; simpl in *; auto; try lia.
    assert (H0 := H 0). simpl in H0. rewrite H0 by lia. replace (f0 [*] c) with f0 by ring. f_equal.
    apply IH; [lia|]. intros k Hk. apply (H (S k)). lia.
  Qed.

  Lemma nth_elim_row : forall i p o k, length o = length p -> k < length o ->
    nth k (elim_row i p o) f0 = nth k o f0 [-] nth i o f0 [*] nth k p f0.
  Proof.
    intros i p o k HL Hk. unfold Hobby.elim_row.
    set (F := fun oe : T * T => fst oe [-] nth i o f0 [*] snd oe).
    rewrite (nth_indep _ f0 (F (f0, f0))) by (rewrite map_length, combine_length; lia).
    rewrite (map_nth F). rewrite combine_nth by exact HL. reflexivity.
  Qed.

  Lemma elim_row_length : forall i p o, length o = length p -> length (elim_row i p o) = length o.
  Proof. intros. unfold Hobby.elim_row. rewrite map_length, combine_length. lia. Qed.

  Lemma dot_elim_row : forall i p o x, length o = length p ->
    dot (elim_row i p o) x = dot o x [-] nth i o f0 [*] dot p x.
  Proof. intros. unfold Hobby.elim_row. apply dot_elim. assumption. Qed.

  (* one elimination step with a non-zero pivot keeps the invariant *)
  Lemma gj_step_ok : forall rows cols m0 m piv i pv pr,
    rows <= cols -> i < rows -> wf rows cols m -> Permutation piv (seq 0 rows) ->
    (forall x, sol m0 x <-> sol m x) -> unit_cols m piv rows i ->
    find_pivot m piv rows i = (pv, pr) -> feq0 pv = false ->
    exists m2 piv2, gj_step rows (m, piv, 0) i = (m2, piv2, 0) /\
      wf rows cols m2 /\ (forall x, sol m0 x <-> sol m2 x) /\ unit_cols m2 piv2 rows (S i).
  Proof.
    intros rows cols m0 m piv i pv pr Hrc Hi Hwf HP Hsol Hunit EP Hnz.
    destruct (find_pivot_spec T f0 fabs fgt _ _ _ _ _ _ Hi EP) as [Hpr Epv].
    assert (Hlen : length piv = rows) by (rewrite (Permutation_length HP); apply seq_length).
    unfold Hobby.gj_step. rewrite EP, Hnz.
    set (row := nth pr piv 0).
    set (piv2 := set_nth i row (set_nth pr (nth i piv 0) piv)).
    set (prow0 := nth row m []).
    set (elem := nth i prow0 f0).
    set (factor := fdiv f1 elem).
    set (prow := scale_from i factor prow0).
    set (m1 := set_nth row prow m).
    set (m2 := map_idx (fun r other => if r =? row then other else elim_row i prow other) m1).
    exists m2, piv2. split; [reflexivity|].
    assert (Hrow : row < rows) by (apply perm_seq_bound; [exact HP | lia]).
    destruct Hwf as [HmL HmF].
    assert (Hrowlen : forall r, r < rows -> length (nth r m []) = cols).
    { intros r Hr. apply (wf_row rows cols m r); [split; assumption | exact Hr]. }
    assert (Helem : elem <> f0).
    { intros E. assert (feq0 pv = true); [|congruence].
      rewrite Epv. apply feq0_abs. exact E. }
    assert (Hfe : elem [*] factor = f1) by (unfold factor; field; exact Helem).
    assert (Hfnz : factor <> f0).
    { intros E. rewrite E in Hfe. apply f1_neq_f0. rewrite <- Hfe. ring. }
    (* the pivot row has zeros left of column i *)
    assert (Hz : forall k, k < i -> nth k prow0 f0 = f0).
    { intros k Hk. specialize (Hunit k row Hk Hrow). unfold Hobby.mget in Hunit. fold prow0 in Hunit.
      rewrite Hunit. destruct (row =? nth k piv 0) eqn:E; [|reflexivity].
      apply Nat.eqb_eq in E. unfold row in E.
      apply (perm_seq_inj piv rows pr k 0 HP) in E; lia. }
    assert (Hp0len : length prow0 = cols) by (apply Hrowlen; exact Hrow).
    assert (Eprow : prow = map (fun x => x [*] factor) prow0).
    { apply scale_from_all; [lia | exact Hz]. }
    assert (Hplen : length prow = cols) by (rewrite Eprow, map_length; exact Hp0len).
    assert (Hm1L : length m1 = rows) by (unfold m1; rewrite set_nth_length; exact HmL).
    assert (Hm2L : length m2 = rows) by (unfold m2; rewrite map_idx_length; exact Hm1L).
    assert (Hrows2 : forall r, r < rows ->
              nth r m2 [] = if r =? row then prow else elim_row i prow (nth r m [])).
    { intros r Hr. unfold m2. rewrite (nth_map_idx _ _ _ r m1 [] []) by lia.
      destruct (r =? row) eqn:E.
      - apply Nat.eqb_eq in E. subst r. unfold m1. apply nth_set_nth_eq. lia.
      - apply Nat.eqb_neq in E. unfold m1. rewrite nth_set_nth_neq by exact E. reflexivity. }
    assert (Hnthp : forall k, nth k prow f0 = nth k prow0 f0 [*] factor).
    { intros k. rewrite Eprow. destruct (Nat.lt_ge_cases k (length prow0)) as [Hk|Hk].
      - rewrite (nth_indep _ f0 (f0 [*] factor)) by (rewrite map_length; exact Hk).
        rewrite (map_nth (fun x => x [*] factor)). reflexivity.
      - rewrite !nth_overflow by (try rewrite map_length; lia). ring. }
    split; [|split].
    - (* shape *)
      split; [exact Hm2L|]. apply Forall_forall. intros rr Hin.
      destruct (In_nth m2 rr [] Hin) as (r & Hr & E). rewrite <- E. rewrite Hm2L in Hr.
      rewrite (Hrows2 r Hr). destruct (r =? row); [exact Hplen|].
      rewrite elim_row_length; rewrite (Hrowlen r Hr); congruence.
    - (* same solutions *)
      intros x. rewrite (Hsol x). rewrite !sol_nth. rewrite HmL, Hm2L.
      assert (Hdp : dot prow x = factor [*] dot prow0 x) by (rewrite Eprow; apply dot_scale).
      split; intros H r Hr.
      + rewrite (Hrows2 r Hr). destruct (r =? row) eqn:E.
        * rewrite Hdp. unfold prow0. rewrite (H row Hrow). ring.
        * rewrite dot_elim_row by (rewrite (Hrowlen r Hr); congruence).
          rewrite (H r Hr), Hdp. unfold prow0. rewrite (H row Hrow). ring.
      + assert (Hp0 : dot prow0 x = f0).
        { pose proof (H row Hrow) as Hr2. rewrite (Hrows2 row Hrow), Nat.eqb_refl, Hdp in Hr2.
          assert (E2 : dot prow0 x = elem [*] (factor [*] dot prow0 x)) by (transitivity ((elem [*] factor) [*] dot prow0 x); [rewrite Hfe; ring | ring]).
          rewrite E2, Hr2. ring. }
        destruct (Nat.eq_dec r row) as [->|Hne]; [exact Hp0|].
        pose proof (H r Hr) as Hr2. rewrite (Hrows2 r Hr) in Hr2.
        apply Nat.eqb_neq in Hne. rewrite Hne in Hr2.
        rewrite dot_elim_row in Hr2 by (rewrite (Hrowlen r Hr); congruence).
        rewrite Hdp, Hp0 in Hr2.
        replace (dot (nth r m []) x) with (dot (nth r m []) x [-] nth i (nth r m []) f0 [*] (factor [*] f0)) by ring.
        exact Hr2.
    - (* unit columns 0 .. i *)
      intros k r Hk Hr. unfold Hobby.mget. rewrite (Hrows2 r Hr).
      assert (Epiv2 : forall k', k' < i -> nth k' piv2 0 = nth k' piv 0).
      { intros k' Hk'. unfold piv2. rewrite nth_set_nth_neq by lia.
        destruct (Nat.eq_dec k' pr) as [->|Hne]; [lia|]. rewrite nth_set_nth_neq by exact Hne. reflexivity. }
      assert (Epiv2i : nth i piv2 0 = row).
      { unfold piv2. apply nth_set_nth_eq. rewrite set_nth_length. lia. }
      destruct (Nat.eq_dec k i) as [->|Hki].
      + rewrite Epiv2i. destruct (r =? row) eqn:E.
        * rewrite Hnthp. exact Hfe.
        * rewrite nth_elim_row by (rewrite (Hrowlen r Hr); try congruence; lia).
          rewrite Hnthp. fold elem. rewrite Hfe. ring.
      + assert (Hk' : k < i) by lia. rewrite (Epiv2 k Hk').
        destruct (r =? row) eqn:E.
        * apply Nat.eqb_eq in E. subst r. rewrite Hnthp, (Hz k Hk').
          pose proof (Hunit k row Hk' Hrow) as Hu. unfold Hobby.mget in Hu. fold prow0 in Hu. rewrite (Hz k Hk') in Hu.
          rewrite <- Hu. ring.
        * rewrite nth_elim_row by (rewrite (Hrowlen r Hr); try congruence; lia).
          rewrite Hnthp, (Hz k Hk').
          pose proof (Hunit k r Hk' Hr) as Hu. unfold Hobby.mget in Hu. rewrite <- Hu. ring.
  Qed.


  (* while no column has been skipped: shape, permutation, same solution set, unit columns *)
  Lemma gj_prefix_inv : forall rows cols m0 k, rows <= cols -> wf rows cols m0 -> k <= rows ->
    let st := fold_left (gj_step rows) (seq 0 k) (m0, seq 0 rows, 0) in
    st_res T st = 0 ->
    wf rows cols (st_m T st) /\ Permutation (st_piv T st) (seq 0 rows) /\
    (forall x, sol m0 x <-> sol (st_m T st) x) /\ unit_cols (st_m T st) (st_piv T st) rows k.
  Proof.
    intros rows cols m0 k Hrc Hwf. induction k as [|k IH]; intros Hk st Hres.
    - subst st. unfold st_m, st_piv. simpl. split; [exact Hwf|]. split; [apply Permutation_refl|].
      split; [intros x; reflexivity|]. intros k r Hk'. lia.
    - subst st. rewrite seq_S, fold_left_app in *. simpl in *.
      set (st := fold_left (gj_step rows) (seq 0 k) (m0, seq 0 rows, 0)) in *.
      pose proof (gj_step_res T f0 f1 fsub fmul fdiv fabs fgt feq0 rows st k) as Hmono.
      assert (Hr0 : st_res T st = 0) by (unfold st_res in *; lia).
      destruct (IH (ltac:(lia)) Hr0) as (Hwf' & HP & Hsol & Hunit).
      destruct st as [[m piv] res]. unfold st_res, st_m, st_piv in *. cbn [fst snd] in *. subst res.
      destruct (find_pivot m piv rows k) as [pv pr] eqn:EP.
      destruct (feq0 pv) eqn:Hnz.
      + exfalso. unfold Hobby.gj_step in Hres. rewrite EP, Hnz in Hres. cbn [fst snd] in Hres. discriminate.
      + destruct (gj_step_ok rows cols m0 m piv k pv pr Hrc (ltac:(lia)) Hwf' HP Hsol Hunit EP Hnz)
          as (m2 & piv2 & E & H1 & H2 & H3).
        rewrite E. cbn [fst snd]. split; [exact H1|]. split; [|split; [exact H2 | exact H3]].
        pose proof (gj_step_perm T f0 f1 fsub fmul fdiv fabs fgt feq0 rows (m, piv, 0) k (ltac:(lia))) as Hp.
        unfold st_piv in Hp. cbn [fst snd] in Hp. specialize (Hp HP). rewrite E in Hp. cbn [fst snd] in Hp. exact Hp.
  Qed.

  Lemma firstn_last_split : forall (l : list T) n, length l = S n -> l = firstn n l ++ [nth n l f0].
  Proof.
    intros l n. revert l. induction n as [|n IH]; intros [|a l] H; simpl in *; try discriminate.
    - destruct l; [reflexivity | discriminate].
    - f_equal. apply IH. lia.
  Qed.

  (* the augmented row against (x, -1) *)
  Lemma dot_aug : forall r x n, length r = S n -> length x = n ->
    dot r (x ++ [fopp f1]) = dot (firstn n r) x [-] nth n r f0.
  Proof.
    intros r x n Hr Hx. rewrite (firstn_last_split r n Hr) at 1.
    rewrite dot_app by (rewrite firstn_length; lia). simpl. ring.
  Qed.

  Lemma sub_zero_eq : forall a b, a [-] b = f0 <-> a = b.
  Proof.
    intros a b. split; intros H.
    - replace a with ((a [-] b) [+] b) by ring. rewrite H. ring.
    - subst. ring.
  Qed.

  Lemma nth_firstn_lt : forall (l : list T) n c, c < n -> nth c (firstn n l) f0 = nth c l f0.
  Proof.
    intros l n. revert l. induction n as [|n IH]; intros [|a l] [|c] H; simpl; auto; try lia. apply IH. lia.
  Qed.

  (* after a run without skipped column: row pivots[k] reads  x_k = m[pivots[k]][n]  *)
  Lemma final_row_dot : forall n m piv x k, wf n (S n) m -> Permutation piv (seq 0 n) -> unit_cols m piv n n ->
    length x = n -> k < n ->
    dot (firstn n (nth (nth k piv 0) m [])) x = nth k x f0.
  Proof.
    intros n m piv x k Hwf HP Hunit Hx Hk.
    assert (Hr : nth k piv 0 < n) by (apply perm_seq_bound; assumption).
    pose proof (wf_row n (S n) m _ Hwf Hr) as HL.
    apply dot_unit.
    - rewrite firstn_length. lia.
    - rewrite firstn_length. lia.
    - intros c Hc. rewrite firstn_length in Hc. assert (Hc' : c < n) by lia.
      rewrite nth_firstn_lt by exact Hc'.
      pose proof (Hunit c (nth k piv 0) Hc' Hr) as Hu. unfold Hobby.mget in Hu. rewrite Hu.
      destruct (nth k piv 0 =? nth c piv 0) eqn:E.
      + apply Nat.eqb_eq in E. apply (perm_seq_inj piv n k c 0 HP Hk Hc') in E. subst. now rewrite Nat.eqb_refl.
      + apply Nat.eqb_neq in E. destruct (c =? k) eqn:E2; [|reflexivity].
        apply Nat.eqb_eq in E2. subst. congruence.
  Qed.

  Lemma nth_gj_solution : forall n st k, k < n ->
    nth k (gj_solution T f0 n st) f0 = mget (st_m T st) (nth k (st_piv T st) 0) n.
  Proof.
    intros n [[m piv] res] k Hk. unfold gj_solution, st_m, st_piv. simpl.
    rewrite (nth_indep _ f0 (mget m (nth 0 piv 0) n)) by (rewrite map_length, seq_length; exact Hk).
    rewrite (map_nth (fun r => mget m (nth r piv 0) n) (seq 0 n) 0 k).
    rewrite seq_nth by exact Hk. reflexivity.
  Qed.

  Lemma gj_solution_length : forall n st, length (gj_solution T f0 n st) = n.
  Proof. intros n [[m piv] res]. unfold gj_solution. rewrite map_length, seq_length. reflexivity. Qed.

  (* A x = b for the rows (a_r | b_r) of an n x (n+1) matrix *)
  Definition solves (n : nat) (m0 : list (list T)) (x : list T) : Prop :=
    Forall (fun r => dot (firstn n r) x = nth n r f0) m0.

  Lemma solves_sol : forall n m x, wf n (S n) m -> length x = n -> (solves n m x <-> sol m (x ++ [fopp f1])).
  Proof.
    intros n m x [HL HF] Hx. unfold solves, sol. rewrite !Forall_forall. rewrite Forall_forall in HF.
    split; intros H r Hin; specialize (H r Hin); specialize (HF r Hin).
    - rewrite (dot_aug r x n HF Hx). apply (proj2 (sub_zero_eq _ _)). exact H.
    - rewrite (dot_aug r x n HF Hx) in H. apply (proj1 (sub_zero_eq _ _)) in H. exact H.
  Qed.

  (* MAIN: if no column was skipped (return value 0) the vector read back through the pivots solves the system exactly *)
  Theorem gauss_jordan_solves_lemma : forall n m0 st,
    wf n (S n) m0 -> gj_run n m0 = st -> st_res T st = 0 ->
    solves n m0 (gj_solution T f0 n st).
  Proof.
    intros n m0 st Hwf Erun Hres. unfold Hobby.gj_run in Erun.
    pose proof (gj_prefix_inv n (S n) m0 n (ltac:(lia)) Hwf (le_n n)) as Hinv. simpl in Hinv.
    rewrite Erun in Hinv. destruct (Hinv Hres) as (Hwf' & HP & Hsol & Hunit).
    apply (solves_sol n m0 _ Hwf (gj_solution_length n st)).
    apply Hsol. apply sol_nth. intros r Hr. destruct Hwf' as [HmL HmF]. rewrite HmL in Hr.
    destruct (perm_seq_surj (st_piv T st) n r 0 HP Hr) as (k & Hk & Ek).
    pose proof (wf_row n (S n) (st_m T st) r (conj HmL HmF) Hr) as HrL.
    rewrite (dot_aug _ _ n HrL (gj_solution_length n st)). apply (proj2 (sub_zero_eq _ _)).
    rewrite <- Ek.
    rewrite (final_row_dot n (st_m T st) (st_piv T st) _ k (conj HmL HmF) HP Hunit (gj_solution_length n st) Hk).
    rewrite nth_gj_solution by exact Hk. reflexivity.
  Qed.

  (* ... and it is the only solution: return value 0 implies a regular matrix *)
  Theorem gauss_jordan_unique_lemma : forall n m0 st y,
    wf n (S n) m0 -> gj_run n m0 = st -> st_res T st = 0 ->
    length y = n -> solves n m0 y -> y = gj_solution T f0 n st.
  Proof.
    intros n m0 st y Hwf Erun Hres Hy Hs. unfold Hobby.gj_run in Erun.
    pose proof (gj_prefix_inv n (S n) m0 n (ltac:(lia)) Hwf (le_n n)) as Hinv. simpl in Hinv.
    rewrite Erun in Hinv. destruct (Hinv Hres) as (Hwf' & HP & Hsol & Hunit).
    apply (solves_sol n m0 y Hwf Hy) in Hs. apply Hsol in Hs.
    apply (nth_ext _ _ f0 f0); [rewrite gj_solution_length; exact Hy|].
    intros k Hk. rewrite Hy in Hk. rewrite nth_gj_solution by exact Hk.
    assert (Hr : nth k (st_piv T st) 0 < n) by (apply perm_seq_bound; assumption).
    rewrite sol_nth in Hs. destruct Hwf' as [HmL HmF]. specialize (Hs _ (ltac:(rewrite HmL; exact Hr))).
    pose proof (wf_row n (S n) (st_m T st) _ (conj HmL HmF) Hr) as HrL.
    rewrite (dot_aug _ _ n HrL Hy) in Hs. apply (proj1 (sub_zero_eq _ _)) in Hs.
    rewrite (final_row_dot n (st_m T st) (st_piv T st) y k (conj HmL HmF) HP Hunit Hy Hk) in Hs. exact Hs.
  Qed.

  (* ---- the singular case: needs that `>` on absolute values is the strict part of a total preorder *)
  Hypothesis fgt_refl : forall x, fgt x x = false.
  Hypothesis fgt_trans : forall a b c, fgt a b = false -> fgt b c = false -> fgt a c = false.
  Hypothesis fgt_asym : forall a b, fgt a b = true -> fgt b a = false.
  Hypothesis fabs_le0 : forall x y, feq0 (fabs y) = true -> fgt (fabs x) (fabs y) = false -> x = f0.

  Lemma find_pivot_fold_max : forall m piv i l acc,
    let acc' := fold_left (fun (acc : T * nat) j =>
                 let candidate := fabs (mget m (nth j piv 0) i) in
                 if fgt candidate (fst acc) then (candidate, j) else acc) l acc in
    fgt (fst acc) (fst acc') = false /\
    (forall j, In j l -> fgt (fabs (mget m (nth j piv 0) i)) (fst acc') = false).
  Proof.
    intros m piv i l. induction l as [|j t IH]; intros acc; simpl.
    - split; [apply fgt_refl | intros j []].
    - destruct (fgt (fabs (mget m (nth j piv 0) i)) (fst acc)) eqn:G.
      + destruct (IH (fabs (mget m (nth j piv 0) i), j)) as [H1 H2]. simpl in H1.
        split.
        * eapply fgt_trans; [apply fgt_asym; exact G | exact H1].
        * intros j' [<-|Hin]; [exact H1 | apply H2; exact Hin].
      + destruct (IH acc) as [H1 H2]. split; [exact H1|].
        intros j' [<-|Hin]; [eapply fgt_trans; [exact G | exact H1] | apply H2; exact Hin].
  Qed.

  Lemma find_pivot_max : forall m piv rows i pv pr j, find_pivot m piv rows i = (pv, pr) -> i <= j < rows ->
    fgt (fabs (mget m (nth j piv 0) i)) pv = false.
  Proof.
    intros m piv rows i pv pr j E Hj. unfold Hobby.find_pivot in E. cbv zeta in E.
    pose proof (find_pivot_fold_max m piv i (seq (S i) (rows - S i)) (fabs (mget m (nth i piv 0) i), i)) as H.
    cbv zeta in H. rewrite E in H. destruct H as [H1 H2]. simpl in H1, H2.
    destruct (Nat.eq_dec j i) as [->|Hne]; [exact H1|]. apply H2. apply in_seq. lia.
  Qed.

  Lemma split_at : forall (l : list T) i, i < length l -> l = firstn i l ++ nth i l f0 :: skipn (S i) l.
  Proof.
    intros l i. revert l. induction i as [|i IH]; intros [|a l] H; simpl in *; try lia; auto.
    f_equal. apply IH. lia.
  Qed.

  Lemma nth_repeat_f0 : forall n c, nth c (repeat f0 n) f0 = f0.
  Proof. intros n. induction n as [|n IH]; intros [|c]; simpl; auto. Qed.

  (* a column without pivot below the processed rows gives a non-trivial solution of the homogeneous system *)
  Lemma singular_kernel : forall rows cols m piv i, rows <= cols -> i < rows -> wf rows cols m ->
    Permutation piv (seq 0 rows) -> unit_cols m piv rows i ->
    (forall j, i <= j < rows -> mget m (nth j piv 0) i = f0) ->
    exists y, length y = cols /\ nth i y f0 = f1 /\ (forall c, i < c -> nth c y f0 = f0) /\ sol m y.
  Proof.
    intros rows cols m piv i Hrc Hi Hwf HP Hunit Hzero.
    set (ys := map (fun c => fopp (mget m (nth c piv 0) i)) (seq 0 i)).
    assert (Hys : length ys = i) by (unfold ys; rewrite map_length, seq_length; reflexivity).
    exists (ys ++ f1 :: repeat f0 (cols - S i)).
    split; [rewrite app_length; simpl; rewrite repeat_length; lia|].
    split; [rewrite app_nth2 by lia; rewrite Hys, Nat.sub_diag; reflexivity|].
    split.
    { intros c Hc. rewrite app_nth2 by lia. rewrite Hys. destruct (c - i) as [|d] eqn:E; [lia|].
      simpl. apply nth_repeat_f0. }
    apply sol_nth. intros r Hr. destruct Hwf as [HmL HmF]. rewrite HmL in Hr.
    destruct (perm_seq_surj piv rows r 0 HP Hr) as (k & Hk & Ek).
    pose proof (wf_row rows cols m r (conj HmL HmF) Hr) as HRL.
    set (R := nth r m []) in *.
    rewrite (split_at R i) by lia.
    rewrite dot_app by (rewrite firstn_length; lia).
    cbn [dot]. rewrite (dot_zero_r (skipn (S i) R) (repeat f0 (cols - S i))) by (intros; apply nth_repeat_f0).
    assert (Hfl : length (firstn i R) = i) by (rewrite firstn_length; lia).
    destruct (Nat.lt_ge_cases k i) as [Hki|Hki].
    - assert (HU : forall c, c < length (firstn i R) -> nth c (firstn i R) f0 = if c =? k then f1 else f0).
      { intros c Hc. rewrite Hfl in Hc. rewrite nth_firstn_lt by exact Hc.
        pose proof (Hunit c r Hc Hr) as Hu. unfold Hobby.mget in Hu. fold R in Hu. rewrite Hu. rewrite <- Ek.
        destruct (nth k piv 0 =? nth c piv 0) eqn:E.
        - apply Nat.eqb_eq in E. apply (perm_seq_inj piv rows k c 0 HP Hk (ltac:(lia))) in E. subst c. now rewrite Nat.eqb_refl.
        - apply Nat.eqb_neq in E. destruct (c =? k) eqn:E2; [apply Nat.eqb_eq in E2; subst c; congruence | reflexivity]. }
      rewrite (dot_unit (firstn i R) ys k (ltac:(lia)) (ltac:(lia)) HU).
      unfold ys. rewrite (nth_indep _ f0 (fopp (mget m (nth 0 piv 0) i))) by (rewrite map_length, seq_length; exact Hki).
      rewrite (map_nth (fun c => fopp (mget m (nth c piv 0) i)) (seq 0 i) 0 k). rewrite seq_nth by exact Hki. simpl.
      rewrite Ek. unfold Hobby.mget. fold R. ring.
    - rewrite (dot_zero_l (firstn i R) ys).
      + assert (E : nth i R f0 = f0).
        { pose proof (Hzero k (conj Hki Hk)) as Hz. rewrite Ek in Hz. unfold Hobby.mget in Hz. exact Hz. }
        rewrite E. ring.
      + intros c Hc. rewrite Hfl in Hc. rewrite nth_firstn_lt by exact Hc.
        pose proof (Hunit c r Hc Hr) as Hu. unfold Hobby.mget in Hu. fold R in Hu. rewrite Hu.
        destruct (r =? nth c piv 0) eqn:E; [|reflexivity].
        apply Nat.eqb_eq in E. rewrite <- Ek in E. apply (perm_seq_inj piv rows k c 0 HP Hk (ltac:(lia))) in E. lia.
  Qed.

  Lemma gj_prefix_singular : forall rows cols m0 k, rows <= cols -> wf rows cols m0 -> k <= rows ->
    st_res T (fold_left (gj_step rows) (seq 0 k) (m0, seq 0 rows, 0)) <> 0 ->
    exists y i, i < rows /\ length y = cols /\ nth i y f0 = f1 /\ (forall c, i < c -> nth c y f0 = f0) /\ sol m0 y.
  Proof.
    intros rows cols m0 k Hrc Hwf. induction k as [|k IH]; intros Hk Hres.
    - exfalso. apply Hres. reflexivity.
    - rewrite seq_S, fold_left_app in Hres. simpl in Hres.
      set (st := fold_left (gj_step rows) (seq 0 k) (m0, seq 0 rows, 0)) in *.
      destruct (Nat.eq_dec (st_res T st) 0) as [Hr0|Hr0]; [|apply IH; [lia | exact Hr0]].
      pose proof (gj_prefix_inv rows cols m0 k Hrc Hwf (ltac:(lia))) as Hinv. simpl in Hinv. fold st in Hinv.
      destruct (Hinv Hr0) as (Hwf' & HP & Hsol & Hunit).
      destruct st as [[m piv] res]. unfold st_res, st_m, st_piv in *. cbn [fst snd] in *. subst res.
      destruct (find_pivot m piv rows k) as [pv pr] eqn:EP.
      destruct (feq0 pv) eqn:Hnz.
      + destruct (find_pivot_spec T f0 fabs fgt _ _ _ _ _ _ (ltac:(lia) : k < rows) EP) as [Hpr Epv].
        destruct (singular_kernel rows cols m piv k Hrc (ltac:(lia)) Hwf' HP Hunit) as (y & H1 & H2 & H3 & H4).
        { intros j Hj. apply (fabs_le0 _ (mget m (nth pr piv 0) k)).
          - rewrite <- Epv. exact Hnz.
          - rewrite <- Epv. eapply find_pivot_max; [exact EP | exact Hj]. }
        exists y, k. repeat split; auto; try lia. apply Hsol. exact H4.
      + exfalso. destruct (gj_step_ok rows cols m0 m piv k pv pr Hrc (ltac:(lia)) Hwf' HP Hsol Hunit EP Hnz)
          as (m2 & piv2 & E & _). rewrite E in Hres. apply Hres. reflexivity.
  Qed.

  (* MAIN: a non-zero return value means that A is singular: A y = 0 for some y <> 0 *)
  Theorem gauss_jordan_singular_lemma : forall n m0 st,
    wf n (S n) m0 -> gj_run n m0 = st -> st_res T st <> 0 ->
    exists y, length y = n /\ (exists k, k < n /\ nth k y f0 <> f0) /\ Forall (fun r => dot (firstn n r) y = f0) m0.
  Proof.
    intros n m0 st Hwf Erun Hres. unfold Hobby.gj_run in Erun. rewrite <- Erun in Hres.
    destruct (gj_prefix_singular n (S n) m0 n (ltac:(lia)) Hwf (le_n n) Hres) as (y & i & Hi & HL & H1 & H0 & Hs).
    exists (firstn n y). split; [rewrite firstn_length; lia|]. split.
    - exists i. split; [exact Hi|]. rewrite nth_firstn_lt by exact Hi. rewrite H1. apply f1_neq_f0.
    - unfold sol in Hs. rewrite Forall_forall in *. intros r Hin. specialize (Hs r Hin).
      destruct Hwf as [HmL HmF]. rewrite Forall_forall in HmF. specialize (HmF r Hin).
      rewrite (firstn_last_split r n HmF) in Hs. rewrite (firstn_last_split y n HL) in Hs.
      rewrite dot_app in Hs by (rewrite !firstn_length; lia). simpl in Hs.
      rewrite (H0 n Hi) in Hs. rewrite <- Hs. ring.
  Qed.

  Lemma dot_add : forall x y r, length x = length y ->
    dot r (map (fun ab : T * T => fst ab [+] snd ab) (combine x y)) = dot r x [+] dot r y.
  Proof.
    intros x. induction x as [|a x IH]; intros [|b y] [|c r] H; simpl in *; try discriminate; try ring.
    rewrite IH by lia. ring.
  Qed.

  (* the two main theorems together: the return value is zero exactly when the system has exactly one solution *)
  Corollary gauss_jordan_result_lemma : forall n m0 st,
    wf n (S n) m0 -> gj_run n m0 = st ->
    (st_res T st = 0 <-> exists x, length x = n /\ solves n m0 x /\ forall y, length y = n -> solves n m0 y -> y = x).
  Proof.
    intros n m0 st Hwf Erun. split.
    - intros Hres. exists (gj_solution T f0 n st). split; [apply gj_solution_length|]. split.
      + eapply gauss_jordan_solves_lemma; eauto.
      + intros y Hy Hs. eapply gauss_jordan_unique_lemma; eauto.
    - intros (x & Hx & Hsx & Huniq).
      destruct (Nat.eq_dec (st_res T st) 0) as [E|E]; [exact E|exfalso].
      destruct (gauss_jordan_singular_lemma n m0 st Hwf Erun E) as (y & Hy & (k & Hk & Hnz) & Hker).
      (* x + y is a second solution *)
      set (z := map (fun ab : T * T => fst ab [+] snd ab) (combine x y)).
      assert (Hz : length z = n) by (unfold z; rewrite map_length, combine_length; lia).
      assert (Hdz : forall r, dot r z = dot r x [+] dot r y).
      { intros r. unfold z. apply dot_add. lia. }
      assert (Hsz : solves n m0 z).
      { unfold solves in *. rewrite Forall_forall in *. intros r Hin.
        rewrite Hdz, (Hsx r Hin), (Hker r Hin). ring. }
      pose proof (Huniq z Hz Hsz) as Ezx.
      apply Hnz.
      assert (Enth : nth k z f0 = nth k x f0 [+] nth k y f0).
      { unfold z. rewrite (nth_indep _ f0 ((fun ab : T * T => fst ab [+] snd ab) (f0, f0)))
          by (rewrite map_length, combine_length; lia).
        rewrite (map_nth (fun ab : T * T => fst ab [+] snd ab)). rewrite combine_nth by lia. reflexivity. }
      rewrite Ezx in Enth.
      replace (nth k y f0) with ((nth k x f0 [+] nth k y f0) [-] nth k x f0) by ring.
      rewrite <- Enth. ring.
  Qed.
End GJField.
