Require Import Base OasisInt GdsReal OasisReal GdsUnits GridRound.
From Flocq Require Import Core BinarySingleNaN Binary Bits.
Require Import Extraction ExtrOcamlBasic.
Extraction Blacklist List String Int.
Extraction "../ocaml/extracted/grid_round.ml" Z.of_N bits64 b64_of_bits b64_zero
  gw_scaling gw_units gw_coord gw_width gw_ext
  read_gds_units us_factor us_unit us_precision us_tolerance gds_coord gds_width gds_half_width
  gds_scaling_of gds_cycle_coord gds_cycle_width gds_cycle_ext
  ow_unit_real ow_unit_bytes or_unit_real ow_coord ow_halfwidth
  read_oas_units os_factor os_unit os_precision os_tolerance oas_coord oas_ucoord
  oas_points int_points oas_scaling_of oas_cycle_coord oas_cycle_halfwidth oas_cycle_points
  overlap_test step_merged.
