(* The theorems of HobbyProofs.v for the exact-arithmetic instance gjQ (HobbyInst.v) of the model of
   gauss_jordan_elimination: Qc is a field and Qc_gt on absolute values is the strict part of a total order. *)
Require Import Base Hobby HobbyInst HobbyProofs.
From Coq Require Import QArith Qcanon List Lia Permutation.
Import ListNotations.
Local Open Scope Qc_scope.

Lemma Qclt_irrefl : forall x : Qc, ~ x < x.
Proof. intros x H. exact (Qclt_not_eq _ _ H eq_refl). Qed.

Lemma Qc_abs_eq0 : forall x : Qc, Qc_eq0 (Qc_abs x) = true <-> x = Q2Qc 0.
Proof.
  intros x. unfold Qc_eq0, Qc_abs.
  destruct (Qclt_le_dec x (Q2Qc 0)) as [H|H]; destruct (Qc_eq_dec _ (Q2Qc 0)) as [E|E]; split; intros H'; try reflexivity; try discriminate.
  - exfalso. assert (x = Q2Qc 0) by (rewrite <- (Qcopp_involutive x), E; reflexivity). subst. revert H. apply Qclt_irrefl.
  - subst. exfalso. revert H. apply Qclt_irrefl.
  - exact E.
  - contradiction.
Qed.

Lemma Qc_gt_refl : forall x, Qc_gt x x = false.
Proof. intros x. unfold Qc_gt. destruct (Qclt_le_dec x x) as [H|H]; [exfalso; revert H; apply Qclt_irrefl | reflexivity]. Qed.

Lemma Qc_gt_false : forall a b, Qc_gt a b = false <-> a <= b.
Proof.
  intros a b. unfold Qc_gt. destruct (Qclt_le_dec b a) as [H|H]; split; intros H'; try discriminate; try reflexivity; auto.
  exfalso. apply (Qclt_not_le _ _ H). exact H'.
Qed.

Lemma Qc_gt_trans : forall a b c, Qc_gt a b = false -> Qc_gt b c = false -> Qc_gt a c = false.
Proof. intros a b c. rewrite !Qc_gt_false. apply Qcle_trans. Qed.

Lemma Qc_gt_asym : forall a b, Qc_gt a b = true -> Qc_gt b a = false.
Proof.
  intros a b H. apply Qc_gt_false. unfold Qc_gt in H. destruct (Qclt_le_dec b a) as [L|L]; [|discriminate].
  apply Qclt_le_weak. exact L.
Qed.

Lemma Qc_abs_nonneg : forall x, Q2Qc 0 <= Qc_abs x.
Proof.
  intros x. unfold Qc_abs. destruct (Qclt_le_dec x (Q2Qc 0)) as [H|H]; [|exact H].
  apply Qclt_le_weak in H. apply Qcopp_le_compat in H. exact H.
Qed.

Lemma Qc_abs_le0 : forall x y, Qc_eq0 (Qc_abs y) = true -> Qc_gt (Qc_abs x) (Qc_abs y) = false -> x = Q2Qc 0.
Proof.
  intros x y Hy H. apply Qc_gt_false in H.
  assert (E : Qc_abs y = Q2Qc 0) by (unfold Qc_eq0 in Hy; destruct (Qc_eq_dec (Qc_abs y) (Q2Qc 0)); [assumption | discriminate]).
  rewrite E in H. apply Qc_abs_eq0.
  assert (Qc_abs x = Q2Qc 0) by (apply Qcle_antisym; [exact H | apply Qc_abs_nonneg]).
  unfold Qc_eq0. destruct (Qc_eq_dec (Qc_abs x) (Q2Qc 0)); [reflexivity | contradiction].
Qed.

Definition dotQ := dot Qc (Q2Qc 0) Qcplus Qcmult.
Definition solvesQ := solves Qc (Q2Qc 0) Qcplus Qcmult.
Definition wfQ := wf Qc.

(* exact arithmetic: return value 0 => the vector read back solves A x = b, and nothing else does *)
Lemma gjQ_solves_lemma : forall n m0, wfQ n (S n) m0 -> snd (gjQ n m0) = 0%nat ->
  solvesQ n m0 (gj_solution Qc (Q2Qc 0) n (gjQ n m0)) /\
  (forall y, length y = n -> solvesQ n m0 y -> y = gj_solution Qc (Q2Qc 0) n (gjQ n m0)).
Proof.
  intros n m0 Hwf Hres. split.
  - apply (gauss_jordan_solves_lemma Qc (Q2Qc 0) (Q2Qc 1) Qcplus Qcmult Qcminus Qcopp Qcdiv Qcinv Qcft Qc_abs Qc_gt Qc_eq0 Qc_abs_eq0
             n m0 (gjQ n m0) Hwf eq_refl Hres).
  - intros y Hy Hs.
    apply (gauss_jordan_unique_lemma Qc (Q2Qc 0) (Q2Qc 1) Qcplus Qcmult Qcminus Qcopp Qcdiv Qcinv Qcft Qc_abs Qc_gt Qc_eq0 Qc_abs_eq0
             n m0 (gjQ n m0) y Hwf eq_refl Hres Hy Hs).
Qed.

(* return value <> 0 => A y = 0 for some y <> 0 *)
Lemma gjQ_singular_lemma : forall n m0, wfQ n (S n) m0 -> snd (gjQ n m0) <> 0%nat ->
  exists y, length y = n /\ (exists k, (k < n)%nat /\ nth k y (Q2Qc 0) <> Q2Qc 0) /\
            Forall (fun r => dotQ (firstn n r) y = Q2Qc 0) m0.
Proof.
  intros n m0 Hwf Hres.
  apply (gauss_jordan_singular_lemma Qc (Q2Qc 0) (Q2Qc 1) Qcplus Qcmult Qcminus Qcopp Qcdiv Qcinv Qcft Qc_abs Qc_gt Qc_eq0 Qc_abs_eq0
           Qc_gt_refl Qc_gt_trans Qc_gt_asym Qc_abs_le0 n m0 (gjQ n m0) Hwf eq_refl Hres).
Qed.

Lemma gjQ_result_lemma : forall n m0, wfQ n (S n) m0 ->
  (snd (gjQ n m0) = 0%nat <->
   exists x, length x = n /\ solvesQ n m0 x /\ forall y, length y = n -> solvesQ n m0 y -> y = x).
Proof.
  intros n m0 Hwf.
  apply (gauss_jordan_result_lemma Qc (Q2Qc 0) (Q2Qc 1) Qcplus Qcmult Qcminus Qcopp Qcdiv Qcinv Qcft Qc_abs Qc_gt Qc_eq0 Qc_abs_eq0
           Qc_gt_refl Qc_gt_trans Qc_gt_asym Qc_abs_le0 n m0 (gjQ n m0) Hwf eq_refl).
Qed.

(* hypotheses satisfiable on a non-trivial input: a 3 x 4 system that needs a row swap (zero in the top-left corner)
     0 x + 2 y + 1 z = 5;   1 x + 1 y + 1 z = 4;   2 x + 1 y + 0 z = 4      solution (1, 2, 1) *)
Definition q (z : Z) : Qc := Q2Qc (inject_Z z).
Definition ex_sys : list (list Qc) := [[q 0; q 2; q 1; q 5]; [q 1; q 1; q 1; q 4]; [q 2; q 1; q 0; q 4]].
Example ex_gjQ : wfQ 3 4 ex_sys /\ snd (gjQ 3 ex_sys) = 0%nat /\
  gj_solution Qc (Q2Qc 0) 3 (gjQ 3 ex_sys) = [q 1; q 2; q 1] /\ snd (fst (gjQ 3 ex_sys)) = [2; 0; 1]%nat.
Proof.
  split; [split; [reflexivity | repeat constructor]|].
  split; [vm_compute; reflexivity|]. split; [|vm_compute; reflexivity].
  apply (nth_ext _ _ (Q2Qc 0) (Q2Qc 0)); [reflexivity|].
  intros [|[|[|k]]] Hk; try (apply Qc_is_canon; vm_compute; reflexivity); simpl in Hk; lia.
Qed.
(* ... and a singular one: second row = 2 x first row *)
Definition ex_sing : list (list Qc) := [[q 1; q 2; q 3]; [q 2; q 4; q 5]].
Example ex_gjQ_singular : wfQ 2 3 ex_sing /\ snd (gjQ 2 ex_sing) = 1%nat.
Proof. split; [split; [reflexivity | repeat constructor]|]. vm_compute. reflexivity. Qed.

(* ------------------------------------------------------------------ binary64 instance: what holds whatever the rounding does *)
Lemma gj64_pivots_permutation_lemma : forall rows cols m st,
  gj64 rows cols m = Ok st -> Permutation (snd (fst st)) (seq 0 rows) /\ (snd st <= rows)%nat.
Proof.
  intros rows cols m st E. unfold gj64, gauss_jordan in E. destruct (cols <? rows)%nat; [discriminate|].
  injection E as <-. split.
  - apply gj_pivots_permutation_lemma.
  - apply gj_result_bound_lemma.
Qed.

(* ------------------------------------------------------------------ the hobby theorems are not vacuous *)
(* an exact-arithmetic instance of the open solver: "sqrt" and "atan2" are arbitrary functions for the theorems; here
   the squared length and a rational function of the direction, "pi" = 3 *)
Definition toy_sqrt (x : Qc) : Qc := x.
Definition toy_atan2 (y x : Qc) : Qc := y / (Q2Qc 1 + x * x + y * y).
Definition open_anglesQ (pts tens : list (Qc * Qc)) (ang : list Qc) (ang_c : list bool) (ic fc : Qc) (n : nat) :=
  open_angles Qc (Q2Qc 0) (Q2Qc 1) (q 3) (q 3) (q 6) Qcplus Qcminus Qcmult Qcdiv Qcopp Qc_abs toy_sqrt toy_atan2 Qc_gt Qc_le Qc_eq0
              pts tens ang ang_c ic fc n.
Definition ex_pts : list (Qc * Qc) := [(q 0, q 0); (q 2, q 1); (q 3, q 3); (q 5, q 2)].
Definition ex_tens : list (Qc * Qc) := [(q 1, q 1); (q 1, q 2); (q 1, q 1); (q 1, q 1)].
Example ex_open_unconstrained :
  exists theta phi, open_anglesQ ex_pts ex_tens [q 0; q 0; q 0; q 0] [false; false; false; false] (q 1) (q 2) 3
                    = Some (theta, phi, 0%nat) /\ nth 1 theta (Q2Qc 0) <> Q2Qc 0.
Proof.
  destruct (open_anglesQ ex_pts ex_tens [q 0; q 0; q 0; q 0] [false; false; false; false] (q 1) (q 2) 3)
    as [[[theta phi] sk]|] eqn:E.
  - exists theta, phi. revert E. vm_compute. intros E. injection E as <- <- <-. split; [reflexivity|].
    intros H. discriminate H.
  - revert E. vm_compute. discriminate.
Qed.

(* constraints at knots 0 and 2 (two ranges, the second one is the single piece 2 -> 3 with a free end) *)
Example ex_open_constrained :
  exists theta phi, open_anglesQ ex_pts ex_tens [q 1; q 0; q (-1); q 0] [true; false; true; false] (q 1) (q 2) 3
                    = Some (theta, phi, 0%nat) /\ nth 1 theta (Q2Qc 0) <> Q2Qc 0.
Proof.
  destruct (open_anglesQ ex_pts ex_tens [q 1; q 0; q (-1); q 0] [true; false; true; false] (q 1) (q 2) 3)
    as [[[theta phi] sk]|] eqn:E.
  - exists theta, phi. revert E. vm_compute. intros E. injection E as <- <- <-. split; [reflexivity|].
    intros H. discriminate H.
  - revert E. vm_compute. discriminate.
Qed.

Definition closed_anglesQ (pts tens : list (Qc * Qc)) (count : nat) :=
  closed_angles Qc (Q2Qc 0) (Q2Qc 1) (q 3) (q 3) (q 6) Qcplus Qcminus Qcmult Qcdiv Qcopp Qc_abs toy_sqrt toy_atan2 Qc_gt Qc_le Qc_eq0
                pts tens count.
Example ex_closed_unconstrained :
  exists theta phi, closed_anglesQ ex_pts ex_tens 4 = Some (theta, phi, 0%nat) /\ nth 1 theta (Q2Qc 0) <> Q2Qc 0.
Proof.
  destruct (closed_anglesQ ex_pts ex_tens 4) as [[[theta phi] sk]|] eqn:E.
  - exists theta, phi. revert E. vm_compute. intros E. injection E as <- <- <-. split; [reflexivity|].
    intros H. discriminate H.
  - revert E. vm_compute. discriminate.
Qed.
