(* Proofs about OasisInt.v: round trips for every value, acceptance of non-minimal encodings,
   overflow flagged. *)
Require Import Base OasisInt.
From Coq Require Import ZifyBool ZifyN ZifyNat.
Local Open Scope N_scope.
Ltac Zify.zify_post_hook ::= Z.div_mod_to_equations.

(* ------------------------------------------------------------------ bit lemmas *)
Lemma land127 n : N.land n 127 = n mod 128.
Proof. change 127 with (N.ones 7). rewrite N.land_ones. reflexivity. Qed.

Lemma shiftr7 n : N.shiftr n 7 = n / 128.
Proof. rewrite N.shiftr_div_pow2. reflexivity. Qed.

Lemma land128_of_small b : b < 128 -> N.land b 128 = 0.
Proof.
  intros H. apply N.bits_inj_0. intros i. rewrite N.land_spec.
  destruct (N.eq_dec i 7) as [->|Hi].
  - replace (N.testbit b 7) with false; [reflexivity|].
    symmetry. destruct (N.eq_dec b 0) as [->|Hb]; [apply N.bits_0|].
    apply N.bits_above_log2. apply N.log2_lt_pow2; lia.
  - replace (N.testbit 128 i) with false; [apply andb_false_r|].
    symmetry. change 128 with (2 ^ 7). apply N.pow2_bits_false. congruence.
Qed.

Lemma land_low_high a x k : a < 2 ^ k -> N.land a (x * 2 ^ k) = 0.
Proof.
  intros H. apply N.bits_inj_0. intros i. rewrite N.land_spec.
  destruct (N.lt_ge_cases i k) as [Hi|Hi].
  - rewrite N.mul_pow2_bits_low by assumption. apply andb_false_r.
  - replace (N.testbit a i) with false; [reflexivity|]. symmetry.
    destruct (N.eq_dec a 0) as [->|Ha]; [apply N.bits_0|].
    apply N.bits_above_log2. apply N.lt_le_trans with k; [|assumption].
    apply N.log2_lt_pow2; lia.
Qed.

Lemma lor_disjoint a x k : a < 2 ^ k -> N.lor a (N.shiftl x k) = a + x * 2 ^ k.
Proof.
  intros H. rewrite N.shiftl_mul_pow2.
  rewrite <- N.lxor_lor by (apply land_low_high; assumption).
  symmetry. apply N.add_nocarry_lxor. apply land_low_high; assumption.
Qed.

Lemma lor128 b : b < 128 -> N.lor b 128 = b + 128.
Proof.
  intros H. change 128 with (N.shiftl 1 7) at 1. rewrite lor_disjoint by (simpl; lia).
  reflexivity.
Qed.

Lemma land128_cont b : b < 128 -> N.land (b + 128) 128 = 128.
Proof.
  intros H. rewrite <- lor128 by assumption. rewrite N.land_lor_distr_l.
  rewrite land128_of_small by assumption. reflexivity.
Qed.

Lemma land127_cont b : b < 128 -> N.land (b + 128) 127 = b.
Proof. intros H. rewrite land127. zify. lia. Qed.

(* ------------------------------------------------------------------ encoder in arithmetic form *)
Lemma enc_uint_f_unfold fuel v :
  enc_uint_f fuel v =
  match fuel with
  | O => [v mod 128]
  | S f => if 128 <=? v then (v mod 128 + 128) :: enc_uint_f f (v / 128) else [v mod 128]
  end.
Proof.
  destruct fuel; cbn [enc_uint_f]; rewrite land127; [reflexivity|].
  rewrite shiftr7.
  assert (Hm : v mod 128 < 128) by (apply N.mod_lt; lia).
  destruct (128 <=? v) eqn:E.
  - replace (0 <? v / 128) with true by (symmetry; apply N.ltb_lt; zify; lia).
    rewrite lor128 by assumption. reflexivity.
  - replace (0 <? v / 128) with false by (symmetry; apply N.ltb_ge; zify; lia).
    reflexivity.
Qed.

(* all produced bytes are bytes *)
Lemma enc_uint_f_bytes fuel v : Forall (fun b => b < 256) (enc_uint_f fuel v).
Proof.
  revert v. induction fuel as [|f IH]; intros v; rewrite enc_uint_f_unfold.
  - constructor; [|constructor]. zify; lia.
  - destruct (128 <=? v); constructor; try apply IH; try constructor; zify; lia.
Qed.

(* ------------------------------------------------------------------ unsigned round trip *)
(* the loop started with accumulator [acc] holding [k] bits *)
Lemma dec_uint_loop_enc fuel : forall v acc k rest,
  acc < 2 ^ k -> k + 7 * N.of_nat (S fuel) >= 64 -> k mod 7 = 0 -> k <= 63 ->
  v < 2 ^ (64 - k) ->
  dec_uint_loop (enc_uint_f fuel v ++ rest) acc k = Ok (acc + v * 2 ^ k, rest).
Proof.
  induction fuel as [|f IH]; intros v acc k rest Hacc Hfuel Hj Hk Hv.
  - (* fuel 0: k + 7 >= 64 and k multiple of 7, k <= 63  ->  k = 63 or k = 57.. only 63 *)
    assert (Ek : k = 63) by lia. clear Hj. subst k.
    rewrite enc_uint_f_unfold. cbn [app dec_uint_loop].
    change (2 ^ (64 - 63)) with 2 in Hv.
    assert (Hv' : v mod 128 = v) by (apply N.mod_small; lia). rewrite Hv'.
    replace (1 <? v) with false by (symmetry; apply N.ltb_ge; lia).
    rewrite andb_false_r. rewrite land127, Hv'.
    rewrite land128_of_small by lia. cbn [N.ltb N.compare].
    rewrite lor_disjoint by assumption. unfold u64.
    rewrite N.mod_small; [reflexivity|]. unfold two64.
    change (2 ^ 63) with 9223372036854775808 in *. lia.
  - rewrite enc_uint_f_unfold.
    assert (Hm : v mod 128 < 128) by (apply N.mod_lt; lia).
    destruct (128 <=? v) eqn:E.
    + (* continuation *)
      assert (Hk' : k + 7 <= 63).
      { destruct (N.le_gt_cases (k + 7) 63) as [?|Hgt]; [assumption|exfalso].
        assert (64 - k <= 7) by lia.
        assert (2 ^ (64 - k) <= 2 ^ 7) by (apply N.pow_le_mono_r; lia).
        change (2 ^ 7) with 128 in *. lia. }
      cbn [app dec_uint_loop].
      replace (k =? 63) with false by (symmetry; apply N.eqb_neq; lia).
      cbn [andb]. rewrite land127_cont, land128_cont by assumption. cbn [N.ltb N.compare].
      rewrite lor_disjoint by assumption.
      assert (Hpk : 2 ^ (k + 7) = 2 ^ k * 128) by (rewrite N.pow_add_r; reflexivity).
      assert (Hbound : acc + v mod 128 * 2 ^ k < 2 ^ (k + 7)) by (rewrite Hpk; nia).
      unfold u64. rewrite N.mod_small.
      2:{ apply N.lt_le_trans with (2 ^ (k + 7)); [assumption|].
          unfold two64. change 18446744073709551616 with (2 ^ 64). apply N.pow_le_mono_r; lia. }
      rewrite IH; try assumption; try lia.
      * f_equal. f_equal. rewrite Hpk.
        pose proof (N.div_mod v 128 ltac:(lia)). nia.
      * (* v / 128 < 2 ^ (64 - (k+7)) *)
        assert (H64 : 2 ^ (64 - k) = 2 ^ (64 - (k + 7)) * 128).
        { replace (64 - k) with (64 - (k + 7) + 7) by lia. rewrite N.pow_add_r. reflexivity. }
        rewrite H64 in Hv. apply N.div_lt_upper_bound; lia.
    + (* last group *)
      cbn [app dec_uint_loop].
      assert (Hv' : v mod 128 = v) by (apply N.mod_small; lia). rewrite Hv'.
      assert (Hc : (k =? 63) && (1 <? v) = false).
      { destruct (k =? 63) eqn:Ek; [|reflexivity]. apply N.eqb_eq in Ek. subst k.
        change (2 ^ (64 - 63)) with 2 in Hv. cbn [andb]. apply N.ltb_ge. lia. }
      rewrite Hc. rewrite land127, Hv'. rewrite land128_of_small by lia. cbn [N.ltb N.compare].
      rewrite lor_disjoint by assumption. unfold u64. rewrite N.mod_small; [reflexivity|].
      unfold two64. change 18446744073709551616 with (2 ^ 64).
      replace 64 with (k + (64 - k)) at 1 by lia. rewrite N.pow_add_r. nia.
Qed.

Lemma dec_uint_as_loop bs : dec_uint bs = dec_uint_loop bs 0 0.
Proof.
  destruct bs as [|b tl]; [reflexivity|]. cbn [dec_uint dec_uint_loop].
  cbn [N.eqb andb]. rewrite N.shiftl_0_r, N.lor_0_l.
  assert (H : u64 (N.land b 127) = N.land b 127).
  { unfold u64. apply N.mod_small. rewrite land127. unfold two64. zify; lia. }
  rewrite H. reflexivity.
Qed.

Theorem uint_roundtrip_lemma v rest :
  v < two64 -> dec_uint (enc_uint v ++ rest) = Ok (v, rest).
Proof.
  intros Hv. rewrite dec_uint_as_loop. unfold enc_uint.
  rewrite dec_uint_loop_enc; try lia; try reflexivity.
  - rewrite N.mul_1_r. reflexivity.
  - exact Hv.
Qed.

(* ------------------------------------------------------------------ every legal encoding, <= 10 bytes *)
Lemma enc_ok_uint_bytes bs n : enc_ok_uint bs n -> Forall (fun b => b < 256) bs.
Proof. induction 1; constructor; try assumption; try constructor; lia. Qed.

Lemma dec_uint_loop_spec bs n : enc_ok_uint bs n -> forall acc k rest,
  acc < 2 ^ k -> k mod 7 = 0 ->
  k + 7 * N.of_nat (length bs) <= 70 ->
  n * 2 ^ k + acc < two64 ->
  dec_uint_loop (bs ++ rest) acc k = Ok (acc + n * 2 ^ k, rest).
Proof.
  induction 1 as [b Hb | b bs n Hb Hok IH]; intros acc k rest Hacc Hj Hlen Hfit.
  - cbn [app dec_uint_loop length] in *.
    assert (Hc : (k =? 63) && (1 <? b) = false).
    { destruct (k =? 63) eqn:Ek; [|reflexivity]. apply N.eqb_eq in Ek. subst k.
      cbn [andb]. apply N.ltb_ge. unfold two64 in Hfit.
      change (2 ^ 63) with 9223372036854775808 in *. lia. }
    rewrite Hc. rewrite land127, (N.mod_small b) by lia. rewrite land128_of_small by lia.
    cbn [N.ltb N.compare]. rewrite lor_disjoint by assumption. unfold u64.
    rewrite N.mod_small by lia. reflexivity.
  - cbn [app dec_uint_loop length] in *.
    assert (Hlb : exists c, b = c + 128 /\ c < 128) by (exists (b - 128); lia).
    destruct Hlb as (c & -> & Hc128).
    replace (c + 128 - 128) with c in * by lia.
    (* k <= 56: one more byte follows *)
    assert (Hk : k + 7 <= 63).
    { assert (1 <= N.of_nat (length bs)).
      { inversion Hok; cbn [length]; lia. }
      lia. }
    replace (k =? 63) with false by (symmetry; apply N.eqb_neq; lia). cbn [andb].
    rewrite land127_cont, land128_cont by assumption. cbn [N.ltb N.compare].
    rewrite lor_disjoint by assumption.
    assert (Hpk : 2 ^ (k + 7) = 2 ^ k * 128) by (rewrite N.pow_add_r; reflexivity).
    assert (Hbound : acc + c * 2 ^ k < 2 ^ (k + 7)) by (rewrite Hpk; nia).
    unfold u64. rewrite N.mod_small.
    2:{ apply N.lt_le_trans with (2 ^ (k + 7)); [assumption|].
        unfold two64. change 18446744073709551616 with (2 ^ 64). apply N.pow_le_mono_r; lia. }
    rewrite IH; try assumption; try lia; try (rewrite Hpk; nia).
    f_equal. f_equal. rewrite Hpk. nia.
Qed.

Theorem uint_accepts_nonminimal_lemma bs n rest :
  enc_ok_uint bs n -> (length bs <= 10)%nat -> n < two64 ->
  dec_uint (bs ++ rest) = Ok (n, rest).
Proof.
  intros Hok Hlen Hn. rewrite dec_uint_as_loop.
  rewrite (dec_uint_loop_spec bs n Hok); try lia; try reflexivity.
  rewrite N.mul_1_r. reflexivity.
Qed.

(* the encoder's output is one of the legal encodings *)
Lemma enc_uint_f_ok fuel : forall v, v < 2 ^ (7 * N.of_nat (S fuel)) -> enc_ok_uint (enc_uint_f fuel v) v.
Proof.
  induction fuel as [|f IH]; intros v Hv; rewrite enc_uint_f_unfold.
  - change (2 ^ (7 * N.of_nat 1)) with 128 in Hv. rewrite N.mod_small by assumption.
    constructor. assumption.
  - destruct (128 <=? v) eqn:E.
    + pose proof (N.div_mod v 128 ltac:(lia)) as Hdm.
      assert (Hm : v mod 128 < 128) by (apply N.mod_lt; lia).
      replace v with ((v mod 128 + 128 - 128) + 128 * (v / 128)) at 3 by lia.
      constructor; [lia|]. apply IH.
      replace (7 * N.of_nat (S (S f))) with (7 * N.of_nat (S f) + 7) in Hv by lia.
      rewrite N.pow_add_r in Hv. change (2 ^ 7) with 128 in Hv.
      apply N.div_lt_upper_bound; lia.
    + rewrite N.mod_small by lia. constructor. lia.
Qed.

Theorem enc_uint_conforms_lemma v : v < two64 -> enc_ok_uint (enc_uint v) v /\ (length (enc_uint v) <= 10)%nat.
Proof.
  intros Hv. split.
  - apply enc_uint_f_ok. unfold two64 in Hv. change (2 ^ (7 * N.of_nat 10)) with 1180591620717411303424. lia.
  - unfold enc_uint.
    assert (G : forall f v, (length (enc_uint_f f v) <= S f)%nat).
    { induction f as [|f IH]; intros w; rewrite enc_uint_f_unfold; [cbn; lia|].
      destruct (128 <=? w); cbn [length]; [specialize (IH (w / 128)); lia | lia]. }
    apply (G 9%nat v).
Qed.

(* ------------------------------------------------------------------ values beyond 64 bits are flagged *)
(* A legal encoding whose value does not fit in 64 bits is never decoded to an Ok result. *)
Lemma dec_uint_loop_overflow bs n : enc_ok_uint bs n -> forall acc k rest,
  acc < 2 ^ k -> k mod 7 = 0 -> k <= 63 ->
  two64 <= n * 2 ^ k ->
  dec_uint_loop (bs ++ rest) acc k = ErrOverflow.
Proof.
  induction 1 as [b Hb | b bs n Hb Hok IH]; intros acc k rest Hacc Hj Hk Hbig.
  - cbn [app dec_uint_loop].
    (* b < 128 and b * 2^k >= 2^64 forces k = 63 /\ b >= 2 *)
    assert (k = 63).
    { destruct (N.eq_dec k 63); [assumption|exfalso]. assert (k <= 56) by lia.
      assert (2 ^ k <= 2 ^ 56) by (apply N.pow_le_mono_r; lia).
      unfold two64 in Hbig. change (2 ^ 56) with 72057594037927936 in *. nia. }
    subst k. cbn [N.eqb Pos.eqb andb].
    replace (1 <? b) with true; [reflexivity|]. symmetry. apply N.ltb_lt.
    unfold two64 in Hbig. change (2 ^ 63) with 9223372036854775808 in *. lia.
  - cbn [app dec_uint_loop].
    assert (Hlb : exists c, b = c + 128 /\ c < 128) by (exists (b - 128); lia).
    destruct Hlb as (c & -> & Hc128).
    replace (c + 128 - 128) with c in * by lia.
    destruct (N.eq_dec k 63) as [->|Hk63].
    + cbn [N.eqb Pos.eqb andb]. replace (1 <? c + 128) with true; [reflexivity|].
      symmetry. apply N.ltb_lt. lia.
    + replace (k =? 63) with false by (symmetry; apply N.eqb_neq; lia). cbn [andb].
      assert (k <= 56) by lia.
      rewrite land127_cont, land128_cont by assumption. cbn [N.ltb N.compare].
      rewrite lor_disjoint by assumption.
      assert (Hpk : 2 ^ (k + 7) = 2 ^ k * 128) by (rewrite N.pow_add_r; reflexivity).
      assert (Hbound : acc + c * 2 ^ k < 2 ^ (k + 7)) by (rewrite Hpk; nia).
      unfold u64. rewrite N.mod_small.
      2:{ apply N.lt_le_trans with (2 ^ (k + 7)); [assumption|].
          unfold two64. change 18446744073709551616 with (2 ^ 64). apply N.pow_le_mono_r; lia. }
      (* either the remaining value already overflows, or c's group does: but c*2^k < 2^63 *)
      apply IH; try assumption; try lia.
      * rewrite Hpk.
        assert (c * 2 ^ k < 2 ^ 63).
        { assert (2 ^ k <= 2 ^ 56) by (apply N.pow_le_mono_r; lia).
          change (2 ^ 56) with 72057594037927936 in *. change (2 ^ 63) with 9223372036854775808. nia. }
        (* (c + 128 n) 2^k >= 2^64, c 2^k < 2^63  =>  128 n 2^k >= 2^63 ... need >= 2^64:
           use divisibility: 128 n 2^k is a multiple of 2^(k+7); 2^64 - c 2^k > 2^64 - 2^(k+7) *)
        unfold two64 in *. change 18446744073709551616 with (2 ^ 64) in *.
        assert (H64 : 2 ^ 64 = 2 ^ (64 - (k + 7)) * (2 ^ k * 128)).
        { rewrite <- Hpk, <- N.pow_add_r. f_equal. lia. }
        set (q := 2 ^ (64 - (k + 7))) in *. set (u := 2 ^ k * 128) in *.
        assert (0 < u) by (subst u; assert (0 < 2 ^ k) by (apply N.neq_0_lt_0, N.pow_nonzero; lia); lia).
        assert (c * 2 ^ k < u) by (subst u; nia).
        replace (n * (2 ^ k * 128)) with (n * u) by reflexivity.
        rewrite H64 in *. replace ((c + 128 * n) * 2 ^ k) with (c * 2 ^ k + n * u) in Hbig by (subst u; lia).
        destruct (N.le_gt_cases q n) as [?|Hlt]; [nia|exfalso].
        assert (n + 1 <= q) by lia. nia.
Qed.

Theorem uint_overflow_flagged_lemma bs n rest :
  enc_ok_uint bs n -> two64 <= n -> dec_uint (bs ++ rest) = ErrOverflow.
Proof.
  intros Hok Hn. rewrite dec_uint_as_loop.
  apply (dec_uint_loop_overflow bs n Hok); try lia; reflexivity.
Qed.

(* ================================================================== packed integers *)
Lemma shiftr_small b k : b < 2 ^ k -> N.shiftr b k = 0.
Proof. intros H. rewrite N.shiftr_div_pow2. apply N.div_small. assumption. Qed.

Lemma shiftr_big b k : 2 ^ k <= b -> 0 < N.shiftr b k.
Proof.
  intros H. rewrite N.shiftr_div_pow2.
  assert (0 < 2 ^ k) by (apply N.neq_0_lt_0, N.pow_nonzero; lia).
  apply N.div_str_pos. lia.
Qed.

Lemma dec_int_loop_enc fuel : forall v acc k rest,
  acc < 2 ^ k -> k <= 62 -> v < 2 ^ (63 - k) -> v < 2 ^ (7 * N.of_nat (S fuel)) ->
  dec_int_loop (enc_uint_f fuel v ++ rest) acc k = Ok (acc + v * 2 ^ k, rest).
Proof.
  induction fuel as [|f IH]; intros v acc k rest Hacc Hk Hv Hfuel.
  - change (2 ^ (7 * N.of_nat 1)) with 128 in Hfuel.
    rewrite enc_uint_f_unfold. rewrite N.mod_small by assumption.
    cbn [app dec_int_loop].
    rewrite (shiftr_small v (63 - k)) by assumption. cbn [N.ltb N.compare]. rewrite andb_false_r.
    rewrite land127, N.mod_small by assumption. rewrite land128_of_small by assumption.
    cbn [N.ltb N.compare]. rewrite lor_disjoint by assumption.
    unfold u64. rewrite N.mod_small; [reflexivity|].
    unfold two64. change 18446744073709551616 with (2 ^ 64).
    apply N.lt_le_trans with (2 ^ 63); [|apply N.pow_le_mono_r; lia].
    assert (H63 : 2 ^ 63 = 2 ^ k * 2 ^ (63 - k)) by (rewrite <- N.pow_add_r; f_equal; lia).
    rewrite H63. nia.
  - rewrite enc_uint_f_unfold.
    assert (Hm : v mod 128 < 128) by (apply N.mod_lt; lia).
    destruct (128 <=? v) eqn:E.
    + assert (Hk' : k + 7 <= 62).
      { destruct (N.le_gt_cases (k + 7) 62) as [?|Hgt]; [assumption|exfalso].
        assert (63 - k <= 7) by lia.
        assert (2 ^ (63 - k) <= 2 ^ 7) by (apply N.pow_le_mono_r; lia).
        change (2 ^ 7) with 128 in *. lia. }
      cbn [app dec_int_loop].
      replace (56 <? k) with false by (symmetry; apply N.ltb_ge; lia). cbn [andb].
      rewrite land127_cont, land128_cont by assumption. cbn [N.ltb N.compare].
      rewrite lor_disjoint by assumption.
      assert (Hpk : 2 ^ (k + 7) = 2 ^ k * 128) by (rewrite N.pow_add_r; reflexivity).
      assert (Hbound : acc + v mod 128 * 2 ^ k < 2 ^ (k + 7)) by (rewrite Hpk; nia).
      unfold u64. rewrite N.mod_small.
      2:{ apply N.lt_le_trans with (2 ^ (k + 7)); [assumption|].
          unfold two64. change 18446744073709551616 with (2 ^ 64). apply N.pow_le_mono_r; lia. }
      rewrite IH; try assumption; try lia.
      * f_equal. f_equal. rewrite Hpk.
        pose proof (N.div_mod v 128 ltac:(lia)). nia.
      * assert (H64 : 2 ^ (63 - k) = 2 ^ (63 - (k + 7)) * 128).
        { replace (63 - k) with (63 - (k + 7) + 7) by lia. rewrite N.pow_add_r. reflexivity. }
        rewrite H64 in Hv. apply N.div_lt_upper_bound; lia.
      * replace (7 * N.of_nat (S (S f))) with (7 * N.of_nat (S f) + 7) in Hfuel by lia.
        rewrite N.pow_add_r in Hfuel. change (2 ^ 7) with 128 in Hfuel.
        apply N.div_lt_upper_bound; lia.
    + cbn [app dec_int_loop].
      assert (Hv' : v mod 128 = v) by (apply N.mod_small; lia). rewrite Hv'.
      rewrite (shiftr_small v (63 - k)) by assumption. cbn [N.ltb N.compare]. rewrite andb_false_r.
      rewrite land127, Hv'. rewrite land128_of_small by lia. cbn [N.ltb N.compare].
      rewrite lor_disjoint by assumption. unfold u64. rewrite N.mod_small; [reflexivity|].
      unfold two64. change 18446744073709551616 with (2 ^ 64).
      apply N.lt_le_trans with (2 ^ 63); [|apply N.pow_le_mono_r; lia].
      assert (H63 : 2 ^ 63 = 2 ^ k * 2 ^ (63 - k)) by (rewrite <- N.pow_add_r; f_equal; lia).
    rewrite H63. nia.
Qed.

Definition two63 : N := 9223372036854775808.

Lemma first_byte_facts nb bits lo :
  1 <= nb <= 4 -> bits < 2 ^ nb -> lo < 2 ^ (7 - nb) ->
  let first := N.land (N.lor bits (N.shiftl lo nb)) 255 in
  first = bits + lo * 2 ^ nb /\ first < 128.
Proof.
  intros Hnb Hbits Hlo first. subst first.
  rewrite lor_disjoint by assumption.
  assert (Hlt : bits + lo * 2 ^ nb < 128).
  { assert (2 ^ 7 = 2 ^ (7 - nb) * 2 ^ nb) by (rewrite <- N.pow_add_r; f_equal; lia).
    change (2 ^ 7) with 128 in *. nia. }
  change 255 with (N.ones 8). rewrite N.land_ones. change (2 ^ 8) with 256.
  rewrite N.mod_small by lia. split; [reflexivity|assumption].
Qed.

Theorem int_internal_roundtrip_lemma v nb bits rest :
  1 <= nb <= 4 -> bits < 2 ^ nb -> v < two63 ->
  dec_int_internal nb (enc_int_internal v nb bits ++ rest) = Ok (v, bits, rest).
Proof.
  intros Hnb Hbits Hv. unfold enc_int_internal.
  rewrite N.land_ones, N.shiftr_div_pow2.
  set (m := 7 - nb). set (lo := v mod 2 ^ m).
  assert (Hm0 : 0 < 2 ^ m) by (apply N.neq_0_lt_0, N.pow_nonzero; lia).
  assert (Hnb0 : 0 < 2 ^ nb) by (apply N.neq_0_lt_0, N.pow_nonzero; lia).
  assert (Hlo : lo < 2 ^ m) by (apply N.mod_lt; lia).
  destruct (first_byte_facts nb bits lo Hnb Hbits Hlo) as [Hf Hf128].
  set (first := N.land (N.lor bits (N.shiftl lo nb)) 255) in *.
  assert (Hdm : v = 2 ^ m * (v / 2 ^ m) + lo) by (apply N.div_mod; lia).
  assert (Hsh : N.shiftr first nb = lo).
  { rewrite N.shiftr_div_pow2, Hf. rewrite N.div_add by lia. rewrite N.div_small by assumption. reflexivity. }
  assert (Hbits' : first mod 2 ^ nb = bits).
  { rewrite Hf. rewrite N.mod_add by lia. apply N.mod_small. assumption. }
  destruct (0 <? v / 2 ^ m) eqn:E.
  - (* continuation *)
    rewrite lor128 by assumption. cbn [app dec_int_internal].
    rewrite land127_cont, land128_cont by assumption. cbn [N.ltb N.compare].
    rewrite Hsh. rewrite N.land_ones.
    assert (Hb2 : (first + 128) mod 2 ^ nb = bits).
    { assert (H128 : 128 = 2 ^ (7 - nb) * 2 ^ nb) by (rewrite <- N.pow_add_r; replace (7 - nb + nb) with 7 by lia; reflexivity).
      rewrite H128. rewrite N.mod_add by lia. exact Hbits'. }
    rewrite Hb2.
    rewrite dec_int_loop_enc.
    + cbn [obind]. f_equal. f_equal. f_equal. fold m. lia.
    + fold m. exact Hlo.
    + lia.
    + (* v / 2^m < 2 ^ (63 - m) *)
      assert (H63 : two63 = 2 ^ (63 - m) * 2 ^ m).
      { unfold two63. change 9223372036854775808 with (2 ^ 63). rewrite <- N.pow_add_r. f_equal. lia. }
      apply N.div_lt_upper_bound; [lia|]. fold m. rewrite N.mul_comm. rewrite <- H63. exact Hv.
    + apply N.lt_le_trans with two63.
      * apply N.le_lt_trans with v; [|assumption]. apply N.div_le_upper_bound; [lia|]. nia.
      * unfold two63. change 9223372036854775808 with (2 ^ 63). apply N.pow_le_mono_r; lia.
  - cbn [app dec_int_internal].
    rewrite land127, N.mod_small by assumption. rewrite land128_of_small by assumption.
    cbn [N.ltb N.compare]. rewrite Hsh, N.land_ones, Hbits'.
    apply N.ltb_ge in E. assert (Hq : v / 2 ^ m = 0) by (apply N.le_0_r; exact E).
    rewrite Hq, N.mul_0_r, N.add_0_l in Hdm. rewrite <- Hdm. reflexivity.
Qed.

(* ------------------------------------------------------------------ signed integers *)
Definition fits63 (z : Z) : Prop := (- Z.of_N two63 < z < Z.of_N two63)%Z.

Theorem int_roundtrip_lemma z rest : fits63 z -> dec_int (enc_int z ++ rest) = Ok (z, rest).
Proof.
  unfold fits63, dec_int, enc_int. intros Hz.
  destruct (z <? 0)%Z eqn:E.
  - rewrite int_internal_roundtrip_lemma; [|lia|reflexivity|unfold two63 in *; lia].
    cbn [obind N.ltb N.compare]. f_equal. f_equal. lia.
  - rewrite int_internal_roundtrip_lemma; [|lia|reflexivity|unfold two63 in *; lia].
    cbn [obind N.ltb N.compare]. f_equal. f_equal. lia.
Qed.

(* ------------------------------------------------------------------ deltas *)
Ltac delta_case :=
  rewrite int_internal_roundtrip_lemma;
  [cbn [obind dir_vec N.shiftr Pos.div2 N.land N.ltb N.compare Pos.land N.eqb Pos.eqb Pos.shiftr Pos.iter N.div2];
   repeat f_equal; lia
  | lia | reflexivity | unfold two63 in *; lia].

Theorem delta2_roundtrip_lemma x y rest :
  fits63 x -> fits63 y -> (x = 0 \/ y = 0)%Z ->
  dec_2delta (enc_2delta x y ++ rest) = Ok (x, y, rest).
Proof.
  unfold fits63, dec_2delta, enc_2delta. intros Hx Hy Hxy.
  destruct (x =? 0)%Z eqn:Ex; [destruct (y <? 0)%Z eqn:Ey|destruct (y =? 0)%Z eqn:Ey;
    [destruct (x <? 0)%Z eqn:Ex2|exfalso; lia]]; delta_case.
Qed.

Definition octangular (x y : Z) : Prop := (x = 0 \/ y = 0 \/ x = y \/ x = - y)%Z.

Theorem delta3_roundtrip_lemma x y rest :
  fits63 x -> fits63 y -> octangular x y ->
  dec_3delta (enc_3delta x y ++ rest) = Ok (x, y, rest).
Proof.
  unfold fits63, dec_3delta, enc_3delta, octangular. intros Hx Hy Hxy.
  destruct (x =? 0)%Z eqn:Ex; [destruct (y <? 0)%Z eqn:Ey; delta_case|].
  destruct (y =? 0)%Z eqn:Ey; [destruct (x <? 0)%Z eqn:Ex2; delta_case|].
  destruct (x =? y)%Z eqn:Exy; [destruct (x <? 0)%Z eqn:Ex2; delta_case|].
  destruct (x =? - y)%Z eqn:Exy2; [destruct (x <? 0)%Z eqn:Ex2; delta_case|].
  exfalso; lia.
Qed.

(* first byte of enc_int_internal is even exactly when bit 0 of [bits] is 0 *)
Lemma enc_int_internal_head v nb bits :
  1 <= nb <= 4 -> bits < 2 ^ nb ->
  exists b tl, enc_int_internal v nb bits = b :: tl /\ N.land b 1 = N.land bits 1.
Proof.
  intros Hnb Hbits. unfold enc_int_internal.
  rewrite N.land_ones.
  set (m := 7 - nb). set (lo := v mod 2 ^ m).
  assert (Hm0 : 0 < 2 ^ m) by (apply N.neq_0_lt_0, N.pow_nonzero; lia).
  assert (Hlo : lo < 2 ^ m) by (apply N.mod_lt; lia).
  destruct (first_byte_facts nb bits lo Hnb Hbits Hlo) as [Hf Hf128].
  set (first := N.land (N.lor bits (N.shiftl lo nb)) 255) in *.
  assert (Hpar : first mod 2 = bits mod 2).
  { rewrite Hf. assert (H2 : 2 ^ nb = 2 * 2 ^ (nb - 1)).
    { replace nb with (1 + (nb - 1)) at 1 by lia. rewrite N.pow_add_r. reflexivity. }
    rewrite H2. replace (lo * (2 * 2 ^ (nb - 1))) with ((lo * 2 ^ (nb - 1)) * 2) by lia.
    apply N.mod_add. lia. }
  assert (Hl1 : forall a, N.land a 1 = a mod 2).
  { intros a. change 1 with (N.ones 1). rewrite N.land_ones. reflexivity. }
  destruct (0 <? N.shiftr v m).
  - exists (N.lor first 128), (enc_uint_f 8 (N.shiftr v m)). split; [reflexivity|].
    rewrite lor128 by assumption. rewrite !Hl1. rewrite <- Hpar. change 128 with (64 * 2).
    rewrite N.mod_add by lia. reflexivity.
  - exists first, []. split; [reflexivity|]. rewrite !Hl1. exact Hpar.
Qed.

Theorem gdelta_roundtrip_lemma x y rest :
  fits63 x -> fits63 y ->
  dec_gdelta (enc_gdelta x y ++ rest) = Ok (x, y, rest).
Proof.
  unfold fits63. intros Hx Hy. unfold dec_gdelta, enc_gdelta.
  Ltac head_even v nb bits :=
    let b := fresh "b" in let tl := fresh "tl" in let He := fresh "He" in let Hb := fresh "Hb" in
    destruct (enc_int_internal_head v nb bits ltac:(lia) ltac:(reflexivity)) as (b & tl & He & Hb);
    rewrite He; cbn [app]; rewrite Hb; cbn [N.land Pos.land N.eqb];
    match goal with |- context [b :: tl ++ ?r] => change (b :: tl ++ r) with ((b :: tl) ++ r) end;
    rewrite <- He; clear b tl He Hb.
  destruct (x =? 0)%Z eqn:Ex.
  { destruct (y <? 0)%Z eqn:Ey.
    - head_even (Z.to_N (- y)) 4 6. delta_case.
    - head_even (Z.to_N y) 4 2. delta_case. }
  destruct (y =? 0)%Z eqn:Ey.
  { destruct (x <? 0)%Z eqn:Ex2.
    - head_even (Z.to_N (- x)) 4 4. delta_case.
    - head_even (Z.to_N x) 4 0. delta_case. }
  destruct (x =? y)%Z eqn:Exy.
  { destruct (x <? 0)%Z eqn:Ex2.
    - head_even (Z.to_N (- x)) 4 12. delta_case.
    - head_even (Z.to_N x) 4 8. delta_case. }
  destruct (x =? - y)%Z eqn:Exy2.
  { destruct (x <? 0)%Z eqn:Ex2.
    - head_even (Z.to_N (- x)) 4 10. delta_case.
    - head_even (Z.to_N x) 4 14. delta_case. }
  (* general form: two packed integers *)
  rewrite <- app_assoc.
  destruct (x <? 0)%Z eqn:Ex2.
  - head_even (Z.to_N (- x)) 2 3.
    rewrite int_internal_roundtrip_lemma; [|lia|reflexivity|unfold two63 in *; lia].
    cbn [obind].
    destruct (y <? 0)%Z eqn:Ey2;
      (rewrite int_internal_roundtrip_lemma; [|lia|reflexivity|unfold two63 in *; lia]);
      cbn [obind];
      repeat match goal with |- context [0 <? N.land ?a ?b] =>
        let r := eval vm_compute in (0 <? N.land a b) in change (0 <? N.land a b) with r end;
      cbv iota; repeat f_equal; lia.
  - head_even (Z.to_N x) 2 1.
    rewrite int_internal_roundtrip_lemma; [|lia|reflexivity|unfold two63 in *; lia].
    cbn [obind].
    destruct (y <? 0)%Z eqn:Ey2;
      (rewrite int_internal_roundtrip_lemma; [|lia|reflexivity|unfold two63 in *; lia]);
      cbn [obind];
      repeat match goal with |- context [0 <? N.land ?a ?b] =>
        let r := eval vm_compute in (0 <? N.land a b) in change (0 <? N.land a b) with r end;
      cbv iota; repeat f_equal; lia.
Qed.

(* the executable oracle computes exactly the relation *)
Lemma spec_uint_value_ok bs n : enc_ok_uint bs n -> forall rest, spec_uint_value (bs ++ rest) = Some (n, rest).
Proof.
  induction 1 as [b Hb | b bs n Hb Hok IH]; intros rest; cbn [app spec_uint_value].
  - replace (b <? 128) with true by (symmetry; apply N.ltb_lt; assumption). reflexivity.
  - replace (b <? 128) with false by (symmetry; apply N.ltb_ge; lia). rewrite IH. reflexivity.
Qed.

Lemma spec_uint_value_sound bs : Forall (fun b => b < 256) bs -> forall n rest,
  spec_uint_value bs = Some (n, rest) -> exists pre, bs = pre ++ rest /\ enc_ok_uint pre n.
Proof.
  induction 1 as [|b tl Hb Htl IH]; intros n rest; cbn [spec_uint_value]; [discriminate|].
  destruct (b <? 128) eqn:E.
  - intros [= <- <-]. exists [b]. split; [reflexivity|]. constructor. apply N.ltb_lt. assumption.
  - destruct (spec_uint_value tl) as [[m r]|] eqn:Es; [|discriminate].
    intros [= <- <-]. destruct (IH m r eq_refl) as (pre & -> & Hpre).
    exists (b :: pre). split; [reflexivity|]. constructor; [|assumption].
    apply N.ltb_ge in E. lia.
Qed.
