(* Model of the OASIS real codec of src/oasis.cpp (oasis_write_real, oasis_read_real,
   oasis_read_real_by_type) on IEEE binary64 bit patterns; the floating-point operations of the C++
   (`1.0 / value`, `(double)uint64`, `num / den`, float -> double) are Flocq's binary64 operations.
   Definitions only. *)
Require Import Base OasisInt GdsReal.
From Flocq Require Import Core BinarySingleNaN Binary Bits.
Local Open Scope Z_scope.

Definition b64_one : binary64 := b64_of_bits 4607182418800017408.          (* 0x3FF0000000000000 *)
Definition b64_qnan_bits : N := 9221120237041090560%N.                     (* 0x7FF8000000000000 *)

(* (double)uint64_t : round to nearest even *)
Definition b64_of_uint (n : N) : binary64 :=
  Binary.binary_normalize 53 1024 eq_refl eq_refl mode_NE (Z.of_N n) 0 false.

(* `trunc(v) == v && fabs(v) < (double)UINT64_MAX` ((double)UINT64_MAX = 2^64): the magnitude as an
   integer when the test holds.  trunc(inf) == inf but inf < 2^64 fails; NaN == NaN fails. *)
Definition int_magnitude_lt64 (f : binary64) : option Z :=
  match f with
  | B754_zero _ _ _ => Some 0
  | B754_finite _ _ _ m e _ =>
      if 0 <=? e then
        let v := Z.pos m * 2 ^ e in if v <? 2 ^ 64 then Some v else None
      else if Z.pos m mod 2 ^ (- e) =? 0 then
        let v := Z.pos m / 2 ^ (- e) in if v <? 2 ^ 64 then Some v else None
      else None
  | _ => None
  end.

(* `value >= 0` (true for -0.0, false for NaN) *)
Definition b64_ge0 (f : binary64) : bool :=
  match f with
  | B754_zero _ _ _ => true
  | B754_infinity _ _ s => negb s
  | B754_finite _ _ s _ _ _ => negb s
  | B754_nan _ _ _ _ _ => false
  end.

(* `a == b` on doubles (false when either is NaN, true for -0.0 == 0.0) *)
Definition b64_eqb (a b : binary64) : bool :=
  match b64_compare a b with Some Eq => true | _ => false end.

(* oasis_write_real on the bit pattern of the double:
     integer-valued and |value| < 2^64                       -> types 0 / 1 with the magnitude
     inverse = 1.0 / value integer-valued, |inverse| < 2^64
        and 1.0 / inverse == value                           -> types 2 / 3 with |inverse|
     otherwise                                               -> type 7 and the 8 bytes
   little_endian_swap64 is the identity on a little-endian host: the 8 bytes written are the
   little-endian bytes of the pattern. *)
Definition enc_real (bits : N) : list N :=
  let value := b64_of_bits (Z.of_N bits) in
  match int_magnitude_lt64 value with
  | Some v => (if b64_ge0 value then 0%N else 1%N) :: enc_uint (Z.to_N v)
  | None =>
      let inverse := b64_div mode_NE b64_one value in
      match int_magnitude_lt64 inverse with
      | Some v =>
          if b64_eqb (b64_div mode_NE b64_one inverse) value
          then (if b64_ge0 inverse then 2%N else 3%N) :: enc_uint (Z.to_N v)
          else 7%N :: bytes_le 8 bits
      | None => 7%N :: bytes_le 8 bits
      end
  end.

(* float -> double is exact *)
Definition b64_of_b32 (f : binary32) : option binary64 :=
  match f with
  | B754_zero _ _ s => Some (B754_zero 53 1024 s)
  | B754_infinity _ _ s => Some (B754_infinity 53 1024 s)
  | B754_nan _ _ _ _ _ => None
  | B754_finite _ _ s m e _ =>
      Some (Binary.binary_normalize 53 1024 eq_refl eq_refl mode_NE (cond_Zopp s (Z.pos m)) e s)
  end.

Fixpoint take_bytes (n : nat) (bs : list N) : option (list N * list N) :=
  match n with
  | O => Some ([], bs)
  | S k => match bs with
           | [] => None
           | b :: t => match take_bytes k t with
                       | None => None
                       | Some (l, r) => Some (b :: l, r)
                       end
           end
  end.

Definition bits64 (f : binary64) : N := Z.to_N (bits_of_b64 f).

(* oasis_read_real_by_type: the bit pattern of the double returned, and the remaining bytes *)
Definition dec_real_by_type (ty : N) (bs : list N) : outcome (N * list N) :=
  match ty with
  | 0%N => obind (dec_uint bs) (fun '(n, r) => Ok (bits64 (b64_of_uint n), r))
  | 1%N => obind (dec_uint bs) (fun '(n, r) => Ok (bits64 (b64_opp (b64_of_uint n)), r))
  | 2%N => obind (dec_uint bs) (fun '(n, r) => Ok (bits64 (b64_div mode_NE b64_one (b64_of_uint n)), r))
  | 3%N => obind (dec_uint bs) (fun '(n, r) =>
             Ok (bits64 (b64_div mode_NE (b64_opp b64_one) (b64_of_uint n)), r))
  | 4%N => obind (dec_uint bs) (fun '(num, r) => obind (dec_uint r) (fun '(den, r') =>
             Ok (bits64 (b64_div mode_NE (b64_of_uint num) (b64_of_uint den)), r')))
  | 5%N => obind (dec_uint bs) (fun '(num, r) => obind (dec_uint r) (fun '(den, r') =>
             Ok (bits64 (b64_div mode_NE (b64_opp (b64_of_uint num)) (b64_of_uint den)), r')))
  | 6%N => match take_bytes 4 bs with
           | None => ErrEof
           | Some (l, r) =>
               match b64_of_b32 (b32_of_bits (Z.of_N (of_bytes_le l))) with
               | Some f => Ok (bits64 f, r)
               | None => Ok (b64_qnan_bits, r)      (* some NaN; the payload is not modelled *)
               end
           end
  | 7%N => match take_bytes 8 bs with
           | None => ErrEof
           | Some (l, r) => Ok (of_bytes_le l, r)
           end
  | _ => ErrInvalid
  end.

(* oasis_read_real: type byte, then the value *)
Definition dec_real (bs : list N) : outcome (N * list N) :=
  match bs with
  | [] => ErrEof
  | ty :: t => dec_real_by_type ty t
  end.

(* finite doubles: exponent field below 2047 *)
Definition dbl_finite (bits : N) : bool := (N.land (N.shiftr bits 52) 2047 <? 2047)%N && (bits <? 2 ^ 64)%N.
