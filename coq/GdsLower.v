(* C01 / unit c01_lower -- the LOWERING of a gdstk library to the database grid, one level above
   GdsWrite.v:  what Library::write_gds (src/library.cpp), Cell::to_gds (src/cell.cpp),
   Polygon::to_gds, FlexPath::to_gds (simple paths), Label::to_gds and Reference::to_gds do with
   the user-unit coordinates, the attached repetition and the placement of every element BEFORE the
   bytes are produced: multiplication by `scaling`, `lround`, one record group per repetition offset,
   and the AREF-or-SREFs decision of Reference::to_gds.  The result is a `glib` of GdsModel.v, which
   GdsWrite.v serialises and GdsRoundtrip.v re-loads.

   Numbers.  Coordinates are exact rationals (Q), as in Repetition.v (whose `rep`, `offsets`,
   `count` model Repetition::get_offsets / get_count and are REUSED here) and Affine.v: every finite
   double is a dyadic rational, and on the inputs the harness generates (dyadic numbers of moderate
   size, power-of-two or 3*2^k scalings) every sum and product below is exact in double arithmetic.
   Doubles that only travel (magnification, rotation in degrees, the two UNITS values) are carried as
   their binary64 bit patterns and converted by the model of gdsii_real_from_double (GdsReal.v, C19).

   What is NOT exact in the C++ and how it is modelled:
   * `sin(rotation)`, `cos(rotation)`, `Vec2::normalize` (sqrt) in Reference::to_gds.  The rotation of a
     reference is data of one of three forms: RotZero (rotation == 0), RotQuarter m (the double for
     which is_multiple_of_pi_over_2 answers true with this m; cos / sin are taken as the exact
     quarter-turn pair although the real cos(pi/2) is 6.1e-17), RotExact c s (any other angle, with an
     exact pair c^2 + s^2 = 1 the double rotation stands for).
   * the test  `len == 0 || fabs(fabs(p) - 1.0) < GDSTK_REFERENCE_REPETITION_TOLERANCE`  with
     p = (v / |v|) . a  is evaluated in EXACT arithmetic without the square root:
         v.v == 0  ||  ( (1-tol)^2 (v.v) < (v.a)^2  &&  (v.a)^2 < (1+tol)^2 (v.v) )          [aligned]
     which is the same statement about the real number p.  The double computation carries an error of
     a few 1e-16 on p, so model and code agree whenever |p| is not within ~1e-15 of 1 - 1e-12 (or of
     1 + 1e-12, which |p| <= 1 cannot reach).  The harness only generates lattices that are exactly
     parallel to a rotated axis (|p| = 1 up to rounding, including the cos(pi/2) = 6e-17 effect, which
     moves p by 6e-17), at a controlled small skew (|p| = 1 - 5e-13 or 1 - 2e-12: margin 5e-13), or far
     from parallel (|p| < 1 - 1e-6).
   * element_center of a simple FlexPath with zero offsets and no bends returns the spine itself (the
     intersection parameters it computes are exactly 0); paths with offsets / bends are outside.

   Definitions only; proofs in GdsLowerProofs.v. *)
From Coq Require Import QArith Qround Qabs Permutation.
Require Import Base GdsFrame GdsModel GdsWrite GdsReal Repetition.
Local Open Scope Q_scope.

(* ------------------------------------------------------------------ numbers *)
(* lround: nearest integer, halfway cases away from zero *)
Definition lround (x : Q) : Z :=
  if Qle_bool 0 x then Qfloor (x + (1 # 2)) else (- Qfloor (- x + (1 # 2)))%Z.

(* exact value of a finite binary64 pattern (0 for +-0; infinities / NaN are outside the model) *)
Definition q_of_dbl (bits : N) : Q :=
  match dbl_decompose bits with
  | None => 0
  | Some (neg, m, e) => Qred ((if neg then - inject_Z m else inject_Z m) * Qpow2 e)
  end.
Definition q_of_frac (n : Z) (d : N) : Q :=
  match d with N0 => 0 | Npos p => Qred (n # p) end.

(* gdsii_real_from_double on a bit pattern: `if (value == 0) return 0;` then the codec of GdsReal.v *)
Definition gds_real_of_dbl (bits : N) : N :=
  match dbl_decompose bits with
  | None => 0%N
  | Some (neg, m, e) => gds_encode neg m e
  end.

(* ------------------------------------------------------------------ rotation of a label / reference *)
Inductive srot : Type :=
| RotZero                                (* rotation == 0 *)
| RotQuarter (m : Z) (deg : N)           (* is_multiple_of_pi_over_2(rotation, m), rotation != 0 *)
| RotExact (c s : Q) (deg : N).          (* any other angle; (c, s) = exact (cos, sin) it stands for *)
(* deg = binary64 pattern of `rotation * (180.0 / M_PI)` *)

Definition rot_quarter (r : srot) : bool := match r with RotExact _ _ _ => false | _ => true end.
Definition rot_cs (r : srot) : Q * Q :=
  match r with
  | RotZero => (1, 0)
  | RotQuarter m _ =>
      match (m mod 4)%Z with
      | 0%Z => (1, 0) | 1%Z => (0, 1) | 2%Z => (- (1), 0) | _ => (0, - (1))
      end
  | RotExact c s _ => (c, s)
  end.
(* `if (rotation != 0) rot_real = gdsii_real_from_double(rotation * (180.0 / M_PI))`, else no ANGLE record
   (which GdsWrite.strans_records expresses by the pattern 0) *)
Definition rot_real (r : srot) : N :=
  match r with RotZero => 0%N | RotQuarter _ d | RotExact _ _ d => gds_real_of_dbl d end.

(* ------------------------------------------------------------------ source elements *)
Record spoly := { sp_layer : Z; sp_type : Z; sp_pts : list vec; sp_props : gprops; sp_rep : rep }.

Inductive send := SFlush | SRound | SHalf | SExt | SSmooth | SFunc.
(* one FlexPathElement of a simple path: tag, end type, half_width_and_offset[0].u, end_extensions *)
Record spel := { se_layer : Z; se_type : Z; se_end : send; se_hw : Q; se_ext : Q * Q }.
Record spath := { sh_spine : list vec; sh_tolsq : Q (* spine.tolerance squared *); sh_els : list spel;
                  sh_scale_width : bool; sh_props : gprops; sh_rep : rep }.

Record slabel := { sl_layer : Z; sl_type : Z; sl_text : bytes; sl_origin : vec; sl_anchor : N;
                   sl_refl : bool; sl_mag : N (* binary64 pattern *); sl_rot : srot;
                   sl_props : gprops; sl_rep : rep }.
Record sref := { sr_name : bytes; sr_origin : vec; sr_refl : bool; sr_mag : N (* binary64 pattern *);
                 sr_rot : srot; sr_props : gprops; sr_rep : rep }.

Record scell := { sc_name : bytes; sc_polys : list spoly; sc_paths : list spath;
                  sc_labels : list slabel; sc_refs : list sref }.
(* su_units = binary64 patterns of `precision / unit` and `precision`; su_scaling = `unit / precision` *)
Record slib := { su_name : bytes; su_units : N * N; su_scaling : Q; su_cells : list scell }.

(* ------------------------------------------------------------------ repetition offsets as the writers use them *)
(* `if (repetition.type != None) repetition.get_offsets(offsets); else { offsets.count = 1; items = &zero; }` *)
Definition rep_offsets (r : rep) : list vec :=
  match r with RNone => [(0, 0)] | _ => offsets r end.

(* ------------------------------------------------------------------ error codes of the writers *)
Inductive werr := WNone | WEmptyPath | WUnofficial | WInvalidRep.
(* `if (err != ErrorCode::NoError) error_code = err;` *)
Definition werr_then (acc e : werr) : werr := match e with WNone => acc | _ => e end.
(* properties_to_gds: `count += len` over the padded values; `if (count > 128) return UnofficialSpecification` *)
Definition props_bytes (ps : gprops) : nat := fold_right (fun p acc => (length (pad_even (snd p)) + acc)%nat) O ps.
Definition props_err (ps : gprops) : werr := if (128 <? props_bytes ps)%nat then WUnofficial else WNone.
(* the error left by a loop over the offsets that calls properties_to_gds once per copy *)
Definition loop_props_err (offs : list vec) (ps : gprops) : werr :=
  match offs with [] => WNone | _ => props_err ps end.

(* ------------------------------------------------------------------ Polygon::to_gds *)
(* `(int32_t)lround((offset_x + p->x) * scaling)` *)
Definition poly_pt (s : Q) (off p : vec) : pt :=
  (lround ((fst off + fst p) * s), lround ((snd off + snd p) * s)).

Definition lower_poly (s : Q) (p : spoly) : list gpoly :=
  if (length (sp_pts p) <? 3)%nat then []                    (* if (point_array.count < 3) return *)
  else map (fun off => {| p_layer := sp_layer p; p_type := sp_type p;
                          p_pts := map (poly_pt s off) (sp_pts p); p_props := sp_props p |})
           (rep_offsets (sp_rep p)).
Definition poly_err (p : spoly) : werr :=
  if (length (sp_pts p) <? 3)%nat then WNone
  else werr_then (if (8190 <? N.of_nat (length (sp_pts p)) + 1)%N then WUnofficial else WNone)
                 (loop_props_err (rep_offsets (sp_rep p)) (sp_props p)).

(* ------------------------------------------------------------------ FlexPath::to_gds (simple path) *)
(* remove_overlapping_points: a point closer than the tolerance to the last KEPT point is dropped *)
Definition dist_sq (a b : vec) : Q :=
  (fst a - fst b) * (fst a - fst b) + (snd a - snd b) * (snd a - snd b).
Fixpoint rm_overlap (tolsq : Q) (prev : vec) (l : list vec) : list vec :=
  match l with
  | [] => []
  | p :: tl => if Qlt_bool (dist_sq p prev) tolsq then rm_overlap tolsq prev tl
               else p :: rm_overlap tolsq p tl
  end.
Definition clean_spine (tolsq : Q) (l : list vec) : list vec :=
  match l with [] => [] | p0 :: tl => p0 :: rm_overlap tolsq p0 tl end.

Definition end_of (e : send) : endt :=
  match e with SHalf => EHalf | SExt => EExt | SRound => ERound | SSmooth => ERound | _ => EFlush end.

(* `(int32_t)lround(( *p++ + offset_x) * scaling)` *)
Definition path_pt (s : Q) (off p : vec) : pt :=
  (lround ((fst p + fst off) * s), lround ((snd p + snd off) * s)).

Definition lower_path_el (s : Q) (h : spath) (spine : list vec) (el : spel) : list gpath :=
  let en := end_of (se_end el) in
  let width := lround (2 * se_hw el * s) in
  let ext := match en with
             | EExt => (lround (fst (se_ext el) * s), lround (snd (se_ext el) * s))
             | _ => (0, 0)%Z                                  (* int32_t ext_size[] = {0, 0} *)
             end in
  map (fun off => {| h_layer := se_layer el; h_type := se_type el; h_end := en; h_width := width;
                     h_scale_width := sh_scale_width h; h_ext := ext;
                     h_pts := map (path_pt s off) spine; h_props := sh_props h |})
      (rep_offsets (sh_rep h)).

Definition lower_path (s : Q) (h : spath) : list gpath :=
  let spine := clean_spine (sh_tolsq h) (sh_spine h) in     (* remove_overlapping_points() *)
  if (length spine <? 2)%nat then []                         (* return ErrorCode::EmptyPath *)
  else flat_map (lower_path_el s h spine) (sh_els h).        (* elements outer, offsets inner *)
Definition path_err (h : spath) : werr :=
  let spine := clean_spine (sh_tolsq h) (sh_spine h) in
  if (length spine <? 2)%nat then WEmptyPath
  else match sh_els h with [] => WNone | _ => loop_props_err (rep_offsets (sh_rep h)) (sh_props h) end.

(* ------------------------------------------------------------------ Label::to_gds *)
(* `(int32_t)lround((origin.x + offset_p->x) * scaling)` (also the SREF branch of Reference::to_gds) *)
Definition org_pt (s : Q) (origin off : vec) : pt :=
  (lround ((fst origin + fst off) * s), lround ((snd origin + snd off) * s)).

Definition lower_label (s : Q) (l : slabel) : list glabel :=
  map (fun off => {| l_layer := sl_layer l; l_type := sl_type l; l_text := sl_text l;
                     l_origin := org_pt s (sl_origin l) off; l_anchor := sl_anchor l;
                     l_refl := sl_refl l; l_mag := gds_real_of_dbl (sl_mag l); l_rot := rot_real (sl_rot l);
                     l_props := sl_props l |})
      (rep_offsets (sl_rep l)).
Definition label_err (l : slabel) : werr := loop_props_err (rep_offsets (sl_rep l)) (sl_props l).

(* ------------------------------------------------------------------ Reference::to_gds *)
Definition rep_tol : Q := 1 # 1000000000000.                   (* GDSTK_REFERENCE_REPETITION_TOLERANCE 1e-12 *)
Definition dot (a b : vec) : Q := fst a * fst b + snd a * snd b.
(* `len == 0 || fabs(fabs(u.inner(a)) - 1.0) < TOL` with u = v / len, in exact arithmetic (see the header) *)
Definition aligned (v a : vec) : bool :=
  Qeq_bool (dot v v) 0
  || (Qlt_bool ((1 - rep_tol) * (1 - rep_tol) * dot v v) (dot v a * dot v a)
      && Qlt_bool (dot v a * dot v a) ((1 + rep_tol) * (1 + rep_tol) * dot v v)).

(* an AREF: `columns`, `rows` after the possible swap, and the lattice vector multiplied by each:
   x2,y2 = origin + columns * a;  x3,y3 = origin + rows * b *)
Record aplan := { a_cols : N; a_rows : N; a_v : vec; a_w : vec }.

Definition lattice_test (c rw : N) (v1 v2 : vec) (cs : Q * Q) : option aplan :=
  let ca := fst cs in let sa := snd cs in
  if aligned v1 (ca, sa) && aligned v2 (- sa, ca) then            (* p1, p2 *)
    Some {| a_cols := c; a_rows := rw; a_v := v1; a_w := v2 |}
  else if aligned v1 (- sa, ca) && aligned v2 (ca, sa) then       (* p3, p4: columns <-> rows *)
    Some {| a_cols := rw; a_rows := c; a_v := v2; a_w := v1 |}
  else None.

Definition aref_plan (r : sref) : option aplan :=
  match sr_rep r with
  | RReg c rw v1 v2 => lattice_test c rw v1 v2 (rot_cs (sr_rot r))
  | RRect c rw sx sy =>
      if rot_quarter (sr_rot r) then lattice_test c rw (sx, 0) (0, sy) (rot_cs (sr_rot r)) else None
  | _ => None
  end.

(* `repetition.columns > UINT16_MAX || repetition.rows > UINT16_MAX` (symmetric, so the swap is immaterial) *)
Definition colrow_overflow (a : aplan) : bool := (65535 <? a_cols a)%N || (65535 <? a_rows a)%N.

(* the reader turns the lattice into a Regular repetition unless `rotation == 0 && !x_reflection`; the
   flag is reader-side information of GdsModel.grep that the writer does not use *)
Definition reads_regular (refl : bool) (rotreal : N) : bool :=
  negb ((real_mantissa rotreal =? 0)%N && negb refl).

(* `origin.x + columns * v1.x` with `columns` converted to double *)
Definition corner (origin v : vec) (n : N) : vec := (fst origin + qN n * fst v, snd origin + qN n * snd v).
Definition scale_pt (s : Q) (p : vec) : pt := (lround (fst p * s), lround (snd p * s)).

Definition lower_ref (s : Q) (r : sref) : list gref :=
  let mag := gds_real_of_dbl (sr_mag r) in
  let rt := rot_real (sr_rot r) in
  match aref_plan r with
  | Some a =>
      let ovf := colrow_overflow a in
      [ {| r_name := sr_name r; r_origin := scale_pt s (sr_origin r); r_refl := sr_refl r; r_mag := mag; r_rot := rt;
           r_rep := Some {| g_cols := if ovf then 65535%Z else Z.of_N (a_cols a);
                            g_rows := if ovf then 65535%Z else Z.of_N (a_rows a);
                            g_regular := reads_regular (sr_refl r) rt;
                            g_p2 := scale_pt s (corner (sr_origin r) (a_v a) (a_cols a));
                            g_p3 := scale_pt s (corner (sr_origin r) (a_w a) (a_rows a)) |};
           r_props := sr_props r |} ]
  | None =>
      map (fun off => {| r_name := sr_name r; r_origin := org_pt s (sr_origin r) off; r_refl := sr_refl r;
                         r_mag := mag; r_rot := rt; r_rep := None; r_props := sr_props r |})
          (rep_offsets (sr_rep r))
  end.
Definition ref_err (r : sref) : werr :=
  match aref_plan r with
  | Some a => werr_then (if colrow_overflow a then WInvalidRep else WNone) (props_err (sr_props r))
  | None => loop_props_err (rep_offsets (sr_rep r)) (sr_props r)
  end.

(* ------------------------------------------------------------------ Cell::to_gds, Library::write_gds *)
Definition lower_cell (s : Q) (c : scell) : gcell :=
  {| c_name := sc_name c;
     c_polys := flat_map (lower_poly s) (sc_polys c);
     c_paths := flat_map (lower_path s) (sc_paths c);
     c_refs := flat_map (lower_ref s) (sc_refs c);
     c_labels := flat_map (lower_label s) (sc_labels c) |}.

Definition lower (L : slib) : glib :=
  {| g_name := su_name L;
     g_units := (gds_real_of_dbl (fst (su_units L)), gds_real_of_dbl (snd (su_units L)));
     g_cells := map (lower_cell (su_scaling L)) (su_cells L) |}.

(* error code returned by write_gds: the last error met, in the order polygons, paths, labels, references *)
Definition cell_err (acc : werr) (c : scell) : werr :=
  let acc := fold_left (fun a p => werr_then a (poly_err p)) (sc_polys c) acc in
  let acc := fold_left (fun a h => werr_then a (path_err h)) (sc_paths c) acc in
  let acc := fold_left (fun a l => werr_then a (label_err l)) (sc_labels c) acc in
  fold_left (fun a r => werr_then a (ref_err r)) (sc_refs c) acc.
Definition lower_err (L : slib) : werr := fold_left cell_err (su_cells L) WNone.

(* the whole writer, from user units to bytes *)
Definition write_gds_full (ts : list Z) (L : slib) : bytes := write_gds_model ts (lower L).

(* ================================================================== specification-level definitions *)
(* What a reference of the GRID library denotes once re-loaded: read_gds (GdsModel.step_gds, KXY /
   KColrow) keeps columns, rows and the corners; the Repetition it builds is
     Rectangular: spacing = ((x2 - ox) / columns, (y3 - oy) / rows)             (rotation == 0, no reflection)
     Regular:     v1 = ((x2 - ox, y2 - oy) / columns), v2 = ((x3 - ox, y3 - oy) / rows)
   and the placements are origin + Repetition::get_offsets (Repetition.offsets). *)
Definition qpt (p : pt) : vec := (inject_Z (fst p), inject_Z (snd p)).
Definition gref_rep (r : gref) : rep :=
  match r_rep r with
  | None => RNone
  | Some g =>
      let ox := inject_Z (fst (r_origin r)) in let oy := inject_Z (snd (r_origin r)) in
      let c := wrapZ (g_cols g) in let rw := wrapZ (g_rows g) in          (* (uint64_t)(int16_t) *)
      let x2 := inject_Z (fst (g_p2 g)) in let y2 := inject_Z (snd (g_p2 g)) in
      let x3 := inject_Z (fst (g_p3 g)) in let y3 := inject_Z (snd (g_p3 g)) in
      if g_regular g then RReg c rw ((x2 - ox) / qN c, (y2 - oy) / qN c) ((x3 - ox) / qN rw, (y3 - oy) / qN rw)
      else RRect c rw ((x2 - ox) / qN c) ((y3 - oy) / qN rw)
  end.
Definition gref_denote (r : gref) : list vec :=
  map (vadd (qpt (r_origin r))) (rep_offsets (gref_rep r)).

(* the placements the SOURCE reference stands for, in database units: (origin + v) * scaling *)
Definition sref_spec (s : Q) (r : sref) : list vec :=
  map (fun v => ((fst (sr_origin r) + fst v) * s, (snd (sr_origin r) + snd v) * s)) (rep_offsets (sr_rep r)).

(* lists of points equal up to order and up to == on the coordinates *)
Definition same_points (l1 l2 : list vec) : Prop :=
  exists l, Permutation l1 l /\ Forall2 veq l l2.

(* a coordinate on the database grid *)
Definition is_int (q : Q) : Prop := inject_Z (Qfloor q) == q.
Definition vec_on_grid (s : Q) (v : vec) : Prop := is_int (fst v * s) /\ is_int (snd v * s).
Definition rep_on_grid (s : Q) (r : rep) : Prop :=
  match r with
  | RNone => True
  | RRect _ _ sx sy => is_int (sx * s) /\ is_int (sy * s)
  | RReg _ _ v1 v2 => vec_on_grid s v1 /\ vec_on_grid s v2
  | RExpl l => Forall (vec_on_grid s) l
  | RExplX l | RExplY l => Forall (fun x => is_int (x * s)) l
  end.

(* ------------------------------------------------------------------ printing helpers (extraction) *)
(* nearest multiple of 2^-10 database units, for the placement dumps *)
Definition milli (q : Q) : Z := Qfloor (q * (1024 # 1) + (1 # 2)).
Definition cell_placements (c : gcell) : list (bytes * list (Z * Z)) :=
  map (fun r => (r_name r, map (fun v => (milli (fst v), milli (snd v))) (gref_denote r))) (c_refs c).
Definition cell_spec_placements (s : Q) (c : scell) : list (bytes * list (Z * Z)) :=
  map (fun r => (sr_name r, map (fun v => (milli (fst v), milli (snd v))) (sref_spec s r))) (sc_refs c).
(* the same with every placement rounded to the grid first (what the property promises off the grid) *)
Definition cell_spec_rounded (s : Q) (c : scell) : list (bytes * list (Z * Z)) :=
  map (fun r => (sr_name r, map (fun v => (milli (inject_Z (lround (fst v))), milli (inject_Z (lround (snd v)))))
                                (sref_spec s r))) (sc_refs c).
