(* C17 info_agrees: on every stream the strict grammar accepts, the summary scan gds_info reports exactly
   the cell names, element counts, tag sets and units of the layout that the full reader loads. *)
Require Import Base GdsFrame GdsFrameProofs GdsModel GdsWrite GdsRoundtrip GdsSpec GdsSpecProofs.
From Coq Require Import ZArith Lia ZifyBool ZifyN ZifyNat.
Local Open Scope N_scope.

Fixpoint run_info (i : ginfo) (l : recs) : ginfo + ginfo :=
  match l with
  | [] => inl i
  | r :: tl => match step_info i r with inl i' => run_info i' tl | inr x => inr x end
  end.

Ltac istep Ht :=
  cbn [run_info]; unfold step_info at 1; rewrite Ht;
  cbn [i_names i_units i_polys i_paths i_refs i_labels i_shape_tags i_label_tags i_layer i_next i_inconsistent].

(* records the summary scan does not react to *)
Definition info_noop (t : N) : Prop :=
  t <> 4 /\ t <> 6 /\ t <> 3 /\ t <> 8 /\ t <> 45 /\ t <> 9 /\ t <> 10 /\ t <> 11 /\ t <> 12 /\ t <> 13 /\ t <> 14 /\ t <> 46 /\ t <> 22.

Lemma step_info_noop i r : info_noop (rtype r) -> step_info i r = inl i.
Proof.
  intros (H4 & H6 & H3 & H8 & H45 & H9 & H10 & H11 & H12 & H13 & H14 & H46 & H22).
  unfold step_info. destruct (rtype r) as [|p]; [destruct i; reflexivity|].
  do 6 (try (destruct p as [p|p|])); try congruence; destruct i; reflexivity.
Qed.

Ltac noop_num := unfold info_noop; repeat split; discriminate.

Lemma info_skip_flags i : forall l, run_info i l = run_info i (skip_flags l).
Proof.
  induction l as [|r l IH]; [reflexivity|]. cbn [skip_flags].
  destruct ((rtype r =? 38) || (rtype r =? 47)) eqn:E; [|reflexivity].
  cbn [run_info]. rewrite step_info_noop; [exact IH|].
  apply orb_prop in E. destruct E as [E|E]; apply N.eqb_eq in E; rewrite E; noop_num.
Qed.

Lemma info_skip_strclass i : forall l, run_info i l = run_info i (skip_strclass l).
Proof.
  induction l as [|r l IH]; [reflexivity|]. cbn [skip_strclass].
  destruct (rtype r =? 52) eqn:E; [|reflexivity].
  cbn [run_info]. rewrite step_info_noop; [exact IH|]. apply N.eqb_eq in E. rewrite E. noop_num.
Qed.

Lemma info_skip_libopt i : forall l, run_info i l = run_info i (skip_libopt l).
Proof.
  induction l as [|r l IH]; [reflexivity|]. cbn [skip_libopt].
  destruct (libopt r) eqn:E; [|reflexivity].
  cbn [run_info]. rewrite step_info_noop; [exact IH|].
  unfold libopt in E. destruct (rtype r) as [|p]; [discriminate|].
  repeat (destruct p as [p|p|]; try discriminate); noop_num.
Qed.

Lemma info_xy_more i : forall l pts rest, take_xy_more l = (pts, rest) -> run_info i l = run_info i rest.
Proof.
  induction l as [|r l IH]; intros pts rest; cbn [take_xy_more]; [intros [= <- <-]; reflexivity|].
  destruct (is_rec 16 3 r && (plen r mod 8 =? 0)) eqn:E.
  - destruct (take_xy_more l) as [pts' rest'] eqn:El. intros [= <- <-].
    destruct (xy_cond r E) as [Ht _]. cbn [run_info]. rewrite step_info_noop by (rewrite Ht; noop_num).
    apply (IH _ _ eq_refl).
  - intros [= <- <-]. reflexivity.
Qed.
Lemma info_xy i l pts rest : take_xy l = Some (pts, rest) -> run_info i l = run_info i rest.
Proof.
  unfold take_xy. destruct l as [|r l]; [discriminate|].
  destruct (is_rec 16 3 r && (plen r mod 8 =? 0)) eqn:E; [|discriminate].
  destruct (take_xy_more l) as [pts' rest'] eqn:El. intros [= <- <-].
  destruct (xy_cond r E) as [Ht _]. cbn [run_info]. rewrite step_info_noop by (rewrite Ht; noop_num).
  apply (info_xy_more _ _ _ _ El).
Qed.

Lemma info_props i : forall l acc ps rest, take_props acc l = (ps, rest) -> run_info i l = run_info i rest.
Proof.
  fix IH 1. intros l acc ps rest. destruct l as [|ra [|rv l]]; cbn [take_props]; try (intros [= <- <-]; reflexivity).
  destruct (is_rec 43 2 ra && (plen ra =? 2) && is_rec 44 6 rv) eqn:E; [|intros [= <- <-]; reflexivity].
  intros H. apply andb_prop in E. destruct E as [E Ev]. apply andb_prop in E. destruct E as [Ea _].
  apply is_rec_true in Ea, Ev. destruct Ea as [Hta _]. destruct Ev as [Htv _].
  cbn [run_info]. rewrite step_info_noop by (rewrite Hta; noop_num). rewrite step_info_noop by (rewrite Htv; noop_num).
  apply (IH _ _ _ _ H).
Qed.

Lemma info_opt1 i t d len l o l' : info_noop t -> opt1 t d len l = (o, l') -> run_info i l = run_info i l'.
Proof.
  intros Hn H. destruct (opt1_cases _ _ _ _ _ _ H) as [[-> ->]|(r & -> & -> & Ht & _)]; [reflexivity|].
  cbn [run_info]. rewrite step_info_noop by (rewrite Ht; exact Hn). reflexivity.
Qed.

Lemma info_strans i l v l' : take_strans l = (v, l') -> run_info i l = run_info i l'.
Proof.
  unfold take_strans. destruct (take1 26 1 2 l) as [[rs l1]|] eqn:H1.
  - destruct (opt1 27 5 8 l1) as [om l2] eqn:H2. destruct (opt1 28 5 8 l2) as [oa l3] eqn:H3.
    intros [= <- <-]. destruct (take1_some _ _ _ _ _ _ H1) as (-> & Ht & _).
    cbn [run_info]. rewrite step_info_noop by (rewrite Ht; noop_num).
    rewrite (info_opt1 i 27 _ _ _ _ _ ltac:(noop_num) H2). apply (info_opt1 i 28 _ _ _ _ _ ltac:(noop_num) H3).
  - intros [= <- <-]. reflexivity.
Qed.

Lemma info_endel i l tl : take_endel l = Some tl -> run_info i l = run_info i tl.
Proof.
  intros H. destruct (take_endel_some _ _ H) as (r & -> & Ht).
  cbn [run_info]. rewrite step_info_noop by (rewrite Ht; noop_num). reflexivity.
Qed.

Lemma info_str i t l s tl : info_noop t -> take_str t l = Some (s, tl) -> run_info i l = run_info i tl.
Proof.
  intros Hn H. destruct (take_str_some _ _ _ _ H) as (r & -> & Ht & _).
  cbn [run_info]. rewrite step_info_noop by (rewrite Ht; exact Hn). reflexivity.
Qed.

Lemma be16_f16 r : plen r = 2 -> be16 (payload r) = f16 r.
Proof.
  unfold plen, be16, f16, d16. intros H. destruct (payload r) as [|a [|b [|c l]]]; cbn [length] in H; try lia.
  cbn [nth swap2 skipn firstn Nat.mul Nat.add le_value fold_right]. f_equal. lia.
Qed.

Lemma take1_len t d len l r tl : take1 t d len l = Some (r, tl) -> plen r = len.
Proof.
  unfold take1. destruct l as [|r0 l0]; [discriminate|].
  destruct (is_rec t d r0 && (plen r0 =? len)) eqn:E; [|discriminate].
  intros [= <- <-]. apply andb_prop in E. destruct E as [_ E]. apply N.eqb_eq in E. exact E.
Qed.

(* the summary after one element, as a function of the loaded element *)
Definition info_after (i : ginfo) (e : gelem) : ginfo :=
  match e with
  | EPoly p => {| i_names := i_names i; i_units := i_units i; i_polys := i_polys i + 1; i_paths := i_paths i; i_refs := i_refs i;
                  i_labels := i_labels i; i_shape_tags := add_tag (i_shape_tags i) (p_layer p, p_type p);
                  i_label_tags := i_label_tags i; i_layer := p_layer p; i_next := 0; i_inconsistent := i_inconsistent i |}
  | EPath h => {| i_names := i_names i; i_units := i_units i; i_polys := i_polys i; i_paths := i_paths i + 1; i_refs := i_refs i;
                  i_labels := i_labels i; i_shape_tags := add_tag (i_shape_tags i) (h_layer h, h_type h);
                  i_label_tags := i_label_tags i; i_layer := h_layer h; i_next := 0; i_inconsistent := i_inconsistent i |}
  | ERef _ => {| i_names := i_names i; i_units := i_units i; i_polys := i_polys i; i_paths := i_paths i; i_refs := i_refs i + 1;
                 i_labels := i_labels i; i_shape_tags := i_shape_tags i; i_label_tags := i_label_tags i; i_layer := i_layer i;
                 i_next := 0; i_inconsistent := i_inconsistent i |}
  | ELabel l => {| i_names := i_names i; i_units := i_units i; i_polys := i_polys i; i_paths := i_paths i; i_refs := i_refs i;
                   i_labels := i_labels i + 1; i_shape_tags := i_shape_tags i;
                   i_label_tags := add_tag (i_label_tags i) (l_layer l, l_type l); i_layer := l_layer l; i_next := 0;
                   i_inconsistent := i_inconsistent i |}
  end.

Ltac iproj := cbn [i_names i_units i_polys i_paths i_refs i_labels i_shape_tags i_label_tags i_layer i_next i_inconsistent].

Lemma info_spec_boundary nm un np nh nr nl st lt ly inc box l e rest :
  spec_boundary box l = Some (e, rest) ->
  exists p, e = EPoly p /\
  run_info (Build_ginfo nm un np nh nr nl st lt ly 1 inc) l =
  run_info (Build_ginfo nm un np nh nr nl (add_tag st (p_layer p, p_type p)) lt (p_layer p) 0 inc) rest.
Proof.
  unfold spec_boundary. rewrite (info_skip_flags _ l). generalize (skip_flags l). clear l. intros l.
  destruct (take1 13 2 2 l) as [[rl l1]|] eqn:H1; [|discriminate].
  destruct (take1 (if box then 46 else 14) 2 2 l1) as [[rt l2]|] eqn:H2; [|discriminate].
  destruct (take_xy l2) as [[pts l3]|] eqn:H3; [|discriminate].
  destruct (take_props [] l3) as [prs l4] eqn:H4.
  destruct (take_endel l4) as [l5|] eqn:H5; [|discriminate].
  destruct (closed_poly pts) as [opn|] eqn:H6; [|discriminate].
  intros [= <- <-]. eexists. split; [reflexivity|]. cbn [p_layer p_type].
  pose proof (take1_len _ _ _ _ _ _ H1) as Hl1. pose proof (take1_len _ _ _ _ _ _ H2) as Hl2.
  destruct (take1_some _ _ _ _ _ _ H1) as (-> & Ht1 & _).
  destruct (take1_some _ _ _ _ _ _ H2) as (-> & Ht2 & _).
  istep Ht1. rewrite (be16_f16 _ Hl1).
  cbn [run_info]. unfold step_info at 1. iproj.
  assert (Hs : forall (A : Type) (a b : A), match rtype rt with 14 | 46 | 22 => a | _ => b end = a)
    by (intros; rewrite Ht2; destruct box; reflexivity).
  rewrite Ht2. destruct box; iproj; rewrite (be16_f16 _ Hl2);
    rewrite (info_xy _ _ _ _ H3), (info_props _ _ _ _ _ H4), (info_endel _ _ _ H5); reflexivity.
Qed.

Lemma info_spec_path nm un np nh nr nl st lt ly inc l e rest :
  spec_path l = Some (e, rest) ->
  exists h, e = EPath h /\
  run_info (Build_ginfo nm un np nh nr nl st lt ly 1 inc) l =
  run_info (Build_ginfo nm un np nh nr nl (add_tag st (h_layer h, h_type h)) lt (h_layer h) 0 inc) rest.
Proof.
  unfold spec_path. rewrite (info_skip_flags _ l). generalize (skip_flags l). clear l. intros l.
  destruct (take1 13 2 2 l) as [[rl l1]|] eqn:H1; [|discriminate].
  destruct (take1 14 2 2 l1) as [[rt l2]|] eqn:H2; [|discriminate].
  destruct (opt1 33 2 2 l2) as [opt_ l3] eqn:H3.
  destruct (opt1 15 3 4 l3) as [ow l4] eqn:H4.
  destruct (opt1 48 3 4 l4) as [ob l5] eqn:H5.
  destruct (opt1 49 3 4 l5) as [oe l6] eqn:H6.
  destruct (width_ok ow) eqn:Hwok; [|discriminate].
  destruct (take_xy1 l6) as [[pts l7]|] eqn:H7x; [|discriminate]. pose proof (take_xy1_some _ _ H7x) as H7.
  destruct (take_props [] l7) as [prs l8] eqn:H8.
  destruct (take_endel l8) as [l9|] eqn:H9; [|discriminate].
  intros [= <- <-]. eexists. split; [reflexivity|]. cbn [h_layer h_type].
  pose proof (take1_len _ _ _ _ _ _ H1) as Hl1. pose proof (take1_len _ _ _ _ _ _ H2) as Hl2.
  destruct (take1_some _ _ _ _ _ _ H1) as (-> & Ht1 & _).
  destruct (take1_some _ _ _ _ _ _ H2) as (-> & Ht2 & _).
  istep Ht1. rewrite (be16_f16 _ Hl1). istep Ht2. rewrite (be16_f16 _ Hl2).
  rewrite (info_opt1 _ 33 _ _ _ _ _ ltac:(noop_num) H3), (info_opt1 _ 15 _ _ _ _ _ ltac:(noop_num) H4),
          (info_opt1 _ 48 _ _ _ _ _ ltac:(noop_num) H5), (info_opt1 _ 49 _ _ _ _ _ ltac:(noop_num) H6),
          (info_xy _ _ _ _ H7), (info_props _ _ _ _ _ H8), (info_endel _ _ _ H9). reflexivity.
Qed.

Lemma info_spec_ref i array l e rest :
  spec_ref array l = Some (e, rest) ->
  (exists r, e = ERef r) /\ run_info i l = run_info i rest.
Proof.
  unfold spec_ref. rewrite (info_skip_flags _ l). generalize (skip_flags l). clear l. intros l.
  destruct (take_str 18 l) as [[rn l1]|] eqn:H1; [|discriminate].
  destruct (take_strans l1) as [[[refl mag] rot] l2] eqn:H2.
  rewrite (info_str _ 18 _ _ _ ltac:(noop_num) H1), (info_strans _ _ _ _ H2).
  destruct array.
  - destruct (take1 19 2 4 l2) as [[rc l3]|] eqn:H3; [|discriminate].
    destruct (colrow_ok rc) eqn:Hcr; [|discriminate].
    destruct (take1 16 3 24 l3) as [[rx l4]|] eqn:H4; [|discriminate].
    destruct (take_props [] l4) as [prs l5] eqn:H5.
    destruct (take_endel l5) as [l6|] eqn:H6; [|discriminate].
    intros [= <- <-]. split; [eexists; reflexivity|].
    destruct (take1_some _ _ _ _ _ _ H3) as (-> & Ht3 & _).
    destruct (take1_some _ _ _ _ _ _ H4) as (-> & Ht4 & _).
    cbn [run_info]. rewrite step_info_noop by (rewrite Ht3; noop_num). rewrite step_info_noop by (rewrite Ht4; noop_num).
    rewrite (info_props _ _ _ _ _ H5), (info_endel _ _ _ H6). reflexivity.
  - destruct (take1 16 3 8 l2) as [[rx l4]|] eqn:H4; [|discriminate].
    destruct (take_props [] l4) as [prs l5] eqn:H5.
    destruct (take_endel l5) as [l6|] eqn:H6; [|discriminate].
    intros [= <- <-]. split; [eexists; reflexivity|].
    destruct (take1_some _ _ _ _ _ _ H4) as (-> & Ht4 & _).
    cbn [run_info]. rewrite step_info_noop by (rewrite Ht4; noop_num).
    rewrite (info_props _ _ _ _ _ H5), (info_endel _ _ _ H6). reflexivity.
Qed.

Lemma info_spec_text nm un np nh nr nl st lt ly inc l e rest :
  spec_text l = Some (e, rest) ->
  exists t, e = ELabel t /\
  run_info (Build_ginfo nm un np nh nr nl st lt ly 2 inc) l =
  run_info (Build_ginfo nm un np nh nr nl st (add_tag lt (l_layer t, l_type t)) (l_layer t) 0 inc) rest.
Proof.
  unfold spec_text. rewrite (info_skip_flags _ l). generalize (skip_flags l). clear l. intros l.
  destruct (take1 13 2 2 l) as [[rl l1]|] eqn:H1; [|discriminate].
  destruct (take1 22 2 2 l1) as [[rt l2]|] eqn:H2; [|discriminate].
  destruct (opt1 23 1 2 l2) as [opr l3] eqn:H3.
  destruct (opt1 33 2 2 l3) as [opt_ l4] eqn:H4.
  destruct (opt1 15 3 4 l4) as [ow l5] eqn:H5.
  destruct (width_ok ow) eqn:Hwok; [|discriminate].
  destruct (take_strans l5) as [[[refl mag] rot] l6] eqn:H6.
  destruct (take1 16 3 8 l6) as [[rx l7]|] eqn:H7; [|discriminate].
  destruct (take_str 25 l7) as [[tx l8]|] eqn:H8; [|discriminate].
  destruct (take_props [] l8) as [prs l9] eqn:H9.
  destruct (take_endel l9) as [l10|] eqn:H10; [|discriminate].
  intros [= <- <-]. eexists. split; [reflexivity|]. cbn [l_layer l_type].
  pose proof (take1_len _ _ _ _ _ _ H1) as Hl1. pose proof (take1_len _ _ _ _ _ _ H2) as Hl2.
  destruct (take1_some _ _ _ _ _ _ H1) as (-> & Ht1 & _).
  destruct (take1_some _ _ _ _ _ _ H2) as (-> & Ht2 & _).
  destruct (take1_some _ _ _ _ _ _ H7) as (-> & Ht7 & _).
  istep Ht1. rewrite (be16_f16 _ Hl1). istep Ht2. rewrite (be16_f16 _ Hl2).
  rewrite (info_opt1 _ 23 _ _ _ _ _ ltac:(noop_num) H3), (info_opt1 _ 33 _ _ _ _ _ ltac:(noop_num) H4),
          (info_opt1 _ 15 _ _ _ _ _ ltac:(noop_num) H5), (info_strans _ _ _ _ H6).
  cbn [run_info]. rewrite step_info_noop by (rewrite Ht7; noop_num).
  rewrite (info_str _ 25 _ _ _ ltac:(noop_num) H8), (info_props _ _ _ _ _ H9), (info_endel _ _ _ H10). reflexivity.
Qed.

Lemma info_spec_element i l e rest :
  spec_element l = Some (e, rest) -> run_info i l = run_info (info_after i e) rest.
Proof.
  unfold spec_element. destruct l as [|r l]; [discriminate|].
  destruct (plen r =? 0); [|discriminate].
  destruct i as [nm un np nh nr nl st lt ly nx inc].
  destruct (rtype r) as [|p] eqn:Ht; [discriminate|].
  do 6 (try (destruct p as [p|p|])); try discriminate; intros H; istep Ht;
  match type of H with
  | spec_boundary _ _ = _ =>
      destruct (info_spec_boundary nm un (np + 1) nh nr nl st lt ly inc _ _ _ _ H) as (q & -> & Hr); rewrite Hr; reflexivity
  | spec_path _ = _ =>
      destruct (info_spec_path nm un np (nh + 1) nr nl st lt ly inc _ _ _ H) as (q & -> & Hr); rewrite Hr; reflexivity
  | spec_text _ = _ =>
      destruct (info_spec_text nm un np nh nr (nl + 1) st lt ly inc _ _ _ H) as (q & -> & Hr); rewrite Hr; reflexivity
  | spec_ref _ _ = _ =>
      destruct (info_spec_ref (Build_ginfo nm un np nh (nr + 1) nl st lt ly 0 inc) _ _ _ _ H) as ((q & ->) & Hr); rewrite Hr; reflexivity
  end.
Qed.

Lemma info_spec_elements : forall fuel l es rest i,
  spec_elements fuel l = Some (es, rest) -> run_info i l = run_info (fold_left info_after es i) rest.
Proof.
  induction fuel as [|fu IH]; intros l es rest i; cbn [spec_elements]; [discriminate|].
  destruct l as [|r l]; [discriminate|].
  destruct (rtype r =? 7) eqn:E7.
  - intros [= <- <-]. apply N.eqb_eq in E7. cbn [run_info fold_left]. rewrite step_info_noop by (rewrite E7; noop_num). reflexivity.
  - destruct (spec_element (r :: l)) as [[e rest1]|] eqn:He; [|discriminate].
    destruct (spec_elements fu rest1) as [[es' rest2]|] eqn:Hes; [|discriminate].
    intros [= <- <-]. rewrite (info_spec_element i _ _ _ He). cbn [fold_left]. apply IH. exact Hes.
Qed.

(* cells contribute their name and the fold over their elements (in stream order) *)
Fixpoint cells_info (i : ginfo) (cs : list (bytes * list gelem)) : ginfo :=
  match cs with
  | [] => i
  | (nm, es) :: tl =>
      cells_info (fold_left info_after es
        {| i_names := i_names i ++ [nm]; i_units := i_units i; i_polys := i_polys i; i_paths := i_paths i; i_refs := i_refs i;
           i_labels := i_labels i; i_shape_tags := i_shape_tags i; i_label_tags := i_label_tags i; i_layer := i_layer i;
           i_next := i_next i; i_inconsistent := i_inconsistent i |}) tl
  end.

(* the grammar's structure list with the elements in stream order *)
Fixpoint spec_structures_raw (fuel : nat) (l : recs) : option (list (bytes * list gelem)) :=
  match fuel with
  | O => None
  | S f =>
      match l with
      | r :: tl =>
          if rtype r =? 4 then Some []
          else if is_rec 5 2 r && (plen r =? 24) then
            match take_str 6 tl with None => None | Some (nm, l1) =>
            match spec_elements (length l1) (skip_strclass l1) with None => None | Some (es, l2) =>
            match spec_structures_raw f l2 with None => None | Some cs => Some ((nm, es) :: cs) end end end
          else None
      | [] => None
      end
  end.

Lemma spec_structures_raw_ok : forall fuel l cs rest,
  spec_structures fuel l = Some (cs, rest) ->
  exists raw, spec_structures_raw fuel l = Some raw /\ cs = map (fun '(nm, es) => cell_of nm es) raw.
Proof.
  induction fuel as [|fu IH]; intros l cs rest; cbn [spec_structures spec_structures_raw]; [discriminate|].
  destruct l as [|r l]; [discriminate|].
  destruct (rtype r =? 4); [intros [= <- <-]; exists []; auto|].
  destruct (is_rec 5 2 r && (plen r =? 24)); [|discriminate].
  destruct (take_str 6 l) as [[cn l1]|]; [|discriminate].
  destruct (spec_elements (length l1) (skip_strclass l1)) as [[es l2]|]; [|discriminate].
  destruct (spec_structures fu l2) as [[cs' l3]|] eqn:Hcs; [|discriminate].
  intros [= <- <-]. destruct (IH _ _ _ Hcs) as (raw & -> & ->). exists ((cn, es) :: raw). auto.
Qed.

Lemma info_spec_structures : forall fuel l raw i,
  spec_structures_raw fuel l = Some raw -> run_info i l = inr (cells_info i raw).
Proof.
  induction fuel as [|fu IH]; intros l raw i; cbn [spec_structures_raw]; [discriminate|].
  destruct l as [|r l]; [discriminate|].
  destruct (rtype r =? 4) eqn:E4.
  - intros [= <-]. apply N.eqb_eq in E4. cbn [run_info]. unfold step_info. rewrite E4. reflexivity.
  - destruct (is_rec 5 2 r && (plen r =? 24)) eqn:E5; [|discriminate].
    destruct (take_str 6 l) as [[cn l1]|] eqn:Hn; [|discriminate].
    destruct (spec_elements (length l1) (skip_strclass l1)) as [[es l2]|] eqn:Hes; [|discriminate].
    destruct (spec_structures_raw fu l2) as [cs'|] eqn:Hcs; [|discriminate].
    intros [= <-].
    apply andb_prop in E5. destruct E5 as [E5 _]. apply is_rec_true in E5. destruct E5 as [Ht5 _].
    destruct (take_str_some _ _ _ _ Hn) as (rn & -> & Htn & ->).
    cbn [run_info]. rewrite step_info_noop by (rewrite Ht5; noop_num).
    unfold step_info at 1. rewrite Htn.
    rewrite (info_skip_strclass _ l1). rewrite (info_spec_elements _ _ _ _ _ Hes).
    rewrite (IH _ _ _ Hcs). cbn [cells_info]. reflexivity.
Qed.

(* ------------------------------------------------------------------ what the fold computes *)
Definition polys_of (es : list gelem) : list gpoly := flat_map (fun e => match e with EPoly p => [p] | _ => [] end) es.
Definition paths_of (es : list gelem) : list gpath := flat_map (fun e => match e with EPath p => [p] | _ => [] end) es.
Definition refs_of (es : list gelem) : list gref := flat_map (fun e => match e with ERef p => [p] | _ => [] end) es.
Definition labels_of (es : list gelem) : list glabel := flat_map (fun e => match e with ELabel p => [p] | _ => [] end) es.

Lemma commit_fold nm : forall es P H R T,
  fold_left (commit None) es (Build_gcell nm P H R T) =
  Build_gcell nm (P ++ polys_of es) (H ++ paths_of es) (R ++ refs_of es) (T ++ labels_of es).
Proof.
  induction es as [|e es IH]; intros P H R T; cbn [fold_left polys_of paths_of refs_of labels_of flat_map].
  - rewrite !app_nil_r. reflexivity.
  - destruct e; cbn [commit c_name c_polys c_paths c_refs c_labels]; rewrite IH; cbn [app];
      rewrite <- ?app_assoc; reflexivity.
Qed.

Lemma cell_of_parts nm es :
  cell_of nm es = Build_gcell nm (polys_of es) (paths_of es) (refs_of es) (labels_of es).
Proof. unfold cell_of. rewrite commit_fold. reflexivity. Qed.

Lemma tag_in_spec l a b : tag_in l a b = true <-> In (a, b) l.
Proof.
  unfold tag_in. rewrite existsb_exists. split.
  - intros ([x y] & Hin & H). apply andb_prop in H. destruct H as [H1 H2].
    apply Z.eqb_eq in H1, H2. subst. exact Hin.
  - intros H. exists (a, b). split; [exact H|]. rewrite !Z.eqb_refl. reflexivity.
Qed.

Lemma add_tag_In l x t : In t (add_tag l x) <-> In t l \/ t = x.
Proof.
  unfold add_tag. destruct x as [a b]. cbn [fst snd]. destruct (tag_in l a b) eqn:E.
  - apply tag_in_spec in E. split; [auto|]. intros [H| ->]; assumption.
  - rewrite in_app_iff. cbn [In]. split; [intros [H|[H|[]]]; auto|intros [H|H]; auto].
Qed.

Definition shape_tag (e : gelem) : option (Z * Z) :=
  match e with EPoly p => Some (p_layer p, p_type p) | EPath h => Some (h_layer h, h_type h) | _ => None end.
Definition label_tag (e : gelem) : option (Z * Z) :=
  match e with ELabel l => Some (l_layer l, l_type l) | _ => None end.

Lemma fold_info_facts : forall es i,
  let j := fold_left info_after es i in
  i_names j = i_names i /\ i_units j = i_units i /\ i_inconsistent j = i_inconsistent i /\
  i_polys j = i_polys i + N.of_nat (length (polys_of es)) /\
  i_paths j = i_paths i + N.of_nat (length (paths_of es)) /\
  i_refs j = i_refs i + N.of_nat (length (refs_of es)) /\
  i_labels j = i_labels i + N.of_nat (length (labels_of es)) /\
  (forall t, In t (i_shape_tags j) <-> In t (i_shape_tags i) \/ exists e, In e es /\ shape_tag e = Some t) /\
  (forall t, In t (i_label_tags j) <-> In t (i_label_tags i) \/ exists e, In e es /\ label_tag e = Some t).
Proof.
  induction es as [|e es IH]; intros i; cbn [fold_left].
  - cbn [polys_of paths_of refs_of labels_of flat_map length]. repeat split; try lia; try tauto;
      intros [H|(e & [] & _)]; exact H.
  - specialize (IH (info_after i e)). cbn zeta in IH.
    destruct IH as (Hn & Hu & Hi & Hp & Hh & Hr & Hl & Hs & Ht).
    cbn [polys_of paths_of refs_of labels_of flat_map].
    repeat split.
    + rewrite Hn. destruct e; reflexivity.
    + rewrite Hu. destruct e; reflexivity.
    + rewrite Hi. destruct e; reflexivity.
    + rewrite Hp. destruct e; cbn [info_after i_polys app length]; fold (polys_of es); lia.
    + rewrite Hh. destruct e; cbn [info_after i_paths app length]; fold (paths_of es); lia.
    + rewrite Hr. destruct e; cbn [info_after i_refs app length]; fold (refs_of es); lia.
    + rewrite Hl. destruct e; cbn [info_after i_labels app length]; fold (labels_of es); lia.
    + rewrite Hs. destruct e; cbn [info_after i_shape_tags]; rewrite ?add_tag_In;
        (intros [[H| ->]|(e' & Hin & He')] || intros [H|(e' & Hin & He')]); try tauto;
        try (left; tauto); try (right; eexists; split; [left; reflexivity|reflexivity]);
        try (right; exists e'; split; [right; exact Hin|exact He']).
    + rewrite Hs. destruct e; cbn [info_after i_shape_tags]; rewrite ?add_tag_In;
        (intros [H|(e' & [<-|Hin] & He')]); try tauto; try discriminate;
        try (injection He' as <-; tauto); try (right; exists e'; tauto).
    + rewrite Ht. destruct e; cbn [info_after i_label_tags]; rewrite ?add_tag_In;
        (intros [[H| ->]|(e' & Hin & He')] || intros [H|(e' & Hin & He')]); try tauto;
        try (left; tauto); try (right; eexists; split; [left; reflexivity|reflexivity]);
        try (right; exists e'; split; [right; exact Hin|exact He']).
    + rewrite Ht. destruct e; cbn [info_after i_label_tags]; rewrite ?add_tag_In;
        (intros [H|(e' & [<-|Hin] & He')]); try tauto; try discriminate;
        try (injection He' as <-; tauto); try (right; exists e'; tauto).
Qed.

Definition sum_len {A B} (f : A -> list B) (l : list A) : N := fold_right (fun a n => N.of_nat (length (f a)) + n) 0 l.

Lemma cells_info_facts : forall raw i,
  let j := cells_info i raw in
  i_names j = i_names i ++ map fst raw /\ i_units j = i_units i /\ i_inconsistent j = i_inconsistent i /\
  i_polys j = i_polys i + sum_len (fun c => polys_of (snd c)) raw /\
  i_paths j = i_paths i + sum_len (fun c => paths_of (snd c)) raw /\
  i_refs j = i_refs i + sum_len (fun c => refs_of (snd c)) raw /\
  i_labels j = i_labels i + sum_len (fun c => labels_of (snd c)) raw /\
  (forall t, In t (i_shape_tags j) <-> In t (i_shape_tags i) \/ exists c e, In c raw /\ In e (snd c) /\ shape_tag e = Some t) /\
  (forall t, In t (i_label_tags j) <-> In t (i_label_tags i) \/ exists c e, In c raw /\ In e (snd c) /\ label_tag e = Some t).
Proof.
  induction raw as [|[nm es] raw IH]; intros i; cbn [cells_info].
  - cbn [map sum_len fold_right]. rewrite app_nil_r. repeat split; try lia; try tauto;
      intros [H|(c & e & [] & _)]; exact H.
  - match goal with |- context [cells_info ?i0 raw] => specialize (IH i0) end.
    cbn zeta in IH. destruct IH as (Hn & Hu & Hi & Hp & Hh & Hr & Hl & Hs & Ht).
    pose proof (fold_info_facts es
      {| i_names := i_names i ++ [nm]; i_units := i_units i; i_polys := i_polys i; i_paths := i_paths i; i_refs := i_refs i;
         i_labels := i_labels i; i_shape_tags := i_shape_tags i; i_label_tags := i_label_tags i; i_layer := i_layer i;
         i_next := i_next i; i_inconsistent := i_inconsistent i |}) as F.
    cbn zeta in F. cbn [i_names i_units i_polys i_paths i_refs i_labels i_shape_tags i_label_tags i_inconsistent] in F.
    destruct F as (Fn & Fu & Fi & Fp & Fh & Fr & Fl & Fs & Ft).
    cbn [map sum_len fold_right fst snd]. repeat split.
    + rewrite Hn, Fn, <- app_assoc. reflexivity.
    + rewrite Hu, Fu. reflexivity.
    + rewrite Hi, Fi. reflexivity.
    + rewrite Hp, Fp. fold (sum_len (fun c : bytes * list gelem => polys_of (snd c)) raw). lia.
    + rewrite Hh, Fh. fold (sum_len (fun c : bytes * list gelem => paths_of (snd c)) raw). lia.
    + rewrite Hr, Fr. fold (sum_len (fun c : bytes * list gelem => refs_of (snd c)) raw). lia.
    + rewrite Hl, Fl. fold (sum_len (fun c : bytes * list gelem => labels_of (snd c)) raw). lia.
    + rewrite Hs, Fs. intros [[H|(e & Hin & He)]|(c & e & Hc & Hin & He)].
      * left. exact H.
      * right. exists (nm, es), e. cbn [snd]. repeat split; [left; reflexivity|exact Hin|exact He].
      * right. exists c, e. repeat split; [right; exact Hc|exact Hin|exact He].
    + rewrite Hs, Fs. intros [H|(c & e & [<-|Hc] & Hin & He)].
      * left. left. exact H.
      * left. right. exists e. split; [exact Hin|exact He].
      * right. exists c, e. repeat split; [exact Hc|exact Hin|exact He].
    + rewrite Ht, Ft. intros [[H|(e & Hin & He)]|(c & e & Hc & Hin & He)].
      * left. exact H.
      * right. exists (nm, es), e. cbn [snd]. repeat split; [left; reflexivity|exact Hin|exact He].
      * right. exists c, e. repeat split; [right; exact Hc|exact Hin|exact He].
    + rewrite Ht, Ft. intros [H|(c & e & [<-|Hc] & Hin & He)].
      * left. left. exact H.
      * left. right. exists e. split; [exact Hin|exact He].
      * right. exists c, e. repeat split; [exact Hc|exact Hin|exact He].
Qed.

(* records level *)
Lemma info_spec_records l L :
  spec_records l = Some L ->
  exists raw, g_cells L = map (fun '(nm, es) => cell_of nm es) raw /\
              run_info init_info l = inr (cells_info
                {| i_names := []; i_units := g_units L; i_polys := 0; i_paths := 0; i_refs := 0; i_labels := 0;
                   i_shape_tags := []; i_label_tags := []; i_layer := 0%Z; i_next := 0; i_inconsistent := false |} raw).
Proof.
  unfold spec_records.
  destruct (take1 0 2 2 l) as [[r0 l1]|] eqn:H0; [|discriminate].
  destruct (take1 1 2 24 l1) as [[r1 l2]|] eqn:H1; [|discriminate].
  destruct (take_str 2 l2) as [[nm l3]|] eqn:H2; [|discriminate].
  destruct (take1 3 5 16 (skip_libopt l3)) as [[ru l4]|] eqn:H3; [|discriminate].
  destruct (units_ok ru) eqn:Huok; [|discriminate].
  destruct (spec_structures (length l4) l4) as [[cs rest]|] eqn:H4; [|discriminate].
  intros [= <-]. cbn [g_cells g_units].
  destruct (spec_structures_raw_ok _ _ _ _ H4) as (raw & Hraw & ->).
  exists raw. split; [reflexivity|].
  destruct (take1_some _ _ _ _ _ _ H0) as (-> & Ht0 & _).
  destruct (take1_some _ _ _ _ _ _ H1) as (-> & Ht1 & _).
  destruct (take1_some _ _ _ _ _ _ H3) as (Hl & Ht3 & _).
  cbn [run_info]. rewrite step_info_noop by (rewrite Ht0; noop_num). rewrite step_info_noop by (rewrite Ht1; noop_num).
  rewrite (info_str _ 2 _ _ _ ltac:(noop_num) H2). rewrite (info_skip_libopt _ l3). rewrite Hl.
  cbn [run_info]. unfold step_info at 1. rewrite Ht3. unfold init_info.
  cbn [i_names i_units i_polys i_paths i_refs i_labels i_shape_tags i_label_tags i_layer i_next i_inconsistent].
  apply (info_spec_structures _ _ _ _ Hraw).
Qed.

Lemma loop_frame_info : forall fuel bs l, frame_all fuel bs = Some l ->
  forall st fuel2, (fuel <= fuel2)%nat ->
  forall x, run_info st l = inr x ->
  exists r', reader_loop ginfo ginfo step_info fuel2 st bs = Ok (x, r').
Proof.
  induction fuel as [|fu IH]; intros bs l; cbn [frame_all]; [discriminate|].
  destruct bs as [|b0 bs0].
  - intros [= <-] st fuel2 _ x H. discriminate.
  - set (bs := b0 :: bs0).
    destruct (next_record bs) as [[r rest]| | | | |] eqn:En; try discriminate.
    destruct (Nat.even (length (payload r))); [|discriminate].
    destruct (rtype r =? 4) eqn:E4.
    + intros [= <-] st fuel2 Hf x Hrun. destruct fuel2 as [|f2]; [lia|].
      cbn [reader_loop]. rewrite En. cbn [run_info] in Hrun.
      destruct (step_info st r) as [st'|x']; try discriminate.
      injection Hrun as <-. eexists. reflexivity.
    + destruct (frame_all fu rest) as [l'|] eqn:Hfr; [|discriminate].
      intros [= <-] st fuel2 Hf x Hrun. destruct fuel2 as [|f2]; [lia|].
      cbn [reader_loop]. rewrite En. cbn [run_info] in Hrun.
      destruct (step_info st r) as [st'|x'] eqn:Es.
      * apply (IH rest l' Hfr st' f2 ltac:(lia) x Hrun).
      * injection Hrun as <-. eexists. reflexivity.
Qed.

Definition cell_shape_tag (c : gcell) (t : Z * Z) : Prop :=
  (exists p, In p (c_polys c) /\ (p_layer p, p_type p) = t) \/ (exists h, In h (c_paths c) /\ (h_layer h, h_type h) = t).
Definition cell_label_tag (c : gcell) (t : Z * Z) : Prop := exists l, In l (c_labels c) /\ (l_layer l, l_type l) = t.

Lemma in_polys_of es p : In p (polys_of es) <-> In (EPoly p) es.
Proof. unfold polys_of. rewrite in_flat_map. split.
  - intros (e & Hin & H). destruct e; cbn [In] in H; try tauto. destruct H as [<-|[]]. exact Hin.
  - intros H. exists (EPoly p). split; [exact H|left; reflexivity]. Qed.
Lemma in_paths_of es p : In p (paths_of es) <-> In (EPath p) es.
Proof. unfold paths_of. rewrite in_flat_map. split.
  - intros (e & Hin & H). destruct e; cbn [In] in H; try tauto. destruct H as [<-|[]]. exact Hin.
  - intros H. exists (EPath p). split; [exact H|left; reflexivity]. Qed.
Lemma in_labels_of es p : In p (labels_of es) <-> In (ELabel p) es.
Proof. unfold labels_of. rewrite in_flat_map. split.
  - intros (e & Hin & H). destruct e; cbn [In] in H; try tauto. destruct H as [<-|[]]. exact Hin.
  - intros H. exists (ELabel p). split; [exact H|left; reflexivity]. Qed.

(* C17: on every stream the strict grammar accepts, the summary agrees with the full load *)
Theorem info_agrees_lemma bs L :
  spec_decode bs = Some L ->
  read_gds_model None bs = Ok L /\
  exists i, gds_info_model bs = Ok i /\ i_inconsistent i = false /\
    i_names i = map c_name (g_cells L) /\ i_units i = g_units L /\
    i_polys i = sum_len c_polys (g_cells L) /\ i_paths i = sum_len c_paths (g_cells L) /\
    i_refs i = sum_len c_refs (g_cells L) /\ i_labels i = sum_len c_labels (g_cells L) /\
    (forall t, In t (i_shape_tags i) <-> exists c, In c (g_cells L) /\ cell_shape_tag c t) /\
    (forall t, In t (i_label_tags i) <-> exists c, In c (g_cells L) /\ cell_label_tag c t).
Proof.
  intros Hs. split; [apply reader_accepts_spec_lemma; exact Hs|].
  unfold spec_decode in Hs. destruct (frame_all (S (length bs)) bs) as [l|] eqn:Hf; [|discriminate].
  destruct (info_spec_records _ _ Hs) as (raw & Hcells & Hrun).
  destruct (loop_frame_info _ _ _ Hf init_info (S (length bs)) (le_n _) _ Hrun) as [r' Hr].
  eexists. split; [unfold gds_info_model, reader; rewrite Hr; reflexivity|].
  match goal with |- context [cells_info ?i0 raw] => pose proof (cells_info_facts raw i0) as F end.
  cbn zeta in F. cbn [i_names i_units i_polys i_paths i_refs i_labels i_shape_tags i_label_tags i_inconsistent] in F.
  destruct F as (Fn & Fu & Fi & Fp & Fh & Fr & Fl & Fs & Ft).
  rewrite Hcells.
  assert (Hsum : forall (B : Type) (f : gcell -> list B) (g : list gelem -> list B),
             (forall nm es, f (cell_of nm es) = g es) ->
             sum_len f (map (fun '(nm, es) => cell_of nm es) raw) = sum_len (fun c : bytes * list gelem => g (snd c)) raw).
  { intros B f g Hfg. clear -Hfg. induction raw as [|[nm es] raw IH]; [reflexivity|].
    cbn [map sum_len fold_right snd]. rewrite Hfg. f_equal. exact IH. }
  repeat split.
  - exact Fi.
  - rewrite Fn. cbn [app]. rewrite map_map. apply map_ext. intros [nm es]. rewrite cell_of_parts. reflexivity.
  - exact Fu.
  - rewrite Fp, (Hsum _ c_polys polys_of); [lia|]. intros; rewrite cell_of_parts; reflexivity.
  - rewrite Fh, (Hsum _ c_paths paths_of); [lia|]. intros; rewrite cell_of_parts; reflexivity.
  - rewrite Fr, (Hsum _ c_refs refs_of); [lia|]. intros; rewrite cell_of_parts; reflexivity.
  - rewrite Fl, (Hsum _ c_labels labels_of); [lia|]. intros; rewrite cell_of_parts; reflexivity.
  - rewrite Fs. intros [[]|([nm es] & e & Hc & Hin & He)]. exists (cell_of nm es). split.
    + apply in_map_iff. exists (nm, es). auto.
    + rewrite cell_of_parts. unfold cell_shape_tag. cbn [c_polys c_paths].
      destruct e as [p|h|r|t0]; cbn [shape_tag] in He; try discriminate; injection He as <-.
      * left. exists p. split; [apply in_polys_of; exact Hin|reflexivity].
      * right. exists h. split; [apply in_paths_of; exact Hin|reflexivity].
  - rewrite Fs. intros (c & Hc & Hct). right. apply in_map_iff in Hc. destruct Hc as ([nm es] & <- & Hin).
    rewrite cell_of_parts in Hct. unfold cell_shape_tag in Hct. cbn [c_polys c_paths] in Hct.
    destruct Hct as [(p & Hp & <-)|(h & Hh & <-)].
    + exists (nm, es), (EPoly p). cbn [snd shape_tag]. split; [exact Hin|]. split; [apply in_polys_of; exact Hp|reflexivity].
    + exists (nm, es), (EPath h). cbn [snd shape_tag]. split; [exact Hin|]. split; [apply in_paths_of; exact Hh|reflexivity].
  - rewrite Ft. intros [[]|([nm es] & e & Hc & Hin & He)]. exists (cell_of nm es). split.
    + apply in_map_iff. exists (nm, es). auto.
    + rewrite cell_of_parts. unfold cell_label_tag. cbn [c_labels].
      destruct e as [p|h|r|t0]; cbn [label_tag] in He; try discriminate; injection He as <-.
      exists t0. split; [apply in_labels_of; exact Hin|reflexivity].
  - rewrite Ft. intros (c & Hc & Hct). right. apply in_map_iff in Hc. destruct Hc as ([nm es] & <- & Hin).
    rewrite cell_of_parts in Hct. unfold cell_label_tag in Hct. cbn [c_labels] in Hct.
    destruct Hct as (t0 & Ht0 & <-).
    exists (nm, es), (ELabel t0). cbn [snd label_tag]. split; [exact Hin|]. split; [apply in_labels_of; exact Ht0|reflexivity].
Qed.
