(* Proofs about GdsReal.v: GDSII 8-byte reals decode(encode(x)) exactly / within one ulp, the
   normalisation is idempotent, and the byte swaps are byte reversals (hence involutions).
   Z / N / Q only. *)
Require Import Base GdsReal.
From Coq Require Import QArith Qabs Qpower ZifyBool ZifyN ZifyNat.
Ltac Zify.zify_post_hook ::= Z.div_mod_to_equations.

(* ================================================================== bit lemmas on N *)
Section Bits.
Local Open Scope N_scope.

Lemma land_low_high a x k : a < 2 ^ k -> N.land a (x * 2 ^ k) = 0.
Proof.
  intros H. apply N.bits_inj_0. intros i. rewrite N.land_spec.
  destruct (N.lt_ge_cases i k) as [Hi|Hi].
  - rewrite N.mul_pow2_bits_low by assumption. apply andb_false_r.
  - replace (N.testbit a i) with false; [reflexivity|]. symmetry.
    destruct (N.eq_dec a 0) as [->|Ha]; [apply N.bits_0|].
    apply N.bits_above_log2. apply N.lt_le_trans with k; [|assumption].
    apply N.log2_lt_pow2; lia.
Qed.

(* a high part (multiple of 2^k) or-ed with a low part (< 2^k) is their sum *)
Lemma lor_hl a b k c : a = c * 2 ^ k -> b < 2 ^ k -> N.lor a b = a + b.
Proof.
  intros -> Hb. rewrite N.lor_comm, N.add_comm.
  rewrite <- N.lxor_lor by (apply land_low_high; assumption).
  symmetry. apply N.add_nocarry_lxor. apply land_low_high; assumption.
Qed.

(* masking with a shifted mask = masking the shifted value *)
Lemma land_shiftl_mask x a k : N.land x (N.shiftl a k) = N.shiftl (N.land (N.shiftr x k) a) k.
Proof.
  apply N.bits_inj. intros i. rewrite N.land_spec.
  destruct (N.lt_ge_cases i k) as [Hi|Hi].
  - rewrite !N.shiftl_spec_low by assumption. apply andb_false_r.
  - rewrite !N.shiftl_spec_high' by assumption. rewrite N.land_spec, N.shiftr_spec'.
    replace (i - k + k) with i by lia. reflexivity.
Qed.

(* one byte of a number given its decomposition around bit k *)
Lemma land_byte b k lo byte hi :
  b = lo + 2 ^ k * (byte + 256 * hi) -> lo < 2 ^ k -> byte < 256 ->
  N.land b (N.shiftl 255 k) = byte * 2 ^ k.
Proof.
  intros Hb Hlo Hby. rewrite land_shiftl_mask. rewrite N.shiftl_mul_pow2. f_equal.
  change 255 with (N.ones 8). rewrite N.land_ones. change (2 ^ 8) with 256.
  rewrite N.shiftr_div_pow2.
  assert (Hp : 0 < 2 ^ k) by (apply N.neq_0_lt_0, N.pow_nonzero; lia).
  assert (Hq : b / 2 ^ k = byte + 256 * hi).
  { symmetry. apply (N.div_unique b (2 ^ k) _ lo); [assumption|]. rewrite Hb. lia. }
  rewrite Hq. symmetry. apply (N.mod_unique _ 256 hi); lia.
Qed.

End Bits.

(* ================================================================== decode of an assembled pattern *)
Lemma decode_of_fields (neg : bool) (e7 M : N) :
  (e7 < 128)%N -> (M < 2 ^ 56)%N ->
  gds_decode_dy (N.lor (N.shiftl ((if neg then 128 else 0) + e7) 56) M)
  = (neg, M, (4 * Z.of_N e7 - 256 - 56)%Z).
Proof.
  intros He HM.
  set (u8 := ((if neg then 128 else 0) + e7)%N).
  assert (Hbits : N.lor (N.shiftl u8 56) M = (u8 * 2 ^ 56 + M)%N).
  { rewrite N.shiftl_mul_pow2. apply (lor_hl _ _ 56 u8); [reflexivity|assumption]. }
  rewrite Hbits. clear Hbits. set (bits := (u8 * 2 ^ 56 + M)%N).
  assert (Hdiv : (bits / 2 ^ 56 = u8)%N).
  { symmetry. apply (N.div_unique bits (2 ^ 56) u8 M); [assumption|]. unfold bits. lia. }
  unfold gds_decode_dy.
  (* exponent field *)
  assert (Hexp : N.shiftr (N.land bits gds_exp_mask) 54 = (4 * e7)%N).
  { change gds_exp_mask with (N.shiftl 127 56). rewrite land_shiftl_mask.
    rewrite N.shiftr_shiftl_l by lia. change (56 - 54)%N with 2%N.
    rewrite N.shiftl_mul_pow2. change (2 ^ 2)%N with 4%N.
    rewrite N.shiftr_div_pow2, Hdiv. change 127%N with (N.ones 7). rewrite N.land_ones.
    change (2 ^ 7)%N with 128%N.
    assert (Hm : (u8 mod 128 = e7)%N).
    { symmetry. apply (N.mod_unique u8 128 (if neg then 1 else 0)%N e7); [assumption|].
      unfold u8. destruct neg; lia. }
    rewrite Hm. lia. }
  rewrite Hexp.
  (* mantissa field *)
  assert (Hman : N.land bits gds_mant_mask = M).
  { change gds_mant_mask with (N.ones 56). rewrite N.land_ones.
    symmetry. apply (N.mod_unique bits (2 ^ 56) u8 M); [assumption|]. unfold bits. lia. }
  rewrite Hman.
  (* sign *)
  assert (Hsig : N.land bits gds_sign_mask = ((if neg then 1 else 0) * 2 ^ 63)%N).
  { change gds_sign_mask with (N.shiftl 1 63). rewrite land_shiftl_mask, N.shiftl_mul_pow2. f_equal.
    change 1%N with (N.ones 1). rewrite N.land_ones. change (2 ^ 1)%N with 2%N.
    rewrite N.shiftr_div_pow2.
    assert (H63 : (bits / 2 ^ 63 = (if neg then 1 else 0))%N).
    { symmetry. apply (N.div_unique bits (2 ^ 63) _ (e7 * 2 ^ 56 + M)%N).
      - change (2 ^ 63)%N with (128 * 2 ^ 56)%N. nia.
      - unfold bits, u8. change (2 ^ 63)%N with (128 * 2 ^ 56)%N. destruct neg; lia. }
    rewrite H63. destruct neg; reflexivity. }
  rewrite Hsig. f_equal; [f_equal|lia].
  destruct neg; reflexivity.
Qed.

(* the encoder, when the exponent byte is in range and the mantissa fits 56 bits *)
Lemma decode_encode_dy E neg m e :
  (-64 <= E <= 63)%Z ->
  (0 <= Z.shiftl m (e + 4 * (14 - E)) < 2 ^ 56)%Z ->
  gds_decode_dy (gds_encode_with E neg m e)
  = (neg, Z.to_N (Z.shiftl m (e + 4 * (14 - E))), (4 * E - 56)%Z).
Proof.
  intros HE HM. unfold gds_encode_with.
  set (M := Z.shiftl m (e + 4 * (14 - E))) in *.
  assert (HMN : (Z.to_N M < 2 ^ 56)%N) by (change (2 ^ 56)%N with (Z.to_N (2 ^ 56)); lia).
  assert (H1 : (Z.to_N M mod 2 ^ 64 = Z.to_N M)%N).
  { apply N.mod_small. apply N.lt_le_trans with (2 ^ 56)%N; [assumption|]. apply N.pow_le_mono_r; lia. }
  rewrite H1.
  assert (H2 : N.land (Z.to_N M) gds_mant_mask = Z.to_N M).
  { change gds_mant_mask with (N.ones 56). rewrite N.land_ones. apply N.mod_small. assumption. }
  rewrite H2.
  assert (H3 : ((64 + E) mod 256 = 64 + E)%Z) by (apply Z.mod_small; lia).
  rewrite H3.
  assert (H4 : ((((if neg then 128 else 0) + Z.to_N (64 + E)) mod 256)
                = (if neg then 128 else 0) + Z.to_N (64 + E))%N).
  { apply N.mod_small. destruct neg; lia. }
  rewrite H4.
  rewrite decode_of_fields by (try assumption; lia).
  f_equal. lia.
Qed.

(* ================================================================== values in Q *)
Local Open Scope Q_scope.

Lemma two_neq0 : ~ (2 # 1) == 0.
Proof. intros H. discriminate H. Qed.

Lemma Qpow2_pos k : 0 < Qpow2 k.
Proof. unfold Qpow2. apply Qpower_0_lt. reflexivity. Qed.

Lemma Qpow2_plus a b : Qpow2 (a + b) == Qpow2 a * Qpow2 b.
Proof. unfold Qpow2. apply Qpower_plus. exact two_neq0. Qed.

Lemma Qpow2_inject s : (0 <= s)%Z -> inject_Z (2 ^ s) == Qpow2 s.
Proof. intros H. unfold Qpow2. rewrite Zpower_Qpower by assumption. reflexivity. Qed.

(* shifting the mantissa left is compensated by the exponent *)
Lemma dyval_shift m s k : (0 <= s)%Z -> dyval (m * 2 ^ s) k == dyval m (k + s).
Proof.
  intros Hs. unfold dyval. rewrite inject_Z_mult, Qpow2_inject by assumption.
  rewrite Qpow2_plus. ring.
Qed.

Definition sgn (neg : bool) (q : Q) : Q := if neg then - q else q.

(* exactness criterion: nothing is shifted out and the mantissa fits *)
Lemma gds_decode_encode_exact E neg m e :
  (0 < m)%Z -> (-64 <= E <= 63)%Z ->
  (0 <= e + 4 * (14 - E))%Z -> (m * 2 ^ (e + 4 * (14 - E)) < 2 ^ 56)%Z ->
  gds_decode (gds_encode_with E neg m e) == sgn neg (dyval m e).
Proof.
  intros Hm HE Hs HM. unfold gds_decode.
  set (s := (e + 4 * (14 - E))%Z) in *.
  assert (Hsh : Z.shiftl m s = (m * 2 ^ s)%Z) by (apply Z.shiftl_mul_pow2; assumption).
  assert (Hp : (0 < 2 ^ s)%Z) by (apply Z.pow_pos_nonneg; lia).
  rewrite decode_encode_dy; [|assumption|fold s; rewrite Hsh; nia].
  fold s. rewrite Hsh. rewrite Z2N.id by nia.
  assert (Hv : dyval (m * 2 ^ s) (4 * E - 56) == dyval m e).
  { rewrite dyval_shift by assumption. replace (4 * E - 56 + s)%Z with e by (unfold s; lia). reflexivity. }
  unfold sgn. destruct neg; rewrite Hv; reflexivity.
Qed.

(* ================================================================== decode (encode x) = x *)
Lemma log2_53 m : (2 ^ 52 <= m < 2 ^ 53)%Z -> Z.log2 m = 52%Z.
Proof. intros H. apply Z.log2_unique; [lia|]. exact H. Qed.

Lemma pow2_split a b : (0 <= a)%Z -> (0 <= b)%Z -> (2 ^ (a + b) = 2 ^ a * 2 ^ b)%Z.
Proof. intros. apply Z.pow_add_r; assumption. Qed.

(* a normal double m * 2^e (2^52 <= m < 2^53) in the format's range, encoded with the ideal exponent,
   decodes to exactly the same number *)
Theorem gds_real_decode_encode_lemma neg m e :
  (2 ^ 52 <= m < 2 ^ 53)%Z ->
  (-64 <= ideal_exponent m e <= 63)%Z ->
  gds_decode (gds_encode_with (ideal_exponent m e) neg m e) == sgn neg (dyval m e).
Proof.
  intros Hm HE. pose proof (log2_53 m Hm) as Hl.
  unfold ideal_exponent, frexp_exponent in *. rewrite Hl in *.
  set (b3 := (e + 52 + 1 + 3)%Z) in *.
  (* shift = (b + 3) mod 4 *)
  assert (Hs : (e + 4 * (14 - b3 / 4) = b3 mod 4)%Z) by (unfold b3; lia).
  apply gds_decode_encode_exact; try lia.
  rewrite Hs.
  assert (Hr : (0 <= b3 mod 4 < 4)%Z) by (apply Z.mod_pos_bound; lia).
  assert (Hp : (2 ^ (b3 mod 4) <= 2 ^ 3)%Z) by (apply Z.pow_le_mono_r; lia).
  assert (Hp0 : (0 < 2 ^ (b3 mod 4))%Z) by (apply Z.pow_pos_nonneg; lia).
  change (2 ^ 56)%Z with (2 ^ 53 * 2 ^ 3)%Z. nia.
Qed.

(* side condition of Appendix A.7 in integers: 16^E* <= 2 x  <->  2^(4 E* - e) <= 2 m *)
Lemma side_condition_Q m e :
  (2 ^ 52 <= m < 2 ^ 53)%Z ->
  (Qpow2 (4 * ideal_exponent m e) <= (2 # 1) * dyval m e
   <-> (2 ^ (4 * ideal_exponent m e - e) <= 2 * m)%Z).
Proof.
  intros Hm. pose proof (log2_53 m Hm) as Hl.
  assert (Hge : (0 <= 4 * ideal_exponent m e - e)%Z) by (unfold ideal_exponent, frexp_exponent; rewrite Hl; lia).
  set (A := (4 * ideal_exponent m e)%Z) in *.
  replace A with ((A - e) + e)%Z at 1 by lia.
  rewrite Qpow2_plus, <- Qpow2_inject by assumption.
  unfold dyval.
  assert (H2 : (2 # 1) * (inject_Z m * Qpow2 e) == inject_Z (2 * m) * Qpow2 e).
  { rewrite inject_Z_mult. change (inject_Z 2) with (2 # 1). ring. }
  rewrite H2. rewrite Qmult_le_r by apply Qpow2_pos. rewrite <- Zle_Qle. reflexivity.
Qed.

(* with the exponent one above the ideal one — which the C++ can only choose in the top binade below a
   power of 16 — exactly one bit is dropped: the result is below x by at most one ulp (2^e) *)
Theorem gds_real_decode_encode_ulp_lemma neg m e :
  (2 ^ 52 <= m < 2 ^ 53)%Z ->
  (-64 <= ideal_exponent m e + 1 <= 63)%Z ->
  (2 ^ (4 * ideal_exponent m e - e) <= 2 * m)%Z ->
  Qabs (gds_decode (gds_encode_with (ideal_exponent m e + 1) neg m e) - sgn neg (dyval m e)) <= Qpow2 e.
Proof.
  intros Hm HE Hside. pose proof (log2_53 m Hm) as Hl.
  (* the value lies in the top binade: b = 4 E* *)
  assert (Hb : (4 * ideal_exponent m e = e + 53)%Z).
  { assert (Hlow : (e + 53 <= 4 * ideal_exponent m e)%Z) by (unfold ideal_exponent, frexp_exponent; rewrite Hl; lia).
    assert (Hup : (4 * ideal_exponent m e - e < 54)%Z).
    { apply (Z.pow_lt_mono_r_iff 2); [lia|lia|]. change (2 ^ 54)%Z with (2 * 2 ^ 53)%Z. lia. }
    lia. }
  set (E := (ideal_exponent m e + 1)%Z) in *.
  assert (Hs : (e + 4 * (14 - E) = -1)%Z) by (unfold E; lia).
  unfold gds_decode.
  assert (Hsh : Z.shiftl m (e + 4 * (14 - E)) = (m / 2)%Z).
  { rewrite Hs. rewrite Z.shiftl_div_pow2 by lia. reflexivity. }
  rewrite decode_encode_dy; [|assumption|rewrite Hsh; change (2 ^ 56)%Z with 72057594037927936%Z in *;
     change (2 ^ 52)%Z with 4503599627370496%Z in *; change (2 ^ 53)%Z with 9007199254740992%Z in *; lia].
  rewrite Hsh. rewrite Z2N.id by lia.
  replace (4 * E - 56)%Z with (e + 1)%Z by (unfold E; lia).
  (* d = (m / 2) * 2^(e+1),  x - d = (m mod 2) * 2^e *)
  assert (Hd : dyval m e - dyval (m / 2) (e + 1) == inject_Z (m mod 2) * Qpow2 e).
  { unfold dyval. rewrite Qpow2_plus. change (Qpow2 1) with (2 # 1).
    assert (Hm2 : inject_Z m == (2 # 1) * inject_Z (m / 2) + inject_Z (m mod 2)).
    { rewrite (Z.div_mod m 2) at 1 by lia. rewrite inject_Z_plus, inject_Z_mult. reflexivity. }
    rewrite Hm2. ring. }
  assert (Hr : (0 <= m mod 2 <= 1)%Z) by (pose proof (Z.mod_pos_bound m 2); lia).
  assert (Hdiff : Qabs (dyval (m / 2) (e + 1) - dyval m e) <= Qpow2 e).
  { setoid_replace (dyval (m / 2) (e + 1) - dyval m e) with (- (dyval m e - dyval (m / 2) (e + 1))) by ring.
    rewrite Qabs_opp, Hd. rewrite Qabs_pos.
    - setoid_replace (Qpow2 e) with (inject_Z 1 * Qpow2 e) at 2 by ring.
      apply Qmult_le_compat_r; [rewrite <- Zle_Qle; lia|apply Qlt_le_weak, Qpow2_pos].
    - apply Qmult_le_0_compat; [change 0 with (inject_Z 0); rewrite <- Zle_Qle; lia|apply Qlt_le_weak, Qpow2_pos]. }
  unfold sgn. destruct neg; [|exact Hdiff].
  setoid_replace (- dyval (m / 2) (e + 1) - - dyval m e) with (- (dyval (m / 2) (e + 1) - dyval m e)) by ring.
  rewrite Qabs_opp. exact Hdiff.
Qed.

(* ================================================================== normalisation is idempotent *)
Lemma decode_dy_fields real :
  (real < 2 ^ 64)%N ->
  exists neg e7 M, (e7 < 128)%N /\ (M < 2 ^ 56)%N
    /\ gds_decode_dy real = (neg, M, (4 * Z.of_N e7 - 256 - 56)%Z).
Proof.
  intros Hr.
  set (u8 := (real / 2 ^ 56)%N). set (M := (real mod 2 ^ 56)%N).
  assert (HM : (M < 2 ^ 56)%N) by (apply N.mod_lt; discriminate).
  assert (Hu : (u8 < 256)%N).
  { apply N.div_lt_upper_bound; [discriminate|]. change (2 ^ 56 * 256)%N with (2 ^ 64)%N. assumption. }
  assert (Hdm : (real = 2 ^ 56 * u8 + M)%N) by (apply N.div_mod; discriminate).
  exists (128 <=? u8)%N, (u8 mod 128)%N, M.
  assert (He : (u8 mod 128 < 128)%N) by (apply N.mod_lt; discriminate).
  split; [assumption|]. split; [assumption|].
  rewrite <- (decode_of_fields _ _ _ He HM). f_equal.
  assert (Hu8 : ((if (128 <=? u8)%N then 128 else 0) + u8 mod 128 = u8)%N).
  { destruct (128 <=? u8)%N eqn:E; lia. }
  rewrite Hu8. rewrite N.shiftl_mul_pow2.
  rewrite (lor_hl _ _ 56 u8) by (try reflexivity; assumption). lia.
Qed.

(* Every pattern with a non-zero mantissa denotes a dyadic number; re-encoding that number with its
   ideal exponent (normalising the leading hexadecimal digit) gives a pattern of the same value,
   as long as the normalised exponent is still in the format's range. *)
Theorem gds_real_encode_decode_lemma real :
  (real < 2 ^ 64)%N ->
  let '(neg, M, k) := gds_decode_dy real in
  M <> 0%N ->
  (-64 <= ideal_exponent (Z.of_N M) k)%Z ->
  gds_decode (gds_encode_with (ideal_exponent (Z.of_N M) k) neg (Z.of_N M) k) == gds_decode real.
Proof.
  intros Hr.
  destruct (decode_dy_fields real Hr) as (neg & e7 & M & He7 & HM & Hd).
  unfold gds_decode at 2. rewrite Hd. cbv beta iota.
  fold (sgn neg (dyval (Z.of_N M) (4 * Z.of_N e7 - 256 - 56))).
  intros HM0 HE.
  set (k := (4 * Z.of_N e7 - 256 - 56)%Z) in *.
  set (m := Z.of_N M) in *.
  assert (Hm : (0 < m)%Z) by (unfold m; lia).
  pose proof (Z.log2_spec m Hm) as Hl. pose proof (Z.log2_nonneg m) as Hl0.
  assert (Hm56 : (m < 2 ^ 56)%Z) by (unfold m; change (2 ^ 56)%Z with (Z.of_N (2 ^ 56)); lia).
  assert (HL : (Z.log2 m < 56)%Z) by (apply Z.log2_lt_pow2; assumption).
  unfold ideal_exponent, frexp_exponent in *.
  set (E := ((k + Z.log2 m + 1 + 3) / 4)%Z) in *.
  assert (HEup : (E <= Z.of_N e7 - 64)%Z) by (unfold E, k; lia).
  assert (Hceil : (k + Z.log2 m + 1 <= 4 * E)%Z) by (unfold E; lia).
  apply gds_decode_encode_exact; try lia.
  set (s := (k + 4 * (14 - E))%Z).
  assert (Hs : (0 <= s)%Z) by (unfold s, k; lia).
  apply Z.lt_le_trans with (2 ^ Z.succ (Z.log2 m) * 2 ^ s)%Z.
  - assert (0 < 2 ^ s)%Z by (apply Z.pow_pos_nonneg; lia). nia.
  - rewrite <- Z.pow_add_r by lia. apply Z.pow_le_mono_r; [lia|]. unfold s. lia.
Qed.

(* ================================================================== what the C++ decoder returns
   (double)mantissa rounds to 53 bits; on a mantissa that is a 53-bit number shifted left — every
   mantissa the encoder produces from a double — nothing is rounded. *)
Lemma size_le_53 m : (m < 2 ^ 53)%N -> (N.size m <= 53)%N.
Proof.
  intros H. destruct (N.le_gt_cases (N.size m) 53) as [?|Hgt]; [assumption|exfalso].
  pose proof (N.size_le m) as Hs.
  assert (2 ^ 54 <= 2 ^ N.size m)%N by (apply N.pow_le_mono_r; lia).
  rewrite N.succ_double_spec in Hs. change (2 ^ 54)%N with (2 * 2 ^ 53)%N in *. lia.
Qed.

Lemma round53_small m : (m < 2 ^ 53)%N -> round53 m = m.
Proof.
  intros H. unfold round53. pose proof (size_le_53 m H).
  replace (N.size m - 53)%N with 0%N by lia. reflexivity.
Qed.

Lemma round53_shifted m s : (m < 2 ^ 53)%N -> round53 (m * 2 ^ s) = (m * 2 ^ s)%N.
Proof.
  intros H. destruct (N.eq_dec m 0) as [->|Hm0]; [reflexivity|].
  unfold round53. set (x := (m * 2 ^ s)%N).
  assert (Hx0 : x <> 0%N).
  { unfold x. apply N.neq_mul_0. split; [assumption|apply N.pow_nonzero; discriminate]. }
  assert (Hsz : N.size x = (N.size m + s)%N).
  { rewrite !N.size_log2 by assumption. unfold x. rewrite N.log2_mul_pow2 by lia. lia. }
  pose proof (size_le_53 m H) as H53.
  set (k := (N.size x - 53)%N).
  assert (Hk : (k <= s)%N) by (unfold k; lia).
  destruct (k =? 0)%N eqn:Ek; [reflexivity|]. apply N.eqb_neq in Ek.
  assert (Hxk : x = (m * 2 ^ (s - k) * 2 ^ k)%N).
  { unfold x. rewrite <- N.mul_assoc, <- N.pow_add_r. do 2 f_equal. lia. }
  assert (Hpk : (0 < 2 ^ k)%N) by (apply N.neq_0_lt_0, N.pow_nonzero; discriminate).
  assert (Hr : N.land x (N.ones k) = 0%N).
  { rewrite N.land_ones, Hxk. apply N.mod_mul. lia. }
  rewrite Hr.
  assert (Hhalf : (0 < N.shiftl 1 (k - 1))%N).
  { rewrite N.shiftl_mul_pow2, N.mul_1_l. apply N.neq_0_lt_0, N.pow_nonzero. discriminate. }
  replace (N.shiftl 1 (k - 1) <? 0)%N with false by (symmetry; apply N.ltb_ge; lia).
  replace (0 =? N.shiftl 1 (k - 1))%N with false by (symmetry; apply N.eqb_neq; lia).
  cbn [orb andb].
  rewrite N.shiftr_div_pow2, N.shiftl_mul_pow2. rewrite Hxk at 1. rewrite N.div_mul by lia.
  symmetry. exact Hxk.
Qed.

(* hence: for a double encoded with the ideal exponent, the double returned by the C++ decoder is the
   exact value of the pattern *)
Corollary gds_to_double_exact_on_encoded neg m e :
  (2 ^ 52 <= m < 2 ^ 53)%Z -> (-64 <= ideal_exponent m e <= 63)%Z ->
  gds_to_double_dy (gds_encode_with (ideal_exponent m e) neg m e)
  = gds_decode_dy (gds_encode_with (ideal_exponent m e) neg m e).
Proof.
  intros Hm HE. unfold gds_to_double_dy. pose proof (log2_53 m Hm) as Hl.
  set (E := ideal_exponent m e) in *.
  assert (Hs : (0 <= e + 4 * (14 - E) < 4)%Z) by (unfold E, ideal_exponent, frexp_exponent; rewrite Hl; lia).
  set (s := (e + 4 * (14 - E))%Z) in *.
  assert (Hsh : Z.shiftl m s = (m * 2 ^ s)%Z) by (apply Z.shiftl_mul_pow2; lia).
  assert (Hp : (0 < 2 ^ s <= 2 ^ 3)%Z) by (split; [apply Z.pow_pos_nonneg; lia|apply Z.pow_le_mono_r; lia]).
  rewrite decode_encode_dy; [|assumption|fold s; rewrite Hsh; change (2 ^ 56)%Z with (2 ^ 53 * 2 ^ 3)%Z; nia].
  fold s. rewrite Hsh. f_equal. f_equal.
  replace (Z.to_N (m * 2 ^ s)) with (Z.to_N m * 2 ^ Z.to_N s)%N.
  - apply round53_shifted. change (2 ^ 53)%N with (Z.to_N (2 ^ 53)). lia.
  - rewrite Z2N.inj_mul by lia. f_equal. rewrite Z2N.inj_pow by lia. reflexivity.
Qed.

(* ================================================================== byte swaps *)
Section Swaps.
Local Open Scope N_scope.

Lemma of_bytes_le_bytes_le n : forall b, b < 256 ^ N.of_nat n -> of_bytes_le (bytes_le n b) = b.
Proof.
  induction n as [|k IH]; intros b Hb.
  - cbn in *. lia.
  - cbn [bytes_le of_bytes_le]. rewrite IH.
    + pose proof (N.div_mod b 256). lia.
    + replace (N.of_nat (S k)) with (N.of_nat k + 1) in Hb by lia.
      rewrite N.pow_add_r in Hb. change (256 ^ 1) with 256 in Hb.
      apply N.div_lt_upper_bound; lia.
Qed.

Lemma swap16_bytes b0 b1 : b0 < 256 -> b1 < 256 ->
  swap16 (of_bytes_le [b0; b1]) = of_bytes_le [b1; b0].
Proof.
  intros H0 H1. unfold swap16. cbn [of_bytes_le]. rewrite !N.mul_0_r, !N.add_0_r.
  set (b := b0 + 256 * b1).
  rewrite N.shiftl_mul_pow2, N.shiftr_div_pow2. change (2 ^ 8) with 256. change (2 ^ 16) with 65536.
  assert (Hq : b / 256 = b1) by (unfold b; lia).
  rewrite Hq. rewrite (lor_hl (b * 256) b1 8 b) by (change (2 ^ 8) with 256; lia).
  unfold b. lia.
Qed.

Lemma swap32_bytes b0 b1 b2 b3 : b0 < 256 -> b1 < 256 -> b2 < 256 -> b3 < 256 ->
  swap32 (of_bytes_le [b0; b1; b2; b3]) = of_bytes_le [b3; b2; b1; b0].
Proof.
  intros H0 H1 H2 H3. unfold swap32. cbn [of_bytes_le]. rewrite !N.mul_0_r, !N.add_0_r.
  set (b := b0 + 256 * (b1 + 256 * (b2 + 256 * b3))).
  change 65280 with (N.shiftl 255 8). change 16711680 with (N.shiftl 255 16).
  rewrite (land_byte b 8 b0 b1 (b2 + 256 * b3)) by (change (2 ^ 8) with 256; unfold b; lia).
  rewrite (land_byte b 16 (b0 + 256 * b1) b2 b3) by (change (2 ^ 16) with 65536; unfold b; lia).
  rewrite !N.shiftl_mul_pow2, !N.shiftr_div_pow2.
  change (2 ^ 8) with 256. change (2 ^ 16) with 65536. change (2 ^ 24) with 16777216.
  change (2 ^ 32) with 4294967296.
  assert (T0 : b * 16777216 mod 4294967296 = b0 * 16777216) by (unfold b; lia).
  assert (T1 : b1 * 256 * 256 mod 4294967296 = b1 * 65536) by lia.
  assert (T2 : b2 * 65536 / 256 = b2 * 256) by lia.
  assert (T3 : b / 16777216 = b3) by (unfold b; lia).
  rewrite T0, T1, T2, T3.
  rewrite (lor_hl (b0 * 16777216) (b1 * 65536) 24 b0) by (change (2 ^ 24) with 16777216; lia).
  rewrite (lor_hl _ (b2 * 256) 16 (b0 * 256 + b1)) by (change (2 ^ 16) with 65536; lia).
  rewrite (lor_hl _ b3 8 ((b0 * 256 + b1) * 256 + b2)) by (change (2 ^ 8) with 256; lia).
  lia.
Qed.

Lemma swap64_bytes b0 b1 b2 b3 b4 b5 b6 b7 :
  b0 < 256 -> b1 < 256 -> b2 < 256 -> b3 < 256 -> b4 < 256 -> b5 < 256 -> b6 < 256 -> b7 < 256 ->
  swap64 (of_bytes_le [b0; b1; b2; b3; b4; b5; b6; b7]) = of_bytes_le [b7; b6; b5; b4; b3; b2; b1; b0].
Proof.
  intros H0 H1 H2 H3 H4 H5 H6 H7. unfold swap64. cbn [of_bytes_le]. rewrite !N.mul_0_r, !N.add_0_r.
  set (b := b0 + 256 * (b1 + 256 * (b2 + 256 * (b3 + 256 * (b4 + 256 * (b5 + 256 * (b6 + 256 * b7))))))).
  change 65280 with (N.shiftl 255 8). change 16711680 with (N.shiftl 255 16).
  change 4278190080 with (N.shiftl 255 24). change 1095216660480 with (N.shiftl 255 32).
  change 280375465082880 with (N.shiftl 255 40). change 71776119061217280 with (N.shiftl 255 48).
  rewrite (land_byte b 8 b0 b1 (b2 + 256 * (b3 + 256 * (b4 + 256 * (b5 + 256 * (b6 + 256 * b7))))))
    by (change (2 ^ 8) with 256; unfold b; lia).
  rewrite (land_byte b 16 (b0 + 256 * b1) b2 (b3 + 256 * (b4 + 256 * (b5 + 256 * (b6 + 256 * b7)))))
    by (change (2 ^ 16) with 65536; unfold b; lia).
  rewrite (land_byte b 24 (b0 + 256 * (b1 + 256 * b2)) b3 (b4 + 256 * (b5 + 256 * (b6 + 256 * b7))))
    by (change (2 ^ 24) with 16777216; unfold b; lia).
  rewrite (land_byte b 32 (b0 + 256 * (b1 + 256 * (b2 + 256 * b3))) b4 (b5 + 256 * (b6 + 256 * b7)))
    by (change (2 ^ 32) with 4294967296; unfold b; lia).
  rewrite (land_byte b 40 (b0 + 256 * (b1 + 256 * (b2 + 256 * (b3 + 256 * b4)))) b5 (b6 + 256 * b7))
    by (change (2 ^ 40) with 1099511627776; unfold b; lia).
  rewrite (land_byte b 48 (b0 + 256 * (b1 + 256 * (b2 + 256 * (b3 + 256 * (b4 + 256 * b5))))) b6 b7)
    by (change (2 ^ 48) with 281474976710656; unfold b; lia).
  rewrite !N.shiftl_mul_pow2, !N.shiftr_div_pow2.
  change (2 ^ 8) with 256. change (2 ^ 16) with 65536. change (2 ^ 24) with 16777216.
  change (2 ^ 32) with 4294967296. change (2 ^ 40) with 1099511627776.
  change (2 ^ 48) with 281474976710656. change (2 ^ 56) with 72057594037927936.
  change (2 ^ 64) with 18446744073709551616.
  assert (T0 : b * 72057594037927936 mod 18446744073709551616 = b0 * 72057594037927936) by (unfold b; lia).
  assert (T1 : b1 * 256 * 1099511627776 mod 18446744073709551616 = b1 * 281474976710656) by lia.
  assert (T2 : b2 * 65536 * 16777216 mod 18446744073709551616 = b2 * 1099511627776) by lia.
  assert (T3 : b3 * 16777216 * 256 mod 18446744073709551616 = b3 * 4294967296) by lia.
  assert (T4 : b4 * 4294967296 / 256 = b4 * 16777216) by lia.
  assert (T5 : b5 * 1099511627776 / 16777216 = b5 * 65536) by lia.
  assert (T6 : b6 * 281474976710656 / 1099511627776 = b6 * 256) by lia.
  assert (T7 : b / 72057594037927936 = b7) by (unfold b; lia).
  rewrite T0, T1, T2, T3, T4, T5, T6, T7.
  rewrite (lor_hl (b0 * 72057594037927936) (b1 * 281474976710656) 56 b0)
    by (change (2 ^ 56) with 72057594037927936; lia).
  rewrite (lor_hl _ (b2 * 1099511627776) 48 (b0 * 256 + b1))
    by (change (2 ^ 48) with 281474976710656; lia).
  rewrite (lor_hl _ (b3 * 4294967296) 40 ((b0 * 256 + b1) * 256 + b2))
    by (change (2 ^ 40) with 1099511627776; lia).
  rewrite (lor_hl _ (b4 * 16777216) 32 (((b0 * 256 + b1) * 256 + b2) * 256 + b3))
    by (change (2 ^ 32) with 4294967296; lia).
  rewrite (lor_hl _ (b5 * 65536) 24 ((((b0 * 256 + b1) * 256 + b2) * 256 + b3) * 256 + b4))
    by (change (2 ^ 24) with 16777216; lia).
  rewrite (lor_hl _ (b6 * 256) 16 (((((b0 * 256 + b1) * 256 + b2) * 256 + b3) * 256 + b4) * 256 + b5))
    by (change (2 ^ 16) with 65536; lia).
  rewrite (lor_hl _ b7 8 ((((((b0 * 256 + b1) * 256 + b2) * 256 + b3) * 256 + b4) * 256 + b5) * 256 + b6))
    by (change (2 ^ 8) with 256; lia).
  lia.
Qed.

Ltac byte_bounds := repeat match goal with |- _ mod 256 < 256 => apply N.mod_lt; discriminate end.

(* ---- the swaps are byte reversals on every value of their width *)
Theorem swap16_is_byte_reversal_lemma b : b < 2 ^ 16 -> swap16 b = of_bytes_le (rev (bytes_le 2 b)).
Proof.
  intros Hb. rewrite <- (of_bytes_le_bytes_le 2 b) at 1 by exact Hb.
  cbn [bytes_le rev app]. apply swap16_bytes; byte_bounds.
Qed.

Theorem swap32_is_byte_reversal_lemma b : b < 2 ^ 32 -> swap32 b = of_bytes_le (rev (bytes_le 4 b)).
Proof.
  intros Hb. rewrite <- (of_bytes_le_bytes_le 4 b) at 1 by exact Hb.
  cbn [bytes_le rev app]. apply swap32_bytes; byte_bounds.
Qed.

Theorem swap64_is_byte_reversal_lemma b : b < 2 ^ 64 -> swap64 b = of_bytes_le (rev (bytes_le 8 b)).
Proof.
  intros Hb. rewrite <- (of_bytes_le_bytes_le 8 b) at 1 by exact Hb.
  cbn [bytes_le rev app]. apply swap64_bytes; byte_bounds.
Qed.

(* ---- and involutions *)
Theorem swap16_involutive_lemma b : b < 2 ^ 16 -> swap16 (swap16 b) = b.
Proof.
  intros Hb. rewrite <- (of_bytes_le_bytes_le 2 b) by exact Hb. cbn [bytes_le].
  rewrite swap16_bytes by byte_bounds. apply swap16_bytes; byte_bounds.
Qed.

Theorem swap32_involutive_lemma b : b < 2 ^ 32 -> swap32 (swap32 b) = b.
Proof.
  intros Hb. rewrite <- (of_bytes_le_bytes_le 4 b) by exact Hb. cbn [bytes_le].
  rewrite swap32_bytes by byte_bounds. apply swap32_bytes; byte_bounds.
Qed.

Theorem swap64_involutive_lemma b : b < 2 ^ 64 -> swap64 (swap64 b) = b.
Proof.
  intros Hb. rewrite <- (of_bytes_le_bytes_le 8 b) by exact Hb. cbn [bytes_le].
  rewrite swap64_bytes by byte_bounds. apply swap64_bytes; byte_bounds.
Qed.

End Swaps.

(* ================================================================== the encoder as a function of the value
   gdsii_real_from_double now takes the exponent from frexp: E = ceil (binary_exponent / 4). *)
Lemma ideal_exponent_is_ceil m e :
  (2 ^ 52 <= m < 2 ^ 53)%Z ->
  (frexp_exponent m e = e + 53 /\ 4 * (ideal_exponent m e - 1) < e + 53 <= 4 * ideal_exponent m e)%Z.
Proof.
  intros Hm. pose proof (log2_53 m Hm) as Hl. unfold ideal_exponent, frexp_exponent. rewrite Hl. lia.
Qed.

(* the format's range 16^-65 <= |x| < 16^63 in binades: 2^(b-1) <= |x| < 2^b with -259 <= b <= 252 *)
Lemma gds_in_range_binades m e :
  (2 ^ 52 <= m < 2 ^ 53)%Z ->
  ((-259 <= e + 53 <= 252)%Z <-> (-64 <= ideal_exponent m e <= 63)%Z).
Proof. intros Hm. destruct (ideal_exponent_is_ceil m e Hm) as [_ H]. lia. Qed.

(* HEADLINE: every normal double in the format's range survives encode ; decode exactly *)
Theorem gds_real_roundtrip_lemma neg m e :
  (2 ^ 52 <= m < 2 ^ 53)%Z -> (-259 <= e + 53 <= 252)%Z ->
  gds_decode (gds_encode neg m e) == sgn neg (dyval m e).
Proof.
  intros Hm Hr. unfold gds_encode. apply gds_real_decode_encode_lemma; [assumption|].
  apply gds_in_range_binades; assumption.
Qed.

(* and the double the C++ decoder returns for it is that exact value (no 53-bit rounding happens) *)
Corollary gds_real_roundtrip_double_lemma neg m e :
  (2 ^ 52 <= m < 2 ^ 53)%Z -> (-259 <= e + 53 <= 252)%Z ->
  gds_to_double_dy (gds_encode neg m e) = gds_decode_dy (gds_encode neg m e).
Proof.
  intros Hm Hr. unfold gds_encode. apply gds_to_double_exact_on_encoded; [assumption|].
  apply gds_in_range_binades; assumption.
Qed.

(* the first byte of the pattern: sign bit and excess-64 exponent *)
Lemma gds_encode_with_first_byte E neg m e :
  (-64 <= E <= 63)%Z -> (0 <= Z.shiftl m (e + 4 * (14 - E)) < 2 ^ 56)%Z ->
  N.shiftr (gds_encode_with E neg m e) 56 = ((if neg then 128 else 0) + Z.to_N (64 + E))%N.
Proof.
  intros HE HM. unfold gds_encode_with.
  set (M := Z.shiftl m (e + 4 * (14 - E))) in *.
  assert (HMN : (Z.to_N M < 2 ^ 56)%N) by (change (2 ^ 56)%N with (Z.to_N (2 ^ 56)); lia).
  assert (H1 : (Z.to_N M mod 2 ^ 64 = Z.to_N M)%N).
  { apply N.mod_small. apply N.lt_le_trans with (2 ^ 56)%N; [assumption|]. apply N.pow_le_mono_r; lia. }
  rewrite H1.
  assert (H2 : N.land (Z.to_N M) gds_mant_mask = Z.to_N M).
  { change gds_mant_mask with (N.ones 56). rewrite N.land_ones. apply N.mod_small. assumption. }
  rewrite H2.
  assert (H3 : ((64 + E) mod 256 = 64 + E)%Z) by (apply Z.mod_small; lia).
  rewrite H3.
  assert (H4 : ((((if neg then 128 else 0) + Z.to_N (64 + E)) mod 256)
                = (if neg then 128 else 0) + Z.to_N (64 + E))%N).
  { apply N.mod_small. destruct neg; lia. }
  rewrite H4. set (u8 := ((if neg then 128 else 0) + Z.to_N (64 + E))%N).
  rewrite N.shiftl_mul_pow2. rewrite (lor_hl _ _ 56 u8) by (try reflexivity; assumption).
  rewrite N.shiftr_div_pow2. symmetry.
  apply (N.div_unique _ (2 ^ 56)%N u8 (Z.to_N M)); [assumption|lia].
Qed.

(* ================================================================== the top of the range
   The doubles of the last binade below 16^63 = 2^252 (m * 2^199, all within the format's range: the
   largest GDSII real is (2^56 - 1) * 2^196) get the largest exponent byte, 127, and decode exactly.
   (Before the repair of gdsii_real_from_double the libm log2 rounded to 63.0 for the top 88 of them
   and the incremented exponent overflowed into the sign bit.) *)
Theorem gds_real_top_binade_lemma neg m :
  (2 ^ 52 <= m < 2 ^ 53)%Z ->
  ideal_exponent m 199 = 63%Z
  /\ N.shiftr (gds_encode neg m 199) 56 = ((if neg then 128 else 0) + 127)%N
  /\ gds_decode (gds_encode neg m 199) == sgn neg (dyval m 199).
Proof.
  intros Hm.
  assert (HE : ideal_exponent m 199 = 63%Z).
  { destruct (ideal_exponent_is_ceil m 199 Hm) as [_ H]. lia. }
  split; [exact HE|]. split.
  - unfold gds_encode. rewrite HE. rewrite gds_encode_with_first_byte; [reflexivity|lia|].
    change (199 + 4 * (14 - 63))%Z with 3%Z. rewrite Z.shiftl_mul_pow2 by lia.
    change (2 ^ 3)%Z with 8%Z. change (2 ^ 56)%Z with (2 ^ 53 * 8)%Z. lia.
  - apply gds_real_roundtrip_lemma; [assumption|lia].
Qed.

(* ================================================================== non-vacuity *)
(* 1.0 = 2^52 * 2^-52 is 0x4110000000000000; the value just below 1 with the exponent one too high
   loses exactly one ulp; a denormalised pattern 0x4201... re-normalises *)
Example gds_real_nonvacuous :
  ideal_exponent (2 ^ 52) (-52) = 1%Z
  /\ gds_encode false (2 ^ 52) (-52) = 4688247212092686336%N           (* 0x4110000000000000 *)
  /\ gds_decode_dy 4688247212092686336 = (false, 4503599627370496%N, (-52)%Z)
  /\ gds_encode false (2 ^ 53 - 1) 199 = 9223372036854775800%N         (* 0x7FFFFFFFFFFFFFF8: the former top-binade witness 0x4FAFFFFFFFFFFFFF *)
  /\ gds_decode_dy 9223372036854775800 = (false, 72057594037927928%N, 196%Z)
  /\ (ideal_exponent (2 ^ 53 - 1) (-53) = 0%Z /\ (2 ^ (4 * 0 - -53) <= 2 * (2 ^ 53 - 1))%Z
      /\ gds_decode_dy (gds_encode_with 1 false (2 ^ 53 - 1) (-53)) = (false, 4503599627370495%N, (-52)%Z))
  /\ swap64 72623859790382856 = 578437695752307201%N                    (* 0x0102030405060708 *)
  /\ swap32 16909060 = 67305985%N /\ swap16 258 = 513%N.
Proof. vm_compute. repeat split; congruence. Qed.

Print Assumptions gds_real_decode_encode_lemma.
Print Assumptions gds_real_roundtrip_lemma.
Print Assumptions gds_real_roundtrip_double_lemma.
Print Assumptions gds_real_top_binade_lemma.
Print Assumptions gds_real_decode_encode_ulp_lemma.
Print Assumptions side_condition_Q.
Print Assumptions gds_real_encode_decode_lemma.
Print Assumptions gds_to_double_exact_on_encoded.
Print Assumptions swap16_is_byte_reversal_lemma.
Print Assumptions swap32_is_byte_reversal_lemma.
Print Assumptions swap64_is_byte_reversal_lemma.
Print Assumptions swap16_involutive_lemma.
Print Assumptions swap32_involutive_lemma.
Print Assumptions swap64_involutive_lemma.
