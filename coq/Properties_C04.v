(* C04 (and the model side of C02) - OASIS agrees with the specification.
   Theorem-only file: every proof is `exact <lemma>`; Print Assumptions under each.
   Stage 1 of DESIGN.md section 5 (START/END, CELL, XYABSOLUTE/XYRELATIVE, RECTANGLE, POLYGON, PATH, TRAPEZOID x3,
   CTRAPEZOID, CIRCLE, TEXT, PLACEMENT x2, repetitions 0-11, modal variables with their reset at CELL). *)
Require Import Base OasisInt OasisIntProofs OasisSpec OasisSpecProofs OasisDetect OasisDetectProofs Generated.
Local Open Scope N_scope.

(* tie (generated): record codes, repetition and point-list enumerations of today's source are the ones the
   specification model was written with *)
Theorem c04_source_constants :
  (OasisRecord_PAD, OasisRecord_START, OasisRecord_END, OasisRecord_CELLNAME_IMPLICIT, OasisRecord_CELLNAME,
   OasisRecord_TEXTSTRING_IMPLICIT, OasisRecord_TEXTSTRING, OasisRecord_PROPNAME_IMPLICIT, OasisRecord_PROPNAME,
   OasisRecord_PROPSTRING_IMPLICIT, OasisRecord_PROPSTRING, OasisRecord_LAYERNAME_DATA, OasisRecord_LAYERNAME_TEXT,
   OasisRecord_CELL_REF_NUM, OasisRecord_CELL, OasisRecord_XYABSOLUTE, OasisRecord_XYRELATIVE, OasisRecord_PLACEMENT,
   OasisRecord_PLACEMENT_TRANSFORM, OasisRecord_TEXT, OasisRecord_RECTANGLE, OasisRecord_POLYGON, OasisRecord_PATH,
   OasisRecord_TRAPEZOID_AB, OasisRecord_TRAPEZOID_A, OasisRecord_TRAPEZOID_B, OasisRecord_CTRAPEZOID,
   OasisRecord_CIRCLE, OasisRecord_PROPERTY, OasisRecord_LAST_PROPERTY, OasisRecord_CBLOCK) =
  (0, 1, 2, 3, 4, 5, 6, 7, 8, 9, 10, 11, 12, 13, 14, 15, 16, 17, 18, 19, 20, 21, 22, 23, 24, 25, 26, 27, 28, 29, 34)
  /\ (OasisRepetition_Previous, OasisRepetition_Rectangular, OasisRepetition_RectangularX, OasisRepetition_RectangularY,
      OasisRepetition_ExplicitX, OasisRepetition_ExplicitXGrid, OasisRepetition_ExplicitY, OasisRepetition_ExplicitYGrid,
      OasisRepetition_Regular, OasisRepetition_Linear, OasisRepetition_Explicit, OasisRepetition_ExplicitGrid) =
     (0, 1, 2, 3, 4, 5, 6, 7, 8, 9, 10, 11)
  /\ (OasisPointList_ManhattanHorizontalFirst, OasisPointList_ManhattanVerticalFirst, OasisPointList_Manhattan,
      OasisPointList_Octangular, OasisPointList_General, OasisPointList_Relative) = (0, 1, 2, 3, 4, 5)
  /\ (OasisDataType_UnsignedInteger, OasisDataType_SignedInteger, OasisDataType_AString, OasisDataType_BString,
      OasisDataType_NString, OasisDataType_ReferenceA, OasisDataType_ReferenceB, OasisDataType_ReferenceN) =
     (8, 9, 10, 11, 12, 13, 14, 15).
Proof. repeat split; reflexivity. Qed.
Print Assumptions c04_source_constants.

(* the CTRAPEZOID vertex table extracted from read_oas on this run is the specification table, all 26 types *)
Theorem ctrapezoid_table_matches_spec : ctrap_table = spec_ctrap_table.
Proof. exact ctrapezoid_table_matches_spec_lemma. Qed.
Print Assumptions ctrapezoid_table_matches_spec.

(* every entry is, for every w and h, a closed figure with sides that are horizontal, vertical or at 45 degrees
   and two parallel axis-aligned sides (one axis-aligned side for the triangles) *)
Theorem ctrapezoid_table_wellformed_thm : forall ty forms, In (ty, forms) spec_ctrap_table ->
  forall w h : Z, shape_wf (map (lfpt_eval w h) forms).
Proof. exact ctrapezoid_table_wellformed. Qed.
Print Assumptions ctrapezoid_table_wellformed_thm.

Theorem ctrapezoid_table_all_types : forall ty, ty < 26 -> In (ty, spec_ctrap_vertices ty) spec_ctrap_table.
Proof. exact ctrapezoid_table_complete. Qed.
Print Assumptions ctrapezoid_table_all_types.

(* ---- writer-side detection (model of is_rectangle / is_trapezoid of polygon.cpp, run against the C++ on every
   check): whatever record Polygon::to_oas selects decodes, by the specification, to the same vertex cycle *)
Theorem trapezoid_detection_sound : forall pts t l dt r,
  is_trapezoid pts = Some t -> sizes_ok t ->
  same_cycle (elem_points (trap_element l dt r t)) pts.
Proof. exact trapezoid_detection_sound_lemma. Qed.
Print Assumptions trapezoid_detection_sound.

Theorem rectangle_detection_sound : forall pts cs l dt r,
  is_rectangle pts = Some cs -> same_cycle (elem_points (rect_element l dt r cs)) pts.
Proof. exact rectangle_detection_sound_lemma. Qed.
Print Assumptions rectangle_detection_sound.

(* ---- one theorem per record kind: whatever the choices (explicit field or modal variable for every info-byte
   bit, alternative forms, repetition re-use) and whatever the modal state, the strict decoder returns the
   element, the modal state the encoder computed, and the bytes that follow *)
Theorem roundtrip_rectangle : forall c m l d w h x y r rest,
  wf_u l -> wf_u d -> wf_u w -> wf_u h ->
  pos_ok (m_abs m) (g_x (m_g m)) x -> pos_ok (m_abs m) (g_y (m_g m)) y -> wf_orep r ->
  dec_rectangle m (fst (body_rect c m l d w h x y r) ++ rest) =
  Some (E_rect l d w h x y r, snd (body_rect c m l d w h x y r), rest).
Proof. exact dec_rectangle_enc. Qed.
Print Assumptions roundtrip_rectangle.

Theorem roundtrip_polygon : forall c m l d pts x y r rest,
  wf_u l -> wf_u d -> wf_pts pts ->
  pos_ok (m_abs m) (g_x (m_g m)) x -> pos_ok (m_abs m) (g_y (m_g m)) y -> wf_orep r ->
  dec_polygon m (fst (body_poly c m l d pts x y r) ++ rest) =
  Some (E_poly l d pts x y r, snd (body_poly c m l d pts x y r), rest).
Proof. exact dec_polygon_enc. Qed.
Print Assumptions roundtrip_polygon.

Theorem roundtrip_path : forall c m l d hw es ee pts x y r rest,
  wf_u l -> wf_u d -> wf_u hw -> fits63 es -> fits63 ee -> wf_pts pts ->
  pos_ok (m_abs m) (g_x (m_g m)) x -> pos_ok (m_abs m) (g_y (m_g m)) y -> wf_orep r ->
  dec_path m (fst (body_path c m l d hw es ee pts x y r) ++ rest) =
  Some (E_path l d hw es ee pts x y r, snd (body_path c m l d hw es ee pts x y r), rest).
Proof. exact dec_path_enc. Qed.
Print Assumptions roundtrip_path.

Theorem roundtrip_trapezoid : forall c m v l d w h da db x y r rest,
  wf_u l -> wf_u d -> wf_u w -> wf_u h -> fits63 da -> fits63 db ->
  pos_ok (m_abs m) (g_x (m_g m)) x -> pos_ok (m_abs m) (g_y (m_g m)) y -> wf_orep r ->
  dec_trapezoid (trap_code c da db) m (fst (body_trap c m v l d w h da db x y r) ++ rest) =
  Some (E_trap v l d w h da db x y r, snd (body_trap c m v l d w h da db x y r), rest).
Proof. exact dec_trapezoid_enc. Qed.
Print Assumptions roundtrip_trapezoid.

Theorem roundtrip_ctrapezoid : forall c m l d ty w h x y r rest,
  wf_u l -> wf_u d -> wf_ctrap ty w h -> wf_u w -> wf_u h ->
  pos_ok (m_abs m) (g_x (m_g m)) x -> pos_ok (m_abs m) (g_y (m_g m)) y -> wf_orep r ->
  dec_ctrapezoid m (fst (body_ctrap c m l d ty w h x y r) ++ rest) =
  Some (E_ctrap l d ty w h x y r, snd (body_ctrap c m l d ty w h x y r), rest).
Proof. exact dec_ctrapezoid_enc. Qed.
Print Assumptions roundtrip_ctrapezoid.

Theorem roundtrip_circle : forall c m l d rad x y r rest,
  wf_u l -> wf_u d -> wf_u rad ->
  pos_ok (m_abs m) (g_x (m_g m)) x -> pos_ok (m_abs m) (g_y (m_g m)) y -> wf_orep r ->
  dec_circle m (fst (body_circle c m l d rad x y r) ++ rest) =
  Some (E_circle l d rad x y r, snd (body_circle c m l d rad x y r), rest).
Proof. exact dec_circle_enc. Qed.
Print Assumptions roundtrip_circle.

Theorem roundtrip_text : forall c m s l t x y r rest,
  wf_nref s -> wf_u l -> wf_u t ->
  pos_ok (m_abs m) (t_x (m_t m)) x -> pos_ok (m_abs m) (t_y (m_t m)) y -> wf_orep r ->
  dec_text m (fst (body_text c m s l t x y r) ++ rest) =
  Some (E_text s l t x y r, snd (body_text c m s l t x y r), rest).
Proof. exact dec_text_enc. Qed.
Print Assumptions roundtrip_text.

Theorem roundtrip_placement : forall c m cl tr flip x y r rest,
  wf_nref cl -> wf_trans tr ->
  pos_ok (m_abs m) (p_x (m_p m)) x -> pos_ok (m_abs m) (p_y (m_p m)) y -> wf_orep r ->
  dec_placement (place_code tr) m (fst (body_place c m cl tr flip x y r) ++ rest) =
  Some (E_place cl tr flip x y r, snd (body_place c m cl tr flip x y r), rest).
Proof. exact dec_placement_enc. Qed.
Print Assumptions roundtrip_placement.

Theorem roundtrip_repetition : forall mr r rest, wf_rep r -> rd_rep mr (wr_rep r ++ rest) = Some (r, rest).
Proof. exact rd_rep_enc. Qed.
Print Assumptions roundtrip_repetition.

Theorem roundtrip_point_list : forall closed pref pts rest, wf_pts pts ->
  rd_plist closed (wr_plist pref pts ++ rest) = Some (pts, rest).
Proof. exact rd_plist_enc. Qed.
Print Assumptions roundtrip_point_list.

(* ---- whole files: START, cells by name, any element list, END; for EVERY choice function *)
Theorem spec_oas_roundtrip : forall chs L, wf_layout L -> spec_oas_decode (spec_oas_encode chs L) = Some L.
Proof. exact spec_oas_roundtrip_lemma. Qed.
Print Assumptions spec_oas_roundtrip.

(* non-vacuity: a layout with every record kind satisfies the hypothesis *)
Theorem spec_oas_roundtrip_nonvacuous : wf_layout sample_layout.
Proof. exact sample_layout_wf. Qed.
Print Assumptions spec_oas_roundtrip_nonvacuous.
